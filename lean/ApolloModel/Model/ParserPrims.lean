import ApolloModel.Model.ParserCore
/-
The primitives of parser/mod.rs as `PI` values (each with its invariant/frame/no-panic proof).
-/
namespace Apollo.Parse
open Apollo.Rowan hiding Str
open Apollo.Lex hiding Str

/-! ### lexer side: `Lexer::next` and `Parser::next_token` -/

inductive LexOut where
  | tok (t : Tok)
  | err (data : Str) (index : Nat)
  | limit (index : Nat)

def LexOut.text : LexOut → Str
  | .tok t => t.data
  | .err d _ => d
  | .limit _ => []

/-- `LimitTracker::check_and_increment` on the lexer's tracker: (reached, new current, new high) -/
def lexCheck (l : LexSt) : Bool × Nat × Nat :=
  let cur := l.cur + 1
  let high := if cur > l.high then cur else l.high
  let reached := match l.limit with | some n => decide (cur > n) | none => false
  (reached, if reached then l.cur else cur, high)

/-- `impl Iterator for Lexer :: next` -/
def lexNext (l : LexSt) : Option LexOut × LexSt :=
  if l.finished then (none, l)
  else
    let c := lexCheck l
    if c.1 then (some (.limit l.idx), { l with cur := c.2.1, high := c.2.2, finished := true })
    else
      match l.src with
      | [] => (some (.tok ⟨.eof, [], l.total⟩), { l with cur := c.2.1, high := c.2.2, finished := true })
      | ch :: rest =>
        let r := advance (ch :: rest)
        let newPos := l.pos + utf8Len r.1.data
        let l' : LexSt := { l with cur := c.2.1, high := c.2.2, src := r.2, pos := newPos,
                                   idx := if r.2.isEmpty then l.total - 1 else newPos }
        match r.1 with
        | .tok k d => (some (.tok ⟨k, d, l.pos⟩), l')
        | .err d => (some (.err d l.pos), l')
        | .limit => (some (.err [] l.pos), l')     -- unreachable: `advance` never yields `.limit`

theorem advance_concat' (src : Lex.Str) : (advance src).1.data ++ (advance src).2 = src := by
  have runD_concat' : ∀ (src : Lex.Str) (st : State) (kind : Kind) (e : Bool) (acc : Lex.Str),
      (runD st kind e acc src).1.data ++ (runD st kind e acc src).2 = acc ++ src := by
    intro src
    induction src with
    | nil =>
      intro st kind e acc
      have : (eofItem st kind acc).data = acc := by cases st <;> rfl
      simp [runD, this]
    | cons c rest ih =>
      intro st kind e acc
      unfold runD
      cases h : step st kind e acc c with
      | goto st' k' e' =>
        simp only []
        rw [ih st' k' e' (acc ++ [c])]
        simp
      | incl o => cases o <;> simp [Out.mk, Item.data]
      | excl o => cases o <;> simp [Out.mk, Item.data]
  simpa [advance] using runD_concat' src .start .eof false []

/-- whatever the lexer hands out was taken from the front of the unlexed input -/
theorem lexNext_text (l : LexSt) :
    (match (lexNext l).1 with | some o => o.text | none => []) ++ (lexNext l).2.src = l.src := by
  unfold lexNext
  by_cases hf : l.finished = true
  · simp [hf]
  · simp only [hf, Bool.false_eq_true, if_false]
    by_cases hc : (lexCheck l).1 = true
    · simp [hc, LexOut.text]
    · simp only [hc, Bool.false_eq_true, if_false]
      cases hs : l.src with
      | nil => simp [LexOut.text]
      | cons c rest =>
        simp only []
        have h := advance_concat' (c :: rest)
        cases hr : (advance (c :: rest)).1 with
        | tok k d => simp only [hr, Item.data] at h; simpa [LexOut.text] using h
        | err d => simp only [hr, Item.data] at h; simpa [LexOut.text] using h
        | limit => simp only [hr, Item.data] at h; simpa [LexOut.text] using h

theorem lexNext_finished (l : LexSt) (h : l.finished = true) : lexNext l = (none, l) := by
  simp [lexNext, h]

theorem lexNext_limit_finished (l : LexSt) (i : Nat) (h : (lexNext l).1 = some (.limit i)) :
    (lexNext l).2.finished = true := by
  unfold lexNext at h ⊢
  by_cases hf : l.finished = true
  · simp [hf] at h
  · simp only [hf, Bool.false_eq_true, if_false] at h ⊢
    by_cases hc : (lexCheck l).1 = true
    · simp [hc]
    · simp only [hc, Bool.false_eq_true, if_false] at h ⊢
      cases hs : l.src with
      | nil => simp [hs] at h
      | cons c rest =>
        simp only [hs] at h
        cases hr : (advance (c :: rest)).1 <;> simp [hr] at h

end Apollo.Parse

namespace Apollo.Parse
open Apollo.Rowan hiding Str
open Apollo.Lex hiding Str

/-- `Parser::next_token`: skip (and record) lexer errors until a token or the end of the stream -/
def nextTokenRaw : Nat → PState → Option Tok × PState
  | 0, s => (none, s)
  | fuel + 1, s =>
    match lexNext s.lx with
    | (none, l') => (none, { s with lx := l' })
    | (some (.tok t), l') => (some t, { s with lx := l' })
    | (some (.err d i), l') =>
      nextTokenRaw fuel { s with
        lx := l',
        pending := if d.isEmpty then s.pending else s.pending ++ [.error d],
        errors := s.errors ++ [⟨i, utf8Len d, .lexer⟩] }
    | (some (.limit i), l') =>
      nextTokenRaw fuel { s with lx := l', acceptErrors := false, errors := s.errors ++ [⟨i, 0, .limit⟩] }

def nextToken (s : PState) : Option Tok × PState := nextTokenRaw (s.lx.src.length + 3) s

structure NextSpec (s : PState) (r : Option Tok × PState) : Prop where
  builder : r.2.builder = s.builder
  current : r.2.current = s.current
  recCur : r.2.recCur = s.recCur
  recLimit : r.2.recLimit = s.recLimit
  original : r.2.original = s.original
  dropped : r.2.dropped = s.dropped
  text : pendingText r.2.pending ++ curText r.1 ++ r.2.lx.src = pendingText s.pending ++ s.lx.src
  frozen : s.acceptErrors = false ∧ s.lx.finished = true →
    r.2.errors = s.errors ∧ r.2.acceptErrors = false ∧ r.2.lx.finished = true

theorem nextTokenRaw_spec : ∀ (fuel : Nat) (s : PState), NextSpec s (nextTokenRaw fuel s)
  | 0, s => ⟨rfl, rfl, rfl, rfl, rfl, rfl, by simp [nextTokenRaw, curText], fun h => ⟨rfl, h.1, h.2⟩⟩
  | fuel + 1, s => by
    have ht := lexNext_text s.lx
    unfold nextTokenRaw
    cases hl : lexNext s.lx with
    | mk o l' =>
      rw [hl] at ht
      cases o with
      | none =>
        simp only [] at ht ⊢
        refine ⟨rfl, rfl, rfl, rfl, rfl, rfl, by simpa [curText] using congrArg (pendingText s.pending ++ ·) ht, ?_⟩
        intro h
        have := lexNext_finished s.lx h.2
        rw [hl] at this
        simp only [Prod.mk.injEq] at this
        exact ⟨rfl, h.1, by rw [this.2]; exact h.2⟩
      | some out =>
        cases out with
        | tok t =>
          simp only [LexOut.text] at ht ⊢
          refine ⟨rfl, rfl, rfl, rfl, rfl, rfl, by simp [curText, ← ht], ?_⟩
          intro h
          have := lexNext_finished s.lx h.2
          rw [hl] at this
          simp at this
        | err d i =>
          simp only [LexOut.text] at ht ⊢
          have ih := nextTokenRaw_spec fuel { s with
            lx := l', pending := if d.isEmpty then s.pending else s.pending ++ [.error d],
            errors := s.errors ++ [⟨i, utf8Len d, .lexer⟩] }
          refine ⟨ih.builder, ih.current, ih.recCur, ih.recLimit, ih.original, ih.dropped, ?_, ?_⟩
          · rw [ih.text]
            simp only []
            by_cases hd : d.isEmpty = true
            · have : d = [] := by simpa using hd
              subst this
              simp at ht
              simp [ht]
            · simp only [hd, Bool.false_eq_true, if_false, pendingText_append, pendingText, Pending.text,
                List.append_nil, List.append_assoc, ht]
          · intro h
            have := lexNext_finished s.lx h.2
            rw [hl] at this
            simp at this
        | limit i =>
          simp only [LexOut.text] at ht ⊢
          have ih := nextTokenRaw_spec fuel { s with lx := l', acceptErrors := false, errors := s.errors ++ [⟨i, 0, .limit⟩] }
          refine ⟨ih.builder, ih.current, ih.recCur, ih.recLimit, ih.original, ih.dropped, ?_, ?_⟩
          · rw [ih.text]; simp at ht; simp [ht]
          · intro h
            have := lexNext_finished s.lx h.2
            rw [hl] at this
            simp at this

theorem nextToken_spec (s : PState) : NextSpec s (nextToken s) := nextTokenRaw_spec _ s

end Apollo.Parse

namespace Apollo.Parse
open Apollo.Rowan hiding Str
open Apollo.Lex hiding Str

/-! ### token plumbing -/

/-- `Parser::peek_token` / `current` -/
def peekToken : PI (Option Tok) :=
  ⟨fun s => match s.current with
      | some t => .ok (some t) s
      | none => .ok (nextToken s).1 { (nextToken s).2 with current := (nextToken s).1 },
   by
    intro s h
    cases hc : s.current with
    | some t => simp only [hc]; exact ⟨h, Frame.refl s⟩
    | none =>
      simp only [hc]
      have sp := nextToken_spec s
      refine ⟨⟨?_, ?_⟩, ⟨?_, ⟨[], ?_⟩, sp.recCur, sp.recLimit, sp.original, ?_⟩⟩
      · intro hd
        have h1 := h.1 (by simpa [sp.dropped] using hd)
        simp only [hc, curText, List.append_nil] at h1
        simp only [sp.builder]
        rw [List.append_assoc, List.append_assoc, ← List.append_assoc (pendingText _), sp.text,
          ← List.append_assoc, h1]
        exact sp.original.symm
      · simpa [sp.builder] using h.2
      · simp [sp.builder]
      · simp [sp.builder]
      · exact sp.frozen⟩

def peek : PI (Option Kind) := do
  let t ← peekToken
  pure (t.map (·.kind))

def peekData : PI (Option Str) := do
  let t ← peekToken
  pure (t.map (·.data))

def isIgnoredKind (k : Kind) : Bool := k == .comment || k == .whitespace || k == .comma

/-- one iteration of `skip_ignored`: `while let Some(Comment|Whitespace|Comma) = self.peek() { pop; pending.push }` -/
def moveCurToPending : PI Bool :=
  ⟨fun s => match s.current with
      | some t => if isIgnoredKind t.kind then .ok true { s with current := none, pending := s.pending ++ [.ignored t] }
                  else .ok false s
      | none => .ok false s,
   by
    intro s h
    cases hc : s.current with
    | none => simp only [hc]; exact ⟨h, Frame.refl s⟩
    | some t =>
      simp only [hc]
      split
      · refine ⟨⟨?_, h.2⟩, ⟨rfl, ⟨[], by simp⟩, rfl, rfl, rfl, fun hf => ⟨rfl, hf.1, hf.2⟩⟩⟩
        intro hd
        have h1 := h.1 hd
        simp only [hc, curText] at h1
        simp only [pendingText_append, pendingText, Pending.text, curText, List.append_nil, List.append_assoc] at h1 ⊢
        exact h1
      · exact ⟨h, Frame.refl s⟩⟩

def skipIgnoredLoop : Nat → PI Unit
  | 0 => PI.outOfFuel
  | fuel + 1 => do
    let _ ← peekToken
    if ← moveCurToPending then skipIgnoredLoop fuel else pure ()

/-- the remaining input bounds the number of iterations -/
def srcLen : PI Nat := ⟨fun s => .ok s.lx.src.length s, fun s h => ⟨h, Frame.refl s⟩⟩

def skipIgnored : PI Unit := do
  let n ← srcLen
  skipIgnoredLoop (n + 3)

def pendingElem : Pending → Elem
  | .ignored t => .tok (match t.kind with | .comment => "COMMENT" | .whitespace => "WHITESPACE" | .comma => "COMMA" | _ => "UNREACHABLE") t.data
  | .error d => .tok "ERROR" d

theorem textList_pendingElems (ps : List Pending) : textList (ps.map pendingElem) = pendingText ps := by
  induction ps with
  | nil => rfl
  | cons p ps ih => cases p <;> simp [textList, pendingText, pendingElem, Elem.text, Pending.text, ih]

/-- `Parser::push_ignored` -/
def pushIgnored : PI Unit :=
  ⟨fun s => .ok () { s with builder := { s.builder with children := s.builder.children ++ s.pending.map pendingElem }, pending := [] },
   by
    intro s h
    refine ⟨⟨?_, ?_⟩, ⟨rfl, ⟨_, rfl⟩, rfl, rfl, rfl, fun hf => ⟨rfl, hf.1, hf.2⟩⟩⟩
    · intro hd
      have h1 := h.1 hd
      simp only [textList_append, textList_pendingElems, pendingText, List.append_nil] at h1 ⊢
      exact h1
    · intro p hp
      have := h.2 p hp
      simp only [List.length_append]
      omega⟩

/-- pop the current token straight into the tree (`pop` + `push_token`).  In the Rust code nothing is
    pending at that moment (the callers flush first and the current token is already lexed); if
    something were, the model flushes it first and raises `deadBranch`. -/
def moveCurToTree (kind : SK) : PI Unit :=
  ⟨fun s => match s.current with
      | some t => .ok () { s with current := none,
                                  builder := { s.builder with children := s.builder.children ++ s.pending.map pendingElem ++ [.tok kind t.data] },
                                  pending := [], deadBranch := s.deadBranch || !s.pending.isEmpty }
      | none => .ok () s,
   by
    intro s h
    cases hc : s.current with
    | none => simp only [hc]; exact ⟨h, Frame.refl s⟩
    | some t =>
      simp only [hc]
      refine ⟨⟨?_, ?_⟩, ⟨rfl, ⟨_, by rw [List.append_assoc]⟩, rfl, rfl, rfl, fun hf => ⟨rfl, hf.1, hf.2⟩⟩⟩
      · intro hd
        have h1 := h.1 hd
        simp only [hc, curText] at h1
        simp only [textList_append, textList_pendingElems, textList_tok, pendingText, curText, List.append_nil,
          List.append_assoc] at h1 ⊢
        exact h1
      · intro p hp
        have := h.2 p hp
        simp only [List.length_append]
        omega⟩

/-- `Parser::eat`: `push_ignored(); if current().is_none() { return }; let t = pop(); push_token(kind, t)` -/
def eat (kind : SK) : PI Unit := do
  pushIgnored
  let _ ← peekToken
  moveCurToTree kind

/-- `Parser::bump` -/
def bump (kind : SK) : PI Unit := do
  eat kind
  skipIgnored

end Apollo.Parse

namespace Apollo.Parse
open Apollo.Rowan hiding Str
open Apollo.Lex hiding Str

/-! ### errors -/

/-- a state change that only touches `errors` / `acceptErrors` and respects the freeze -/
def errUpdate (f : PState → List PErr × Bool)
    (hf : ∀ s, s.acceptErrors = false → f s = (s.errors, false)) : PI Unit :=
  ⟨fun s => .ok () { s with errors := (f s).1, acceptErrors := (f s).2 },
   fun s h => ⟨⟨h.1, h.2⟩, ⟨rfl, ⟨[], by simp⟩, rfl, rfl, rfl,
     fun hz => by simp [hf s hz.1, hz.2]⟩⟩⟩

/-- `Parser::push_err` -/
def pushErr (e : PErr) : PI Unit :=
  errUpdate (fun s => (if s.acceptErrors then s.errors ++ [e] else s.errors, s.acceptErrors))
    (fun s h => by simp [h])

def tokErr (t : Tok) : PErr :=
  if t.kind == .eof then ⟨t.index, 0, .eof⟩ else ⟨t.index, utf8Len t.data, .syntax⟩

/-- `Parser::err_at_token` -/
def errAtToken (t : Tok) : PI Unit := pushErr (tokErr t)

/-- `Parser::err` -/
def err : PI Unit := do
  match ← peekToken with
  | some t => pushErr (tokErr t)
  | none => pure ()

/-- `Parser::limit_err`: push (if still accepting) and stop accepting errors -/
def limitErr : PI Unit := do
  match ← peekToken with
  | some t =>
    errUpdate (fun s => (if s.acceptErrors then s.errors ++ [⟨t.index, 0, .limit⟩] else s.errors, false))
      (fun s h => by simp [h])
  | none => pure ()

/-- `Parser::err_and_pop` -/
def errAndPop : PI Unit := do
  pushIgnored
  match ← peekToken with
  | none => pure ()
  | some t =>
    moveCurToTree "ERROR"
    pushErr (tokErr t)
    skipIgnored

/-- `Parser::expect` -/
def expect (token : Kind) (kind : SK) : PI Unit := do
  match ← peekToken with
  | none => pure ()
  | some t =>
    if t.kind == token then bump kind
    else pushErr (tokErr t)

/-- `Parser::at` -/
def at_ (token : Kind) : PI Bool := do
  pure ((← peek) == some token)

/-! ### look-ahead through a clone of the lexer (`peek_n_inner`) -/

def aheadLoop : Nat → LexSt → Nat → Option Tok
  | 0, _, _ => none
  | fuel + 1, l, n =>
    match lexNext l with
    | (none, _) => none
    | (some (.tok t), l') =>
      if t.kind == .whitespace || t.kind == .comment then aheadLoop fuel l' n
      else if n ≤ 1 then some t else aheadLoop fuel l' (n - 1)
    | (some _, l') => aheadLoop fuel l' n

/-- `self.current_token.iter().cloned().chain(self.lexer.clone()).filter_map(ok).filter(not ws/comment).nth(n-1)`
    — note: does NOT call `peek`, so `current_token` may be empty -/
def lookahead (s : PState) (n : Nat) : Option Tok :=
  match s.current with
  | some t =>
    if t.kind == .whitespace || t.kind == .comment then aheadLoop (s.lx.src.length + 3) s.lx n
    else if n ≤ 1 then some t else aheadLoop (s.lx.src.length + 3) s.lx (n - 1)
  | none => aheadLoop (s.lx.src.length + 3) s.lx n

def peekTokenN (n : Nat) : PI (Option Tok) :=
  ⟨fun s => .ok (lookahead s n) s, fun s h => ⟨h, Frame.refl s⟩⟩

def peekN (n : Nat) : PI (Option Kind) := do pure ((← peekTokenN n).map (·.kind))
def peekDataN (n : Nat) : PI (Option Str) := do pure ((← peekTokenN n).map (·.data))

end Apollo.Parse

namespace Apollo.Parse
open Apollo.Rowan hiding Str
open Apollo.Lex hiding Str

/-! ### nodes -/

theorem textList_take_drop (k : SK) (n : Nat) (cs : List Elem) :
    textList (cs.take n ++ [Elem.node k (cs.drop n)]) = textList cs := by
  rw [textList_append, textList_node, ← textList_append, List.take_append_drop]

/-- builder-only step: open a node -/
def rawStartNode (kind : SK) (s : PState) : PState :=
  { s with builder := s.builder.startNode kind }

/-- `let _g = p.start_node(kind); body; drop(_g)`:
    push_ignored, builder.start_node, skip_ignored, the body, then the guard's `finish_node`. -/
def withNode {α : Type} (kind : SK) (body : PI α) : PI α :=
  ⟨fun s =>
      match pushIgnored.run s with
      | .ok _ s1 =>
        match (skipIgnored >>= fun _ => body).run (rawStartNode kind s1) with
        | .ok a s2 =>
          match s2.builder.finishNode with
          | some b => .ok a { s2 with builder := b }
          | none => .panic "finish_node: no open node"
        | .abort w => .abort w
        | .panic m => .panic m
      | .abort w => .abort w
      | .panic m => .panic m,
   by
    intro s h
    have h1 := pushIgnored.ok s h
    cases hr1 : pushIgnored.run s with
    | abort w => simp [hr1, Post]
    | panic m => simp [hr1, Post] at h1
    | ok u s1 =>
      simp only [hr1, Post] at h1 ⊢
      obtain ⟨hi1, hf1⟩ := h1
      -- the state after `builder.start_node`
      have hi1' : Inv (rawStartNode kind s1) := by
        refine ⟨hi1.1, ?_⟩
        intro p hp
        simp only [rawStartNode, Builder.startNode, List.mem_cons] at hp ⊢
        rcases hp with rfl | hp
        · exact Nat.le_refl _
        · exact hi1.2 p hp
      have h2 := (skipIgnored >>= fun _ => body).ok (rawStartNode kind s1) hi1'
      cases hr2 : (skipIgnored >>= fun _ => body).run (rawStartNode kind s1) with
      | abort w => simp [hr2, Post]
      | panic m => simp [hr2, Post] at h2
      | ok a s2 =>
        simp only [hr2, Post] at h2 ⊢
        obtain ⟨hi2, hf2⟩ := h2
        have hp : s2.builder.parents = (kind, s1.builder.children.length) :: s1.builder.parents := by
          rw [hf2.parents]; rfl
        obtain ⟨added, hadd⟩ := hf2.children
        simp only [rawStartNode, Builder.startNode] at hadd
        simp only [Builder.finishNode, hp]
        have htake : s2.builder.children.take s1.builder.children.length = s1.builder.children := by
          rw [hadd]; simp
        have hdrop : s2.builder.children.drop s1.builder.children.length = added := by
          rw [hadd]; simp
        refine ⟨⟨?_, ?_⟩, ⟨?_, ?_, ?_, ?_, ?_, ?_⟩⟩
        · intro hd
          have := hi2.1 hd
          simp only [textList_take_drop]
          exact this
        · intro p hp'
          have := hi1.2 p hp'
          simp only [htake, List.length_append, List.length_cons, List.length_nil]
          omega
        · exact hf1.parents
        · obtain ⟨a1, ha1⟩ := hf1.children
          exact ⟨a1 ++ [Elem.node kind added], by rw [htake, hdrop, ha1, List.append_assoc]⟩
        · exact (hf2.recCur.trans (by rfl : (rawStartNode kind s1).recCur = s1.recCur)).trans hf1.recCur
        · exact (hf2.recLimit.trans (by rfl : (rawStartNode kind s1).recLimit = s1.recLimit)).trans hf1.recLimit
        · exact (hf2.original.trans (by rfl : (rawStartNode kind s1).original = s1.original)).trans hf1.original
        · intro hz
          have hb := hf1.frozen hz
          have hc := hf2.frozen (by exact ⟨hb.2.1, hb.2.2⟩)
          exact ⟨hc.1.trans hb.1, hc.2⟩⟩

/-! ### recursion limit -/

/-- `if p.recursion_limit.check_and_increment() { onLimit } else { body; p.recursion_limit.decrement() }` -/
def withRec {α : Type} (onLimit : PI α) (body : PI α) : PI α :=
  ⟨fun s =>
      let cur := s.recCur + 1
      let high := if cur > s.recHigh then cur else s.recHigh
      if cur > s.recLimit then onLimit.run { s with recHigh := high }
      else
        match body.run { s with recCur := cur, recHigh := high } with
        | .ok a s' =>
          if s'.recCur = 0 then .panic "recursion_limit.decrement: underflow"
          else .ok a { s' with recCur := s'.recCur - 1 }
        | .abort w => .abort w
        | .panic m => .panic m,
   by
    intro s h
    simp only []
    split
    · have := onLimit.ok { s with recHigh := if s.recCur + 1 > s.recHigh then s.recCur + 1 else s.recHigh } ⟨h.1, h.2⟩
      cases hr : onLimit.run { s with recHigh := if s.recCur + 1 > s.recHigh then s.recCur + 1 else s.recHigh } with
      | abort w => simp [Post]
      | panic m => simp [hr, Post] at this
      | ok a s' =>
        simp only [hr, Post] at this ⊢
        exact ⟨this.1, ⟨this.2.parents, this.2.children, this.2.recCur, this.2.recLimit, this.2.original, this.2.frozen⟩⟩
    · have := body.ok { s with recCur := s.recCur + 1, recHigh := if s.recCur + 1 > s.recHigh then s.recCur + 1 else s.recHigh } ⟨h.1, h.2⟩
      cases hr : body.run { s with recCur := s.recCur + 1, recHigh := if s.recCur + 1 > s.recHigh then s.recCur + 1 else s.recHigh } with
      | abort w => simp [Post]
      | panic m => simp [hr, Post] at this
      | ok a s' =>
        simp only [hr, Post] at this ⊢
        have hrc : s'.recCur = s.recCur + 1 := this.2.recCur
        have hne : ¬ s'.recCur = 0 := by omega
        simp only [hne, if_false, Post]
        exact ⟨⟨this.1.1, this.1.2⟩, ⟨this.2.parents, this.2.children, by simp [hrc], this.2.recLimit, this.2.original, this.2.frozen⟩⟩⟩

/-! ### `checkpoint_node` … `wrap_node` (ty.rs) -/

/-- `let cp = p.checkpoint_node(); body; if cond { let _g = cp.wrap_node(kind); inner }` -/
def wrapIf {α : Type} (kind : SK) (body : PI α) (cond : α → PI Bool) (inner : PI Unit) : PI α :=
  ⟨fun s =>
      match pushIgnored.run s with
      | .ok _ s1 =>
        let cp := s1.builder.checkpoint
        match (body >>= fun a => cond a >>= fun c => pure (a, c)).run s1 with
        | .ok (a, c) s2 =>
          if c then
            match s2.builder.startNodeAt cp kind with
            | none => .panic "start_node_at: checkpoint no longer valid"
            | some b =>
              match inner.run { s2 with builder := b } with
              | .ok _ s3 =>
                match s3.builder.finishNode with
                | some b' => .ok a { s3 with builder := b' }
                | none => .panic "finish_node: no open node"
              | .abort w => .abort w
              | .panic m => .panic m
          else .ok a s2
        | .abort w => .abort w
        | .panic m => .panic m
      | .abort w => .abort w
      | .panic m => .panic m,
   by
    intro s h
    have h1 := pushIgnored.ok s h
    cases hr1 : pushIgnored.run s with
    | abort w => simp [hr1, Post]
    | panic m => simp [hr1, Post] at h1
    | ok u s1 =>
      simp only [hr1, Post] at h1 ⊢
      obtain ⟨hi1, hf1⟩ := h1
      have h2 := (body >>= fun a => cond a >>= fun c => pure (a, c)).ok s1 hi1
      cases hr2 : (body >>= fun a => cond a >>= fun c => pure (a, c)).run s1 with
      | abort w => simp [hr2, Post]
      | panic m => simp [hr2, Post] at h2
      | ok ac s2 =>
        obtain ⟨a, c⟩ := ac
        simp only [hr2, Post] at h2 ⊢
        obtain ⟨hi2, hf2⟩ := h2
        cases c with
        | false => simp only [Bool.false_eq_true, if_false, Post]; exact ⟨hi2, hf1.trans hf2⟩
        | true =>
          simp only [if_true]
          obtain ⟨added, hadd⟩ := hf2.children
          have hlen : s1.builder.checkpoint ≤ s2.builder.children.length := by
            simp [Builder.checkpoint, hadd]
          have hfirst : ∀ p ∈ s2.builder.parents, p.2 ≤ s1.builder.checkpoint := by
            intro p hp; rw [hf2.parents] at hp; exact hi1.2 p hp
          -- start_node_at succeeds
          have hsn : s2.builder.startNodeAt s1.builder.checkpoint kind =
              some { s2.builder with parents := (kind, s1.builder.checkpoint) :: s2.builder.parents } := by
            unfold Builder.startNodeAt
            simp only [hlen, if_true]
            cases hps : s2.builder.parents with
            | nil => rfl
            | cons p ps =>
              obtain ⟨k0, f0⟩ := p
              have := hfirst (k0, f0) (by simp [hps])
              simp only [ge_iff_le, this, if_true]
          simp only [hsn]
          have hi2' : Inv { s2 with builder := { s2.builder with parents := (kind, s1.builder.checkpoint) :: s2.builder.parents } } := by
            refine ⟨hi2.1, ?_⟩
            intro p hp
            simp only [List.mem_cons] at hp
            rcases hp with rfl | hp
            · exact hlen
            · exact hi2.2 p hp
          have h3 := inner.ok _ hi2'
          cases hr3 : inner.run { s2 with builder := { s2.builder with parents := (kind, s1.builder.checkpoint) :: s2.builder.parents } } with
          | abort w => simp [Post]
          | panic m => simp [hr3, Post] at h3
          | ok u3 s3 =>
            simp only [hr3, Post] at h3 ⊢
            obtain ⟨hi3, hf3⟩ := h3
            have hp3 : s3.builder.parents = (kind, s1.builder.checkpoint) :: s2.builder.parents := hf3.parents
            simp only [Builder.finishNode, hp3]
            obtain ⟨added3, hadd3⟩ := hf3.children
            simp only [] at hadd3
            have hc3 : s3.builder.children = s1.builder.children ++ (added ++ added3) := by
              rw [hadd3, hadd, List.append_assoc]
            have htake : s3.builder.children.take s1.builder.checkpoint = s1.builder.children := by
              rw [hc3]; simp [Builder.checkpoint]
            have hdrop : s3.builder.children.drop s1.builder.checkpoint = added ++ added3 := by
              rw [hc3]; simp [Builder.checkpoint]
            refine ⟨⟨?_, ?_⟩, ⟨?_, ?_, ?_, ?_, ?_, ?_⟩⟩
            · intro hd
              have := hi3.1 hd
              simp only [textList_take_drop]
              exact this
            · intro p hp'
              have hp1 : p ∈ s1.builder.parents := by rw [← hf2.parents]; exact hp'
              have := hi1.2 p hp1
              simp only [htake, List.length_append, List.length_cons, List.length_nil]
              omega
            · exact hf2.parents.trans hf1.parents
            · obtain ⟨a1, ha1⟩ := hf1.children
              exact ⟨a1 ++ [Elem.node kind (added ++ added3)], by rw [htake, hdrop, ha1, List.append_assoc]⟩
            · exact (hf3.recCur.trans hf2.recCur).trans hf1.recCur
            · exact (hf3.recLimit.trans hf2.recLimit).trans hf1.recLimit
            · exact (hf3.original.trans hf2.original).trans hf1.original
            · intro hz
              have hb := hf1.frozen hz
              have hc := hf2.frozen ⟨hb.2.1, hb.2.2⟩
              have hd := hf3.frozen ⟨hc.2.1, hc.2.2⟩
              exact ⟨(hd.1.trans hc.1).trans hb.1, hd.2⟩⟩

/-- ty.rs `Some(_) => return Err(Some(p.pop()))`: the popped token never reaches the tree -/
def popDrop : PI (Option Tok) :=
  ⟨fun s => match s.current with
      | some t => .ok (some t) { s with current := none, dropped := s.dropped || !t.data.isEmpty }
      | none => .ok none { s with deadBranch := true },
   by
    intro s h
    cases hc : s.current with
    | none => simp only [hc]; exact ⟨⟨fun hd => by simpa [hc] using h.1 hd, h.2⟩, ⟨rfl, ⟨[], by simp⟩, rfl, rfl, rfl, fun hz => ⟨rfl, hz.1, hz.2⟩⟩⟩
    | some t =>
      simp only [hc]
      refine ⟨⟨?_, h.2⟩, ⟨rfl, ⟨[], by simp⟩, rfl, rfl, rfl, fun hz => ⟨rfl, hz.1, hz.2⟩⟩⟩
      intro hd
      simp only [Bool.or_eq_false_iff, Bool.not_eq_false'] at hd
      have h1 := h.1 hd.1
      have ht : t.data = [] := by simpa using hd.2
      simp only [hc, curText, ht, List.append_nil] at h1
      simpa [curText] using h1⟩

end Apollo.Parse

namespace Apollo.Parse
open Apollo.Rowan hiding Str
open Apollo.Lex hiding Str

/-! ### loops -/

def getCurrent : PI (Option Tok) := ⟨fun s => .ok s.current s, fun s h => ⟨h, Frame.refl s⟩⟩

/-- `Parser::peek_while`; `body` returns `true` for `ControlFlow::Continue` -/
def peekWhileLoop (body : Kind → PI Bool) : Nat → PI Unit
  | 0 => PI.outOfFuel
  | fuel + 1 => do
    match ← peek with
    | none => pure ()
    | some kind =>
      let before ← getCurrent
      if ← body kind then
        let after ← getCurrent
        if before == after then PI.stuck else peekWhileLoop body fuel
      else pure ()

def peekWhile (body : Kind → PI Bool) : PI Unit := do
  let n ← srcLen
  peekWhileLoop body (n + 3)

/-- `Parser::peek_while_kind` -/
def peekWhileKindLoop (expectK : Kind) (body : PI Unit) : Nat → PI Unit
  | 0 => PI.outOfFuel
  | fuel + 1 => do
    match ← peek with
    | none => pure ()
    | some kind =>
      if kind != expectK then pure ()
      else
        let before ← getCurrent
        body
        let after ← getCurrent
        if before == after then PI.stuck else peekWhileKindLoop expectK body fuel

def peekWhileKind (expectK : Kind) (body : PI Unit) : PI Unit := do
  let n ← srcLen
  peekWhileKindLoop expectK body (n + 3)

/-- `Parser::parse_separated_list` -/
def parseSeparatedList (separator : Kind) (separatorSyntax : SK) (run : PI Unit) : PI Unit := do
  if (← peek) == some separator then bump separatorSyntax
  run
  peekWhileKind separator (do bump separatorSyntax; run)

/-! ### recursion counter facts are in `withRec`; the top-level assertion of `document()` -/

/-- `assert_eq!(p.recursion_limit.current, 0, "unbalanced limit increment / decrement")` -/
def recCurIsZero : PI Bool := ⟨fun s => .ok (s.recCur == 0) s, fun s h => ⟨h, Frame.refl s⟩⟩

/-- a branch that the Rust code can never take (records the fact in the ghost flag) -/
def deadBranch : PI Unit :=
  ⟨fun s => .ok () { s with deadBranch := true }, fun s h => ⟨⟨h.1, h.2⟩, ⟨rfl, ⟨[], by simp⟩, rfl, rfl, rfl, fun hz => ⟨rfl, hz.1, hz.2⟩⟩⟩⟩

end Apollo.Parse
