import ApolloModel.Model.ParserCore
import ApolloModel.Proofs.Lexer
import ApolloModel.Proofs.LexerEof
/-
The primitives of parser/mod.rs as `PI` values (each with its invariant/frame/no-panic proof).
-/
namespace Apollo.Parse
open Apollo.Rowan hiding Str
open Apollo.Lex hiding Str

/-! ### lexer side: `Lexer::next` and `Parser::next_token` -/

inductive LexOut where
  | tok (t : Tok)
  | err (data : Str) (index : Nat)
  | limit (index : Nat)

def LexOut.text : LexOut → Str
  | .tok t => t.data
  | .err d _ => d
  | .limit _ => []

/-- `LimitTracker::check_and_increment` on the lexer's tracker: (reached, new current, new high) -/
def lexCheck (l : LexSt) : Bool × Nat × Nat :=
  let cur := l.cur + 1
  let high := if cur > l.high then cur else l.high
  let reached := match l.limit with | some n => decide (cur > n) | none => false
  (reached, if reached then l.cur else cur, high)

/-- `impl Iterator for Lexer :: next` -/
def lexNext (l : LexSt) : Option LexOut × LexSt :=
  if l.finished then (none, l)
  else
    let c := lexCheck l
    if c.1 then (some (.limit l.idx), { l with cur := c.2.1, high := c.2.2, finished := true })
    else
      match l.src with
      | [] => (some (.tok ⟨.eof, [], l.total⟩), { l with cur := c.2.1, high := c.2.2, finished := true })
      | ch :: rest =>
        let r := advance (ch :: rest)
        let newPos := l.pos + utf8Len r.1.data
        let l' : LexSt := { l with cur := c.2.1, high := c.2.2, src := r.2, pos := newPos,
                                   idx := if r.2.isEmpty then l.total - 1 else newPos }
        match r.1 with
        | .tok k d => (some (.tok ⟨k, d, l.pos⟩), l')
        | .err d => (some (.err d l.pos), l')
        | .limit => (some (.err [] l.pos), l')     -- unreachable: `advance` never yields `.limit`

/-- whatever the lexer hands out was taken from the front of the unlexed input -/
theorem lexNext_text (l : LexSt) :
    (match (lexNext l).1 with | some o => o.text | none => []) ++ (lexNext l).2.src = l.src := by
  unfold lexNext
  by_cases hf : l.finished = true
  · simp [hf]
  · simp only [hf, Bool.false_eq_true, if_false]
    by_cases hc : (lexCheck l).1 = true
    · simp [hc, LexOut.text]
    · simp only [hc, Bool.false_eq_true, if_false]
      cases hs : l.src with
      | nil => simp [LexOut.text]
      | cons c rest =>
        simp only []
        have h := Lex.advance_concat (c :: rest)
        cases hr : (advance (c :: rest)).1 with
        | tok k d => simp only [hr, Item.data] at h; simpa [LexOut.text] using h
        | err d => simp only [hr, Item.data] at h; simpa [LexOut.text] using h
        | limit => simp only [hr, Item.data] at h; simpa [LexOut.text] using h

theorem lexNext_finished (l : LexSt) (h : l.finished = true) : lexNext l = (none, l) := by
  simp [lexNext, h]

theorem lexNext_limit_finished (l : LexSt) (i : Nat) (h : (lexNext l).1 = some (.limit i)) :
    (lexNext l).2.finished = true := by
  unfold lexNext at h ⊢
  by_cases hf : l.finished = true
  · simp [hf] at h
  · simp only [hf, Bool.false_eq_true, if_false] at h ⊢
    by_cases hc : (lexCheck l).1 = true
    · simp [hc]
    · simp only [hc, Bool.false_eq_true, if_false] at h ⊢
      cases hs : l.src with
      | nil => simp [hs] at h
      | cons c rest =>
        simp only [hs] at h
        cases hr : (advance (c :: rest)).1 <;> simp [hr] at h


theorem lexNext_limit_eq (l : LexSt) : (lexNext l).2.limit = l.limit := by
  unfold lexNext
  by_cases hf : l.finished = true
  · simp [hf]
  · simp only [hf, Bool.false_eq_true, if_false]
    by_cases hc : (lexCheck l).1 = true
    · simp [hc]
    · simp only [hc, Bool.false_eq_true, if_false]
      cases hs : l.src with
      | nil => simp
      | cons c rest => simp only []; cases (advance (c :: rest)).1 <;> rfl

/-- without a limit the lexer finishes only on empty input -/
def LexDone (l : LexSt) : Prop := l.finished = true → l.limit = none → l.src = []

theorem lexCheck_no_limit (l : LexSt) (h : l.limit = none) : (lexCheck l).1 = false := by
  simp [lexCheck, h]

theorem lexNext_done (l : LexSt) (h : LexDone l) : LexDone (lexNext l).2 := by
  unfold lexNext
  by_cases hf : l.finished = true
  · simpa [hf] using h
  · simp only [hf, Bool.false_eq_true, if_false]
    by_cases hc : (lexCheck l).1 = true
    · simp only [hc, if_true]
      intro _ hl
      have := lexCheck_no_limit l hl
      simp [hc] at this
    · simp only [hc, Bool.false_eq_true, if_false]
      cases hs : l.src with
      | nil => intro _ _; simp [hs]
      | cons c rest =>
        simp only []
        cases (advance (c :: rest)).1 <;> (intro hfin _; simp [hf] at hfin)

/-- the lexer hands out an EOF token only at the end of the input, and it is empty -/
theorem lexNext_eof (l : LexSt) (t : Tok) (h : (lexNext l).1 = some (.tok t)) (hk : t.kind = .eof) :
    t.data = [] ∧ (lexNext l).2.src = [] ∧ (lexNext l).2.finished = true := by
  unfold lexNext at h ⊢
  by_cases hf : l.finished = true
  · simp [hf] at h
  · simp only [hf, Bool.false_eq_true, if_false] at h ⊢
    by_cases hc : (lexCheck l).1 = true
    · simp [hc] at h
    · simp only [hc, Bool.false_eq_true, if_false] at h ⊢
      cases hs : l.src with
      | nil =>
        simp only [hs, Option.some.injEq, LexOut.tok.injEq] at h ⊢
        subst h
        simp
      | cons c rest =>
        simp only [hs] at h
        cases hr : (advance (c :: rest)).1 with
        | tok k d =>
          simp only [hr, Option.some.injEq, LexOut.tok.injEq] at h
          subst h
          exact absurd hk (Lex.advance_kind_ne_eof c rest k d hr)
        | err d => simp [hr] at h
        | limit => simp [hr] at h

/-- the unlexed input only ever shrinks to a suffix; in particular it stays empty -/
theorem lexNext_src_nil (l : LexSt) (h : l.src = []) : (lexNext l).2.src = [] := by
  have := lexNext_text l
  rw [h] at this
  exact (List.append_eq_nil_iff.mp this).2

end Apollo.Parse

namespace Apollo.Parse
open Apollo.Rowan hiding Str
open Apollo.Lex hiding Str

/-- `Parser::next_token`: skip (and record) lexer errors until a token or the end of the stream -/
def nextTokenRaw : Nat → PState → Option Tok × PState
  | 0, s => (none, s)
  | fuel + 1, s =>
    match lexNext s.lx with
    | (none, l') => (none, { s with lx := l' })
    | (some (.tok t), l') => (some t, { s with lx := l' })
    | (some (.err d i), l') =>
      nextTokenRaw fuel { s with
        lx := l',
        pending := if d.isEmpty then s.pending else s.pending ++ [.error d],
        errors := s.errors ++ [⟨i, utf8Len d, .lexer⟩] }
    | (some (.limit i), l') =>
      nextTokenRaw fuel { s with lx := l', acceptErrors := false, errors := s.errors ++ [⟨i, 0, .limit⟩] }

def nextToken (s : PState) : Option Tok × PState := nextTokenRaw (s.lx.src.length + 3) s

structure NextSpec (s : PState) (r : Option Tok × PState) : Prop where
  builder : r.2.builder = s.builder
  current : r.2.current = s.current
  recCur : r.2.recCur = s.recCur
  recLimit : r.2.recLimit = s.recLimit
  original : r.2.original = s.original
  dropped : r.2.dropped = s.dropped
  limit : r.2.lx.limit = s.lx.limit
  text : pendingText r.2.pending ++ curText r.1 ++ r.2.lx.src = pendingText s.pending ++ s.lx.src
  done : LexDone s.lx → LexDone r.2.lx
  eof : ∀ t, r.1 = some t → t.kind = .eof → t.data = [] ∧ r.2.lx.src = [] ∧ r.2.lx.finished = true
  accept : (s.acceptErrors = false → s.errors ≠ []) → (r.2.acceptErrors = false → r.2.errors ≠ [])
  frozen : s.acceptErrors = false ∧ s.lx.finished = true →
    r.2.errors = s.errors ∧ r.2.acceptErrors = false ∧ r.2.lx.finished = true

theorem nextTokenRaw_spec : ∀ (fuel : Nat) (s : PState), NextSpec s (nextTokenRaw fuel s)
  | 0, s => ⟨rfl, rfl, rfl, rfl, rfl, rfl, rfl, by simp [nextTokenRaw, curText], fun h => h,
      fun t h => by simp [nextTokenRaw] at h, fun h => h, fun h => ⟨rfl, h.1, h.2⟩⟩
  | fuel + 1, s => by
    have ht := lexNext_text s.lx
    have hlim := lexNext_limit_eq s.lx
    have hdone := lexNext_done s.lx
    have heof := lexNext_eof s.lx
    unfold nextTokenRaw
    cases hl : lexNext s.lx with
    | mk o l' =>
      rw [hl] at ht hlim hdone heof
      simp only [] at hlim hdone heof
      cases o with
      | none =>
        simp only [] at ht ⊢
        refine ⟨rfl, rfl, rfl, rfl, rfl, rfl, hlim, by simpa [curText] using congrArg (pendingText s.pending ++ ·) ht,
          hdone, fun t h => by simp at h, fun h => h, ?_⟩
        intro h
        have := lexNext_finished s.lx h.2
        rw [hl] at this
        simp only [Prod.mk.injEq] at this
        exact ⟨rfl, h.1, by rw [this.2]; exact h.2⟩
      | some out =>
        cases out with
        | tok t =>
          simp only [LexOut.text] at ht ⊢
          refine ⟨rfl, rfl, rfl, rfl, rfl, rfl, hlim, by simp [curText, ← ht], hdone, ?_, fun h => h, ?_⟩
          · intro t' h' hk
            simp only [Option.some.injEq] at h'
            subst h'
            exact heof t rfl hk
          · intro h
            have := lexNext_finished s.lx h.2
            rw [hl] at this
            simp at this
        | err d i =>
          simp only [LexOut.text] at ht ⊢
          have ih := nextTokenRaw_spec fuel { s with
            lx := l', pending := if d.isEmpty then s.pending else s.pending ++ [.error d],
            errors := s.errors ++ [⟨i, utf8Len d, .lexer⟩] }
          refine ⟨ih.builder, ih.current, ih.recCur, ih.recLimit, ih.original, ih.dropped, ih.limit.trans hlim, ?_,
            fun h => ih.done (hdone h), ih.eof, fun _ => ih.accept (fun _ => by simp), ?_⟩
          · rw [ih.text]
            simp only []
            by_cases hd : d.isEmpty = true
            · have : d = [] := by simpa using hd
              subst this
              simp at ht
              simp [ht]
            · simp only [hd, Bool.false_eq_true, if_false, pendingText_append, pendingText, Pending.text,
                List.append_nil, List.append_assoc, ht]
          · intro h
            have := lexNext_finished s.lx h.2
            rw [hl] at this
            simp at this
        | limit i =>
          simp only [LexOut.text] at ht ⊢
          have ih := nextTokenRaw_spec fuel { s with lx := l', acceptErrors := false, errors := s.errors ++ [⟨i, 0, .limit⟩] }
          refine ⟨ih.builder, ih.current, ih.recCur, ih.recLimit, ih.original, ih.dropped, ih.limit.trans hlim, ?_,
            fun h => ih.done (hdone h), ih.eof, fun _ => ih.accept (fun _ => by simp), ?_⟩
          · rw [ih.text]; simp at ht; simp [ht]
          · intro h
            have := lexNext_finished s.lx h.2
            rw [hl] at this
            simp at this

theorem nextToken_spec (s : PState) : NextSpec s (nextToken s) := nextTokenRaw_spec _ s

/-- the two lexer clauses of `Inv` survive any step that keeps the lexer and keeps or clears `current` -/
theorem Inv.lexFields {s : PState} (h : Inv s) (cur' : Option Tok)
    (hc : ∀ t, cur' = some t → s.current = some t) :
    (s.lx.finished = true → s.lx.limit = none → s.lx.src = []) ∧
    (∀ t, cur' = some t → t.kind = .eof → t.data = [] ∧ s.lx.src = [] ∧ s.lx.finished = true) :=
  ⟨h.lexDone, fun t ht hk => h.eofTok t (hc t ht) hk⟩

/-- frame of a step that leaves the builder's parents, the counters and the error list alone -/
theorem Frame.simple {s s' : PState} (hp : s'.builder.parents = s.builder.parents)
    (hch : ∃ added, s'.builder.children = s.builder.children ++ added)
    (h1 : s'.recCur = s.recCur) (h2 : s'.recLimit = s.recLimit) (h3 : s'.original = s.original)
    (h4 : s'.lx = s.lx) (h5 : s'.errors = s.errors) (h6 : s'.acceptErrors = s.acceptErrors) : Frame s s' :=
  ⟨hp, hch, h1, h2, h3, by rw [h4], fun hz => ⟨h5, by rw [h6]; exact hz.1, by rw [h4]; exact hz.2⟩⟩

/-! ### token plumbing -/

/-- `Parser::peek_token` / `current` -/
def peekToken : PI (Option Tok) :=
  ⟨fun s => match s.current with
      | some t => .ok (some t) s
      | none => .ok (nextToken s).1 { (nextToken s).2 with current := (nextToken s).1 },
   by
    intro s h
    cases hc : s.current with
    | some t => simp only [hc]; exact ⟨h, Frame.refl s⟩
    | none =>
      simp only [hc]
      have sp := nextToken_spec s
      refine ⟨⟨?_, ?_, ?_, ?_, sp.accept h.errNonempty⟩, ⟨?_, ⟨[], ?_⟩, sp.recCur, sp.recLimit, sp.original, sp.limit, ?_⟩⟩
      · intro hd
        have h1 := h.text (by simpa [sp.dropped] using hd)
        simp only [hc, curText, List.append_nil] at h1
        simp only [sp.builder]
        rw [List.append_assoc, List.append_assoc, ← List.append_assoc (pendingText _), sp.text,
          ← List.append_assoc, h1]
        exact sp.original.symm
      · simpa [sp.builder] using h.parents
      · exact sp.done h.lexDone
      · intro t ht hk
        exact sp.eof t ht hk
      · simp [sp.builder]
      · simp [sp.builder]
      · exact sp.frozen⟩

def peek : PI (Option Kind) := do
  let t ← peekToken
  pure (t.map (·.kind))

def peekData : PI (Option Str) := do
  let t ← peekToken
  pure (t.map (·.data))

def isIgnoredKind (k : Kind) : Bool := k == .comment || k == .whitespace || k == .comma

/-- one iteration of `skip_ignored`: `while let Some(Comment|Whitespace|Comma) = self.peek() { pop; pending.push }` -/
def moveCurToPending : PI Bool :=
  ⟨fun s => match s.current with
      | some t => if isIgnoredKind t.kind then .ok true { s with current := none, pending := s.pending ++ [.ignored t] }
                  else .ok false s
      | none => .ok false s,
   by
    intro s h
    cases hc : s.current with
    | none => simp only [hc]; exact ⟨h, Frame.refl s⟩
    | some t =>
      simp only [hc]
      split
      · have lf := h.lexFields none (by simp)
        refine ⟨⟨?_, h.parents, lf.1, lf.2, h.errNonempty⟩, Frame.simple rfl ⟨[], by simp⟩ rfl rfl rfl rfl rfl rfl⟩
        intro hd
        have h1 := h.text hd
        simp only [hc, curText] at h1
        simp only [pendingText_append, pendingText, Pending.text, curText, List.append_nil, List.append_assoc] at h1 ⊢
        exact h1
      · exact ⟨h, Frame.refl s⟩⟩

def skipIgnoredLoop : Nat → PI Unit
  | 0 => PI.outOfFuel
  | fuel + 1 => do
    let _ ← peekToken
    if ← moveCurToPending then skipIgnoredLoop fuel else pure ()

/-- the remaining input bounds the number of iterations -/
def srcLen : PI Nat := ⟨fun s => .ok s.lx.src.length s, fun s h => ⟨h, Frame.refl s⟩⟩

def skipIgnored : PI Unit := do
  let n ← srcLen
  skipIgnoredLoop (n + 3)

def pendingElem : Pending → Elem
  | .ignored t => .tok (match t.kind with | .comment => "COMMENT" | .whitespace => "WHITESPACE" | .comma => "COMMA" | _ => "UNREACHABLE") t.data
  | .error d => .tok "ERROR" d

theorem textList_pendingElems (ps : List Pending) : textList (ps.map pendingElem) = pendingText ps := by
  induction ps with
  | nil => rfl
  | cons p ps ih => cases p <;> simp [textList, pendingText, pendingElem, Elem.text, Pending.text, ih]

/-- `Parser::push_ignored` -/
def pushIgnored : PI Unit :=
  ⟨fun s => .ok () { s with builder := { s.builder with children := s.builder.children ++ s.pending.map pendingElem }, pending := [] },
   by
    intro s h
    have lf := h.lexFields s.current (fun t ht => ht)
    refine ⟨⟨?_, ?_, lf.1, lf.2, h.errNonempty⟩, Frame.simple rfl ⟨_, rfl⟩ rfl rfl rfl rfl rfl rfl⟩
    · intro hd
      have h1 := h.text hd
      simp only [textList_append, textList_pendingElems, pendingText, List.append_nil] at h1 ⊢
      exact h1
    · intro p hp
      have := h.parents p hp
      simp only [List.length_append]
      omega⟩

/-- pop the current token straight into the tree (`pop` + `push_token`).  In the Rust code nothing is
    pending at that moment (the callers flush first and the current token is already lexed); if
    something were, the model flushes it first and raises `deadBranch`. -/
def moveCurToTree (kind : SK) : PI Unit :=
  ⟨fun s => match s.current with
      | some t => .ok () { s with current := none,
                                  builder := { s.builder with children := s.builder.children ++ s.pending.map pendingElem ++ [.tok kind t.data] },
                                  pending := [], deadBranch := s.deadBranch || !s.pending.isEmpty }
      | none => .ok () s,
   by
    intro s h
    cases hc : s.current with
    | none => simp only [hc]; exact ⟨h, Frame.refl s⟩
    | some t =>
      simp only [hc]
      have lf := h.lexFields none (by simp)
      refine ⟨⟨?_, ?_, lf.1, lf.2, h.errNonempty⟩, Frame.simple rfl ⟨_, by rw [List.append_assoc]⟩ rfl rfl rfl rfl rfl rfl⟩
      · intro hd
        have h1 := h.text hd
        simp only [hc, curText] at h1
        simp only [textList_append, textList_pendingElems, textList_tok, pendingText, curText, List.append_nil,
          List.append_assoc] at h1 ⊢
        exact h1
      · intro p hp
        have := h.parents p hp
        simp only [List.length_append]
        omega⟩

/-- `Parser::eat`: `push_ignored(); if current().is_none() { return }; let t = pop(); push_token(kind, t)` -/
def eat (kind : SK) : PI Unit := do
  pushIgnored
  let _ ← peekToken
  moveCurToTree kind

/-- `Parser::bump` -/
def bump (kind : SK) : PI Unit := do
  eat kind
  skipIgnored

/-! ### errors -/

/-- a state change that only touches `errors` / `acceptErrors` and respects the freeze -/
def errUpdate (f : PState → List PErr × Bool)
    (hf : ∀ s, s.acceptErrors = false → f s = (s.errors, false))
    (hf2 : ∀ s, (s.acceptErrors = false → s.errors ≠ []) → (f s).2 = false → (f s).1 ≠ []) : PI Unit :=
  ⟨fun s => .ok () { s with errors := (f s).1, acceptErrors := (f s).2 },
   fun s h =>
    have lf := h.lexFields s.current (fun t ht => ht)
    ⟨⟨h.text, h.parents, lf.1, lf.2, hf2 s h.errNonempty⟩, ⟨rfl, ⟨[], by simp⟩, rfl, rfl, rfl, rfl,
     fun hz => by simp [hf s hz.1, hz.2]⟩⟩⟩

/-- `Parser::push_err` -/
def pushErr (e : PErr) : PI Unit :=
  errUpdate (fun s => (if s.acceptErrors then s.errors ++ [e] else s.errors, s.acceptErrors))
    (fun s h => by simp [h])
    (fun s h h2 => by simp only [] at h2; simp only [h2, Bool.false_eq_true, if_false]; exact h h2)

def tokErr (t : Tok) : PErr :=
  if t.kind == .eof then ⟨t.index, 0, .eof⟩ else ⟨t.index, utf8Len t.data, .syntax⟩

/-- `Parser::err_at_token` -/
def errAtToken (t : Tok) : PI Unit := pushErr (tokErr t)

/-- `Parser::err` -/
def err : PI Unit := do
  match ← peekToken with
  | some t => pushErr (tokErr t)
  | none => pure ()

/-- `Parser::limit_err`: push (if still accepting) and stop accepting errors -/
def limitErr : PI Unit := do
  match ← peekToken with
  | some t =>
    errUpdate (fun s => (if s.acceptErrors then s.errors ++ [⟨t.index, 0, .limit⟩] else s.errors, false))
      (fun s h => by simp [h])
      (fun s h _ => by
        by_cases ha : s.acceptErrors = true
        · simp [ha]
        · have ha' : s.acceptErrors = false := by simpa using ha
          simp only [ha', Bool.false_eq_true, if_false]; exact h ha')
  | none => pure ()

/-- `Parser::err_and_pop` -/
def errAndPop : PI Unit := do
  pushIgnored
  match ← peekToken with
  | none => pure ()
  | some t =>
    moveCurToTree "ERROR"
    pushErr (tokErr t)
    skipIgnored

/-- `Parser::expect` -/
def expect (token : Kind) (kind : SK) : PI Unit := do
  match ← peekToken with
  | none => pure ()
  | some t =>
    if t.kind == token then bump kind
    else pushErr (tokErr t)

/-- `Parser::at` -/
def at_ (token : Kind) : PI Bool := do
  pure ((← peek) == some token)

/-! ### look-ahead through a clone of the lexer (`peek_n_inner`) -/

def aheadLoop : Nat → LexSt → Nat → Option Tok
  | 0, _, _ => none
  | fuel + 1, l, n =>
    match lexNext l with
    | (none, _) => none
    | (some (.tok t), l') =>
      if t.kind == .whitespace || t.kind == .comment || t.kind == .comma then aheadLoop fuel l' n
      else if n ≤ 1 then some t else aheadLoop fuel l' (n - 1)
    | (some _, l') => aheadLoop fuel l' n

/-- `self.current_token.iter().cloned().chain(self.lexer.clone()).filter_map(ok).filter(not ws/comment/comma).nth(n-1)`
    — note: does NOT call `peek`, so `current_token` may be empty -/
def lookahead (s : PState) (n : Nat) : Option Tok :=
  match s.current with
  | some t =>
    if t.kind == .whitespace || t.kind == .comment || t.kind == .comma then aheadLoop (s.lx.src.length + 3) s.lx n
    else if n ≤ 1 then some t else aheadLoop (s.lx.src.length + 3) s.lx (n - 1)
  | none => aheadLoop (s.lx.src.length + 3) s.lx n

def peekTokenN (n : Nat) : PI (Option Tok) :=
  ⟨fun s => .ok (lookahead s n) s, fun s h => ⟨h, Frame.refl s⟩⟩

def peekN (n : Nat) : PI (Option Kind) := do pure ((← peekTokenN n).map (·.kind))
def peekDataN (n : Nat) : PI (Option Str) := do pure ((← peekTokenN n).map (·.data))

/-! ### nodes -/

theorem textList_take_drop (k : SK) (n : Nat) (cs : List Elem) :
    textList (cs.take n ++ [Elem.node k (cs.drop n)]) = textList cs := by
  rw [textList_append, textList_node, ← textList_append, List.take_append_drop]

/-- builder-only step: open a node -/
def rawStartNode (kind : SK) (s : PState) : PState :=
  { s with builder := s.builder.startNode kind }

/-- `let _g = p.start_node(kind); body; drop(_g)`:
    push_ignored, builder.start_node, skip_ignored, the body, then the guard's `finish_node`. -/
def withNode {α : Type} (kind : SK) (body : PI α) : PI α :=
  ⟨fun s =>
      match pushIgnored.run s with
      | .ok _ s1 =>
        match (skipIgnored >>= fun _ => body).run (rawStartNode kind s1) with
        | .ok a s2 =>
          match s2.builder.finishNode with
          | some b => .ok a { s2 with builder := b }
          | none => .panic "finish_node: no open node"
        | .abort w => .abort w
        | .panic m => .panic m
      | .abort w => .abort w
      | .panic m => .panic m,
   by
    intro s h
    have h1 := pushIgnored.ok s h
    cases hr1 : pushIgnored.run s with
    | abort w => simp [hr1, Post]
    | panic m => simp [hr1, Post] at h1
    | ok u s1 =>
      simp only [hr1, Post] at h1 ⊢
      obtain ⟨hi1, hf1⟩ := h1
      -- the state after `builder.start_node`
      have hi1' : Inv (rawStartNode kind s1) := by
        refine ⟨hi1.text, ?_, hi1.lexDone, hi1.eofTok, hi1.errNonempty⟩
        intro p hp
        simp only [rawStartNode, Builder.startNode, List.mem_cons] at hp ⊢
        rcases hp with rfl | hp
        · exact Nat.le_refl _
        · exact hi1.parents p hp
      have h2 := (skipIgnored >>= fun _ => body).ok (rawStartNode kind s1) hi1'
      cases hr2 : (skipIgnored >>= fun _ => body).run (rawStartNode kind s1) with
      | abort w => simp [hr2, Post]
      | panic m => simp [hr2, Post] at h2
      | ok a s2 =>
        simp only [hr2, Post] at h2 ⊢
        obtain ⟨hi2, hf2⟩ := h2
        have hp : s2.builder.parents = (kind, s1.builder.children.length) :: s1.builder.parents := by
          rw [hf2.parents]; rfl
        obtain ⟨added, hadd⟩ := hf2.children
        simp only [rawStartNode, Builder.startNode] at hadd
        simp only [Builder.finishNode, hp]
        have htake : s2.builder.children.take s1.builder.children.length = s1.builder.children := by
          rw [hadd]; simp
        have hdrop : s2.builder.children.drop s1.builder.children.length = added := by
          rw [hadd]; simp
        refine ⟨⟨?_, ?_, hi2.lexDone, hi2.eofTok, hi2.errNonempty⟩, ⟨?_, ?_, ?_, ?_, ?_, ?_, ?_⟩⟩
        · intro hd
          have := hi2.text hd
          simp only [textList_take_drop]
          exact this
        · intro p hp'
          have := hi1.parents p hp'
          simp only [htake, List.length_append, List.length_cons, List.length_nil]
          omega
        · exact hf1.parents
        · obtain ⟨a1, ha1⟩ := hf1.children
          exact ⟨a1 ++ [Elem.node kind added], by rw [htake, hdrop, ha1, List.append_assoc]⟩
        · exact (hf2.recCur.trans (by rfl : (rawStartNode kind s1).recCur = s1.recCur)).trans hf1.recCur
        · exact (hf2.recLimit.trans (by rfl : (rawStartNode kind s1).recLimit = s1.recLimit)).trans hf1.recLimit
        · exact (hf2.original.trans (by rfl : (rawStartNode kind s1).original = s1.original)).trans hf1.original
        · exact (hf2.limit.trans (by rfl : (rawStartNode kind s1).lx.limit = s1.lx.limit)).trans hf1.limit
        · intro hz
          have hb := hf1.frozen hz
          have hc := hf2.frozen (by exact ⟨hb.2.1, hb.2.2⟩)
          exact ⟨hc.1.trans hb.1, hc.2⟩⟩

/-! ### recursion limit -/

/-- `if p.recursion_limit.check_and_increment() { onLimit } else { body; p.recursion_limit.decrement() }` -/
def withRec {α : Type} (onLimit : PI α) (body : PI α) : PI α :=
  ⟨fun s =>
      let cur := s.recCur + 1
      let high := if cur > s.recHigh then cur else s.recHigh
      if cur > s.recLimit then onLimit.run { s with recHigh := high }
      else
        match body.run { s with recCur := cur, recHigh := high } with
        | .ok a s' =>
          if s'.recCur = 0 then .panic "recursion_limit.decrement: underflow"
          else .ok a { s' with recCur := s'.recCur - 1 }
        | .abort w => .abort w
        | .panic m => .panic m,
   by
    intro s h
    simp only []
    split
    · have := onLimit.ok { s with recHigh := if s.recCur + 1 > s.recHigh then s.recCur + 1 else s.recHigh } ⟨h.text, h.parents, h.lexDone, h.eofTok, h.errNonempty⟩
      cases hr : onLimit.run { s with recHigh := if s.recCur + 1 > s.recHigh then s.recCur + 1 else s.recHigh } with
      | abort w => simp [Post]
      | panic m => simp [hr, Post] at this
      | ok a s' =>
        simp only [hr, Post] at this ⊢
        exact ⟨this.1, ⟨this.2.parents, this.2.children, this.2.recCur, this.2.recLimit, this.2.original, this.2.limit, this.2.frozen⟩⟩
    · have := body.ok { s with recCur := s.recCur + 1, recHigh := if s.recCur + 1 > s.recHigh then s.recCur + 1 else s.recHigh } ⟨h.text, h.parents, h.lexDone, h.eofTok, h.errNonempty⟩
      cases hr : body.run { s with recCur := s.recCur + 1, recHigh := if s.recCur + 1 > s.recHigh then s.recCur + 1 else s.recHigh } with
      | abort w => simp [Post]
      | panic m => simp [hr, Post] at this
      | ok a s' =>
        simp only [hr, Post] at this ⊢
        have hrc : s'.recCur = s.recCur + 1 := this.2.recCur
        have hne : ¬ s'.recCur = 0 := by omega
        simp only [hne, if_false, Post]
        exact ⟨⟨this.1.text, this.1.parents, this.1.lexDone, this.1.eofTok, this.1.errNonempty⟩, ⟨this.2.parents, this.2.children, by simp [hrc], this.2.recLimit, this.2.original, this.2.limit, this.2.frozen⟩⟩⟩

/-! ### `checkpoint_node` … `wrap_node` (ty.rs) -/

/-- `let cp = p.checkpoint_node(); body; if cond { let _g = cp.wrap_node(kind); inner }` -/
def wrapIf {α : Type} (kind : SK) (body : PI α) (cond : α → PI Bool) (inner : PI Unit) : PI α :=
  ⟨fun s =>
      match pushIgnored.run s with
      | .ok _ s1 =>
        let cp := s1.builder.checkpoint
        match (body >>= fun a => cond a >>= fun c => pure (a, c)).run s1 with
        | .ok (a, c) s2 =>
          if c then
            match s2.builder.startNodeAt cp kind with
            | none => .panic "start_node_at: checkpoint no longer valid"
            | some b =>
              match inner.run { s2 with builder := b } with
              | .ok _ s3 =>
                match s3.builder.finishNode with
                | some b' => .ok a { s3 with builder := b' }
                | none => .panic "finish_node: no open node"
              | .abort w => .abort w
              | .panic m => .panic m
          else .ok a s2
        | .abort w => .abort w
        | .panic m => .panic m
      | .abort w => .abort w
      | .panic m => .panic m,
   by
    intro s h
    have h1 := pushIgnored.ok s h
    cases hr1 : pushIgnored.run s with
    | abort w => simp [hr1, Post]
    | panic m => simp [hr1, Post] at h1
    | ok u s1 =>
      simp only [hr1, Post] at h1 ⊢
      obtain ⟨hi1, hf1⟩ := h1
      have h2 := (body >>= fun a => cond a >>= fun c => pure (a, c)).ok s1 hi1
      cases hr2 : (body >>= fun a => cond a >>= fun c => pure (a, c)).run s1 with
      | abort w => simp [hr2, Post]
      | panic m => simp [hr2, Post] at h2
      | ok ac s2 =>
        obtain ⟨a, c⟩ := ac
        simp only [hr2, Post] at h2 ⊢
        obtain ⟨hi2, hf2⟩ := h2
        cases c with
        | false => simp only [Bool.false_eq_true, if_false, Post]; exact ⟨hi2, hf1.trans hf2⟩
        | true =>
          simp only [if_true]
          obtain ⟨added, hadd⟩ := hf2.children
          have hlen : s1.builder.checkpoint ≤ s2.builder.children.length := by
            simp [Builder.checkpoint, hadd]
          have hfirst : ∀ p ∈ s2.builder.parents, p.2 ≤ s1.builder.checkpoint := by
            intro p hp; rw [hf2.parents] at hp; exact hi1.parents p hp
          -- start_node_at succeeds
          have hsn : s2.builder.startNodeAt s1.builder.checkpoint kind =
              some { s2.builder with parents := (kind, s1.builder.checkpoint) :: s2.builder.parents } := by
            unfold Builder.startNodeAt
            simp only [hlen, if_true]
            cases hps : s2.builder.parents with
            | nil => rfl
            | cons p ps =>
              obtain ⟨k0, f0⟩ := p
              have := hfirst (k0, f0) (by simp [hps])
              simp only [ge_iff_le, this, if_true]
          simp only [hsn]
          have hi2' : Inv { s2 with builder := { s2.builder with parents := (kind, s1.builder.checkpoint) :: s2.builder.parents } } := by
            refine ⟨hi2.text, ?_, hi2.lexDone, hi2.eofTok, hi2.errNonempty⟩
            intro p hp
            simp only [List.mem_cons] at hp
            rcases hp with rfl | hp
            · exact hlen
            · exact hi2.parents p hp
          have h3 := inner.ok _ hi2'
          cases hr3 : inner.run { s2 with builder := { s2.builder with parents := (kind, s1.builder.checkpoint) :: s2.builder.parents } } with
          | abort w => simp [Post]
          | panic m => simp [hr3, Post] at h3
          | ok u3 s3 =>
            simp only [hr3, Post] at h3 ⊢
            obtain ⟨hi3, hf3⟩ := h3
            have hp3 : s3.builder.parents = (kind, s1.builder.checkpoint) :: s2.builder.parents := hf3.parents
            simp only [Builder.finishNode, hp3]
            obtain ⟨added3, hadd3⟩ := hf3.children
            simp only [] at hadd3
            have hc3 : s3.builder.children = s1.builder.children ++ (added ++ added3) := by
              rw [hadd3, hadd, List.append_assoc]
            have htake : s3.builder.children.take s1.builder.checkpoint = s1.builder.children := by
              rw [hc3]; simp [Builder.checkpoint]
            have hdrop : s3.builder.children.drop s1.builder.checkpoint = added ++ added3 := by
              rw [hc3]; simp [Builder.checkpoint]
            refine ⟨⟨?_, ?_, hi3.lexDone, hi3.eofTok, hi3.errNonempty⟩, ⟨?_, ?_, ?_, ?_, ?_, ?_, ?_⟩⟩
            · intro hd
              have := hi3.text hd
              simp only [textList_take_drop]
              exact this
            · intro p hp'
              have hp1 : p ∈ s1.builder.parents := by rw [← hf2.parents]; exact hp'
              have := hi1.parents p hp1
              simp only [htake, List.length_append, List.length_cons, List.length_nil]
              omega
            · exact hf2.parents.trans hf1.parents
            · obtain ⟨a1, ha1⟩ := hf1.children
              exact ⟨a1 ++ [Elem.node kind (added ++ added3)], by rw [htake, hdrop, ha1, List.append_assoc]⟩
            · exact (hf3.recCur.trans hf2.recCur).trans hf1.recCur
            · exact (hf3.recLimit.trans hf2.recLimit).trans hf1.recLimit
            · exact (hf3.original.trans hf2.original).trans hf1.original
            · exact (hf3.limit.trans hf2.limit).trans hf1.limit
            · intro hz
              have hb := hf1.frozen hz
              have hc := hf2.frozen ⟨hb.2.1, hb.2.2⟩
              have hd := hf3.frozen ⟨hc.2.1, hc.2.2⟩
              exact ⟨(hd.1.trans hc.1).trans hb.1, hd.2⟩⟩

/-- ty.rs `Some(_) => return Err(Some(p.pop()))`: the popped token never reaches the tree -/
def popDrop : PI (Option Tok) :=
  ⟨fun s => match s.current with
      | some t => .ok (some t) { s with current := none, dropped := s.dropped || !t.data.isEmpty }
      | none => .ok none { s with deadBranch := true },
   by
    intro s h
    cases hc : s.current with
    | none =>
      simp only [hc]
      have lf := h.lexFields none (by simp)
      refine ⟨⟨fun hd => ?_, h.parents, lf.1, lf.2, h.errNonempty⟩, Frame.simple rfl ⟨[], by simp⟩ rfl rfl rfl rfl rfl rfl⟩
      have := h.text hd
      simpa [hc] using this
    | some t =>
      simp only [hc]
      have lf := h.lexFields none (by simp)
      refine ⟨⟨?_, h.parents, lf.1, lf.2, h.errNonempty⟩, Frame.simple rfl ⟨[], by simp⟩ rfl rfl rfl rfl rfl rfl⟩
      intro hd
      simp only [Bool.or_eq_false_iff, Bool.not_eq_false'] at hd
      have h1 := h.text hd.1
      have ht : t.data = [] := by simpa using hd.2
      simp only [hc, curText, ht, List.append_nil] at h1
      simpa [curText] using h1⟩

end Apollo.Parse

namespace Apollo.Parse
open Apollo.Rowan hiding Str
open Apollo.Lex hiding Str

/-! ### loops -/

def getCurrent : PI (Option Tok) := ⟨fun s => .ok s.current s, fun s h => ⟨h, Frame.refl s⟩⟩

/-- `Parser::peek_while`; `body` returns `true` for `ControlFlow::Continue` -/
def peekWhileLoop (body : Kind → PI Bool) : Nat → PI Unit
  | 0 => PI.outOfFuel
  | fuel + 1 => do
    match ← peek with
    | none => pure ()
    | some kind =>
      let before ← getCurrent
      if ← body kind then
        let after ← getCurrent
        if before == after then PI.stuck else peekWhileLoop body fuel
      else pure ()

def peekWhile (body : Kind → PI Bool) : PI Unit := do
  let n ← srcLen
  peekWhileLoop body (n + 3)

/-- `Parser::peek_while_kind` -/
def peekWhileKindLoop (expectK : Kind) (body : PI Unit) : Nat → PI Unit
  | 0 => PI.outOfFuel
  | fuel + 1 => do
    match ← peek with
    | none => pure ()
    | some kind =>
      if kind != expectK then pure ()
      else
        let before ← getCurrent
        body
        let after ← getCurrent
        if before == after then PI.stuck else peekWhileKindLoop expectK body fuel

def peekWhileKind (expectK : Kind) (body : PI Unit) : PI Unit := do
  let n ← srcLen
  peekWhileKindLoop expectK body (n + 3)

/-- `Parser::parse_separated_list` -/
def parseSeparatedList (separator : Kind) (separatorSyntax : SK) (run : PI Unit) : PI Unit := do
  if (← peek) == some separator then bump separatorSyntax
  run
  peekWhileKind separator (do bump separatorSyntax; run)

/-! ### recursion counter facts are in `withRec`; the top-level assertion of `document()` -/

/-- `assert_eq!(p.recursion_limit.current, 0, "unbalanced limit increment / decrement")`, recorded in
    the `deadBranch` ghost flag instead of panicking (it cannot fail: `Frame.recCur`) -/
def assertRecZero : PI Unit :=
  ⟨fun s => .ok () { s with deadBranch := s.deadBranch || !(s.recCur == 0) },
   fun s h => ⟨⟨h.text, h.parents, h.lexDone, h.eofTok, h.errNonempty⟩, Frame.simple rfl ⟨[], by simp⟩ rfl rfl rfl rfl rfl rfl⟩⟩

/-- a branch that the Rust code can never take (records the fact in the ghost flag) -/
def deadBranch : PI Unit :=
  ⟨fun s => .ok () { s with deadBranch := true },
   fun s h => ⟨⟨h.text, h.parents, h.lexDone, h.eofTok, h.errNonempty⟩, Frame.simple rfl ⟨[], by simp⟩ rfl rfl rfl rfl rfl rfl⟩⟩

end Apollo.Parse
