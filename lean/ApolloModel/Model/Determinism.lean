import ApolloModel.Model.Guards
/-
C22: the places where a hash-ordered collection is iterated, modelled with the iteration order as an
explicit, arbitrary permutation.

`validate_unused_variables` (validation/variable.rs): the operation's variables are collected into a
`HashMap<&Name, location>`, used ones are removed, the rest are *iterated* and one `UnusedVariable`
diagnostic is pushed per entry; `DiagnosticList::sort` runs at the end of validation.
-/
namespace Apollo.Det
open Apollo.Guards

structure VarDef where
  name : Nat
  offset : Nat          -- start of `recompose(var.location(), var.name.location())`
  deriving DecidableEq, Repr

/-- `.collect::<HashMap<_, _>>()`: a later definition with the same name overwrites an earlier one -/
def collectVars : List VarDef → List VarDef
  | [] => []
  | v :: rest => if rest.any (fun w => w.name == v.name) then collectVars rest else v :: collectVars rest

/-- the diagnostics pushed by the final loop, in the order the hash map yields its entries -/
def unusedDiagnostics (file : Nat) (vars : List VarDef) (used : Nat → Bool)
    (order : List VarDef → List VarDef) : List (Key × Nat) :=
  (order ((collectVars vars).filter (fun v => !used v.name))).map (fun v => (some (file, v.offset), v.name))

/-- what a caller observes: everything pushed before, then these, sorted -/
def validateUnused (pre : List (Key × Nat)) (file : Nat) (vars : List VarDef) (used : Nat → Bool)
    (order : List VarDef → List VarDef) : List (Key × Nat) :=
  sortDiagnostics (pre ++ unusedDiagnostics file vars used order)

/-! ### the other iteration site: `validate_schema`'s built-in scalar bookkeeping (schema/validation.rs)

`BuiltInScalars::record_type_ref` files every referenced built-in scalar under `used_and_defined` or
`used_and_undefined` (two `HashSet`s) according to whether `schema.types` — not mutated meanwhile — has the name;
afterwards unused built-in scalars are removed from `schema.types` (`retain`, order-preserving) and
`for name in used_and_undefined` (HASH ORDER) inserts the missing definitions into the `IndexMap` (appended).
Names are numbers; `builtins` are the five built-in scalar names. -/

structure Scalars where
  usedDefined : List Nat
  usedUndefined : List Nat
  deriving Repr, DecidableEq

/-- a set insert; also `IndexMap::insert` of a key: appended when new, left in place otherwise -/
def insertSet (x : Nat) (l : List Nat) : List Nat := if l.contains x then l else l ++ [x]

def recordRefs (builtins types : List Nat) : List Nat → Scalars → Scalars
  | [], s => s
  | r :: rest, s =>
    recordRefs builtins types rest
      (if builtins.contains r then
        (if types.contains r then { s with usedDefined := insertSet r s.usedDefined }
         else { s with usedUndefined := insertSet r s.usedUndefined })
       else s)

/-- `if !all_used() { types.retain(…) }` -/
def pruneUnused (builtins types : List Nat) (s : Scalars) : List Nat :=
  if s.usedDefined.length + s.usedUndefined.length == builtins.length then types
  else types.filter fun t => !builtins.contains t || s.usedDefined.contains t

def restoreAll (types : List Nat) : List Nat → List Nat
  | [] => types
  | n :: rest => restoreAll (insertSet n types) rest

/-- the keys of `schema.types` after `validate_schema`; `order` = the iteration order of the `HashSet` -/
def finalTypes (builtins types refs : List Nat) (order : List Nat → List Nat) : List Nat :=
  let s := recordRefs builtins types refs ⟨[], []⟩
  restoreAll (pruneUnused builtins types s) (order s.usedUndefined)

end Apollo.Det
