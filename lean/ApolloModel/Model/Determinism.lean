import ApolloModel.Model.Guards
/-
C22: the places where a hash-ordered collection is iterated, modelled with the iteration order as an
explicit, arbitrary permutation.

`validate_unused_variables` (validation/variable.rs): the operation's variables are collected into a
`HashMap<&Name, location>`, used ones are removed, the rest are *iterated* and one `UnusedVariable`
diagnostic is pushed per entry; `DiagnosticList::sort` runs at the end of validation.
-/
namespace Apollo.Det
open Apollo.Guards

structure VarDef where
  name : Nat
  offset : Nat          -- start of `recompose(var.location(), var.name.location())`
  deriving DecidableEq, Repr

/-- `.collect::<HashMap<_, _>>()`: a later definition with the same name overwrites an earlier one -/
def collectVars : List VarDef → List VarDef
  | [] => []
  | v :: rest => if rest.any (fun w => w.name == v.name) then collectVars rest else v :: collectVars rest

/-- the diagnostics pushed by the final loop, in the order the hash map yields its entries -/
def unusedDiagnostics (file : Nat) (vars : List VarDef) (used : Nat → Bool)
    (order : List VarDef → List VarDef) : List (Key × Nat) :=
  (order ((collectVars vars).filter (fun v => !used v.name))).map (fun v => (some (file, v.offset), v.name))

/-- what a caller observes: everything pushed before, then these, sorted -/
def validateUnused (pre : List (Key × Nat)) (file : Nat) (vars : List VarDef) (used : Nat → Bool)
    (order : List VarDef → List VarDef) : List (Key × Nat) :=
  sortDiagnostics (pre ++ unusedDiagnostics file vars used order)

end Apollo.Det
