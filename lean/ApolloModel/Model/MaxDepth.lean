/-
Model of `introspection/max_depth.rs::check_selection_set` and the specification of
"expanded list-field depth".

Selection sets are cons-lists with embedded sub-selections (a plain inductive, so structural
recursion works).  Named fragments are numbered; `frag j` is fragment `j`'s selection set.
A valid document has acyclic spreads: here, fragment `j` only spreads fragments `< j`
(any acyclic document can be numbered like that).
-/
namespace Apollo.MaxDepth

inductive Sels where
  | nil
  | field (isList : Bool) (sub rest : Sels)   -- `isList`: fields | interfaces | possibleTypes | inputFields
  | inline (sub rest : Sels)
  | spread (j : Nat) (rest : Sels)
  deriving Repr, DecidableEq, Inhabited

structure Doc where
  frags : List Sels
  deriving Repr

def Doc.frag (doc : Doc) (j : Nat) : Option Sels := doc.frags[j]?

/-- all spreads in `s` name fragments `< k` -/
def Bounded (k : Nat) : Sels → Bool
  | .nil => true
  | .field _ sub rest => Bounded k sub && Bounded k rest
  | .inline sub rest => Bounded k sub && Bounded k rest
  | .spread j rest => decide (j < k) && Bounded k rest

/-- acyclic: fragment `j` only spreads fragments `< j` -/
def Doc.WF (doc : Doc) : Prop := ∀ j body, doc.frag j = some body → Bounded j body = true

/-! ### specification: maximum number of list fields on a path, fragments expanded -/

/-- depth of a selection set relative to its position, given the depths `R` of the fragments -/
def relSels (R : Nat → Nat) : Sels → Nat
  | .nil => 0
  | .field isList sub rest => max ((if isList then 1 else 0) + relSels R sub) (relSels R rest)
  | .inline sub rest => max (relSels R sub) (relSels R rest)
  | .spread j rest => max (R j) (relSels R rest)

/-- depths of the first `n` fragments, each computed from the earlier ones -/
def table (doc : Doc) : Nat → List Nat
  | 0 => []
  | n + 1 =>
    let t := table doc n
    t ++ [match doc.frag n with
          | some body => relSels (fun i => t.getD i 0) body
          | none => 0]

/-- depth of fragment `j` with all spreads expanded -/
def fragDepth (doc : Doc) (j : Nat) : Nat := (table doc doc.frags.length).getD j 0

/-- depth of an operation's selection set with all named and inline fragments expanded -/
def expandedDepth (doc : Doc) (s : Sels) : Nat := relSels (fragDepth doc) s

/-! ### model of the Rust function -/

inductive Fail where
  | tooDeep      -- `Err(RequestError "Maximum introspection depth exceeded")`
  | fuel         -- model artefact: ran out of fragment-nesting budget (never on acyclic documents)
  deriving Repr, DecidableEq

abbrev Memo := List (Nat × Nat)     -- `HashMap<&Name, u32>`: get / insert

abbrev Res := Except Fail (Nat × Memo)

/-- the `for selection in &selection_set.selections` loop; `acc` is `max_depth`, `d` is
    `depth_so_far`, `rec` checks a fragment's selection set (one nesting level down). -/
def go (MAX : Nat) (doc : Doc) (rec : Sels → Memo → Nat → Res) : Sels → Memo → Nat → Nat → Res
  | .nil, memo, _, acc => .ok (acc, memo)
  | .inline sub rest, memo, d, acc =>
    match go MAX doc rec sub memo d d with
    | .error e => .error e
    | .ok (m, memo') => go MAX doc rec rest memo' d (max acc m)
  | .spread j rest, memo, d, acc =>
    match doc.frag j with
    | none => go MAX doc rec rest memo d acc                      -- `continue`
    | some body =>
      match memo.lookup j with
      | some r =>
        let post := d + r
        if post ≥ MAX then .error .tooDeep
        else go MAX doc rec rest memo d (max acc post)
      | none =>
        match rec body memo d with
        | .error e => .error e
        | .ok (post, memo') => go MAX doc rec rest ((j, post - d) :: memo') d (max acc post)
  | .field isList sub rest, memo, d, acc =>
    let depth := if isList then d + 1 else d
    if isList && depth ≥ MAX then .error .tooDeep
    else
      match go MAX doc rec sub memo depth depth with
      | .error e => .error e
      | .ok (m, memo') => go MAX doc rec rest memo' d (max acc m)

/-- `check_selection_set` with a budget of `k` nested fragment entries -/
def checkSet (MAX : Nat) (doc : Doc) : Nat → Sels → Memo → Nat → Res
  | 0 => fun s memo d => go MAX doc (fun _ _ _ => .error .fuel) s memo d d
  | k + 1 => fun s memo d => go MAX doc (checkSet MAX doc k) s memo d d

/-- `introspection::check_max_depth` -/
def checkMaxDepth (MAX : Nat) (doc : Doc) (op : Sels) : Except Fail Unit :=
  match checkSet MAX doc doc.frags.length op [] 0 with
  | .ok _ => .ok ()
  | .error e => .error e

/-- canonical verdict string used by the driver -/
def verdict (MAX : Nat) (doc : Doc) (op : Sels) : String :=
  match checkMaxDepth MAX doc op with
  | .ok _ => "ok"
  | .error .tooDeep => "err"
  | .error .fuel => "fuel"

end Apollo.MaxDepth
