import ApolloModel.Model.NumbersParse
/-
C14 growth 3: model of `value_of_correct_type` (validation/value.rs, with fixes 1d09582, 9a745ed, 99806f4,
cce5216 and the opaque list literal for custom scalars): the check of a literal against an input type, used for the arguments of directives applied in a
schema (`validate_directives` → `validate_arguments` → `value_of_correct_type`), for arguments and default
values in executable documents, and (once issue 928 is closed) for default values of a schema.

Not modelled: diagnostic locations and messages (only the diagnostic kind, in push order).  An integer literal
is its mathematical value (`Model/NumbersParse.lean`: `try_to_i32` is "in the `i32` range"); a float literal
is the one bit the check looks at (`try_to_f64` succeeds: the literal is finite as an `f64`).
-/
namespace Apollo.ValueCheck

abbrev Name := String

/-- `ast::Type` -/
inductive Ty where
  | named (n : Name)
  | nonNullNamed (n : Name)
  | list (t : Ty)
  | nonNullList (t : Ty)
  deriving DecidableEq, Repr, Inhabited

def Ty.isNonNull : Ty → Bool
  | .nonNullNamed _ | .nonNullList _ => true
  | _ => false

def Ty.isList : Ty → Bool
  | .list _ | .nonNullList _ => true
  | _ => false

/-- `Type::item_type`: the item type of a list type, the type itself otherwise -/
def Ty.itemType : Ty → Ty
  | .list t | .nonNullList t => t
  | t => t

def Ty.innerNamed : Ty → Name
  | .named n | .nonNullNamed n => n
  | .list t | .nonNullList t => t.innerNamed

mutual
/-- `ast::Value` -/
inductive Value where
  | int (i : Int)
  | float (finite : Bool)
  | string
  | boolean
  | null
  | enum (v : Name)
  | variable (n : Name)
  | list (vs : Values)
  | object (fs : Fields)
inductive Values where
  | nil
  | cons (v : Value) (tl : Values)
inductive Fields where
  | nil
  | cons (n : Name) (v : Value) (tl : Fields)
end

deriving instance Repr for Value
deriving instance Inhabited for Value

def Value.isNull : Value → Bool
  | .null => true
  | _ => false

def Fields.names : Fields → List Name
  | .nil => []
  | .cons n _ tl => n :: tl.names

/-- `obj.iter().any(|(name, value)| input_name == name && value.is_null())` -/
def Fields.hasNull (name : Name) : Fields → Bool
  | .nil => false
  | .cons n v tl => (n == name && v.isNull) || tl.hasNull name

structure InField where
  name : Name
  ty : Ty
  hasDefault : Bool
  deriving Repr, Inhabited

/-- what the check looks at in an `ExtendedType` -/
inductive TypeDef where
  | scalar (builtIn : Bool)
  | enum (values : List Name)
  | input (fields : List InField)
  /-- object, interface, union -/
  | other
  deriving Repr, Inhabited

def TypeDef.isInputType : TypeDef → Bool
  | .other => false
  | _ => true

structure Schema where
  types : List (Name × TypeDef)
  deriving Repr, Inhabited

def builtinScalarNames : List Name := ["Int", "Float", "String", "Boolean", "ID"]

/-- `schema.types.get(name)`, else the built-in scalar of that name (99806f4; `Model/BuiltinScalars.lean`,
    `lookupForValue`) -/
def Schema.lookup (S : Schema) (n : Name) : Option TypeDef :=
  match S.types.find? (fun p => p.1 == n) with
  | some p => some p.2
  | none => if builtinScalarNames.contains n then some (.scalar true) else none

structure VarDef where
  name : Name
  ty : Ty
  deriving Repr, Inhabited

inductive Diag where
  | unsupportedValueType
  | intCoercionError
  | floatCoercionError
  | undefinedEnumValue
  | undefinedVariable
  | uniqueInputValue
  | undefinedInputValue
  | requiredField
  deriving DecidableEq, Repr, Inhabited

/-- `int.try_to_f64()` is `Ok`: the decimal literal, rounded to nearest-even, is finite.  The largest finite
    `f64` is 2^1024 − 2^971; the midpoint to 2^1024 rounds up (to even), everything below rounds down. -/
def intFitsF64 (i : Int) : Bool := decide (i.natAbs < 2 ^ 1024 - 2 ^ 970)

/-- `unique_object_fields`: one diagnostic per field whose name occurred earlier in the literal -/
def uniqueDiags : List Name → List Name → List Diag
  | _, [] => []
  | seen, n :: rest => (if seen.contains n then [Diag.uniqueInputValue] else []) ++ uniqueDiags (seen ++ [n]) rest

def varDefined (vars : List VarDef) (n : Name) : Bool := vars.any (fun v => v.name == n)

mutual
/-- `undefined_variables_in_opaque_value` -/
def opaqueDiags (vars : List VarDef) : Value → List Diag
  | .variable n => if varDefined vars n then [] else [.undefinedVariable]
  | .list vs => opaqueList vars vs
  | .object fs => uniqueDiags [] fs.names ++ opaqueFields vars fs
  | _ => []
def opaqueList (vars : List VarDef) : Values → List Diag
  | .nil => []
  | .cons v tl => opaqueDiags vars v ++ opaqueList vars tl
def opaqueFields (vars : List VarDef) : Fields → List Diag
  | .nil => []
  | .cons _ v tl => opaqueDiags vars v ++ opaqueFields vars tl
end

/-- the scalar arms for `Value::Int` -/
def intDiags (td : TypeDef) (name : Name) (i : Int) : List Diag :=
  match td with
  | .scalar false => []
  | .scalar true =>
    if name == "ID" then []
    else if name == "Int" then (if Num.inI32 i then [] else [.intCoercionError])
    else if name == "Float" then (if intFitsF64 i then [] else [.floatCoercionError])
    else [.unsupportedValueType]
  | _ => [.unsupportedValueType]

def floatDiags (td : TypeDef) (name : Name) (finite : Bool) : List Diag :=
  match td with
  | .scalar false => []
  | .scalar true => if name == "Float" then (if finite then [] else [.floatCoercionError]) else [.unsupportedValueType]
  | _ => [.unsupportedValueType]

def stringDiags (td : TypeDef) (name : Name) : List Diag :=
  match td with
  | .scalar b => if b && !(name == "String" || name == "ID") then [.unsupportedValueType] else []
  | _ => [.unsupportedValueType]

def booleanDiags (td : TypeDef) (name : Name) : List Diag :=
  match td with
  | .scalar b => if b && !(name == "Boolean") then [.unsupportedValueType] else []
  | _ => [.unsupportedValueType]

def enumDiags (td : TypeDef) (v : Name) : List Diag :=
  match td with
  | .scalar false => []
  | .enum values => if values.contains v then [] else [.undefinedEnumValue]
  | _ => [.unsupportedValueType]

def variableDiags (vars : List VarDef) (td : TypeDef) (ty : Ty) (n : Name) : List Diag :=
  match vars.find? (fun v => v.name == n) with
  | some vd =>
    match td with
    | .other => [.unsupportedValueType]
    | _ => if vd.ty.innerNamed != ty.innerNamed then [.unsupportedValueType] else []
  | none => [.undefinedVariable]

/-- the first field of the literal that the input object type does not define -/
def undefinedFieldDiags (fields : List InField) (names : List Name) : List Diag :=
  match names.find? (fun n => !(fields.any (fun f => f.name == n))) with
  | some _ => [.undefinedInputValue]
  | none => []

def requiredDiags (f : InField) (fs : Fields) : List Diag :=
  if (f.ty.isNonNull && !f.hasDefault) && (!(fs.names.contains f.name) || fs.hasNull f.name) then [.requiredField] else []

mutual
/-- `value_of_correct_type(diagnostics, schema, ty, value, var_defs)` -/
def check (S : Schema) (vars : List VarDef) (ty : Ty) : Value → List Diag
  | .int i => match S.lookup ty.innerNamed with
    | none => []
    | some td => intDiags td ty.innerNamed i
  | .float fin => match S.lookup ty.innerNamed with
    | none => []
    | some td => floatDiags td ty.innerNamed fin
  | .string => match S.lookup ty.innerNamed with
    | none => []
    | some td => stringDiags td ty.innerNamed
  | .boolean => match S.lookup ty.innerNamed with
    | none => []
    | some td => booleanDiags td ty.innerNamed
  | .null => match S.lookup ty.innerNamed with
    | none => []
    | some _ => if ty.isNonNull then [.unsupportedValueType] else []
  | .enum v => match S.lookup ty.innerNamed with
    | none => []
    | some td => enumDiags td v
  | .variable n => match S.lookup ty.innerNamed with
    | none => []
    | some td => variableDiags vars td ty n
  | .list vs => match S.lookup ty.innerNamed with
    | none => []
    | some td =>
      let acceptsList := ty.isList || (match td with | .scalar false => true | _ => false)
      if !acceptsList then [.unsupportedValueType]
      -- a list literal given to a custom scalar (not to a list of them) is opaque, like an object literal
      else if !ty.isList then opaqueList vars vs
      else if td.isInputType then checkItems S vars ty.itemType vs
      else [.unsupportedValueType]
  | .object fs => match S.lookup ty.innerNamed with
    | none => []
    | some (.scalar false) => uniqueDiags [] fs.names ++ opaqueFields vars fs
    | some (.input fields) =>
      -- `input_obj.fields.iter().for_each(|(name, f)| …)`: the required-field diagnostic, then the check of the
      -- first field of the literal with that name
      uniqueDiags [] fs.names ++ undefinedFieldDiags fields fs.names ++
        fields.flatMap (fun f => requiredDiags f fs ++ checkFirst S vars f.ty f.name fs)
    | some _ => [.unsupportedValueType]
def checkItems (S : Schema) (vars : List VarDef) (ty : Ty) : Values → List Diag
  | .nil => []
  | .cons v tl => check S vars ty v ++ checkItems S vars ty tl
/-- `obj.iter().find(|(obj_name, ..)| obj_name == input_name)` and the recursive call on its value -/
def checkFirst (S : Schema) (vars : List VarDef) (ty : Ty) (name : Name) : Fields → List Diag
  | .nil => []
  | .cons n v tl => if n == name then check S vars ty v else checkFirst S vars ty name tl
end

end Apollo.ValueCheck
