import ApolloModel.Generated.TypeCompat
import ApolloModel.Spec.Types
/-
Hand-written model of `is_variable_usage_allowed` (validation/variable.rs).
`defaultValue` records whether the variable definition has a default and whether it is `null`.
Tied to the code by the correspondence stream T (harness/src/p29.rs).
-/
namespace Apollo.Model
open Apollo Apollo.Spec

def isVariableUsageAllowed (variableTy : Ty) (varDefault : DefaultValue)
    (locationTy : Ty) (hasLocationDefault : Bool) : Bool :=
  if locationTy.isNonNull && !variableTy.isNonNull then
    -- `variable_def.default_value.as_ref().is_some_and(|v| !v.is_null())`
    let hasNonNullDefaultValue := varDefault == .nonNullValue
    if !hasNonNullDefaultValue && !hasLocationDefault then false
    else Gen.isAssignableTo variableTy locationTy.nullable
  else
    Gen.isAssignableTo variableTy locationTy

end Apollo.Model
