import ApolloModel.Model.Numbers
/-
C10 growth: model of `IntValue::try_to_i32` (ast/impls.rs: `self.0.parse()`, i.e. `<i32 as FromStr>`):
an optional `+` or `-`, then one or more ASCII digits (leading zeros allowed), accumulated in base ten;
any other text is an error, and so is a value outside `i32`.
-/
namespace Apollo.Num

def digitVal (c : Char) : Nat := c.toNat - 48

/-- the accumulation loop of `from_str_radix(_, 10)` -/
def parseNat (s : Str) : Nat := s.foldl (fun acc c => acc * 10 + digitVal c) 0

def digitsOk (r : Str) : Bool := !r.isEmpty && allDigits r

/-- decimal text to an integer of unbounded size -/
def parseDec : Str → Option Int
  | '-' :: r => if digitsOk r then some (-(parseNat r : Int)) else none
  | '+' :: r => if digitsOk r then some (parseNat r : Int) else none
  | r => if digitsOk r then some (parseNat r : Int) else none

def inI32 (i : Int) : Bool := decide (-2147483648 ≤ i) && decide (i ≤ 2147483647)

/-- `IntValue::try_to_i32`: `Ok(v)` = `some v`, `Err(ParseIntError)` = `none` -/
def tryToI32 (s : Str) : Option Int := (parseDec s).filter inI32

end Apollo.Num
