import ApolloModel.Model.ExecSchema
/-
Model of apollo-compiler's executor (crates/apollo-compiler/src/resolvers):
`execution.rs` (`execute_selection_set`, `collect_fields`, `does_fragment_type_apply`, `eval_if_arg`,
`execute_field`, `try_nullify`), `result_coercion.rs` (`complete_value`, `complete_list_value`,
`complete_leaf_value`), `input_coercion.rs` (`coerce_argument_values`, `coerce_argument_value`).

Shape of the Rust kept: `Result<Option<JsonValue>, PropagateNull>`, the error list threaded through the
context, paths built while descending (`LinkedPath`), `try_nullify`, the early returns of the loops.
Resolvers are a *world*: a table `(object id, field name) ↦ resolved value`.
Not modelled: error messages/locations, `__schema` / `__type`, async resolvers (C27).
Recursion takes fuel; running out of it is the distinct failure `Fail.fuel`.
-/
namespace Apollo.Exec
open Apollo

structure FieldDef where
  name : String
  args : List InputDef
  ty : Ty
  deriving Inhabited

structure ObjectDef where
  implements : List String
  fields : List FieldDef
  deriving Inhabited

structure Schema where
  /-- scalars, enums, input objects -/
  inputs : ExecSchema
  objects : AList ObjectDef
  interfaces : List String
  unions : AList (List String)
  query : String
  deriving Inhabited

/-- `ExtendedType` -/
inductive Kind where
  | scalar
  | enum (values : List String)
  | inputObject (fields : List InputDef)
  | object (d : ObjectDef)
  | interface
  | union (members : List String)

/-- `schema.types.get(name)` -/
def Schema.kind? (s : Schema) (n : String) : Option Kind :=
  match AList.get? s.objects n with
  | some d => some (.object d)
  | none =>
    if s.interfaces.contains n then some .interface
    else match AList.get? s.unions n with
      | some m => some (.union m)
      | none =>
        match s.inputs.typeDef? n with
        | some .scalar => some .scalar
        | some (.enum vs) => some (.enum vs)
        | some (.input fs) => some (.inputObject fs)
        | _ => none

def typenameField : FieldDef := { name := "__typename", args := [], ty := .nonNullNamed "String" }

/-- `schema.type_field(object_type, field_name)` on an object type (meta-field `__typename` included) -/
def Schema.typeField? (s : Schema) (objTy fname : String) : Option FieldDef :=
  if fname = "__typename" then some typenameField
  else match AList.get? s.objects objTy with
    | some d => d.fields.find? (fun f => f.name = fname)
    | none => none

/-- argument value: a literal that may contain variables (`ast::Value`) -/
inductive AVal where
  | var (n : String)
  | null
  | bool (b : Bool)
  | int (z : Int)
  | float (t : String)
  | str (s : String)
  | enum (n : String)
  | list (xs : List AVal)
  | obj (kvs : List (String × AVal))
  deriving Inhabited

/-- the `if:` argument of `@skip` / `@include` -/
inductive Cond where
  | const (b : Bool)
  | var (n : String)
  deriving Inhabited

structure Dirs where
  skip : Option Cond
  incl : Option Cond
  deriving Inhabited

inductive Sel where
  | field (alias : Option String) (name : String) (args : List (String × AVal)) (dirs : Dirs) (sub : List Sel)
  | spread (name : String) (dirs : Dirs)
  | inline (cond : Option String) (dirs : Dirs) (sub : List Sel)
  deriving Inhabited

namespace Sel
def dirs : Sel → Dirs
  | .field _ _ _ d _ => d
  | .spread _ d => d
  | .inline _ d _ => d
def fname : Sel → String
  | .field _ n _ _ _ => n
  | _ => ""
def fargs : Sel → List (String × AVal)
  | .field _ _ a _ _ => a
  | _ => []
def fsub : Sel → List Sel
  | .field _ _ _ _ s => s
  | _ => []
/-- `Field::response_key` -/
def responseKey : Sel → String
  | .field (some a) _ _ _ _ => a
  | .field none n _ _ _ => n
  | _ => ""
end Sel

structure Frag where
  cond : String
  sub : List Sel

/-- what a resolver returns (`Result<ResolvedValue, FieldError>`; inside a list: one item of the stream) -/
inductive RV where
  | leaf (j : Json)
  | error
  | list (items : List RV)
  | object (ty : String) (id : Nat)
  /-- `ResolvedValue::SkipForPartialExecution` -/
  | skip
  /-- a leaf: the coerced arguments as a JSON object -/
  | echo
  deriving Inhabited

abbrev World := List ((Nat × String) × RV)

def World.get? : World → Nat → String → Option RV
  | [], _, _ => none
  | ((i, f), rv) :: rest, id, fname => if i = id ∧ f = fname then some rv else World.get? rest id fname

inductive Seg where
  | key (k : String)
  | idx (i : Nat)
  deriving DecidableEq, Repr

abbrev Path := List Seg

/-- `ExecutionContext`, the read-only part -/
structure Env where
  schema : Schema
  frags : AList Frag
  vars : AList Json
  world : World
  /-- fuel of `collect_fields` (bounded by the number of selections reachable, fragments visited once) -/
  cfuel : Nat

/-- `ctx.errors`: the paths of the field errors, in the order they were pushed -/
structure St where
  errors : List Path

def St.push (st : St) (p : Path) : St := { errors := st.errors ++ [p] }

inductive Fail where
  /-- `PropagateNull` -/
  | propagate
  | fuel
  deriving DecidableEq

/-- `Result<Option<JsonValue>, PropagateNull>` -/
abbrev Out := Except Fail (Option Json)

/-- `try_nullify` -/
def tryNullify (ty : Ty) (r : Out) : Out :=
  match r with
  | .ok j => .ok j
  | .error .propagate => if ty.isNonNull then .error .propagate else .ok (some .null)
  | .error .fuel => .error .fuel

/-! ### CollectFields -/

/-- `eval_if_arg` -/
def evalIf (vars : AList Json) : Option Cond → Option Bool
  | none => none
  | some (.const b) => some b
  | some (.var n) =>
    match AList.get? vars n with
    | some (.bool b) => some b
    | _ => none

def excluded (vars : AList Json) (d : Dirs) : Bool :=
  (evalIf vars d.skip).getD false || !((evalIf vars d.incl).getD true)

/-- `does_fragment_type_apply` -/
def fragmentApplies (s : Schema) (objTy : String) (fragTy : String) : Bool :=
  match s.kind? fragTy with
  | some (.object _) => fragTy == objTy
  | some .interface =>
    match AList.get? s.objects objTy with
    | some d => d.implements.contains fragTy
    | none => false
  | some (.union members) => members.contains objTy
  | _ => false

/-- `grouped_fields.entry(key).or_default().push(field)` -/
def pushGroup : AList (List Sel) → String → Sel → AList (List Sel)
  | [], k, f => [(k, [f])]
  | (k', fs) :: rest, k, f => if k' = k then (k', fs ++ [f]) :: rest else (k', fs) :: pushGroup rest k f

/-- `collect_fields`; `none` = out of fuel -/
def collectFields (env : Env) (objTy : String) : Nat → List Sel → List String → AList (List Sel) →
    Option (List String × AList (List Sel))
  | 0, _, _, _ => none
  | _ + 1, [], visited, groups => some (visited, groups)
  | n + 1, sel :: rest, visited, groups =>
    if excluded env.vars sel.dirs then collectFields env objTy n rest visited groups
    else
      match sel with
      | .field _ _ _ _ _ => collectFields env objTy n rest visited (pushGroup groups sel.responseKey sel)
      | .spread name _ =>
        if visited.contains name then collectFields env objTy n rest visited groups
        else
          let visited := name :: visited
          match AList.get? env.frags name with
          | none => collectFields env objTy n rest visited groups
          | some frag =>
            if !fragmentApplies env.schema objTy frag.cond then collectFields env objTy n rest visited groups
            else
              match collectFields env objTy n frag.sub visited groups with
              | none => none
              | some (visited, groups) => collectFields env objTy n rest visited groups
      | .inline cond _ sub =>
        let applies := match cond with
          | some c => fragmentApplies env.schema objTy c
          | none => true
        if !applies then collectFields env objTy n rest visited groups
        else
          match collectFields env objTy n sub visited groups with
          | none => none
          | some (visited, groups) => collectFields env objTy n rest visited groups

/-! ### CoerceArgumentValues -/

mutual
/-- `graphql_value_to_json`; a variable inside is a (suspected validation bug) error -/
def avalToJson : AVal → Option Json
  | .var _ => none
  | .null => some .null
  | .bool b => some (.bool b)
  | .int z => some (.int z)
  | .float t => some (.float t)
  | .str s => some (.str s)
  | .enum n => some (.str n)
  | .list xs => (avalsToJson xs).map .arr
  | .obj kvs => (afieldsToJson kvs).map .obj
def avalsToJson : List AVal → Option (List Json)
  | [] => some []
  | x :: xs =>
    match avalToJson x, avalsToJson xs with
    | some y, some ys => some (y :: ys)
    | _, _ => none
def afieldsToJson : List (String × AVal) → Option (List (String × Json))
  | [] => some []
  | (k, v) :: rest =>
    match avalToJson v, afieldsToJson rest with
    | some y, some ys => some ((k, y) :: ys)
    | _, _ => none
end

def AVal.isNull : AVal → Bool
  | .null => true
  | _ => false

def aget? : List (String × AVal) → String → Option AVal
  | [], _ => none
  | (k, v) :: rest, key => if k = key then some v else aget? rest key

def mapOpt {α β : Type} (f : α → Option β) : List α → Option (List β)
  | [] => some []
  | x :: xs =>
    match f x with
    | none => none
    | some y =>
      match mapOpt f xs with
      | none => none
      | some ys => some (y :: ys)

/-- the field loop of the input-object arm of `coerce_argument_value` -/
def coerceArgFields (rec : Ty → AVal → Option Json) (kvs : List (String × AVal)) :
    List InputDef → AList Json → Option (AList Json)
  | [], acc => some acc
  | fd :: rest, acc =>
    match aget? kvs fd.name with
    | some fv =>
      match rec fd.ty fv with
      | none => none
      | some v => coerceArgFields rec kvs rest (AList.insert acc fd.name v)
    | none =>
      match fd.default with
      | some d => coerceArgFields rec kvs rest (AList.insert acc fd.name d.toJson)
      | none => if fd.ty.isNonNull then none else coerceArgFields rec kvs rest acc

/-- `coerce_argument_value`; `none` = one field error at the field's path, then `PropagateNull`.
    (Out of fuel is also `none`; the entry point passes the size of the literal.) -/
def coerceArgValue (env : Env) : Nat → Ty → AVal → Option Json
  | 0, _, _ => none
  | n + 1, ty, v =>
    match v with
    | .null => if ty.isNonNull then none else some .null
    | .var name =>
      match AList.get? env.vars name with
      | some val => if val.isNull && ty.isNonNull then none else some val
      | none => if ty.isNonNull then none else some .null
    | v =>
      match ty.shape with
      | .list inner =>
        match v with
        | .list xs => (mapOpt (coerceArgValue env n inner) xs).map .arr
        | v => (mapOpt (coerceArgValue env n inner) [v]).map .arr
      | .named name =>
        match env.schema.kind? name with
        | none => none
        | some (.inputObject fields) =>
          match v with
          | .obj kvs =>
            if kvs.any (fun kv => !(fields.any fun fd => fd.name == kv.1)) then none
            else (coerceArgFields (coerceArgValue env n) kvs fields []).map .obj
          | _ => none
        | some _ => avalToJson v

mutual
def AVal.size : AVal → Nat
  | .list xs => sizeList xs + 1
  | .obj kvs => sizeFields kvs + 1
  | _ => 1
def AVal.sizeList : List AVal → Nat
  | [] => 0
  | x :: xs => AVal.size x + sizeList xs
def AVal.sizeFields : List (String × AVal) → Nat
  | [] => 0
  | (_, v) :: rest => AVal.size v + sizeFields rest
end

/-- the loop of `coerce_argument_values` over `field_def.arguments` -/
def coerceArgs (env : Env) (given : List (String × AVal)) : List InputDef → AList Json → Option (AList Json)
  | [], acc => some acc
  | ad :: rest, acc =>
    let fallthrough : Option (AList Json) :=
      match ad.default with
      | some d => coerceArgs env given rest (AList.insert acc ad.name d.toJson)
      | none => if ad.ty.isNonNull then none else coerceArgs env given rest acc
    match aget? given ad.name with
    | none => fallthrough
    | some (.var vn) =>
      match AList.get? env.vars vn with
      | some val =>
        if val.isNull && ad.ty.isNonNull then none
        else coerceArgs env given rest (AList.insert acc ad.name val)
      | none => fallthrough
    | some lit =>
      if lit.isNull && ad.ty.isNonNull then none
      else
        match coerceArgValue env (lit.size + ad.ty.depth + 2) ad.ty lit with
        | none => none
        | some v => coerceArgs env given rest (AList.insert acc ad.name v)

/-! ### CompleteValue, ExecuteField, ExecuteSelectionSet -/

/-- the recursive call: `complete_value(ctx, path, mode, ty, resolved, fields)` -/
abbrev Rec := Path → Ty → RV → List Sel → St → Out × St

def fitsI32 (z : Int) : Bool := decide (-2147483648 ≤ z) && decide (z ≤ 2147483647)

/-- the checks of `complete_leaf_value` on a built-in or custom scalar -/
def leafScalarOk (name : String) (j : Json) : Bool :=
  if name = "Int" then (match j with | .int z => fitsI32 z | _ => false)
  else if name = "Float" then (match j with | .float _ => true | _ => false)
  else if name = "String" then (match j with | .str _ => true | _ => false)
  else if name = "Boolean" then (match j with | .bool _ => true | _ => false)
  else if name = "ID" then (match j with | .str _ => true | .int _ => true | _ => false)
  else true

/-- `complete_leaf_value` -/
def completeLeaf (path : Path) (tyName : String) (k : Kind) (j : Json) (st : St) : Out × St :=
  match k with
  | .object _ | .interface | .union _ | .inputObject _ => (.error .propagate, st.push path)
  | .enum values =>
    match j with
    | .str x => if values.contains x then (.ok (some j), st) else (.error .propagate, st.push path)
    | _ => (.error .propagate, st.push path)
  | .scalar => if leafScalarOk tyName j then (.ok (some j), st) else (.error .propagate, st.push path)

/-- the `while let Some((index, inner_result)) = stream.next()` loop of `complete_list_value` -/
def completeItems (rec : Rec) (path : Path) (ty inner : Ty) (fields : List Sel) :
    List RV → Nat → List Json → St → Out × St
  | [], _, acc, st => (.ok (some (.arr acc)), st)
  | item :: rest, i, acc, st =>
    let p := path ++ [.idx i]
    match item with
    | .error => (.error .propagate, st.push p)
    | item =>
      match rec p inner item fields st with
      | (r, st1) =>
        match tryNullify inner r with
        | .ok none => completeItems rec path ty inner fields rest (i + 1) acc st1
        | .ok (some v) => completeItems rec path ty inner fields rest (i + 1) (acc ++ [v]) st1
        | .error .propagate => (tryNullify ty (.error .propagate), st1)
        | .error .fuel => (.error .fuel, st1)

/-- `complete_list_value` -/
def completeList (rec : Rec) (path : Path) (ty : Ty) (fields : List Sel) (items : List RV) (st : St) : Out × St :=
  match ty.shape with
  | .named _ => (.error .propagate, st.push path)
  | .list inner => completeItems rec path ty inner fields items 0 [] st

/-- `execute_field` -/
def execField (rec : Rec) (env : Env) (path : Path) (objTy : String) (objId : Nat) (fdef : FieldDef)
    (fields : List Sel) (st : St) : Out × St :=
  match fields with
  | [] => (.ok none, st)
  | f0 :: _ =>
    match coerceArgs env f0.fargs fdef.args [] with
    | none =>
      let st1 := st.push path
      if fdef.ty.isNonNull then (.error .propagate, st1) else (.ok (some .null), st1)
    | some args =>
      let resolved : Option RV :=
        if f0.fname = "__typename" then some (.leaf (.str objTy))
        else
          match env.world.get? objId f0.fname with
          | none => none
          | some .error => none
          | some .echo => some (.leaf (.obj args))
          | some rv => some rv
      match resolved with
      | none => (tryNullify fdef.ty (.error .propagate), st.push path)
      | some rv =>
        match rec path fdef.ty rv fields st with
        | (r, st1) => (tryNullify fdef.ty r, st1)

/-- the `for (&response_key, fields) in &grouped_field_set` loop of `execute_selection_set` -/
def execGroups (rec : Rec) (env : Env) (path : Path) (objTy : String) (objId : Nat) :
    AList (List Sel) → AList Json → St → Except Fail (AList Json) × St
  | [], acc, st => (.ok acc, st)
  | (key, fields) :: rest, acc, st =>
    match fields with
    | [] => execGroups rec env path objTy objId rest acc st
    | f0 :: _ =>
      match env.schema.typeField? objTy f0.fname with
      | none => execGroups rec env path objTy objId rest acc st
      | some fdef =>
        match execField rec env (path ++ [.key key]) objTy objId fdef fields st with
        | (.error e, st1) => (.error e, st1)
        | (.ok none, st1) => execGroups rec env path objTy objId rest acc st1
        | (.ok (some v), st1) => execGroups rec env path objTy objId rest (AList.insert acc key v) st1

/-- `execute_selection_set` -/
def execSelSet (rec : Rec) (env : Env) (path : Path) (objTy : String) (objId : Nat) (sels : List Sel) (st : St) :
    Except Fail (AList Json) × St :=
  match collectFields env objTy env.cfuel sels [] [] with
  | none => (.error .fuel, st)
  | some (_, groups) => execGroups rec env path objTy objId groups [] st

def subSelections : List Sel → List Sel
  | [] => []
  | f :: rest => f.fsub ++ subSelections rest

/-- the object arm of `complete_value`: which object type definition the resolved object runs with -/
def resolveObjectType (s : Schema) (tyName : String) (k : Kind) (resolvedTy : String) : Bool :=
  match k with
  | .scalar | .enum _ | .inputObject _ => false
  | .interface =>
    match AList.get? s.objects resolvedTy with
    | none => false
    | some od => od.implements.contains tyName
  | .union members =>
    match AList.get? s.objects resolvedTy with
    | none => false
    | some _ => members.contains resolvedTy
  | .object _ => resolvedTy == tyName

/-- `complete_value` -/
def completeValue (env : Env) : Nat → Path → Ty → RV → List Sel → St → Out × St
  | 0, _, _, _, _, st => (.error .fuel, st)
  | n + 1, path, ty, rv, fields, st =>
    match rv with
    | .skip => (.ok none, st)
    | .leaf .null => if ty.isNonNull then (.error .propagate, st.push path) else (.ok (some .null), st)
    | .list items => completeList (completeValue env n) path ty fields items st
    | .error => (.error .propagate, st.push path)
    | .echo => (.error .propagate, st.push path)
    | rv =>
      match ty.shape with
      | .list _ => (.error .propagate, st.push path)
      | .named tyName =>
        match env.schema.kind? tyName with
        | none => (.error .propagate, st.push path)
        | some (.inputObject _) => (.error .propagate, st.push path)
        | some k =>
          match rv with
          | .leaf j => completeLeaf path tyName k j st
          | .object resolvedTy id =>
            if resolveObjectType env.schema tyName k resolvedTy then
              match execSelSet (completeValue env n) env path resolvedTy id (subSelections fields) st with
              | (.ok m, st1) => (.ok (some (.obj m)), st1)
              | (.error e, st1) => (.error e, st1)
            else (.error .propagate, st.push path)
          | _ => (.error .propagate, st.push path)

structure Response where
  /-- `None` = `"data": null` -/
  data : Option (AList Json)
  errors : List Path

inductive Outcome where
  | response (r : Response)
  | outOfFuel

/-- `Execution::execute_sync` with coerced variables, on the operation's root selection set -/
def execute (fuel : Nat) (env : Env) (sels : List Sel) : Outcome :=
  match execSelSet (completeValue env fuel) env [] env.schema.query 0 sels { errors := [] } with
  | (.ok m, st) => .response { data := some m, errors := st.errors }
  | (.error .propagate, st) => .response { data := none, errors := st.errors }
  | (.error .fuel, _) => .outOfFuel

end Apollo.Exec
