/-
Model of `apollo_compiler::ast::Type` (crates/apollo-compiler/src/ast/mod.rs): the four-constructor
type reference, and the small accessors of `ast/impls.rs`.
-/
namespace Apollo

abbrev Name := String

inductive Ty where
  | named (n : Name)
  | nonNullNamed (n : Name)
  | list (t : Ty)
  | nonNullList (t : Ty)
  deriving Repr, DecidableEq, Inhabited

namespace Ty

def isNonNull : Ty → Bool
  | .nonNullNamed _ | .nonNullList _ => true
  | _ => false

def isList : Ty → Bool
  | .list _ | .nonNullList _ => true
  | _ => false

/-- `Type::nullable` -/
def nullable : Ty → Ty
  | .nonNullNamed n => .named n
  | .nonNullList t => .list t
  | t => t

/-- `Type::non_null` -/
def nonNull : Ty → Ty
  | .named n => .nonNullNamed n
  | .list t => .nonNullList t
  | t => t

def innerNamedType : Ty → Name
  | .named n | .nonNullNamed n => n
  | .list t | .nonNullList t => innerNamedType t

def depth : Ty → Nat
  | .named _ | .nonNullNamed _ => 0
  | .list t | .nonNullList t => depth t + 1

/-- Line-protocol decoding: `n<name>;` `N<name>;` `l…` `L…` (prefix code). -/
def decodeAux : Nat → List Char → Option (Ty × List Char)
  | 0, _ => none
  | fuel + 1, cs =>
    match cs with
    | 'l' :: rest => (decodeAux fuel rest).map fun (t, r) => (.list t, r)
    | 'L' :: rest => (decodeAux fuel rest).map fun (t, r) => (.nonNullList t, r)
    | 'n' :: rest =>
      let nm := rest.takeWhile (· != ';')
      some (.named (String.ofList nm), (rest.dropWhile (· != ';')).drop 1)
    | 'N' :: rest =>
      let nm := rest.takeWhile (· != ';')
      some (.nonNullNamed (String.ofList nm), (rest.dropWhile (· != ';')).drop 1)
    | _ => none

def decode (s : String) : Option Ty :=
  match decodeAux (s.length + 1) s.toList with
  | some (t, []) => some t
  | _ => none

/-- GraphQL syntax, as printed by `Type`'s `Display`. -/
def print : Ty → String
  | .named n => n
  | .nonNullNamed n => n ++ "!"
  | .list t => "[" ++ print t ++ "]"
  | .nonNullList t => "[" ++ print t ++ "]!"

end Ty
end Apollo
