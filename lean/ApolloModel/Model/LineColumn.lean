/-
Model of `SourceFile::get_line_column` (crates/apollo-compiler/src/parser.rs, after the repair):
scan the bytes before `offset` for line terminators, then count the characters between the line
start and `offset`.  Text is `List Char`; byte positions are prefix sums of `Char.utf8Size`
(a byte inside a multi-byte character is never `\n` or `\r`, so scanning characters is the same
as scanning bytes).
-/
namespace Apollo.LC

abbrev Str := List Char

def byteLen (s : Str) : Nat := s.foldl (fun n c => n + c.utf8Size) 0

/-- the loop over `bytes[..offset]`: (line, line_start) after the characters starting before `offset` -/
def scanLines (offset : Nat) : Nat → Nat → Nat → Str → Nat × Nat
  | _, line, lineStart, [] => (line, lineStart)
  | pos, line, lineStart, c :: rest =>
    if pos < offset then
      let endsLine := c == '\n' || (c == '\r' && rest.head? != some '\n')
      if endsLine then scanLines offset (pos + c.utf8Size) (line + 1) (pos + c.utf8Size) rest
      else scanLines offset (pos + c.utf8Size) line lineStart rest
    else (line, lineStart)

/-- `text[line_start..].char_indices().take_while(|(i, _)| line_start + i < offset).count()` -/
def countCharsFrom (lineStart offset : Nat) : Nat → Str → Nat
  | _, [] => 0
  | pos, c :: rest =>
    if pos < lineStart then countCharsFrom lineStart offset (pos + c.utf8Size) rest
    else if pos < offset then 1 + countCharsFrom lineStart offset (pos + c.utf8Size) rest
    else 0

/-- `get_line_column`: `none` when the offset is past the end -/
def getLineColumn (src : Str) (offset : Nat) : Option (Nat × Nat) :=
  if offset > byteLen src then none
  else
    let r := scanLines offset 0 1 0 src
    some (r.1, countCharsFrom r.2 offset 0 src + 1)

/-! ### specification: one pass keeping the running line and column -/

/-- walk the characters that start before `offset`; a LineTerminator (`\n`, `\r\n`, `\r`) moves to
    column 1 of the next line, any other character (a Unicode scalar value) advances the column -/
def specWalk (offset : Nat) : Nat → Nat → Nat → Str → Nat × Nat
  | _, line, col, [] => (line, col)
  | pos, line, col, c :: rest =>
    if pos < offset then
      if c == '\n' then specWalk offset (pos + c.utf8Size) (line + 1) 1 rest
      else if c == '\r' then
        match rest with
        | '\n' :: _ => specWalk offset (pos + c.utf8Size) line (col + 1) rest     -- `\r\n` is one terminator, ended by the `\n`
        | _ => specWalk offset (pos + c.utf8Size) (line + 1) 1 rest
      else specWalk offset (pos + c.utf8Size) line (col + 1) rest
    else (line, col)

def specLineColumn (src : Str) (offset : Nat) : Option (Nat × Nat) :=
  if offset > byteLen src then none else some (specWalk offset 0 1 1 src)

end Apollo.LC
