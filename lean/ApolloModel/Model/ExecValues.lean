import ApolloModel.Model.ValueCheck
import ApolloModel.Model.VariableUsage
/-
§5.6 values at EXECUTABLE positions (arguments of fields and directives in operations and fragments):
what `validate_field` / `validate_directives` do with one argument whose definition is known —
`validate_variable_usage(arg_definition, variables, argument)`, and, unless that reported,
`validate_values` = `value_of_correct_type(schema, arg_definition.ty, argument.value, variables)`
(Model/ValueCheck.lean, C14, which already has the `Variable` arm: inside a literal only the NAMED type
of a variable is compared with the position's).
-/
namespace Apollo.ExecValues
open Apollo Apollo.Spec

/-- a variable definition of the operation: name, type, and what IsVariableUsageAllowed reads of its default -/
structure XVarDef where
  name : String
  ty : ValueCheck.Ty
  default : DefaultValue

def toTy : ValueCheck.Ty → Ty
  | .named n => .named n
  | .nonNullNamed n => .nonNullNamed n
  | .list t => .list (toTy t)
  | .nonNullList t => .nonNullList (toTy t)

/-- `var_defs` as `value_of_correct_type` sees them -/
def checkVars (vars : List XVarDef) : List ValueCheck.VarDef := vars.map fun v => { name := v.name, ty := v.ty }

inductive XDiag where
  | disallowedVariableUsage
  | value (d : ValueCheck.Diag)
  deriving DecidableEq, Repr

/-- `validate_variable_usage` returns `Err(())` -/
def usageFails (vars : List XVarDef) (ty : ValueCheck.Ty) (hasDefault : Bool) : ValueCheck.Value → Bool
  | .variable n =>
    (match vars.find? (fun v => v.name == n) with
     | some vd => !Model.isVariableUsageAllowed (toTy vd.ty) vd.default (toTy ty) hasDefault
     | none => false)
  | _ => false

/-- one argument against its definition (`ty`, `hasDefault`) -/
def argValueDiags (S : ValueCheck.Schema) (vars : List XVarDef) (ty : ValueCheck.Ty) (hasDefault : Bool)
    (v : ValueCheck.Value) : List XDiag :=
  if usageFails vars ty hasDefault v then [.disallowedVariableUsage]
  else (ValueCheck.check S (checkVars vars) ty v).map .value

def XDiag.kindName : XDiag → String
  | .disallowedVariableUsage => "DisallowedVariableUsage"
  | .value .unsupportedValueType => "UnsupportedValueType"
  | .value .intCoercionError => "IntCoercionError"
  | .value .floatCoercionError => "FloatCoercionError"
  | .value .undefinedEnumValue => "UndefinedEnumValue"
  | .value .undefinedVariable => "UndefinedVariable"
  | .value .uniqueInputValue => "UniqueInputValue"
  | .value .undefinedInputValue => "UndefinedInputValue"
  | .value .requiredField => "RequiredField"

end Apollo.ExecValues
