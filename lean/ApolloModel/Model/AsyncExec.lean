/-
Model of the control structure of asynchronous execution (resolvers/mod.rs `execute_common`,
execution.rs `execute_selection_set` / `execute_field`, result_coercion.rs `complete_value` /
`complete_list_value`): `async fn`s that `.await` exactly one inner future at a time.

A future is a step machine (`Fut`): polling it either returns `Pending` (and there is a next state) or
`Ready`.  A resolver future / list-item stream that is pending `k` times is `delay k`.  The executor is
the sequential monadic composition the Rust code spells out: for each grouped field, call the resolver
(the call is logged when it is made), await its future, complete the value (recursively), then go to the
next field; for a list, await the next item, complete it, then poll for the following item.
Values are kept abstract (leaf numbers, `null` for a resolver error): the property is about control.
-/
namespace Apollo.Async

inductive Fut (α : Type) where
  | ready (a : α)
  | pending (next : Fut α)

namespace Fut

/-- pending `k` times, then behave like `f` -/
def delay : Nat → Fut α → Fut α
  | 0, f => f
  | k + 1, f => .pending (delay k f)

/-- `f.await` followed by the rest of the `async fn` -/
def bind : Fut α → (α → Fut β) → Fut β
  | .ready a, g => g a
  | .pending f, g => .pending (bind f g)

/-- the value obtained by polling to completion -/
def run : Fut α → α
  | .ready a => a
  | .pending f => run f

/-- how many times `poll` returns `Pending` before `Ready` -/
def polls : Fut α → Nat
  | .ready _ => 0
  | .pending f => polls f + 1

end Fut

mutual
/-- what a resolver call leads to -/
inductive Plan where
  | leaf (v : Nat)
  | error                                   -- the resolver's future completes with a `FieldError`
  | obj (fields : Fields)                   -- an object whose selected fields are resolved in turn
  | list (items : Items)                    -- a stream of items
/-- grouped field set in response order: response key, pending polls of the resolver's future, outcome -/
inductive Fields where
  | nil
  | cons (key : String) (delay : Nat) (p : Plan) (tl : Fields)
/-- list items: pending polls of `stream.next()` before the item, and the item -/
inductive Items where
  | nil
  | cons (delay : Nat) (p : Plan) (tl : Items)
end

mutual
inductive Resp where
  | leaf (v : Nat)
  | null
  | obj (fields : RFields)
  | list (items : RItems)
inductive RFields where
  | nil
  | cons (key : String) (v : Resp) (tl : RFields)
inductive RItems where
  | nil
  | cons (v : Resp) (tl : RItems)
end

/-- path segment of a list index -/
def seg (i : Nat) : String := toString i

/-- the resolver call log (response-key paths, in call order) -/
abbrev Log := List String

/-- an `async fn` with access to the call log -/
abbrev M (α : Type) := Log → Fut (α × Log)

def M.pure (a : α) : M α := fun log => .ready (a, log)
def M.bind (m : M α) (g : α → M β) : M β := fun log => Fut.bind (m log) (fun (a, log') => g a log')
/-- `resolve_field(&info)` is called: logged at call time -/
def M.call (label : String) : M Unit := fun log => .ready ((), log ++ [label])
/-- awaiting a future that is pending `k` times -/
def M.wait (k : Nat) : M Unit := fun log => Fut.delay k (.ready ((), log))

mutual
/-- `complete_value` -/
def complete (path : String) : Plan → M Resp
  | .leaf v => M.pure (.leaf v)
  | .error => M.pure .null
  | .obj fields => M.bind (execFields path fields) (fun fs => M.pure (.obj fs))
  | .list items => M.bind (execItems path 0 items) (fun is => M.pure (.list is))
/-- the `for (response_key, fields) in &grouped_field_set` loop of `execute_selection_set` -/
def execFields (path : String) : Fields → M RFields
  | .nil => M.pure .nil
  | .cons key delay p tl =>
    M.bind (M.call (path ++ "/" ++ key)) fun _ =>
    M.bind (M.wait delay) fun _ =>
    M.bind (complete (path ++ "/" ++ key) p) fun v =>
    M.bind (execFields path tl) fun rest =>
    M.pure (.cons key v rest)
/-- the `while let Some(..) = stream.next().await` loop of `complete_list_value` -/
def execItems (path : String) (index : Nat) : Items → M RItems
  | .nil => M.pure .nil
  | .cons delay p tl =>
    M.bind (M.wait delay) fun _ =>
    M.bind (M.call (path ++ "/" ++ seg index ++ "#")) fun _ =>    -- the stream's own code produces the item
    M.bind (complete (path ++ "/" ++ seg index) p) fun v =>
    M.bind (execItems path (index + 1) tl) fun rest =>
    M.pure (.cons v rest)
end

mutual
/-- the equivalent synchronous world: every future is immediately ready -/
def Plan.sync : Plan → Plan
  | .leaf v => .leaf v
  | .error => .error
  | .obj fields => .obj fields.sync
  | .list items => .list items.sync
def Fields.sync : Fields → Fields
  | .nil => .nil
  | .cons key _ p tl => .cons key 0 p.sync tl.sync
def Items.sync : Items → Items
  | .nil => .nil
  | .cons _ p tl => .cons 0 p.sync tl.sync
end

mutual
/-- total number of pending polls in a plan -/
def Plan.delays : Plan → Nat
  | .leaf _ => 0
  | .error => 0
  | .obj fields => fields.delays
  | .list items => items.delays
def Fields.delays : Fields → Nat
  | .nil => 0
  | .cons _ d p tl => d + p.delays + tl.delays
def Items.delays : Items → Nat
  | .nil => 0
  | .cons d p tl => d + p.delays + tl.delays
end

mutual
/-- the resolver calls of a plan in depth-first document order -/
def Plan.calls (path : String) : Plan → List String
  | .leaf _ => []
  | .error => []
  | .obj fields => fields.calls path
  | .list items => items.calls path 0
def Fields.calls (path : String) : Fields → List String
  | .nil => []
  | .cons key _ p tl => (path ++ "/" ++ key) :: p.calls (path ++ "/" ++ key) ++ tl.calls path
def Items.calls (path : String) (index : Nat) : Items → List String
  | .nil => []
  | .cons _ p tl =>
    (path ++ "/" ++ seg index ++ "#") :: p.calls (path ++ "/" ++ seg index) ++ tl.calls path (index + 1)
end

mutual
def Resp.render : Resp → String
  | .leaf v => toString v
  | .null => "null"
  | .obj fields => "{" ++ fields.render true ++ "}"
  | .list items => "[" ++ items.render true ++ "]"
def RFields.render : RFields → Bool → String
  | .nil, _ => ""
  | .cons k v tl, first => (if first then "" else ",") ++ "\"" ++ k ++ "\":" ++ v.render ++ tl.render false
def RItems.render : RItems → Bool → String
  | .nil, _ => ""
  | .cons v tl, first => (if first then "" else ",") ++ v.render ++ tl.render false
end

/-- executing the root selection set: `(response, call log, number of Pending polls)` -/
def execute (root : Fields) : Resp × Log × Nat :=
  let fut := execFields "" root []
  ((.obj (Fut.run fut).1), (Fut.run fut).2, Fut.polls fut)

end Apollo.Async
