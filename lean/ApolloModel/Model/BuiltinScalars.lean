/-
Model of the built-in scalar bookkeeping in `validate_schema` (schema/validation.rs):
`BuiltInScalars::{record_type_ref, all_used}`, the `retain` of unused built-in scalars and the
re-insertion of used but undefined ones.  The type map is an insertion-ordered association list
(`IndexMap`); the iteration order of the `HashSet` `used_and_undefined` is an explicit parameter.
-/
namespace Apollo.Scalars

abbrev Name := String

structure TypeDef where
  isBuiltIn : Bool           -- `ExtendedType::is_built_in()`
  isScalar : Bool
  refs : List Name           -- named types referenced by fields, arguments, input fields
  deriving Repr, DecidableEq

structure Schema where
  types : List (Name × TypeDef)
  directiveRefs : List Name  -- types referenced by directive-definition arguments
  deriving Repr, DecidableEq

/-- `BuiltInScalars::all` -/
def builtinScalars : List Name := ["Int", "Float", "String", "Boolean", "ID"]

def builtinDef : TypeDef := { isBuiltIn := true, isScalar := true, refs := [] }

def Schema.defined (s : Schema) (n : Name) : Bool := s.types.any (·.1 == n)

/-- every `record_type_ref` call of one validation pass -/
def Schema.allRefs (s : Schema) : List Name := s.directiveRefs ++ s.types.flatMap (·.2.refs)

def usedAndDefined (s : Schema) : List Name :=
  builtinScalars.filter fun b => s.allRefs.contains b && s.defined b

def usedAndUndefined (s : Schema) : List Name :=
  builtinScalars.filter fun b => s.allRefs.contains b && !s.defined b

def allUsed (s : Schema) : Bool :=
  (usedAndDefined s).length + (usedAndUndefined s).length == builtinScalars.length

/-- the closure passed to `schema.types.retain` -/
def keep (s : Schema) (entry : Name × TypeDef) : Bool :=
  !entry.2.isBuiltIn || !builtinScalars.contains entry.1 || (usedAndDefined s).contains entry.1

/-- the end of `validate_schema`; `order` is the iteration order of `used_and_undefined` -/
def bookkeeping (order : List Name → List Name) (s : Schema) : Schema :=
  let kept := if allUsed s then s.types else s.types.filter (keep s)
  { s with types := kept ++ (order (usedAndUndefined s)).map fun n => (n, builtinDef) }

/-- the type map is what a successful build produces: names are unique, and a built-in
    definition named like a built-in scalar is that scalar's definition -/
def WellFormed (s : Schema) : Prop :=
  (s.types.map (·.1)).Nodup ∧
  ∀ e ∈ s.types, e.2.isBuiltIn = true → builtinScalars.contains e.1 = true → e.2 = builtinDef

/-- the type lookup of the value check (`value_of_correct_type`, validation/value.rs, since 99806f4):
    the type map first; a built-in scalar missing from the map falls back to its built-in definition -/
def lookupForValue (s : Schema) (n : Name) : Option TypeDef :=
  match s.types.find? (·.1 == n) with
  | some e => some e.2
  | none => if builtinScalars.contains n then some builtinDef else none

/-- the lookup before that repair: the type map only -/
def lookupMapOnly (s : Schema) (n : Name) : Option TypeDef :=
  (s.types.find? (·.1 == n)).map (·.2)

end Apollo.Scalars
