import ApolloModel.Model.Rowan
/-
rowan `text_range()` on the model tree: byte offsets are prefix sums of the UTF-8 lengths of the
leaves (executable; used by the `c11.ranges` stream and the witnesses of C11).
-/
namespace Apollo.Rowan

def bytes (s : Str) : Nat := s.foldl (fun n c => n + c.utf8Size) 0

mutual
  /-- (kind, start, length, is-token) of every element, parents before children, in source order -/
  def rangesOf : Elem → Nat → List (SK × Nat × Nat × Bool)
    | .tok k t, start => [(k, start, bytes t, true)]
    | .node k cs, start => (k, start, bytes (textList cs), false) :: rangesOfList cs start
  def rangesOfList : List Elem → Nat → List (SK × Nat × Nat × Bool)
    | [], _ => []
    | e :: es, start => rangesOf e start ++ rangesOfList es (start + bytes e.text)
end

mutual
  /-- (start, length, text) of every NAME node -/
  def nameRanges : Elem → Nat → List (Nat × Nat × Str)
    | .tok _ _, _ => []
    | .node k cs, start =>
      (if k == "NAME" then [(start, bytes (textList cs), textList cs)] else []) ++ nameRangesList cs start
  def nameRangesList : List Elem → Nat → List (Nat × Nat × Str)
    | [], _ => []
    | e :: es, start => nameRanges e start ++ nameRangesList es (start + bytes e.text)
end

mutual
  /-- every NAME node is exactly one IDENT token -/
  def namesAreIdents : Elem → Bool
    | .tok _ _ => true
    | .node k cs => (k != "NAME" || (match cs with | [.tok "IDENT" _] => true | _ => false)) && namesAreIdentsList cs
  def namesAreIdentsList : List Elem → Bool
    | [] => true
    | e :: es => namesAreIdents e && namesAreIdentsList es
end

/-! ### slicing a `List Char` by UTF-8 byte offsets (prefix sums of `Char.utf8Size`) -/

/-- drop exactly `n` bytes; `none` if `n` is not a character boundary (or past the end) -/
def dropBytes : Nat → Str → Option Str
  | n, [] => if n = 0 then some [] else none
  | n, c :: cs => if n = 0 then some (c :: cs) else if c.utf8Size ≤ n then dropBytes (n - c.utf8Size) cs else none

/-- take exactly `n` bytes; `none` if `n` is not a character boundary (or past the end) -/
def takeBytes : Nat → Str → Option Str
  | n, [] => if n = 0 then some [] else none
  | n, c :: cs => if n = 0 then some [] else if c.utf8Size ≤ n then (takeBytes (n - c.utf8Size) cs).map (c :: ·) else none

/-- `&src[start .. start + len]` -/
def sliceBytes (src : Str) (start len : Nat) : Option Str :=
  match dropBytes start src with
  | some rest => takeBytes len rest
  | none => none

end Apollo.Rowan
