/-
Models for C21:
 * `DepthCounter` / `DepthGuard::increment` / `Drop` (validation/mod.rs) driving a recursive walker;
 * `DiagnosticList::sort`: a stable sort by `location.map(|l| (file_id, offset))`, `None` first.
-/
namespace Apollo.Guards

structure DepthCounter where
  value : Nat
  high : Nat
  limit : Nat
  deriving Repr, DecidableEq

/-- `DepthGuard::increment`: `(counter', reached_limit)` -/
def increment (c : DepthCounter) : DepthCounter × Bool :=
  let v := c.value + 1
  ({ c with value := v, high := max c.high v }, decide (v > c.limit))

/-- `Drop for DepthGuard`: `value.saturating_sub(1)` -/
def dropGuard (c : DepthCounter) : DepthCounter := { c with value := c.value - 1 }

/-- a nesting structure: first child and next sibling -/
inductive Tree where
  | leaf
  | node (child sibling : Tree)
  deriving Repr, DecidableEq

def Tree.depth : Tree → Nat
  | .leaf => 0
  | .node c s => max (c.depth + 1) s.depth

/-- a walker guarded the way every validation walker is:
    `let g = guard.increment()?; walk(children, g)` (the guard is dropped afterwards); the first limit
    error aborts the walk (`?`). Returns the counter and whether the limit was reached. -/
def walk : DepthCounter → Tree → DepthCounter × Bool
  | c, .leaf => (c, false)
  | c, .node child sibling =>
    let (c1, reached) := increment c
    if reached then (dropGuard c1, true)
    else
      let (c2, err) := walk c1 child
      let c3 := dropGuard c2
      if err then (c3, true) else walk c3 sibling

/-! ### diagnostics sort -/

abbrev Key := Option (Nat × Nat)      -- (file id, offset); `None` sorts first

def keyLe : Key → Key → Bool
  | none, _ => true
  | some _, none => false
  | some (f1, o1), some (f2, o2) => f1 < f2 || (f1 == f2 && o1 ≤ o2)

/-- `diagnostics_data.sort_by_key(…)` (slice::sort_by_key is a stable sort) -/
def sortDiagnostics {α : Type} (l : List (Key × α)) : List (Key × α) :=
  l.mergeSort (fun a b => keyLe a.1 b.1)

end Apollo.Guards

namespace Apollo.Guards

/-! ### fragment cycle detection (validation/fragment.rs, `validate_fragment_cycles`) with its
    `RecursionStack`/`RecursionGuard` (validation/mod.rs) -/

/-- a selection, as far as cycle detection looks at it: a fragment spread, or something with a nested
    selection set (field or inline fragment) -/
inductive Sel where
  | spread (name : Nat)
  | nested (sels : List Sel)

inductive Outcome where
  | ok | recursed | limit
  deriving DecidableEq, Repr

/-- `seen`: the `HashSet` of fragments already traversed; `high`: `RecursionStack::high`;
    `dhigh`: `DepthCounter::high`, the deepest call of `detect_fragment_cycles` attempted so far -/
structure DState where
  seen : List Nat
  high : Nat
  dhigh : Nat

abbrev Doc := List (Nat × List Sel)

def lookup : Doc → Nat → Option (List Sel)
  | [], _ => none
  | (k, v) :: rest, n => if k == n then some v else lookup rest n

/-- `depth.increment()` seen from the state: records the attempted depth -/
def DState.enter (st : DState) (depth : Nat) : DState := { st with dhigh := max st.dhigh (depth + 1) }

mutual
/-- `detect_fragment_cycles` over the selections of one selection set; `path` is
    `RecursionStack::seen` (root first), `depth` the `DepthCounter` value of this call (= the number
    of `detect_fragment_cycles` frames below this one), `limit`/`dlimit` the two limits -/
def detectList (doc : Doc) (limit dlimit : Nat) (path : List Nat) (depth : Nat) (st : DState) :
    List Sel → Outcome × DState
  | [] => (.ok, st)
  | s :: rest =>
    match detectSel doc limit dlimit path depth st s with
    | (.ok, st') => detectList doc limit dlimit path depth st' rest
    | r => r
termination_by sels => (limit + 1 - path.length, sizeOf sels)

def detectSel (doc : Doc) (limit dlimit : Nat) (path : List Nat) (depth : Nat) (st : DState) :
    Sel → Outcome × DState
  | .nested sels =>
    -- field or inline fragment: `depth.increment()?`
    if depth + 1 > dlimit then (.limit, st.enter depth)
    else detectList doc limit dlimit path (depth + 1) (st.enter depth) sels
  | .spread n =>
    if path.contains n then
      (if path.head? == some n then (.recursed, st) else (.ok, st))
    else if st.seen.contains n then (.ok, st)
    else
      match lookup doc n with
      | none => (.ok, { st with seen := n :: st.seen })
      | some body =>
        -- `path_from_root.push(&fragment.name)?` is evaluated before `depth.increment()?`
        if path.length + 1 > limit then
          (.limit, { st with seen := n :: st.seen, high := max st.high (path.length + 1) })
        else if depth + 1 > dlimit then
          (.limit, DState.enter { st with seen := n :: st.seen, high := max st.high (path.length + 1) } depth)
        else
          detectList doc limit dlimit (path ++ [n]) (depth + 1)
            (DState.enter { st with seen := n :: st.seen, high := max st.high (path.length + 1) } depth) body
termination_by s => (limit + 1 - path.length, sizeOf s)
end

/-- `validate_fragment_cycles` for the fragment `root` with selection set `body` -/
def fragmentCycle (doc : Doc) (limit dlimit : Nat) (root : Nat) (body : List Sel) : Outcome × DState :=
  detectList doc limit dlimit [root] 0 { seen := [], high := 0, dhigh := 0 } body

end Apollo.Guards
