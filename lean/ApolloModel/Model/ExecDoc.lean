import ApolloModel.Model.Ast
/-
Model of the typed executable document over the full AST of Model/Ast.lean (property C19):
  crates/apollo-compiler/src/executable/from_ast.rs  (document_from_ast with a schema: `fromDoc`)
  crates/apollo-compiler/src/executable/serialize.rs (ExecutableDocument::to_ast, FieldSet::serialize_impl: `toAst`)
  crates/apollo-compiler/src/schema/mod.rs           (Schema::type_field with the meta-fields: `typeFieldX`)
Aliases, arguments, directives, variable definitions are carried through unchanged in both directions, as
the Rust clones them.  Composes with the printer / reference parser of Model/Ast.lean, Model/AstParse.lean.
-/
namespace Apollo.Exec
open Apollo.Ast

inductive XKind where
  | object | interface | union | scalar | enum | inputObject
  deriving DecidableEq, Repr

def XKind.isComposite : XKind → Bool
  | .object | .interface | .union => true
  | _ => false

def XKind.isLeaf : XKind → Bool
  | .scalar | .enum => true
  | _ => false

/-- a field definition: identity of the definition node, inner named type -/
structure XFDef where
  id : Nat
  ty : Str
  deriving DecidableEq, Repr

structure XTypeDef where
  name : Str
  kind : XKind
  fields : List (Str × XFDef)

structure XSchema where
  types : List XTypeDef
  query : Option Str
  mutation : Option Str
  subscription : Option Str

def XSchema.findType (s : XSchema) (t : Str) : Option XTypeDef := s.types.find? (fun d => d.name == t)

def XSchema.root (s : XSchema) : OpType → Option Str
  | .query => s.query
  | .mutation => s.mutation
  | .subscription => s.subscription

def metaTypename : XFDef := { id := 0, ty := "String".toList }
def metaSchema : XFDef := { id := 1, ty := "__Schema".toList }
def metaType : XFDef := { id := 2, ty := "__Type".toList }

inductive XLookup where
  | ok (d : XFDef)
  | noSuchType
  | noSuchField
  deriving DecidableEq, Repr

def explicitFieldX (td : XTypeDef) (f : Str) : Option XFDef :=
  match td.kind with
  | .object | .interface => (td.fields.find? (fun p => p.1 == f)).map (·.2)
  | _ => none

/-- `Schema::type_field` -/
def typeFieldX (s : XSchema) (t f : Str) : XLookup :=
  match s.findType t with
  | none => .noSuchType
  | some td =>
    match explicitFieldX td f with
    | some d => .ok d
    | none =>
      if f == "__typename".toList && td.kind.isComposite then .ok metaTypename
      else if s.query == some t then
        (if f == "__schema".toList then .ok metaSchema else if f == "__type".toList then .ok metaType else .noSuchField)
      else .noSuchField

def leafTypeX (s : XSchema) (t : Str) : Bool :=
  match s.findType t with
  | some td => td.kind.isLeaf
  | none => false

/-- typed selections (cons-list form) -/
inductive XSels where
  | nil
  | field (alias : Option Str) (name : Str) (args : List (Str × Value)) (dirs : List Directive)
      (defn : XFDef) (ty : Str) (sub : XSels) (rest : XSels)
  | spread (name : Str) (dirs : List Directive) (rest : XSels)
  | inline (tc : Option Str) (dirs : List Directive) (ty : Str) (sub : XSels) (rest : XSels)

def selsIsNil : Sels → Bool
  | .nil => true
  | _ => false

/-- `SelectionSet::extend_from_ast` with a schema (`parent` = `self.ty`) -/
def fromSels (s : XSchema) (parent : Str) : Sels → XSels
  | .nil => .nil
  | .cons (.field alias name args dirs sub) tl =>
    match typeFieldX s parent name with
    | .ok d =>
      if !selsIsNil sub && leafTypeX s d.ty then fromSels s parent tl
      else .field alias name args dirs d d.ty (fromSels s d.ty sub) (fromSels s parent tl)
    | .noSuchField => fromSels s parent tl
    | .noSuchType => fromSels s parent tl
  | .cons (.spread name dirs) tl => .spread name dirs (fromSels s parent tl)
  | .cons (.inline tc dirs sub) tl =>
    match tc with
    | some t =>
      if (s.findType t).isNone then fromSels s parent tl
      else .inline tc dirs t (fromSels s t sub) (fromSels s parent tl)
    | none => .inline none dirs parent (fromSels s parent sub) (fromSels s parent tl)
termination_by t => sizeOf t

/-- `SelectionSet::to_ast` -/
def toSels : XSels → Sels
  | .nil => .nil
  | .field alias name args dirs _ _ sub rest => .cons (.field alias name args dirs (toSels sub)) (toSels rest)
  | .spread name dirs rest => .cons (.spread name dirs) (toSels rest)
  | .inline tc dirs _ sub rest => .cons (.inline tc dirs (toSels sub)) (toSels rest)

structure XOp where
  opType : OpType
  name : Option Str
  vars : List VarDef
  dirs : List Directive
  ty : Str
  sels : XSels

structure XFrag where
  name : Str
  dirs : List Directive
  ty : Str
  sels : XSels

structure XDoc where
  anon : Option XOp := none
  named : List XOp := []
  frags : List XFrag := []

/-- `add_ast_document_not_adding_sources` (document part) -/
def fromDef (s : XSchema) (doc : XDoc) : Definition → XDoc
  | .operation ty name vars dirs sels =>
    match name with
    | some n =>
      if doc.named.any (fun p => p.name == some n) then doc
      else
        match s.root ty with
        | some t => { doc with named := doc.named ++ [{ opType := ty, name := name, vars := vars, dirs := dirs, ty := t, sels := fromSels s t sels }] }
        | none => doc
    | none =>
      if doc.anon.isSome then doc
      else if !doc.named.isEmpty then doc
      else
        match s.root ty with
        | some t => { doc with anon := some { opType := ty, name := none, vars := vars, dirs := dirs, ty := t, sels := fromSels s t sels } }
        | none => doc
  | .fragment name tc dirs sels =>
    if doc.frags.any (fun g => g.name == name) then doc
    else if (s.findType tc).isNone then doc
    else { doc with frags := doc.frags ++ [{ name := name, dirs := dirs, ty := tc, sels := fromSels s tc sels }] }
  | _ => doc

/-- `document_from_ast(Some(schema), …)` -/
def fromDoc (s : XSchema) (ast : Document) : XDoc := ast.foldl (fromDef s) {}

def XOp.toAst (o : XOp) : Definition := .operation o.opType o.name o.vars o.dirs (toSels o.sels)
def XFrag.toAst (f : XFrag) : Definition := .fragment f.name f.ty f.dirs (toSels f.sels)

/-- `ExecutableDocument::to_ast`: the anonymous operation, the named operations, the fragments -/
def toAst (d : XDoc) : Document :=
  d.anon.toList.map XOp.toAst ++ d.named.map XOp.toAst ++ d.frags.map XFrag.toAst

/-- `FieldSet::serialize_impl`: the selections without the outer braces, separated by `new_line_or_space` -/
def cFieldSet (sels : Sels) : List Cmd :=
  match cSels sels with
  | [] => []
  | first :: rest => first ++ (rest.map fun c => Cmd.newLineOrSpace :: c).flatten

end Apollo.Exec
