import ApolloModel.Model.ExecValidation
/-
The memoisation of the XING algorithm (validation/selection.rs): `FieldsInSetCanMerge.cache` maps a
merged field set (a slice of `FieldSelection`s, compared by value) to ONE `MergedFieldSet`, whose two
`OnceBool` guards make `same_response_shape_by_name` / `same_for_common_parents_by_name` return
immediately the second time they are asked about the same set.  The validator, and so the cache, is
shared by all operations of a document (executable/validation.rs).

`same` is the identity the `HashMap` uses for merged sets; everything proved about the cache only
needs `same a b = true → a = b` (a hit is a set with the same contents), so it covers the real key
equality, which is at least as fine as equality of the abstract field trees.
-/
namespace Apollo.ExecVal

/-- the sets whose guard of one of the two walks is already set -/
abbrev Done := List (List AField)

/-- one iteration of the `for fields in groups` loop: the leaf comparison (a diagnostic is pushed,
    the walk continues), then the recursion into the merged nested selection sets if there are any -/
def cachedStep (rec : List AField → Bool × Done → Bool × Done) (leaf : List AField → Bool)
    (st : Bool × Done) (g : List AField) : Bool × Done :=
  let st' := (st.1 && leaf g, st.2)
  if (nestedSets g).isEmpty then st' else rec (nestedSets g) st'

/-- a guarded walk: state = (no diagnostic so far, sets whose guard is set); `n` = remaining
    recursion limit (`check_and_increment` returns early); `parts` = the groups the walk iterates
    over, `leaf` = the first-vs-rest comparison inside a group -/
def cachedCheck (same : List AField → List AField → Bool) (parts : List AField → List (List AField))
    (leaf : List AField → Bool) : Nat → List AField → Bool × Done → Bool × Done
  | 0 => fun _ st => st
  | n + 1 => fun fs st =>
    if st.2.any (same fs) then st          -- `already_done()`: nothing is reported again
    else (parts fs).foldl (cachedStep (cachedCheck same parts leaf n) leaf) (st.1, fs :: st.2)

/-- the same walk without the guards -/
def treeCheck (parts : List AField → List (List AField)) (leaf : List AField → Bool) : Nat → List AField → Bool
  | 0, _ => true
  | n + 1, fs => (parts fs).all fun g =>
      leaf g && ((nestedSets g).isEmpty || treeCheck parts leaf n (nestedSets g))

def shapeLeaf (g : List AField) : Bool := firstVsRest (fun a b => a.shape == b.shape) g
def parentsLeaf (g : List AField) : Bool := firstVsRest (fun a b => a.nameArgs == b.nameArgs) g
/-- `for fields_for_name in group_by_output_name() { for fields_for_parents in lookup(fields_for_name).group_by_common_parents() {…} }` -/
def parentsParts (fs : List AField) : List (List AField) := (groupByOutputName fs).flatMap groupByCommonParents

structure Memo where
  shapeDone : Done
  parentsDone : Done
  deriving Inhabited

/-- `validate_operation` with the validator's cache: both walks over the operation's expanded fields -/
def xingCachedOp (same : List AField → List AField → Bool) (limit : Nat) (st : Bool × Memo) (fs : List AField) : Bool × Memo :=
  let r1 := cachedCheck same groupByOutputName shapeLeaf limit fs (st.1, st.2.shapeDone)
  let r2 := cachedCheck same parentsParts parentsLeaf limit fs (r1.1, st.2.parentsDone)
  (r2.1, { shapeDone := r1.2, parentsDone := r2.2 })

/-- all operations of a document, one validator: no ConflictingField* diagnostic at all -/
def xingCachedDoc (same : List AField → List AField → Bool) (limit : Nat) (ops : List (List AField)) : Bool :=
  (ops.foldl (xingCachedOp same limit) (true, { shapeDone := [], parentsDone := [] })).1

/-! structural equality of abstract field trees (a concrete `same`, used by the witnesses) -/
mutual
  def AField.beq : AField → AField → Bool
    | .mk k p o na s subs, .mk k' p' o' na' s' subs' =>
      k == k' && p == p' && o == o' && na == na' && s == s' && AField.beqList subs subs'
  def AField.beqList : List AField → List AField → Bool
    | [], [] => true
    | a :: as, b :: bs => AField.beq a b && AField.beqList as bs
    | _, _ => false
end

end Apollo.ExecVal
