import ApolloModel.Model.SchemaValidation
import ApolloModel.Model.BuiltinScalars
/-
C15: executable evaluators of the invariants of a validated schema, over the abstract schema the
harness exports from the real `Schema` (roots, implements graph, input-object graph, type map with
references), and small models of two more transliterated rules (`validate_type_system_name`,
`validate_implementation_field_arguments`).
-/
namespace Apollo.SchemaInvariants
open Apollo.SchemaValidation

def RootTarget.isObject : RootTarget → Bool
  | .object _ => true
  | _ => false

/-- query root present, every root an object type, roots pairwise distinct -/
def rootsInv (q m sub : Option RootTarget) : Bool :=
  let rs := [q, m, sub].filterMap id
  q.isSome && rs.all RootTarget.isObject && decide ((rs.map RootTarget.name).Nodup)

/-- every `implements` entry names an interface, and no interface names itself -/
def implementsKindInv (s : ISchema) : Bool :=
  (List.range s.length).all fun i =>
    let t := s.getD i default
    (undefinedImplements s t).isEmpty && (selfImplements i t).isEmpty

/-- transitively implemented interfaces are declared -/
def transInv (s : ISchema) : Bool := s.all fun t => (missingTransitive s t).isEmpty

/-- no input object on a non-null cycle (search with a limit no smaller than the graph: exact) -/
def inputInv (g : IGraph) : Bool := (failingInputs g (max 32 g.length)).isEmpty

/-- the type map contains exactly the referenced built-in scalars -/
def scalarsInv (s : Scalars.Schema) : Bool :=
  Scalars.builtinScalars.all fun b => s.defined b == s.allRefs.contains b

/-! ### `validate_type_system_name` (schema/validation.rs) -/

/-- one `ReservedName` diagnostic when a name outside the built-in file starts with `__` -/
def reservedNameDiags (isBuiltIn : Bool) (name : String) : Nat :=
  if !isBuiltIn && name.startsWith "__" then 1 else 0

/-! ### `validate_implementation_field_arguments` (validation/interface.rs), one field -/

structure Arg where
  name : String
  ty : String          -- the printed type; the code compares `*iface_arg.ty != *impl_arg.ty`
  required : Bool      -- `is_required_argument`: non-null without default
  deriving Repr, DecidableEq, Inhabited

inductive ArgDiag where
  | missing (arg : String)
  | typeMismatch (arg : String)
  | extraRequired (arg : String)
  deriving Repr, DecidableEq

def argDiags (iface impl : List Arg) : List ArgDiag :=
  (iface.filterMap fun ia =>
    match impl.find? (fun a => a.name == ia.name) with
    | none => some (.missing ia.name)
    | some a => if ia.ty != a.ty then some (.typeMismatch ia.name) else none)
  ++ (impl.filterMap fun a =>
    if !(iface.any fun ia => ia.name == a.name) && a.required then some (.extraRequired a.name) else none)

end Apollo.SchemaInvariants
