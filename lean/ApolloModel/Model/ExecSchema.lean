import ApolloModel.Model.Types
import ApolloModel.Model.Json
/-
The part of `apollo_compiler::Schema` that request handling and execution look at:
name ↦ kind of type definition (`schema.types: IndexMap<Name, ExtendedType>`), input object fields
with their type and optional default value, and the definitions of an operation's variables.
Built-in scalars are always present as scalars (a valid schema keeps every built-in scalar it uses).
-/
namespace Apollo

/-- an input value definition: input object field, or variable definition (name, type, default) -/
structure InputDef where
  name : String
  ty : Ty
  default : Option Value
  deriving Inhabited

/-- `ExtendedType`, as far as input coercion distinguishes -/
inductive TypeDef where
  | scalar
  | enum (values : List String)
  | input (fields : List InputDef)
  /-- `Object | Interface | Union` -/
  | output
  deriving Inhabited

structure ExecSchema where
  types : AList TypeDef
  deriving Inhabited

namespace ExecSchema

def builtinScalars : List String := ["Int", "Float", "String", "Boolean", "ID"]

/-- `schema.types.get(name)` -/
def typeDef? (s : ExecSchema) (n : String) : Option TypeDef :=
  if builtinScalars.contains n then some .scalar else AList.get? s.types n

end ExecSchema

/-- list type or named type, forgetting the non-null marker
    (`Type::List(inner) | Type::NonNullList(inner)` / `Type::Named(n) | Type::NonNullNamed(n)`) -/
inductive TyShape where
  | list (inner : Ty)
  | named (n : Name)

def Ty.shape : Ty → TyShape
  | .named n => .named n
  | .nonNullNamed n => .named n
  | .list t => .list t
  | .nonNullList t => .list t

end Apollo
