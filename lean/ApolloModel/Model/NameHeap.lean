import ApolloModel.Model.FileId
import ApolloModel.Model.Name
/-
Model of the hand-written reference counting of `Name` (crates/apollo-compiler/src/name.rs) and of
the copy-on-write of `Node` (crates/apollo-compiler/src/node.rs, on top of `triomphe::Arc`).

* `Apollo.Rc`: an abstract heap of reference-counted cells `(value, strong, freed)` with the three
  primitive effects of an `Arc`: allocate (count 1), increment (`Arc::clone`), decrement
  (`Arc::drop`: the cell is freed when the old count was 1).  An access to a freed or missing cell
  and a decrement of a freed cell are not "impossible": they are recorded in the ghost counters
  `uaf` / `dfree`, so "no use after free / no double free" is a theorem about histories, not a
  property of a totalised function.
* `Apollo.NameHeap`: `Name` = `(ptr, len, start_offset, tagged_file_id)` exactly as in the source;
  *which* code path runs (`as_arc` → `Some`/`None`) is decided by the TAG BIT of the packed file id
  (`TaggedFileId::tag`), while *which cell is owned* is decided by the pointer.  The two agree only
  because `with_location` re-packs the old tag (`TaggedFileId::pack(self.tagged_file_id.tag(), …)`);
  that is the invariant `SlotWf` of the proofs.  Fields `gText`/`gLoc` are ghosts ("what was
  supplied"), never read by an operation.
* `Apollo.NodeHeap`: `Node<T>` = a handle on a cell `(value, location)`; `make_mut` is
  `triomphe::Arc::make_mut` (`if !is_unique { *this = Arc::new(T::clone(this)) }`).
-/
namespace Apollo.Rc

structure Cell (α : Type) where
  val : α
  strong : Nat
  freed : Bool

structure Heap (α : Type) where
  cells : List (Cell α)
  /-- ghost: accesses (read / increment) that hit a freed or non-existent cell -/
  uaf : Nat
  /-- ghost: decrements that hit a freed or non-existent cell -/
  dfree : Nat

namespace Heap
variable {α : Type}

def empty : Heap α := { cells := [], uaf := 0, dfree := 0 }

/-- `Arc::from(value)` / `Arc::new(value)`: a fresh cell with strong count 1 -/
def alloc (h : Heap α) (v : α) : Heap α × Nat :=
  ({ h with cells := h.cells ++ [{ val := v, strong := 1, freed := false }] }, h.cells.length)

/-- `Arc::clone`: strong += 1 -/
def incr (h : Heap α) (c : Nat) : Heap α :=
  match h.cells[c]? with
  | some cell =>
    if cell.freed then { h with uaf := h.uaf + 1 }
    else { h with cells := h.cells.set c { cell with strong := cell.strong + 1 } }
  | none => { h with uaf := h.uaf + 1 }

/-- `Arc::drop`: strong -= 1, the value is dropped and the memory released when the old count was 1 -/
def decr (h : Heap α) (c : Nat) : Heap α :=
  match h.cells[c]? with
  | some cell =>
    if cell.freed || cell.strong == 0 then { h with dfree := h.dfree + 1 }
    else { h with cells := h.cells.set c { cell with strong := cell.strong - 1, freed := cell.strong == 1 } }
  | none => { h with dfree := h.dfree + 1 }

/-- a read through a pointer: `none` when the cell is freed or does not exist -/
def read (h : Heap α) (c : Nat) : Option α :=
  match h.cells[c]? with
  | some cell => if cell.freed then none else some cell.val
  | none => none

/-- the effect of a read on the ghost counter -/
def touch (h : Heap α) (c : Nat) : Heap α :=
  match h.read c with
  | some _ => h
  | none => { h with uaf := h.uaf + 1 }

/-- write through a unique reference (`&mut T` obtained from `make_mut` / `get_mut`) -/
def write (h : Heap α) (c : Nat) (f : α → α) : Heap α :=
  match h.cells[c]? with
  | some cell =>
    if cell.freed then { h with uaf := h.uaf + 1 }
    else { h with cells := h.cells.set c { cell with val := f cell.val } }
  | none => { h with uaf := h.uaf + 1 }

def strongOf (h : Heap α) (c : Nat) : Nat :=
  match h.cells[c]? with
  | some cell => cell.strong
  | none => 0

/-- the stored value, freed or not (used by the invariants only) -/
def valOf (h : Heap α) (c : Nat) : Option α := (h.cells[c]?).map (·.val)

def isFreed (h : Heap α) (c : Nat) : Bool :=
  match h.cells[c]? with
  | some cell => cell.freed
  | none => false

/-- number of cells whose value is still alive -/
def liveCells (h : Heap α) : Nat := (h.cells.filter (fun c => !c.freed)).length

end Heap

/-- number of handles in `slots` that own a count on cell `c` -/
def refsOf {σ : Type} (owns : σ → Option Nat) : List σ → Nat → Nat
  | [], _ => 0
  | s :: rest, c => (if owns s = some c then 1 else 0) + refsOf owns rest c

end Apollo.Rc

namespace Apollo.NameHeap
open Apollo.Rc Apollo.FileId

abbrev Text := List Char

/-- `str::len`: UTF-8 bytes -/
def byteLen (t : Text) : Nat := t.foldr (fun c n => c.utf8Size + n) 0

/-- `FileId::NONE` -/
def NONE : Nat := Gen.fileIdNone
def TAG_ARC : Bool := true
def TAG_STATIC : Bool := false

/-- `TaggedFileId::pack(tag, FileId::NONE)` (cannot fail: NONE is a constant with the tag bit clear) -/
def packNone (tag : Bool) : Nat := (pack tag NONE).getD 0

inductive Ptr where
  | heap (c : Nat)          -- data pointer of `Arc<str>::into_raw`
  | static (text : Text)    -- `&'static str`
  deriving Repr

def Ptr.isHeap : Ptr → Bool
  | .heap _ => true
  | .static _ => false

/-- source location as observed through `SourceSpan`: file id, start offset, length -/
abbrev Loc := Nat × Nat × Nat

structure Name where
  ptr : Ptr
  len : Nat
  start : Nat
  tagged : Nat
  /-- ghost: the text this name was created from -/
  gText : Text
  /-- ghost: the location last attached (`none` when never attached or attached with `FileId::NONE`) -/
  gLoc : Option Loc

inductive AsArc where
  | arc (c : Nat)
  | notArc
  | confused       -- the tag says `Arc` but the pointer is a `&'static str`: `Arc::from_raw` on static memory
  deriving Repr

/-- `Name::as_arc`: the decision is taken on the tag bit -/
def Name.asArc (n : Name) : AsArc :=
  if tagOf n.tagged == TAG_ARC then
    match n.ptr with
    | .heap c => .arc c
    | .static _ => .confused
  else .notArc

/-- `Name::location` -/
def Name.location (n : Name) : Option Loc :=
  let fid := fileIdOf n.tagged
  if fid != NONE then some (fid, n.start, n.len) else none

/-- `Name::as_str`: reads `len` bytes at `ptr` -/
def Name.read (h : Heap Text) (n : Name) : Option Text :=
  match n.ptr with
  | .heap c => h.read c
  | .static t => some t

/-- `Name::as_static_str().is_some()` -/
def Name.isStatic (n : Name) : Bool := tagOf n.tagged == TAG_STATIC

inductive Slot where
  | empty
  | name (n : Name)
  | arc (c : Nat) (gText : Text)     -- a live `Arc<str>` held by the history

/-- the cell on which a handle holds one strong count: decided by the POINTER -/
def owns : Slot → Option Nat
  | .empty => none
  | .name n => match n.ptr with
    | .heap c => some c
    | .static _ => none
  | .arc c _ => some c

structure St where
  heap : Heap Text
  slots : List Slot
  /-- ghost: `as_arc` on a static pointer -/
  confused : Nat

def init (pool : Nat) : St := { heap := Heap.empty, slots := List.replicate pool .empty, confused := 0 }

inductive Op where
  | newName (dst : Nat) (t : Text)        -- `Name::new_unchecked(&str)`
  | newChecked (dst : Nat) (t : Text)     -- `Name::new(&str)`
  | newStatic (dst : Nat) (t : Text)      -- `Name::new_static_unchecked(&'static str)`
  | newArc (dst : Nat) (t : Text)         -- `Arc::<str>::from(&str)`
  | fromArc (dst src : Nat)               -- `Name::from_arc_unchecked(arc)` (moves the arc)
  | tryFromArc (dst src : Nat)            -- `Name::try_from(arc)` (moves the arc; dropped on error)
  | clone (dst src : Nat)                 -- `Name::clone` / `Arc::clone`
  | drop (s : Nat)
  | withLocation (s : Nat) (fid start len : Nat)
  | toClonedArc (dst src : Nat)           -- `Name::to_cloned_arc`
  | intoArc (dst src : Nat)               -- `Arc::<str>::from(name)`
  deriving Repr

inductive Res where
  | ok | skip | none | err | panic
  deriving Repr, DecidableEq

def slotAt (st : St) (i : Nat) : Slot := st.slots.getD i .empty

def isEmptyAt (st : St) (i : Nat) : Bool :=
  match st.slots[i]? with
  | some .empty => true
  | _ => false

def setSlot (st : St) (i : Nat) (s : Slot) : St := { st with slots := st.slots.set i s }

/-- `impl Drop for Name` -/
def dropName (st : St) (n : Name) : St :=
  match n.asArc with
  | .arc c => { st with heap := st.heap.decr c }
  | .notArc => st
  | .confused => { st with confused := st.confused + 1 }

/-- `Name::from_arc_unchecked`: `new_len(&arc)` reads the string, `Arc::into_raw` keeps the count -/
def nameFromArc (st : St) (c : Nat) (g : Text) : St × Name :=
  let t := (st.heap.read c).getD []
  ({ st with heap := st.heap.touch c },
   { ptr := .heap c, len := byteLen t, start := 0, tagged := packNone TAG_ARC, gText := g, gLoc := none })

def step (st : St) (op : Op) : St × Res :=
  match op with
  | .newName dst t =>
    if isEmptyAt st dst then
      let a := st.heap.alloc t
      nameFromArcRes { st with heap := a.1 } dst a.2 t
    else (st, .skip)
  | .newChecked dst t =>
    if isEmptyAt st dst then
      if isValidName t then
        let a := st.heap.alloc t
        nameFromArcRes { st with heap := a.1 } dst a.2 t
      else (st, .err)
    else (st, .skip)
  | .newStatic dst t =>
    if isEmptyAt st dst then
      (setSlot st dst (.name { ptr := .static t, len := byteLen t, start := 0, tagged := packNone TAG_STATIC,
                               gText := t, gLoc := none }), .ok)
    else (st, .skip)
  | .newArc dst t =>
    if isEmptyAt st dst then
      let a := st.heap.alloc t
      (setSlot { st with heap := a.1 } dst (.arc a.2 t), .ok)
    else (st, .skip)
  | .fromArc dst src =>
    match slotAt st src with
    | .arc c g =>
      if isEmptyAt st dst then nameFromArcRes (setSlot st src .empty) dst c g
      else (st, .skip)
    | _ => (st, .skip)
  | .tryFromArc dst src =>
    match slotAt st src with
    | .arc c g =>
      if isEmptyAt st dst then
        let t := (st.heap.read c).getD []
        let st1 := setSlot { st with heap := st.heap.touch c } src .empty
        if isValidName t then nameFromArcRes st1 dst c g
        else ({ st1 with heap := st1.heap.decr c }, .err)     -- `?` returns, the moved arc is dropped
      else (st, .skip)
    | _ => (st, .skip)
  | .clone dst src =>
    if isEmptyAt st dst then
      match slotAt st src with
      | .name n =>
        -- `if let Some(arc) = self.as_arc() { Arc::into_raw(Arc::clone(&arc)) }; Self { ..*self }`
        match n.asArc with
        | .arc c => (setSlot { st with heap := st.heap.incr c } dst (.name n), .ok)
        | .notArc => (setSlot st dst (.name n), .ok)
        | .confused => (setSlot { st with confused := st.confused + 1 } dst (.name n), .ok)
      | .arc c g => (setSlot { st with heap := st.heap.incr c } dst (.arc c g), .ok)
      | .empty => (st, .skip)
    else (st, .skip)
  | .drop s =>
    match slotAt st s with
    | .name n => (setSlot (dropName st n) s .empty, .ok)
    | .arc c _ => (setSlot { st with heap := st.heap.decr c } s .empty, .ok)
    | .empty => (st, .skip)
  | .withLocation s fid0 start len =>
    let fid := fid0 % 2 ^ 64      -- a `FileId` is a `u64`
    match slotAt st s with
    | .name n =>
      -- `debug_assert_eq!(location.text_range.len(), self.len)`; on a panic `self` is dropped
      if len != n.len then (setSlot (dropName st n) s .empty, .panic)
      else
        match pack (tagOf n.tagged) fid with
        | some p =>
          (setSlot st s (.name { n with start := start, tagged := p,
                                        gLoc := if fid = NONE then Option.none else some (fid, start, len) }), .ok)
        | none => (setSlot (dropName st n) s .empty, .panic)
    | _ => (st, .skip)
  | .toClonedArc dst src =>
    if isEmptyAt st dst then
      match slotAt st src with
      | .name n =>
        match n.asArc with
        | .arc c => (setSlot { st with heap := st.heap.incr c } dst (.arc c n.gText), .ok)
        | .notArc => (st, .none)
        | .confused => ({ st with confused := st.confused + 1 }, .none)
      | _ => (st, .skip)
    else (st, .skip)
  | .intoArc dst src =>
    if isEmptyAt st dst then
      match slotAt st src with
      | .name n =>
        -- `match value.to_cloned_arc() { Some(arc) => arc, None => value.as_str().into() }`, then `value` is dropped
        match n.asArc with
        | .arc c =>
          let st1 := { st with heap := st.heap.incr c }
          (setSlot (setSlot (dropName st1 n) src .empty) dst (.arc c n.gText), .ok)
        | .notArc =>
          let t := (n.read st.heap).getD []
          let h0 := match n.ptr with
            | .heap c => st.heap.touch c
            | .static _ => st.heap
          let a := h0.alloc t
          (setSlot (setSlot (dropName { st with heap := a.1 } n) src .empty) dst (.arc a.2 n.gText), .ok)
        | .confused => ({ st with confused := st.confused + 1 }, .none)
      | _ => (st, .skip)
    else (st, .skip)
where
  nameFromArcRes (st : St) (dst c : Nat) (g : Text) : St × Res :=
    let r := nameFromArc st c g
    (setSlot r.1 dst (.name r.2), .ok)

/-- run a history, oldest operation first -/
def run (st : St) : List Op → St
  | [] => st
  | op :: rest => run (step st op).1 rest

/-- `PartialEq for Name`: `self.as_str() == other.as_str()` -/
def nameEq (h : Heap Text) (a b : Name) : Bool := a.read h == b.read h

/-- `Hash for Name`: `self.as_str().hash(state)`: the hasher is fed the text only -/
def nameHashInput (h : Heap Text) (a : Name) : Option Text := a.read h

/-- merge per-thread histories according to a schedule (thread numbers; a thread whose history is
    exhausted, or a number that names no thread, takes no step) -/
def interleave : List Nat → List (List Op) → List Op
  | [], _ => []
  | t :: sched, threads =>
    match threads[t]? with
    | some (op :: rest) => op :: interleave sched (threads.set t rest)
    | _ => interleave sched threads

end Apollo.NameHeap

namespace Apollo.NodeHeap
open Apollo.Rc

abbrev Loc := Nat × Nat × Nat

/-- contents of the allocation of a `Node<T>`: `HeaderSlice { header: Header { location }, slice: T }` -/
structure NVal where
  val : Nat
  loc : Option Loc
  deriving DecidableEq, Repr

structure St where
  heap : Heap NVal
  /-- a slot is empty or holds a `Node` handle on a cell -/
  slots : List (Option Nat)

def init (pool : Nat) : St := { heap := Heap.empty, slots := List.replicate pool none }

inductive Op where
  | new (dst : Nat) (v : Nat) (loc : Option Loc)   -- `Node::new` / `Node::new_parsed`
  | clone (dst src : Nat)
  | drop (s : Nat)
  | makeMut (s : Nat) (v : Nat)                    -- `*node.make_mut() = v` (value part only)
  | getMut (s : Nat) (v : Nat)                     -- `if let Some(r) = node.get_mut() { *r = v }`
  | sameLocation (dst src : Nat) (v : Nat)         -- `node.same_location(v)`
  deriving Repr

inductive Res where
  | ok | skip | none | cloned
  deriving Repr, DecidableEq

def slotAt (st : St) (i : Nat) : Option Nat := (st.slots[i]?).join

def isEmptyAt (st : St) (i : Nat) : Bool :=
  match st.slots[i]? with
  | some none => true
  | _ => false

def setSlot (st : St) (i : Nat) (s : Option Nat) : St := { st with slots := st.slots.set i s }

def step (st : St) (op : Op) : St × Res :=
  match op with
  | .new dst v loc =>
    if isEmptyAt st dst then
      let a := st.heap.alloc { val := v, loc := loc }
      (setSlot { st with heap := a.1 } dst (some a.2), .ok)
    else (st, .skip)
  | .clone dst src =>
    if isEmptyAt st dst then
      match slotAt st src with
      | some c => (setSlot { st with heap := st.heap.incr c } dst (some c), .ok)
      | none => (st, .skip)
    else (st, .skip)
  | .drop s =>
    match slotAt st s with
    | some c => (setSlot { st with heap := st.heap.decr c } s none, .ok)
    | none => (st, .skip)
  | .makeMut s v =>
    match slotAt st s with
    | some c =>
      -- `if !this.is_unique() { *this = Arc::new(T::clone(this)) }` then write through `&mut`
      if st.heap.strongOf c == 1 then ({ st with heap := st.heap.write c (fun x => { x with val := v }) }, .ok)
      else
        let old := (st.heap.read c).getD { val := 0, loc := none }
        let a := (st.heap.touch c).alloc old                  -- clone of value and header
        let h2 := a.1.decr c                                  -- the assignment drops the old handle
        ({ heap := h2.write a.2 (fun x => { x with val := v }), slots := st.slots.set s (some a.2) }, .cloned)
    | none => (st, .skip)
  | .getMut s v =>
    match slotAt st s with
    | some c =>
      if st.heap.strongOf c == 1 then ({ st with heap := st.heap.write c (fun x => { x with val := v }) }, .ok)
      else (st, .none)
    | none => (st, .skip)
  | .sameLocation dst src v =>
    if isEmptyAt st dst then
      match slotAt st src with
      | some c =>
        let old := (st.heap.read c).getD { val := 0, loc := none }
        let a := (st.heap.touch c).alloc { val := v, loc := old.loc }
        (setSlot { st with heap := a.1 } dst (some a.2), .ok)
      | none => (st, .skip)
    else (st, .skip)

def run (st : St) : List Op → St
  | [] => st
  | op :: rest => run (step st op).1 rest

/-- what a handle in slot `i` reads (`Deref`, `location`) -/
def readSlot (st : St) (i : Nat) : Option NVal :=
  match slotAt st i with
  | some c => st.heap.read c
  | none => none

/-- `Node::ptr_eq` -/
def ptrEq (st : St) (i j : Nat) : Bool :=
  match slotAt st i, slotAt st j with
  | some a, some b => a == b
  | _, _ => false

/-- `PartialEq for Node`: `ptr_eq || slice == slice` (location not included) -/
def nodeEq (st : St) (i j : Nat) : Bool :=
  ptrEq st i j || (match readSlot st i, readSlot st j with
    | some a, some b => a.val == b.val
    | _, _ => false)

end Apollo.NodeHeap
