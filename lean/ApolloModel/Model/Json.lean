/-
JSON values as `serde_json_bytes::Value` presents them (feature `preserve_order`): objects are
insertion-ordered maps with distinct keys (`IndexMap`), numbers are `serde_json::Number`:
an integer (`PosInt(u64)` / `NegInt(i64)`, here one `Int`) or a finite float.  Floats are never
computed with: a float is carried as its text.

Also: GraphQL constant literals (`ast::Value` without variables) and `graphql_value_to_json`
(crates/apollo-compiler/src/resolvers/input_coercion.rs).
-/
namespace Apollo

/-- insertion-ordered association list = `IndexMap<String, α>` -/
abbrev AList (α : Type) := List (String × α)

namespace AList
variable {α : Type}

/-- `IndexMap::get` -/
def get? : AList α → String → Option α
  | [], _ => none
  | (k, v) :: rest, key => if k = key then some v else get? rest key

/-- `IndexMap::insert`: replace in place when the key exists, append otherwise -/
def insert : AList α → String → α → AList α
  | [], k, v => [(k, v)]
  | (k', v') :: rest, k, v => if k' = k then (k', v) :: rest else (k', v') :: insert rest k v

def keys (m : AList α) : List String := m.map (·.1)

def containsKey (m : AList α) (k : String) : Bool := (get? m k).isSome

end AList

inductive Json where
  | null
  | bool (b : Bool)
  | int (z : Int)
  | float (text : String)
  | str (s : String)
  | arr (xs : List Json)
  | obj (kvs : List (String × Json))
  deriving Inhabited

namespace Json

def isNull : Json → Bool
  | .null => true
  | _ => false

mutual
/-- number of nodes -/
def size : Json → Nat
  | .arr xs => sizeList xs + 1
  | .obj kvs => sizeFields kvs + 1
  | _ => 1
def sizeList : List Json → Nat
  | [] => 0
  | x :: xs => size x + sizeList xs
def sizeFields : List (String × Json) → Nat
  | [] => 0
  | (_, v) :: rest => size v + sizeFields rest
end

/-- `Number::is_i64` / `as_i64().is_some()` -/
def isI64 (z : Int) : Bool := decide (-9223372036854775808 ≤ z) && decide (z ≤ 9223372036854775807)

/-- `i32::try_from(v).is_ok()` -/
def fitsI32 (z : Int) : Bool := decide (-2147483648 ≤ z) && decide (z ≤ 2147483647)

end Json

/-- GraphQL constant literal (`ast::Value`; the `Variable` case cannot occur in a constant) -/
inductive Value where
  | null
  | bool (b : Bool)
  | int (z : Int)
  | float (text : String)
  | str (s : String)
  | enum (n : String)
  | list (xs : List Value)
  | obj (kvs : List (String × Value))
  deriving Inhabited

namespace Value

mutual
/-- `graphql_value_to_json` on constants whose integer literals fit `u64`/`i64` and whose float
    literals are finite (otherwise serde_json's number parser decides; not modelled), and whose
    object literals have distinct field names (validation). -/
def toJson : Value → Json
  | .null => .null
  | .bool b => .bool b
  | .int z => .int z
  | .float t => .float t
  | .str s => .str s
  | .enum n => .str n
  | .list xs => .arr (toJsonList xs)
  | .obj kvs => .obj (toJsonFields kvs)
def toJsonList : List Value → List Json
  | [] => []
  | x :: xs => toJson x :: toJsonList xs
def toJsonFields : List (String × Value) → List (String × Json)
  | [] => []
  | (k, v) :: rest => (k, toJson v) :: toJsonFields rest
end

end Value

end Apollo
