import ApolloModel.Model.FileId
/-
C30: `Name` (name.rs) — a tagged pointer that is either a `&'static str` or one strong reference to an
`Arc<str>`, with hand-written `Clone`/`Drop` — and `Node` (node.rs, a `triomphe::Arc` with copy-on-write),
as a state machine over handle histories.

Heap: allocation ids with a strong count (`strong id = 0` means freed / never allocated) and a text.
A `Name` handle holds a pointer (allocation id, meaningful when the tag bit is set), the tagged file id
word exactly as `TaggedFileId::pack` builds it, and the start offset. `Clone`/`Drop`/`to_cloned_arc` look
at the *tag bit of that word* to decide whether to touch the reference count — as the Rust code does.
-/
namespace Apollo.Shared
open Apollo.FileId

structure NameH where
  ptr : Nat            -- allocation id when heap; unused for static names
  stat : String        -- the `&'static str` when static; "" otherwise
  packed : Nat         -- TaggedFileId: tag bit 63 + file id
  start : Nat
  deriving Repr, DecidableEq

def NameH.isArc (h : NameH) : Bool := tagOf h.packed

structure NodeH where
  cell : Nat
  deriving Repr, DecidableEq

structure St where
  next : Nat                      -- next allocation id
  strong : Nat → Nat              -- Arc<str> strong counts
  text : Nat → String
  names : List NameH
  arcs : List Nat                 -- external `Arc<str>` handles
  -- nodes: cells with a count and a value (`Node<u32>`), location fixed at creation
  ncount : Nat → Nat
  nval : Nat → Nat
  nnext : Nat
  nodes : List NodeH
  -- ghost error flags: a decrement of a zero count (double free) or a read of a freed allocation
  underflow : Bool
  useAfterFree : Bool

def init : St :=
  { next := 0, strong := fun _ => 0, text := fun _ => "", names := [], arcs := [],
    ncount := fun _ => 0, nval := fun _ => 0, nnext := 0, nodes := [], underflow := false, useAfterFree := false }

def upd (f : Nat → α) (i : Nat) (v : α) : Nat → α := fun j => if j = i then v else f j

def NONE_ID : Nat := Apollo.Gen.fileIdNone

/-- `TaggedFileId::pack(tag, id)` for ids below 2^63 (all `FileId`s are) -/
def packT (tag : Bool) (id : Nat) : Nat := (pack tag id).getD 0

def incStrong (s : St) (id : Nat) : St :=
  { s with strong := upd s.strong id (s.strong id + 1), useAfterFree := s.useAfterFree || s.strong id == 0 }

def decStrong (s : St) (id : Nat) : St :=
  { s with strong := upd s.strong id (s.strong id - 1), underflow := s.underflow || s.strong id == 0 }

def removeAt (l : List α) (i : Nat) : List α := l.take i ++ l.drop (i + 1)

inductive Op where
  | nameNew (text : String)                 -- `Name::new_unchecked(&str)`
  | nameStatic (text : String)              -- `Name::new_static_unchecked`
  | nameFromArc (a : Nat)                   -- `Name::from_arc_unchecked(arc)`: consumes arc handle `a`
  | nameClone (n : Nat)
  | nameDrop (n : Nat)
  | nameWithLoc (n fid start : Nat)         -- `name.with_location(span)`
  | nameToArc (n : Nat)                     -- `to_cloned_arc`
  | nameIntoArc (n : Nat)                   -- `Arc::<str>::from(name)`
  | arcClone (a : Nat)
  | arcDrop (a : Nat)
  | nodeNew (v : Nat)
  | nodeClone (n : Nat)
  | nodeDrop (n : Nat)
  | nodeMakeMut (n v : Nat)                 -- `*node.make_mut() = v`
  | nodeGetMut (n v : Nat)                  -- `if let Some(x) = node.get_mut() { *x = v }`
  deriving Repr

def allocStr (s : St) (t : String) : St × Nat :=
  ({ s with next := s.next + 1, strong := upd s.strong s.next 1, text := upd s.text s.next t }, s.next)

/-- one operation; an operation naming a handle that does not exist is rejected (`none`) — Rust's ownership
    rules make such a program unwritable -/
def step (s : St) : Op → Option St
  | .nameNew t =>
    let (s1, id) := allocStr s t
    some { s1 with names := s1.names ++ [{ ptr := id, stat := "", packed := packT true NONE_ID, start := 0 }] }
  | .nameStatic t =>
    some { s with names := s.names ++ [{ ptr := 0, stat := t, packed := packT false NONE_ID, start := 0 }] }
  | .nameFromArc a =>
    match s.arcs[a]? with
    | none => none
    | some id =>
      some { s with arcs := removeAt s.arcs a,
                    names := s.names ++ [{ ptr := id, stat := "", packed := packT true NONE_ID, start := 0 }] }
  | .nameClone n =>
    match s.names[n]? with
    | none => none
    | some h =>
      let s1 := if h.isArc then incStrong s h.ptr else s
      some { s1 with names := s1.names ++ [h] }
  | .nameDrop n =>
    match s.names[n]? with
    | none => none
    | some h =>
      let s1 := if h.isArc then decStrong s h.ptr else s
      some { s1 with names := removeAt s1.names n }
  | .nameWithLoc n fid start =>
    match s.names[n]? with
    | none => none
    | some h =>
      some { s with names := s.names.set n { h with packed := packT (tagOf h.packed) fid, start := start } }
  | .nameToArc n =>
    match s.names[n]? with
    | none => none
    | some h =>
      if h.isArc then
        let s1 := incStrong s h.ptr
        some { s1 with arcs := s1.arcs ++ [h.ptr] }
      else some s
  | .nameIntoArc n =>
    match s.names[n]? with
    | none => none
    | some h =>
      if h.isArc then
        -- to_cloned_arc (+1), then `value` is dropped (-1)
        let s1 := decStrong (incStrong s h.ptr) h.ptr
        some { s1 with arcs := s1.arcs ++ [h.ptr], names := removeAt s1.names n }
      else
        let (s1, id) := allocStr s h.stat
        some { s1 with arcs := s1.arcs ++ [id], names := removeAt s1.names n }
  | .arcClone a =>
    match s.arcs[a]? with
    | none => none
    | some id => let s1 := incStrong s id; some { s1 with arcs := s1.arcs ++ [id] }
  | .arcDrop a =>
    match s.arcs[a]? with
    | none => none
    | some id => let s1 := decStrong s id; some { s1 with arcs := removeAt s1.arcs a }
  | .nodeNew v =>
    some { s with nnext := s.nnext + 1, ncount := upd s.ncount s.nnext 1, nval := upd s.nval s.nnext v,
                  nodes := s.nodes ++ [{ cell := s.nnext }] }
  | .nodeClone n =>
    match s.nodes[n]? with
    | none => none
    | some h => some { s with ncount := upd s.ncount h.cell (s.ncount h.cell + 1), nodes := s.nodes ++ [h] }
  | .nodeDrop n =>
    match s.nodes[n]? with
    | none => none
    | some h => some { s with ncount := upd s.ncount h.cell (s.ncount h.cell - 1), nodes := removeAt s.nodes n }
  | .nodeMakeMut n v =>
    match s.nodes[n]? with
    | none => none
    | some h =>
      if s.ncount h.cell == 1 then some { s with nval := upd s.nval h.cell v }
      else
        -- clone the contents into a fresh cell, release the shared one
        some { s with nnext := s.nnext + 1,
                      ncount := upd (upd s.ncount h.cell (s.ncount h.cell - 1)) s.nnext 1,
                      nval := upd s.nval s.nnext v,
                      nodes := s.nodes.set n { cell := s.nnext } }
  | .nodeGetMut n v =>
    match s.nodes[n]? with
    | none => none
    | some h => if s.ncount h.cell == 1 then some { s with nval := upd s.nval h.cell v } else some s

def run : St → List Op → St
  | s, [] => s
  | s, op :: ops => match step s op with
    | some s' => run s' ops
    | none => run s ops

/-! observations -/

def nameText (s : St) (h : NameH) : String := if h.isArc then s.text h.ptr else h.stat

/-- `Name::location`: `Some((file id, start))` unless the file id is `FileId::NONE` -/
def nameLocation (h : NameH) : Option (Nat × Nat) :=
  let fid := fileIdOf h.packed
  if fid != NONE_ID then some (fid, h.start) else none

/-- references to allocation `id` held by live handles -/
def refs (s : St) (id : Nat) : Nat :=
  s.names.countP (fun h => h.isArc && h.ptr == id) + s.arcs.countP (· == id)

def nrefs (s : St) (c : Nat) : Nat := s.nodes.countP (fun h => h.cell == c)

end Apollo.Shared
