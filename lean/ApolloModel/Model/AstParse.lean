import ApolloModel.Model.Ast
/-
Reference parser: significant tokens → AST, written from the October-2021 document grammar
(one function per production).  It is the inverse the round-trip theorems are stated against; the
correspondence check ties it to the real parser + `ast/from_cst.rs` (same AST on every generated
document that the real parser accepts).  All loops take fuel.
-/
namespace Apollo.Ast

abbrev PR (α : Type) := Option (α × List Tok)

def sTrue : Str := "true".toList
def sFalse : Str := "false".toList
def sNull : Str := "null".toList
def sOn : Str := "on".toList
def sImplements : Str := "implements".toList
def sRepeatable : Str := "repeatable".toList

mutual
/-- Value -/
def pValue : Nat → List Tok → PR Value
  | 0, _ => none
  | f + 1, ts =>
    match ts with
    | .p .dollar :: .name n :: r => some (.var n, r)
    | .int t :: r => some (.int t, r)
    | .float t :: r => some (.float t, r)
    | .str s :: r => some (.str s, r)
    | .name n :: r =>
      if n = sTrue then some (.bool true, r)
      else if n = sFalse then some (.bool false, r)
      else if n = sNull then some (.null, r)
      else some (.enum n, r)
    | .p .lBracket :: r =>
      match pValues f r with
      | some (vs, r') => some (.list vs, r')
      | none => none
    | .p .lCurly :: r =>
      match pObjFields f r with
      | some (fs, r') => some (.obj fs, r')
      | none => none
    | _ => none
/-- `Value* ]` -/
def pValues : Nat → List Tok → PR Values
  | 0, _ => none
  | f + 1, ts =>
    match ts with
    | .p .rBracket :: r => some (.nil, r)
    | _ =>
      match pValue f ts with
      | some (v, r) =>
        match pValues f r with
        | some (vs, r') => some (.cons v vs, r')
        | none => none
      | none => none
/-- `ObjectField* }` -/
def pObjFields : Nat → List Tok → PR ObjFields
  | 0, _ => none
  | f + 1, ts =>
    match ts with
    | .p .rCurly :: r => some (.nil, r)
    | .name n :: .p .colon :: r =>
      match pValue f r with
      | some (v, r1) =>
        match pObjFields f r1 with
        | some (fs, r2) => some (.cons n v fs, r2)
        | none => none
      | none => none
    | _ => none
end

/-- Type -/
def pTy : Nat → List Tok → PR Ty
  | 0, _ => none
  | f + 1, ts =>
    match ts with
    | .name n :: .p .bang :: r => some (.nonNullNamed n, r)
    | .name n :: r => some (.named n, r)
    | .p .lBracket :: r =>
      match pTy f r with
      | some (t, .p .rBracket :: .p .bang :: r') => some (.nonNullList t, r')
      | some (t, .p .rBracket :: r') => some (.list t, r')
      | _ => none
    | _ => none

/-- `Argument* )` (after the first argument has been seen to exist) -/
def pArgsTail : Nat → List Tok → PR (List (Str × Value))
  | 0, _ => none
  | f + 1, ts =>
    match ts with
    | .p .rParen :: r => some ([], r)
    | .name n :: .p .colon :: r =>
      match pValue f r with
      | some (v, r1) =>
        match pArgsTail f r1 with
        | some (as, r2) => some ((n, v) :: as, r2)
        | none => none
      | none => none
    | _ => none

/-- Arguments? — `( Argument+ )` -/
def pArguments (f : Nat) : List Tok → PR (List (Str × Value))
  | .p .lParen :: r =>
    match pArgsTail f r with
    | some ([], _) => none            -- `()` is not in the grammar
    | x => x
  | ts => some ([], ts)

/-- Directives? -/
def pDirectives : Nat → List Tok → PR (List Directive)
  | 0, _ => none
  | f + 1, ts =>
    match ts with
    | .p .at :: .name n :: r =>
      match pArguments f r with
      | some (as, r1) =>
        match pDirectives f r1 with
        | some (ds, r2) => some ({ name := n, args := as } :: ds, r2)
        | none => none
      | none => none
    | _ => some ([], ts)

mutual
/-- Selection -/
def pSel : Nat → List Tok → PR Sel
  | 0, _ => none
  | f + 1, ts =>
    match ts with
    | .p .spread :: .name n :: r =>
      if n = sOn then
        match r with
        | .name tc :: r0 =>
          match pDirectives f r0 with
          | some (ds, .p .lCurly :: r1) =>
            match pSelsNE f r1 with
            | some (ss, r2) => some (.inline (some tc) ds ss, r2)
            | none => none
          | _ => none
        | _ => none
      else
        match pDirectives f r with
        | some (ds, r1) => some (.spread n ds, r1)
        | none => none
    | .p .spread :: r =>
      match pDirectives f r with
      | some (ds, .p .lCurly :: r1) =>
        match pSelsNE f r1 with
        | some (ss, r2) => some (.inline none ds ss, r2)
        | none => none
      | _ => none
    | .name a :: .p .colon :: .name n :: r => pFieldRest f (some a) n r
    | .name n :: r => pFieldRest f none n r
    | _ => none
/-- Arguments? Directives? SelectionSet? of a field -/
def pFieldRest : Nat → Option Str → Str → List Tok → PR Sel
  | 0, _, _, _ => none
  | f + 1, alias, n, ts =>
    match pArguments f ts with
    | some (as, r1) =>
      match pDirectives f r1 with
      | some (ds, .p .lCurly :: r2) =>
        match pSelsNE f r2 with
        | some (ss, r3) => some (.field alias n as ds ss, r3)
        | none => none
      | some (ds, r2) => some (.field alias n as ds .nil, r2)
      | none => none
    | none => none
/-- `Selection+ }` -/
def pSelsNE : Nat → List Tok → PR Sels
  | 0, _ => none
  | f + 1, ts =>
    match pSel f ts with
    | some (s, r) =>
      match pSelsTail f r with
      | some (ss, r') => some (.cons s ss, r')
      | none => none
    | none => none
/-- `Selection* }` -/
def pSelsTail : Nat → List Tok → PR Sels
  | 0, _ => none
  | f + 1, ts =>
    match ts with
    | .p .rCurly :: r => some (.nil, r)
    | _ =>
      match pSel f ts with
      | some (s, r) =>
        match pSelsTail f r with
        | some (ss, r') => some (.cons s ss, r')
        | none => none
      | none => none
end

/-- `{ Selection+ }` -/
def pSelectionSet (f : Nat) : List Tok → PR Sels
  | .p .lCurly :: r => pSelsNE f r
  | _ => none

/-- DefaultValue? -/
def pDefault (f : Nat) : List Tok → PR (Option Value)
  | .p .eq :: r =>
    match pValue f r with
    | some (v, r') => some (some v, r')
    | none => none
  | ts => some (none, ts)

/-- `VariableDefinition* )` -/
def pVarDefsTail : Nat → List Tok → PR (List VarDef)
  | 0, _ => none
  | f + 1, ts =>
    match ts with
    | .p .rParen :: r => some ([], r)
    | .p .dollar :: .name n :: .p .colon :: r =>
      match pTy f r with
      | some (ty, r1) =>
        match pDefault f r1 with
        | some (dv, r2) =>
          match pDirectives f r2 with
          | some (ds, r3) =>
            match pVarDefsTail f r3 with
            | some (vs, r4) => some ({ name := n, ty := ty, default := dv, dirs := ds } :: vs, r4)
            | none => none
          | none => none
        | none => none
      | none => none
    | _ => none

def pVarDefs (f : Nat) : List Tok → PR (List VarDef)
  | .p .lParen :: r =>
    match pVarDefsTail f r with
    | some ([], _) => none
    | x => x
  | ts => some ([], ts)

/-- Description? -/
def pDescription : List Tok → Option Str × List Tok
  | .str s :: r => (some s, r)
  | ts => (none, ts)

/-- InputValueDefinition -/
def pInputValueDef (f : Nat) (ts : List Tok) : PR InputValueDef :=
  match pDescription ts with
  | (desc, .name n :: .p .colon :: r) =>
    match pTy f r with
    | some (ty, r1) =>
      match pDefault f r1 with
      | some (dv, r2) =>
        match pDirectives f r2 with
        | some (ds, r3) => some ({ desc := desc, name := n, ty := ty, default := dv, dirs := ds }, r3)
        | none => none
      | none => none
    | none => none
  | _ => none

/-- `InputValueDefinition* close` -/
def pInputValueDefsTail (close : P) : Nat → List Tok → PR (List InputValueDef)
  | 0, _ => none
  | f + 1, ts =>
    match ts with
    | .p k :: r =>
      if k = close then some ([], r) else none
    | _ =>
      match pInputValueDef f ts with
      | some (v, r1) =>
        match pInputValueDefsTail close f r1 with
        | some (vs, r2) => some (v :: vs, r2)
        | none => none
      | none => none

/-- ArgumentsDefinition? — `( InputValueDefinition+ )` -/
def pArgumentsDefinition (f : Nat) : List Tok → PR (List InputValueDef)
  | .p .lParen :: r =>
    match pInputValueDefsTail .rParen f r with
    | some ([], _) => none
    | x => x
  | ts => some ([], ts)

/-- InputFieldsDefinition? — `{ InputValueDefinition+ }` -/
def pInputFieldsDefinition (f : Nat) : List Tok → PR (List InputValueDef)
  | .p .lCurly :: r =>
    match pInputValueDefsTail .rCurly f r with
    | some ([], _) => none
    | x => x
  | ts => some ([], ts)

/-- FieldDefinition -/
def pFieldDef (f : Nat) (ts : List Tok) : PR FieldDef :=
  match pDescription ts with
  | (desc, .name n :: r) =>
    match pArgumentsDefinition f r with
    | some (as, .p .colon :: r1) =>
      match pTy f r1 with
      | some (ty, r2) =>
        match pDirectives f r2 with
        | some (ds, r3) => some ({ desc := desc, name := n, args := as, ty := ty, dirs := ds }, r3)
        | none => none
      | none => none
    | _ => none
  | _ => none

def pFieldDefsTail : Nat → List Tok → PR (List FieldDef)
  | 0, _ => none
  | f + 1, ts =>
    match ts with
    | .p .rCurly :: r => some ([], r)
    | _ =>
      match pFieldDef f ts with
      | some (v, r1) =>
        match pFieldDefsTail f r1 with
        | some (vs, r2) => some (v :: vs, r2)
        | none => none
      | none => none

/-- FieldsDefinition? -/
def pFieldsDefinition (f : Nat) : List Tok → PR (List FieldDef)
  | .p .lCurly :: r =>
    match pFieldDefsTail f r with
    | some ([], _) => none
    | x => x
  | ts => some ([], ts)

def pEnumValueDef (f : Nat) (ts : List Tok) : PR EnumValueDef :=
  match pDescription ts with
  | (desc, .name n :: r) =>
    match pDirectives f r with
    | some (ds, r1) => some ({ desc := desc, value := n, dirs := ds }, r1)
    | none => none
  | _ => none

def pEnumValueDefsTail : Nat → List Tok → PR (List EnumValueDef)
  | 0, _ => none
  | f + 1, ts =>
    match ts with
    | .p .rCurly :: r => some ([], r)
    | _ =>
      match pEnumValueDef f ts with
      | some (v, r1) =>
        match pEnumValueDefsTail f r1 with
        | some (vs, r2) => some (v :: vs, r2)
        | none => none
      | none => none

def pEnumValuesDefinition (f : Nat) : List Tok → PR (List EnumValueDef)
  | .p .lCurly :: r =>
    match pEnumValueDefsTail f r with
    | some ([], _) => none
    | x => x
  | ts => some ([], ts)

/-- `(sep Name)*` -/
def pSepNames (sep : P) : Nat → List Tok → List Str × List Tok
  | 0, ts => ([], ts)
  | f + 1, ts =>
    match ts with
    | .p k :: .name n :: r =>
      if k = sep then
        let (ns, r') := pSepNames sep f r
        (n :: ns, r')
      else ([], ts)
    | _ => ([], ts)

/-- `sep? Name (sep Name)*` after the introducing token has been consumed -/
def pSepList (sep : P) (f : Nat) : List Tok → PR (List Str)
  | .p k :: .name n :: r =>
    if k = sep then
      let (ns, r') := pSepNames sep f r
      some (n :: ns, r')
    else none
  | .name n :: r =>
    let (ns, r') := pSepNames sep f r
    some (n :: ns, r')
  | _ => none

/-- ImplementsInterfaces? -/
def pImplements (f : Nat) : List Tok → PR (List Str)
  | .name n :: r => if n = sImplements then pSepList .amp f r else some ([], .name n :: r)
  | ts => some ([], ts)

/-- UnionMemberTypes? -/
def pUnionMembers (f : Nat) : List Tok → PR (List Str)
  | .p .eq :: r => pSepList .pipe f r
  | ts => some ([], ts)

def opTypeOf (n : Str) : Option OpType :=
  if n = "query".toList then some .query
  else if n = "mutation".toList then some .mutation
  else if n = "subscription".toList then some .subscription
  else none

/-- `RootOperationTypeDefinition* }` -/
def pRootOpsTail : Nat → List Tok → PR (List (OpType × Str))
  | 0, _ => none
  | f + 1, ts =>
    match ts with
    | .p .rCurly :: r => some ([], r)
    | .name o :: .p .colon :: .name n :: r =>
      match opTypeOf o with
      | some ot =>
        match pRootOpsTail f r with
        | some (rs, r') => some ((ot, n) :: rs, r')
        | none => none
      | none => none
    | _ => none

/-- `{ RootOperationTypeDefinition+ }` -/
def pRootOps (f : Nat) : List Tok → PR (List (OpType × Str))
  | .p .lCurly :: r =>
    match pRootOpsTail f r with
    | some ([], _) => none
    | x => x
  | _ => none

/-- `type`/`interface` body: Name ImplementsInterfaces? Directives? FieldsDefinition? -/
def pObjectTypeLike (f : Nat) : List Tok → PR (Str × List Str × List Directive × List FieldDef)
  | .name n :: r =>
    match pImplements f r with
    | some (is, r1) =>
      match pDirectives f r1 with
      | some (ds, r2) =>
        match pFieldsDefinition f r2 with
        | some (fs, r3) => some ((n, is, ds, fs), r3)
        | none => none
      | none => none
    | none => none
  | _ => none

def pUnionBody (f : Nat) : List Tok → PR (Str × List Directive × List Str)
  | .name n :: r =>
    match pDirectives f r with
    | some (ds, r1) =>
      match pUnionMembers f r1 with
      | some (ms, r2) => some ((n, ds, ms), r2)
      | none => none
    | none => none
  | _ => none

def pEnumBody (f : Nat) : List Tok → PR (Str × List Directive × List EnumValueDef)
  | .name n :: r =>
    match pDirectives f r with
    | some (ds, r1) =>
      match pEnumValuesDefinition f r1 with
      | some (vs, r2) => some ((n, ds, vs), r2)
      | none => none
    | none => none
  | _ => none

def pInputBody (f : Nat) : List Tok → PR (Str × List Directive × List InputValueDef)
  | .name n :: r =>
    match pDirectives f r with
    | some (ds, r1) =>
      match pInputFieldsDefinition f r1 with
      | some (vs, r2) => some ((n, ds, vs), r2)
      | none => none
    | none => none
  | _ => none

/-- OperationDefinition after its operation-type keyword -/
def pOperationRest (f : Nat) (ot : OpType) (ts : List Tok) : PR Definition :=
  let (name, r0) : Option Str × List Tok :=
    match ts with
    | .name n :: r => (some n, r)
    | _ => (none, ts)
  match pVarDefs f r0 with
  | some (vs, r1) =>
    match pDirectives f r1 with
    | some (ds, r2) =>
      match pSelectionSet f r2 with
      | some (ss, r3) => some (.operation ot name vs ds ss, r3)
      | none => none
    | none => none
  | none => none

/-- the part of a type-system definition after `Description? keyword` -/
def pTypeSystemRest (f : Nat) (desc : Option Str) (kwd : Str) (r : List Tok) : PR Definition :=
  if kwd = "schema".toList then
    match pDirectives f r with
    | some (ds, r1) =>
      match pRootOps f r1 with
      | some (rs, r2) => some (.schemaDef desc ds rs, r2)
      | none => none
    | none => none
  else if kwd = "scalar".toList then
    match r with
    | .name n :: r0 =>
      match pDirectives f r0 with
      | some (ds, r1) => some (.scalarDef desc n ds, r1)
      | none => none
    | _ => none
  else if kwd = "type".toList then
    match pObjectTypeLike f r with
    | some ((n, is, ds, fs), r1) => some (.objectDef desc n is ds fs, r1)
    | none => none
  else if kwd = "interface".toList then
    match pObjectTypeLike f r with
    | some ((n, is, ds, fs), r1) => some (.interfaceDef desc n is ds fs, r1)
    | none => none
  else if kwd = "union".toList then
    match pUnionBody f r with
    | some ((n, ds, ms), r1) => some (.unionDef desc n ds ms, r1)
    | none => none
  else if kwd = "enum".toList then
    match pEnumBody f r with
    | some ((n, ds, vs), r1) => some (.enumDef desc n ds vs, r1)
    | none => none
  else if kwd = "input".toList then
    match pInputBody f r with
    | some ((n, ds, vs), r1) => some (.inputDef desc n ds vs, r1)
    | none => none
  else if kwd = "directive".toList then
    match r with
    | .p .at :: .name n :: r0 =>
      match pArgumentsDefinition f r0 with
      | some (as, r1) =>
        let (rep, r2) : Bool × List Tok :=
          match r1 with
          | .name x :: r' => if x = sRepeatable then (true, r') else (false, r1)
          | _ => (false, r1)
        match r2 with
        | .name o :: r3 =>
          if o = sOn then
            match pSepList .pipe f r3 with
            | some (ls, r4) => some (.directiveDef desc n as rep ls, r4)
            | none => none
          else none
        | _ => none
      | none => none
    | _ => none
  else none

/-- the part of an extension after `extend keyword` -/
def pExtensionRest (f : Nat) (kwd : Str) (r : List Tok) : PR Definition :=
  if kwd = "schema".toList then
    match pDirectives f r with
    | some (ds, .p .lCurly :: r1) =>
      match pRootOps f (.p .lCurly :: r1) with
      | some (rs, r2) => some (.schemaExt ds rs, r2)
      | none => none
    | some (ds, r1) => some (.schemaExt ds [], r1)
    | none => none
  else if kwd = "scalar".toList then
    match r with
    | .name n :: r0 =>
      match pDirectives f r0 with
      | some (ds, r1) => some (.scalarExt n ds, r1)
      | none => none
    | _ => none
  else if kwd = "type".toList then
    match pObjectTypeLike f r with
    | some ((n, is, ds, fs), r1) => some (.objectExt n is ds fs, r1)
    | none => none
  else if kwd = "interface".toList then
    match pObjectTypeLike f r with
    | some ((n, is, ds, fs), r1) => some (.interfaceExt n is ds fs, r1)
    | none => none
  else if kwd = "union".toList then
    match pUnionBody f r with
    | some ((n, ds, ms), r1) => some (.unionExt n ds ms, r1)
    | none => none
  else if kwd = "enum".toList then
    match pEnumBody f r with
    | some ((n, ds, vs), r1) => some (.enumExt n ds vs, r1)
    | none => none
  else if kwd = "input".toList then
    match pInputBody f r with
    | some ((n, ds, vs), r1) => some (.inputExt n ds vs, r1)
    | none => none
  else none

/-- Definition -/
def pDefinition (f : Nat) (ts : List Tok) : PR Definition :=
  match ts with
  | .p .lCurly :: _ =>
    match pSelectionSet f ts with
    | some (ss, r) => some (.operation .query none [] [] ss, r)
    | none => none
  | .str d :: .name k :: r => pTypeSystemRest f (some d) k r
  | .name k :: r =>
    match opTypeOf k with
    | some ot => pOperationRest f ot r
    | none =>
      if k = "fragment".toList then
        match r with
        | .name n :: .name o :: .name tc :: r0 =>
          if n ≠ sOn ∧ o = sOn then
            match pDirectives f r0 with
            | some (ds, r1) =>
              match pSelectionSet f r1 with
              | some (ss, r2) => some (.fragment n tc ds ss, r2)
              | none => none
            | none => none
          else none
        | _ => none
      else if k = "extend".toList then
        match r with
        | .name k2 :: r0 => pExtensionRest f k2 r0
        | _ => none
      else pTypeSystemRest f none k r
  | _ => none

/-- `Definition*` up to the end of input -/
def pDefinitions : Nat → List Tok → Option (List Definition)
  | 0, _ => none
  | f + 1, ts =>
    match ts with
    | [] => some []
    | _ =>
      match pDefinition f ts with
      | some (d, r) =>
        match pDefinitions f r with
        | some ds => some (d :: ds)
        | none => none
      | none => none

/-- Document: `Definition+` -/
def pDocument (f : Nat) (ts : List Tok) : Option Document :=
  match pDefinitions f ts with
  | some [] => none
  | x => x

end Apollo.Ast
