import ApolloModel.Model.Numbers
/-
Model of the three mechanisms of apollo-smith that make generated documents valid
(crates/apollo-smith/src):

* `name.rs`: `limited_string` (bytes ↦ name over the two character sets, reserved words retried) and
  `type_name` (first of `base, base0, base1, …` that is not in `used_type_names`; the set grows).
  The byte source is `arbitrary::Unstructured` (`int_in_range`, `choose`), modelled exactly for `usize`.
* `implements_graph.rs` + `interface.rs`/`object.rs`: `closure` (the start node plus everything
  reachable along `implements` edges), the pick of `additional_implements` / `implements_interfaces`
  (union of the closures of the chosen candidates) and `expand_transitive_*_implementations`
  (the base definition receives the closure minus what extensions already declare).
* `lib.rs`/`fragment.rs`: `reachable_fragment_names` + `prune_unused_fragments`.

Graph searches of the code (petgraph `Bfs`, the `frontier` work list) are modelled by their result as
a set: `saturate` adds successors until nothing new appears; its fuel is the size of the finite
universe of candidate names and fuel sufficiency is a theorem (Proofs/Smith.lean).
Names are `List Char`.
-/
namespace Apollo.SmithGen
open Apollo Apollo.Num

abbrev Name := List Char

/-! ### `arbitrary::Unstructured` -/

/-- the accumulation loop of `int_in_range_impl` for `usize` (8 bytes at most, most significant first) -/
def takeInt (delta : Nat) : Nat → Nat → Nat → List Nat → Nat × List Nat
  | 0, _, acc, bytes => (acc, bytes)
  | fuel + 1, consumed, acc, bytes =>
    if delta >>> (consumed * 8) > 0 then
      match bytes with
      | [] => (acc, [])
      | b :: rest => takeInt delta fuel (consumed + 1) ((acc <<< 8 ||| b) % 2 ^ 64) rest
    else (acc, bytes)

/-- `Unstructured::int_in_range(start..=end)`; never fails: exhausted input yields `start` -/
def intInRange (start stop : Nat) (bytes : List Nat) : Nat × List Nat :=
  if start == stop then (start, bytes)
  else
    let delta := stop - start
    let r := takeInt delta 8 0 0 bytes
    (start + r.1 % (delta + 1), r.2)

/-- `Unstructured::choose_index(len)` (`none` = `Error::EmptyChoose`) -/
def chooseIndex (len : Nat) (bytes : List Nat) : Option (Nat × List Nat) :=
  if len == 0 then none else some (intInRange 0 (len - 1) bytes)

/-! ### names -/

def charsetHead : List Char := "ABCDEFGHIJKLMNOPQRSTUVWXYZabcdefghijklmnopqrstuvwxyz".toList
def charsetBody : List Char := "ABCDEFGHIJKLMNOPQRSTUVWXYZabcdefghijklmnopqrstuvwxyz_0123456789".toList

def reservedKeywords : List Name :=
  ["on", "Int", "Float", "String", "Boolean", "ID", "type", "enum", "union", "extend", "scalar", "directive",
   "query", "mutation", "subscription", "schema", "interface"].map String.toList

/-- `size` characters, the first from the head set -/
def takeChars : Nat → Bool → List Nat → List Char × List Nat
  | 0, _, bytes => ([], bytes)
  | n + 1, first, bytes =>
    let cs := if first then charsetHead else charsetBody
    let r := intInRange 0 (cs.length - 1) bytes
    let rest := takeChars n false r.2
    (cs.getD r.1 'A' :: rest.1, rest.2)

/-- `str::trim_end_matches('_')` -/
def trimEndUnderscore (s : Name) : Name := (s.reverse.dropWhile (· == '_')).reverse

/-- `limited_string(max)`: retried while the result is empty or a reserved word.  The fuel is only
    consumed by retries; exhausted input yields "A", so `bytes.length + 1` retries always suffice. -/
def limitedString (max : Nat) : Nat → List Nat → Option (Name × List Nat)
  | 0, _ => none
  | fuel + 1, bytes =>
    let sz := intInRange 1 max bytes
    let cs := takeChars sz.1 true sz.2
    let s := trimEndUnderscore cs.1
    if !s.isEmpty && !reservedKeywords.contains s then some (s, cs.2) else limitedString max fuel cs.2

/-- the candidates of `type_name` in the order they are tried: `base`, `base0`, `base1`, … -/
def candidate (base : Name) : Nat → Name
  | 0 => base
  | k + 1 => base ++ natDigits k

/-- the `while self.used_type_names.contains(..)` loop; `none` = out of fuel -/
def firstFree (used : List Name) (base : Name) : Nat → Nat → Option Name
  | 0, _ => none
  | fuel + 1, k => if used.contains (candidate base k) then firstFree used base fuel (k + 1) else some (candidate base k)

/-- `type_name` given the base string: the returned name and the grown set -/
def typeNameFrom (used : List Name) (base : Name) : Option (Name × List Name) :=
  (firstFree used base (used.length + 1) 0).map fun n => (n, n :: used)

/-- `DocumentBuilder::type_name`: bytes ↦ (name, used', remaining bytes) -/
def typeName (used : List Name) (bytes : List Nat) : Option (Name × List Name × List Nat) :=
  match limitedString 30 (bytes.length + 2) bytes with
  | none => none
  | some (base, rest) => (typeNameFrom used base).map fun r => (r.1, r.2, rest)

/-- `k` successive calls -/
def typeNames : Nat → List Name → List Nat → List Name → Option (List Name)
  | 0, _, _, acc => some acc.reverse
  | k + 1, used, bytes, acc =>
    match typeName used bytes with
    | none => none
    | some (n, used', rest) => typeNames k used' rest (n :: acc)

/-! ### saturation (reachability as a set) -/

def insertNew (s : List Name) (x : Name) : List Name := if s.contains x then s else s ++ [x]

/-- add every successor of every member -/
def expand (succ : Name → List Name) (s : List Name) : List Name := (s.flatMap succ).foldl insertNew s

def stableB (succ : Name → List Name) (s : List Name) : Bool := (s.flatMap succ).all s.contains

def saturate (succ : Name → List Name) : Nat → List Name → List Name
  | 0, s => s
  | fuel + 1, s => if stableB succ s then s else saturate succ fuel (expand succ s)

/-! ### the implements graph -/

structure Graph where
  nodes : List Name                 -- `by_name` keys
  edges : List (Name × Name)        -- `X implements Y` ⇒ `(X, Y)`

def Graph.succ (g : Graph) (x : Name) : List Name := (g.edges.filter (·.1 == x)).map (·.2)

/-- every name that can occur in a closure -/
def Graph.universe (g : Graph) (roots : List Name) : List Name := roots ++ g.edges.map (·.2)

/-- `ImplementsGraph::closure(start)`: empty when `start` is not a node -/
def Graph.closure (g : Graph) (start : Name) : List Name :=
  if g.nodes.contains start then saturate g.succ ((g.universe [start]).length + 1) [start] else []

/-- one definition (base or extension) of an interface or object type -/
structure Def where
  name : Name
  extend : Bool
  interfaces : List Name

/-- the graph `build` / `with_document` assemble from the definitions -/
def graphOf (defs : List Def) : Graph :=
  { nodes := defs.map (·.name) ++ defs.flatMap (·.interfaces),
    edges := defs.flatMap fun d => d.interfaces.map fun p => (d.name, p) }

/-- apply `f` to the first definition that satisfies `p` -/
def modifyFirst (p : Def → Bool) (f : Def → Def) : List Def → List Def
  | [] => []
  | d :: ds => if p d then f d :: ds else d :: modifyFirst p f ds

/-- `expand_transitive_*_implementations`: write the closure (minus the type itself and minus what its
    extensions declare) onto the base definition (`base_def_index`: the first non-extension with that
    name, else the first definition with that name, else nothing) -/
def expandTransitive (g : Graph) (defs : List Def) (name : Name) : List Def :=
  let all := (g.closure name).filter (· != name)
  let byExt := (defs.filter fun d => d.extend && d.name == name).flatMap (·.interfaces)
  let toAdd := all.filter fun p => !byExt.contains p
  let f := fun (d : Def) => { d with interfaces := toAdd.foldl insertNew d.interfaces }
  if defs.any (fun d => !d.extend && d.name == name) then modifyFirst (fun d => !d.extend && d.name == name) f defs
  else modifyFirst (fun d => d.name == name) f defs

/-- the loop of `backfill_inherited_*_fields` restricted to the `implements` clauses: every name of
    `order` in turn, against the graph as it was when the loop started -/
def backfillAll (g : Graph) (defs : List Def) (order : List Name) : List Def := order.foldl (expandTransitive g) defs

/-- what a type declares in total (base + extensions) -/
def declared (defs : List Def) (name : Name) : List Name :=
  (defs.filter (·.name == name)).flatMap (·.interfaces)

/-- the picks of `additional_implements(&IndexMap::new(), None)` when no field signature conflicts:
    the union of the closures of the chosen candidates -/
def acceptAll (g : Graph) : List Name → List Name → List Name
  | [], acc => acc
  | c :: rest, acc => acceptAll g rest ((g.closure c).foldl insertNew acc)

/-- `implements_interfaces()` on a builder holding `itfNames` interface definitions (in order) -/
def implementsInterfaces (g : Graph) (itfNames : List Name) (bytes : List Nat) : Option (List Name) :=
  if itfNames.isEmpty then some []
  else
    let n := intInRange 0 (itfNames.length - 1) bytes
    let rec pick : Nat → List Nat → List Name → Option (List Name)
      | 0, _, acc => some acc.reverse
      | k + 1, bytes, acc =>
        match chooseIndex itfNames.length bytes with
        | none => none
        | some (i, rest) => pick k rest (itfNames.getD i [] :: acc)
    (pick n.1 n.2 []).map fun cands => acceptAll g cands []

/-! ### fragment pruning -/

structure Frag where
  name : Name
  spreads : List Name     -- `collect_fragment_spreads` of its selection set

/-- the spreads of the first fragment with that name (`fragments.iter().find(..)`) -/
def fragSucc (frags : List Frag) (x : Name) : List Name :=
  match frags.find? (·.name == x) with
  | some f => f.spreads
  | none => []

def fragUniverse (ops : List (List Name)) (frags : List Frag) : List Name :=
  ops.flatten ++ frags.flatMap (·.spreads)

/-- `reachable_fragment_names(operations, fragments)` -/
def reachable (ops : List (List Name)) (frags : List Frag) : List Name :=
  saturate (fragSucc frags) ((fragUniverse ops frags).length + 1) (ops.flatten.foldl insertNew [])

/-- `prune_unused_fragments`: `fragment_defs.retain(|f| reachable.contains(&f.name))` -/
def prune (ops : List (List Name)) (frags : List Frag) : List Frag :=
  frags.filter fun f => (reachable ops frags).contains f.name

end Apollo.SmithGen
