import ApolloModel.Model.Name
/-
Model of `crates/apollo-compiler/src/coordinate.rs`: the `FromStr` cascade
(`split_once` / `strip_prefix` / `or_else`), `Display`, and `lookup` on an abstract schema.
-/
namespace Apollo.Coord

abbrev Str := List Char

inductive Coord where
  | type (ty : Str)
  | typeAttribute (ty attr : Str)
  | fieldArgument (ty field arg : Str)
  | directive (d : Str)
  | directiveArgument (d arg : Str)
  deriving Repr, DecidableEq

/-- `str::split_once(char)` -/
def splitOnce (c : Char) : Str → Option (Str × Str)
  | [] => none
  | x :: xs =>
    if x == c then some ([], xs)
    else match splitOnce c xs with
      | some (a, b) => some (x :: a, b)
      | none => none

/-- `Name::try_from(&str)` succeeded? -/
def nameOk (s : Str) : Option Str := if isValidName s then some s else none

def parseType (input : Str) : Option Coord :=
  (nameOk input).map .type

def parseTypeAttribute (input : Str) : Option (Str × Str) :=
  match splitOnce '.' input with
  | none => none
  | some (tyName, field) =>
    match nameOk tyName, nameOk field with
    | some t, some f => some (t, f)
    | _, _ => none

def parseFieldArgument (input : Str) : Option Coord :=
  match splitOnce '(' input with
  | none => none
  | some (field, rest) =>
    match parseTypeAttribute field with
    | none => none
    | some (ty, attr) =>
      match splitOnce ':' rest with
      | some (argument, [')']) => (nameOk argument).map fun a => .fieldArgument ty attr a
      | _ => none

def parseDirective (input : Str) : Option Str :=
  match input with
  | '@' :: d => nameOk d
  | _ => none

def parseDirectiveArgument (input : Str) : Option Coord :=
  match splitOnce '(' input with
  | none => none
  | some (directive, rest) =>
    match parseDirective directive with
    | none => none
    | some d =>
      match splitOnce ':' rest with
      | some (argument, [')']) => (nameOk argument).map fun a => .directiveArgument d a
      | _ => none

/-- `impl FromStr for SchemaCoordinate` (`input.starts_with('@')` selects the cascade) -/
def parse (input : Str) : Option Coord :=
  if input.head? == some '@' then
    match parseDirectiveArgument input with
    | some c => some c
    | none => (parseDirective input).map .directive
  else
    match parseFieldArgument input with
    | some c => some c
    | none =>
      match parseTypeAttribute input with
      | some (t, a) => some (.typeAttribute t a)
      | none => parseType input

/-- `impl Display` -/
def print : Coord → Str
  | .type t => t
  | .typeAttribute t a => t ++ '.' :: a
  | .fieldArgument t f a => t ++ '.' :: f ++ '(' :: a ++ [':', ')']
  | .directive d => '@' :: d
  | .directiveArgument d a => '@' :: d ++ '(' :: a ++ [':', ')']

/-- every name of the coordinate follows the Name grammar -/
def Coord.valid : Coord → Bool
  | .type t => isValidName t
  | .typeAttribute t a => isValidName t && isValidName a
  | .fieldArgument t f a => isValidName t && isValidName f && isValidName a
  | .directive d => isValidName d
  | .directiveArgument d a => isValidName d && isValidName a

/-! ### lookup on an abstract schema -/

structure FieldDef where
  name : Str
  args : List Str
  deriving Repr, DecidableEq

inductive TypeDef where
  | scalar
  | object (fields : List FieldDef)
  | interface (fields : List FieldDef)
  | union
  | enum (values : List Str)
  | inputObject (fields : List Str)
  deriving Repr, DecidableEq

structure Schema where
  types : List (Str × TypeDef)        -- IndexMap: at most one entry per name
  directives : List (Str × List Str)
  deriving Repr

inductive Found where
  | type (name : Str)
  | directive (name : Str)
  | field (ty name : Str)
  | inputField (ty name : Str)
  | enumValue (ty name : Str)
  | fieldArgument (ty field arg : Str)
  | directiveArgument (d arg : Str)
  deriving Repr, DecidableEq

inductive LookupError where
  | missingType | missingAttribute | invalidArgumentAttribute | missingArgument | invalidType
  deriving Repr, DecidableEq

def lookupAttr (s : Schema) (ty attr : Str) : Except LookupError (Found × Option FieldDef) :=
  match s.types.lookup ty with
  | none => .error .missingType
  | some (.enum vs) => if attr ∈ vs then .ok (.enumValue ty attr, none) else .error .missingAttribute
  | some (.inputObject fs) => if attr ∈ fs then .ok (.inputField ty attr, none) else .error .missingAttribute
  | some (.object fs) | some (.interface fs) =>
    match fs.find? (·.name == attr) with
    | some f => .ok (.field ty attr, some f)
    | none => .error .missingAttribute
  | some .union | some .scalar => .error .invalidType

def lookup (s : Schema) : Coord → Except LookupError Found
  | .type t => match s.types.lookup t with
    | some _ => .ok (.type t)
    | none => .error .missingType
  | .typeAttribute t a => (lookupAttr s t a).map (·.1)
  | .fieldArgument t f a =>
    match lookupAttr s t f with
    | .error e => .error e
    | .ok (_, some fd) => if a ∈ fd.args then .ok (.fieldArgument t f a) else .error .missingArgument
    | .ok (_, none) => .error .invalidArgumentAttribute
  | .directive d => match s.directives.lookup d with
    | some _ => .ok (.directive d)
    | none => .error .missingType
  | .directiveArgument d a => match s.directives.lookup d with
    | some args => if a ∈ args then .ok (.directiveArgument d a) else .error .missingArgument
    | none => .error .missingType

end Apollo.Coord
