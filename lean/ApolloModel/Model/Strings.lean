/-
Model of the string-value functions:
 * `unescape_string`, `split_lines` (GraphQLLines), `replace_into`, `unescape_block_string`,
   `String::from(&cst::StringValue)`           — crates/apollo-parser/src/cst/node_ext.rs
 * `serialize_string_value`, `serialize_block_string`, `can_be_block_string`
                                               — crates/apollo-compiler/src/ast/serialize.rs
Text is `List Char`; `none` is a Rust panic (`unwrap` on a bad hex digit / surrogate, slice out of range).
-/
namespace Apollo.Strs

abbrev Str := List Char

def hexDigit? (c : Char) : Option Nat :=
  if 48 ≤ c.toNat && c.toNat ≤ 57 then some (c.toNat - 48)
  else if 97 ≤ c.toNat && c.toNat ≤ 102 then some (c.toNat - 87)
  else if 65 ≤ c.toNat && c.toNat ≤ 70 then some (c.toNat - 55)
  else none

/-- `iter.by_ref().take(4).fold(0, |acc, c| (acc << 4) + c.to_digit(16).unwrap())` -/
def hexFold : Str → Option Nat
  | [] => some 0
  | cs => cs.foldl (fun acc c => match acc, hexDigit? c with
      | some a, some d => some (a * 16 + d)
      | _, _ => none) (some 0)

/-- `char::from_u32(value)` for `value < 0x110000` -/
def charFromU32? (v : Nat) : Option Char :=
  if 0xD800 ≤ v && v ≤ 0xDFFF then none
  else if v < 0x110000 then some (Char.ofNat v) else none

def escapedChar? (c : Char) : Option Char :=
  if c == '"' || c == '\\' || c == '/' then some c
  else if c == 'b' then some (Char.ofNat 8)
  else if c == 'f' then some (Char.ofNat 12)
  else if c == 'n' then some '\n'
  else if c == 'r' then some '\r'
  else if c == 't' then some '\t'
  else none

/-- `unescape_string` (fuel = input length + 1; each step consumes at least one character) -/
def unescapeStringAux : Nat → Str → Option Str
  | 0, _ => some []
  | _ + 1, [] => some []
  | _ + 1, ['\\'] => some ['\\']
  | fuel + 1, '\\' :: 'u' :: rest =>
    match hexFold (rest.take 4) with
    | none => none                                  -- `to_digit(16).unwrap()`
    | some v =>
      match charFromU32? v with
      | none => none                                -- `char::from_u32(value).unwrap()`
      | some ch => (unescapeStringAux fuel (rest.drop 4)).map (ch :: ·)
  | fuel + 1, '\\' :: c2 :: rest =>
    match escapedChar? c2 with
    | some x => (unescapeStringAux fuel rest).map (x :: ·)
    | none => unescapeStringAux fuel rest           -- `_ => ()`
  | fuel + 1, c :: rest => (unescapeStringAux fuel rest).map (c :: ·)

def unescapeString (s : Str) : Option Str := unescapeStringAux (s.length + 1) s

/-! ### block strings -/

/-- `GraphQLLines`: split at `\r\n`, `\n`, `\r`; an empty input still yields one line -/
def splitLinesAux : Str → Str → List Str
  | cur, [] => [cur]
  | cur, '\r' :: '\n' :: rest => cur :: splitLinesAux [] rest
  | cur, '\r' :: rest => cur :: splitLinesAux [] rest
  | cur, '\n' :: rest => cur :: splitLinesAux [] rest
  | cur, c :: rest => splitLinesAux (cur ++ [c]) rest

def splitLines (s : Str) : List Str := splitLinesAux [] s

def isWs (c : Char) : Bool := c == ' ' || c == '\t'
def isBlankLine (l : Str) : Bool := l.all isWs
def countIndent (l : Str) : Nat := (l.takeWhile isWs).length

/-- `replace_into(line, "\\\"\"\"", "\"\"\"", out)`: non-overlapping, left to right -/
def replaceEscapedTriple : Str → Str
  | '\\' :: '"' :: '"' :: '"' :: rest => '"' :: '"' :: '"' :: replaceEscapedTriple rest
  | c :: rest => c :: replaceEscapedTriple rest
  | [] => []

/-- `Iterator::min` (a left fold) -/
def listMin? : List Nat → Option Nat
  | [] => none
  | x :: xs => some (xs.foldl min x)

/-- steps 2–3 of BlockStringValue as written in the Rust code -/
def commonIndent (lines : List Str) : Nat :=
  (listMin? ((lines.drop 1).filterMap fun l =>
    if countIndent l < l.length then some (countIndent l) else none)).getD 0

def stripIndent (common : Nat) (lines : List Str) : List Str :=
  match lines with
  | [] => []
  | first :: rest => first :: rest.map fun l => l.drop (min common l.length)

/-- the formatting loop with `final_char_index` (step 6 done by truncation) -/
def formatTruncate : List Str → Str
  | [] => []
  | first :: rest =>
    let f := replaceEscapedTriple first
    let r := rest.foldl (fun (acc : Str × Nat) l =>
      let out := acc.1 ++ '\n' :: replaceEscapedTriple l
      (out, if !isBlankLine l then out.length else acc.2)) (f, f.length)
    r.1.take r.2

/-- `unescape_block_string` -/
def unescapeBlockString (raw : Str) : Str :=
  let lines := splitLines raw
  let stripped := stripIndent (commonIndent lines) lines
  formatTruncate (stripped.dropWhile isBlankLine)

/-- `String::from(&cst::StringValue)`: `none` when a slice would be out of range -/
def decodeStringToken (text : Str) : Option Str :=
  match text with
  | '"' :: '"' :: '"' :: _ =>
    if text.length < 6 then none else some (unescapeBlockString ((text.drop 3).take (text.length - 6)))
  | _ =>
    if text.length < 2 then none else unescapeString ((text.drop 1).take (text.length - 2))

/-! ### serialization (apollo-compiler) -/

def hexUpper (d : Nat) : Char := if d < 10 then Char.ofNat (48 + d) else Char.ofNat (55 + d)

/-- what the quoted form writes for one character -/
def escapeChar (c : Char) : Str :=
  if c == Char.ofNat 8 then ['\\', 'b']
  else if c == '\n' then ['\\', 'n']
  else if c == Char.ofNat 12 then ['\\', 'f']
  else if c == '\r' then ['\\', 'r']
  else if c == '"' then ['\\', '"']
  else if c == '\\' then ['\\', '\\']
  else if c.toNat < 32 && c != '\t' then ['\\', 'u', '0', '0', hexUpper (c.toNat / 16), hexUpper (c.toNat % 16)]
  else [c]

def quotedForm (s : Str) : Str := '"' :: s.flatMap escapeChar ++ ['"']

/-- `str.split('\n')` -/
def splitNl : Str → List Str
  | s => go [] s
where
  go : Str → Str → List Str
    | cur, [] => [cur]
    | cur, '\n' :: rest => cur :: go [] rest
    | cur, c :: rest => go (cur ++ [c]) rest

def trimStartWs (l : Str) : Str := l.dropWhile isWs

/-- `can_be_block_string` -/
def canBeBlockString (s : Str) : Bool :=
  if s.contains '\r' then false
  else
    let lines := splitNl s
    let firstBlank := match lines.head? with | some f => (trimStartWs f).isEmpty | none => false
    let lastBlank := match lines with
      | _ :: _ :: _ => (match lines.getLast? with | some l => (trimStartWs l).isEmpty | none => false)
      | _ => false
    if firstBlank || lastBlank then false
    else
      let indents := lines.filterMap fun l => if (trimStartWs l).isEmpty then none else some (countIndent l)
      (listMin? indents).getD 0 == 0

/-- `serialize_line`: every `"""` becomes `\"""` (split_once, left to right) -/
def escapeTriple : Str → Str
  | '"' :: '"' :: '"' :: rest => '\\' :: '"' :: '"' :: '"' :: escapeTriple rest
  | c :: rest => c :: escapeTriple rest
  | [] => []

def indentStr (prefix_ : Str) (level : Nat) : Str := (List.replicate level prefix_).flatten

/-- `serialize_block_string` -/
def blockForm (prefix_ : Str) (level : Nat) (s : Str) : Str :=
  let containsNewline := s.contains '\n'
  let multiLine := containsNewline || utf8Len s > 70 || s.getLast? == some '"' || s.getLast? == some '\\'
  let tq : Str := ['"', '"', '"']
  if !multiLine then tq ++ escapeTriple s ++ tq
  else
    let body := (splitNl s).flatMap fun l =>
      if l.isEmpty then ['\n'] else '\n' :: indentStr prefix_ level ++ escapeTriple l
    tq ++ body ++ '\n' :: indentStr prefix_ level ++ tq
where
  utf8Len (s : Str) : Nat := s.foldl (fun n c => n + c.utf8Size) 0

/-- `serialize_string_value(state, is_description, str)` with `state.config.indent_prefix = prefix?`
    and `state.indent_level = level` -/
def serializeStringValue (prefix? : Option Str) (level : Nat) (isDescription : Bool) (s : Str) : Str :=
  let preferBlock := isDescription || s.contains '\n'
  match prefix? with
  | some p => if preferBlock && canBeBlockString s then blockForm p level s else quotedForm s
  | none => quotedForm s

end Apollo.Strs
