import ApolloModel.Model.Types
/-
Models of the mechanisms of executable validation that property C17 anchors
(crates/apollo-compiler/src/validation/{selection,operation,fragment,variable}.rs).
Transliterations of the Rust as it is (after the fixes deffad7: `same_value` compares list lengths,
7b5b545: `validate_subscription` counts response keys), tied to the code by the `c17.*` streams.
-/
namespace Apollo.ExecVal

/-! ### `same_value` (validation/selection.rs) -/

/-- `ast::Value`; numbers keep their source text (`IntValue`/`FloatValue` compare as strings) -/
inductive Value where
  | null
  | enum (n : String)
  | var (n : String)
  | str (s : String)
  | float (s : String)
  | int (s : String)
  | bool (b : Bool)
  | list (vs : List Value)
  | object (fs : List (String × Value))
  deriving Repr, Inhabited

/-- `right.iter().find(|(other_key, _)| key == other_key)` -/
def lookupFirst (k : String) : List (String × Value) → Option Value
  | [] => none
  | (k', v) :: r => if k == k' then some v else lookupFirst k r

mutual
/-- `fn same_value(left, right)` -/
def sameValue : Value → Value → Bool
  | .null, .null => true
  | .enum a, .enum b => a == b
  | .var a, .var b => a == b
  | .str a, .str b => a == b
  | .float a, .float b => a == b
  | .int a, .int b => a == b
  | .bool a, .bool b => a == b
  | .list l, .list r => l.length == r.length && zipAll l r
  | .object l, .object r => if l.length == r.length then allFields l r else false
  | _, _ => false
/-- `left.iter().zip(right.iter()).all(|(l, r)| same_value(l, r))` (called on lists of equal length) -/
def zipAll : List Value → List Value → Bool
  | a :: l, b :: r => sameValue a b && zipAll l r
  | _, _ => true
/-- `left.iter().all(|(key, value)| right.iter().find(key).is_some_and(|other| same_value(value, other)))` -/
def allFields : List (String × Value) → List (String × Value) → Bool
  | [], _ => true
  | kv :: rest, r => fieldIn kv r && allFields rest r
def fieldIn : String × Value → List (String × Value) → Bool
  | (k, v), r => match lookupFirst k r with
    | some v' => sameValue v v'
    | none => false
end

/-! ### `same_output_type_shape` (validation/selection.rs) -/

/-- what `schema.types.get(name)` is -/
inductive TypeKind where
  | scalar | enum | object | interface | union | inputObject
  deriving Repr, DecidableEq, Inhabited

def TypeKind.isComposite : TypeKind → Bool
  | .object | .interface | .union => true
  | _ => false

def TypeKind.isLeaf : TypeKind → Bool
  | .scalar | .enum => true
  | _ => false

/-- the `while !type_a.is_named() || !type_b.is_named()` loop: `none` = mismatching_type_diagnostic -/
def unwrapLists : Ty → Ty → Option (Ty × Ty)
  | .list a, .list b => unwrapLists a b
  | .nonNullList a, .nonNullList b => unwrapLists a b
  | .list _, _ => none
  | .nonNullList _, _ => none
  | _, .list _ => none
  | _, .nonNullList _ => none
  | a, b => some (a, b)

/-- the final `match (def_a, def_b)` of `same_output_type_shape`; two definitions are `==` iff they
    have the same name -/
def sameDefinitions (kind : Name → Option TypeKind) (x y : Name) : Bool :=
  match kind x, kind y with
  | some kx, some ky =>
    if kx.isLeaf && ky.isLeaf then x == y
    else kx.isComposite && ky.isComposite
  | _, _ => true          -- "Cannot do much if we don't know the type"

/-- `same_output_type_shape` on the two field definitions' types; `kind` is `schema.types.get` -/
def sameOutputTypeShape (kind : Name → Option TypeKind) (a b : Ty) : Bool :=
  match unwrapLists a b with
  | none => false
  | some (ta, tb) =>
    let names : Option (Name × Name) :=
      match ta, tb with
      | .nonNullNamed x, .nonNullNamed y => some (x, y)
      | .named x, .named y => some (x, y)
      | _, _ => none
    match names with
    | none => false
    | some (x, y) => sameDefinitions kind x y

/-! ### `validate_subscription` (validation/operation.rs) -/

/-- a selection set at the root of a subscription: fields (response key, name, has @skip/@include),
    inline fragments, spreads of numbered fragments -/
inductive Sels where
  | nil
  | field (key name : String) (cond : Bool) (rest : Sels)
  | inline (cond : Bool) (sub rest : Sels)
  | spread (j : Nat) (cond : Bool) (rest : Sels)
  deriving Repr, DecidableEq, Inhabited

structure WSt where
  seen : List Nat            -- `seen: HashSet<&Name>`
  names : List String        -- `field_names` (only used in the message)
  rkeys : List String        -- `response_keys`: pushed when not yet contained
  introspection : Bool       -- a SubscriptionUsesIntrospection diagnostic was pushed
  conditional : Bool         -- a SubscriptionUsesConditionalSelection diagnostic was pushed
  deriving Repr, DecidableEq

def isIntrospectionName (n : String) : Bool := n == "__type" || n == "__schema" || n == "__typename"

/-- `walk_selections_inner` with the closure of `validate_subscription` inlined;
    `rec` walks a fragment's selection set (one fragment deeper) -/
def goWalk (frags : List Sels) (rec : Sels → WSt → WSt) : Sels → WSt → WSt
  | .nil, st => st
  | .field key name cond rest, st =>
    goWalk frags rec rest
      { st with names := st.names ++ [name],
                rkeys := if st.rkeys.contains key then st.rkeys else st.rkeys ++ [key],
                introspection := st.introspection || isIntrospectionName name,
                conditional := st.conditional || cond }
  | .inline cond sub rest, st =>
    goWalk frags rec rest (goWalk frags rec sub { st with conditional := st.conditional || cond })
  | .spread j cond rest, st =>
    let st := { st with conditional := st.conditional || cond }
    if st.seen.contains j then goWalk frags rec rest st
    else
      let st := { st with seen := j :: st.seen }
      match frags[j]? with
      | none => goWalk frags rec rest st
      | some body => goWalk frags rec rest (rec body st)

/-- budget `k` = number of fragments that may still be entered (each entry marks a new fragment) -/
def walk (frags : List Sels) : Nat → Sels → WSt → WSt
  | 0 => goWalk frags (fun _ st => st)
  | k + 1 => goWalk frags (walk frags k)

def WSt.init : WSt := { seen := [], names := [], rkeys := [], introspection := false, conditional := false }

def subscriptionWalk (frags : List Sels) (op : Sels) : WSt := walk frags frags.length op .init

/-- `if response_keys.len() > 1 { SubscriptionUsesMultipleFields }` -/
def usesMultipleFields (frags : List Sels) (op : Sels) : Bool := (subscriptionWalk frags op).rkeys.length > 1

def subscriptionVerdict (frags : List Sels) (op : Sels) : String :=
  let st := subscriptionWalk frags op
  s!"multiple={decide (st.rkeys.length > 1)} introspection={st.introspection} conditional={st.conditional}"

/-! ### field merging: the XING algorithm of `FieldsInSetCanMerge` on expanded field sets -/

/-- a `FieldSelection` after `expand_selections`: response key, parent type (and whether it is an
    object type), what `same_name_and_arguments` compares (field name + canonical arguments),
    what `same_output_type_shape` compares (canonical shape of the field's type), and the expanded
    sub-selection -/
inductive AField where
  | mk (key parent : String) (parentIsObject : Bool) (nameArgs shape : String) (subs : List AField)
  deriving Repr, Inhabited

namespace AField
def key : AField → String | .mk k _ _ _ _ _ => k
def parent : AField → String | .mk _ p _ _ _ _ => p
def parentIsObject : AField → Bool | .mk _ _ o _ _ _ => o
def nameArgs : AField → String | .mk _ _ _ n _ _ => n
def shape : AField → String | .mk _ _ _ _ s _ => s
def subs : AField → List AField | .mk _ _ _ _ _ s => s
end AField

/-- keys in first-occurrence order (`IndexMap` insertion order) -/
def dedup : List String → List String
  | [] => []
  | k :: rest => k :: (dedup rest).filter (· != k)

/-- `group_by_output_name` -/
def groupByOutputName (fs : List AField) : List (List AField) :=
  (dedup (fs.map AField.key)).map fun k => fs.filter (·.key == k)

/-- `group_by_common_parents` -/
def groupByCommonParents (g : List AField) : List (List AField) :=
  let abstractParents := g.filter (!·.parentIsObject)
  let concrete := dedup ((g.filter (·.parentIsObject)).map AField.parent)
  if concrete.isEmpty then [abstractParents]
  else concrete.map fun p => g.filter (fun f => f.parentIsObject && f.parent == p) ++ abstractParents

/-- `split_first` then compare every other element with the first -/
def firstVsRest (rel : AField → AField → Bool) : List AField → Bool
  | [] => true
  | a :: rest => rest.all (rel a)

def nestedSets (g : List AField) : List AField := g.flatMap AField.subs

/-- `same_response_shape_by_name`, `n` = remaining recursion limit -/
def sameResponseShapeByName : Nat → List AField → Bool
  | 0, _ => true
  | n + 1, fs => (groupByOutputName fs).all fun g =>
      firstVsRest (fun a b => a.shape == b.shape) g &&
      ((nestedSets g).isEmpty || sameResponseShapeByName n (nestedSets g))

/-- `same_for_common_parents_by_name` -/
def sameForCommonParentsByName : Nat → List AField → Bool
  | 0, _ => true
  | n + 1, fs => (groupByOutputName fs).all fun g => (groupByCommonParents g).all fun pg =>
      firstVsRest (fun a b => a.nameArgs == b.nameArgs) pg &&
      ((nestedSets pg).isEmpty || sameForCommonParentsByName n (nestedSets pg))

/-- `validate_operation`: no ConflictingField* diagnostic -/
def xingCanMerge (limit : Nat) (fs : List AField) : Bool :=
  sameResponseShapeByName limit fs && sameForCommonParentsByName limit fs

/-! ### unused fragments: `collect_used_fragments` over `walk_selections_with_deduped_fragments` -/

/-- the walk restricted to what it does with fragment spreads: `spreads` are the spread selections
    met in order (fields and inline fragments are descended into), `names` collects every spread
    seen by the callback, `seen` is the de-duplication set -/
def goUsed (frags : List (List Nat)) (rec : List Nat → List Nat × List Nat → List Nat × List Nat) :
    List Nat → List Nat × List Nat → List Nat × List Nat
  | [], st => st
  | j :: rest, (seen, names) =>
    let names := if names.contains j then names else j :: names
    if seen.contains j then goUsed frags rec rest (seen, names)
    else
      match frags[j]? with
      | none => goUsed frags rec rest (j :: seen, names)
      | some body => goUsed frags rec rest (rec body (j :: seen, names))

def walkUsed (frags : List (List Nat)) : Nat → List Nat → List Nat × List Nat → List Nat × List Nat
  | 0 => goUsed frags (fun _ st => st)
  | k + 1 => goUsed frags (walkUsed frags k)

/-- names collected over all operations (each operation starts with an empty `seen`) -/
def collectUsed (frags : List (List Nat)) (ops : List (List Nat)) : List Nat :=
  ops.foldl (fun names op => (walkUsed frags frags.length op ([], names)).2) []

/-- number of UnusedFragment diagnostics -/
def unusedCount (frags : List (List Nat)) (ops : List (List Nat)) : Nat :=
  ((List.range frags.length).filter fun j => !(collectUsed frags ops).contains j).length

/-! ### `validated_fragments` (validation/fragment.rs `validate_fragment_spread`)
Each operation is validated with its own `OperationValidationContext`, whose `validated_fragments`
set starts empty: a fragment definition is validated (against THAT operation's variable definitions)
the first time the operation reaches it — the same de-duplicated walk as `collectUsed`, per operation. -/

/-- for every operation, the fragment definitions validated in its context -/
def validatedPerOperation (frags : List (List Nat)) (ops : List (List Nat)) : List (List Nat) :=
  ops.map fun op => collectUsed frags [op]

/-- number of (operation, fragment definition) validations -/
def validationCount (frags : List (List Nat)) (ops : List (List Nat)) : Nat :=
  ((validatedPerOperation frags ops).map List.length).sum

end Apollo.ExecVal
