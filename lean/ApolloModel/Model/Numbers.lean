import ApolloModel.Model.Name
import ApolloModel.Model.Coordinate
/-
Model of `IntValue::valid_syntax`, `FloatValue::valid_syntax`, `From<i32> for IntValue`,
`From<f64> for FloatValue` (crates/apollo-compiler/src/ast/impls.rs), over `List Char`.
-/
namespace Apollo.Num
open Apollo.Coord (splitOnce)

abbrev Str := List Char

def allDigits (s : Str) : Bool := s.all isAsciiDigit

def isNonZeroDigit (c : Char) : Bool := '1' ≤ c && c ≤ '9'

/-- the slice patterns of `IntValue::valid_syntax` after `strip_prefix('-')` -/
def validUnsigned : Str → Bool
  | [c] => isAsciiDigit c
  | c :: rest => isNonZeroDigit c && allDigits rest
  | [] => false

def stripMinus : Str → Str
  | '-' :: rest => rest
  | s => s

/-- `IntValue::valid_syntax` -/
def validInt (s : Str) : Bool := validUnsigned (stripMinus s)

/-- `str::split_once(['e', 'E'])` -/
def splitOnceE : Str → Option (Str × Str)
  | [] => none
  | x :: xs =>
    if x == 'e' || x == 'E' then some ([], xs)
    else match splitOnceE xs with
      | some (a, b) => some (x :: a, b)
      | none => none

def stripSign : Str → Str
  | '+' :: rest => rest
  | '-' :: rest => rest
  | s => s

def validFractional (int fract : Str) : Bool :=
  validInt int && !fract.isEmpty && allDigits fract

/-- `FloatValue::valid_syntax` (with the exponent-digits check of the repaired code) -/
def validFloat (s : Str) : Bool :=
  match splitOnceE s with
  | some (mantissa, exponent) =>
    let exponent := stripSign exponent
    if exponent.isEmpty || !allDigits exponent then false
    else match splitOnce '.' mantissa with
      | some (int, fract) => validFractional int fract
      | none => validInt mantissa
  | none =>
    match splitOnce '.' s with
    | some (int, fract) => validFractional int fract
    | none => false

/-! ### printing numbers (model of Rust's `Display` for `i32`) -/

def digitChar (d : Nat) : Char := Char.ofNat (48 + d)

/-- decimal digits of a natural number, most significant first, no leading zero ("0" for 0) -/
def natDigits : Nat → Str
  | n => if h : n < 10 then [digitChar n] else natDigits (n / 10) ++ [digitChar (n % 10)]
decreasing_by omega

/-- `i32::to_string` -/
def intToString (i : Int) : Str :=
  if i < 0 then '-' :: natDigits i.natAbs else natDigits i.natAbs

/-- `From<f64> for FloatValue`: append `.0` when Rust's `Display` printed no fractional part -/
def floatFixup (text : Str) : Str := if text.contains '.' then text else text ++ ['.', '0']

end Apollo.Num
