import ApolloModel.Model.SchemaBuild
/-
C14 growth 3: two rules of `validate_schema` (schema/validation.rs) that look at names and member lists only.

* non-emptiness — `validate_object_type_definition`, `validate_interface_definition`,
  `validate_union_definition`, `validate_enum_definition`, `validate_input_object_definition` each end with
  `if x.fields.is_empty() { push Empty…Set }` on the *built* type (definition and extensions merged by
  `SchemaBuilder`, Model/SchemaBuild.lean).  The built-in introspection types always have members
  (built_in.graphql); their bodies are not part of the build model, so they are skipped by their flag.
* reserved names — `validate_type_system_name(name, describe)`: one `ReservedName` diagnostic when a name
  whose location is outside the built-in file starts with two underscores.  The walk below visits the names
  in the order of `validate_schema`: directive definitions (name, then arguments), then every type (name, then
  per kind: fields with their arguments / enum values / input fields).  Union members and implemented
  interfaces are references, not names introduced by the definition, and are not visited.
-/
namespace Apollo.SchemaNames
open Apollo.SchemaBuild

/-! ### non-emptiness -/

/-- the types for which `validate_schema` pushes `EmptyFieldSet` / `EmptyMemberSet` / `EmptyValueSet` /
    `EmptyInputValueSet`, in the order of `schema.types` -/
def emptyTypeDiags (ts : List TypeEntry) : List (Name × Kind) :=
  (ts.filter (fun t => !t.builtin && t.kind != Kind.scalar && t.body.members.isEmpty)).map (fun t => (t.name, t.kind))

/-! ### reserved names -/

inductive Site where
  | type | directive | field | argument | enumValue | inputField
  deriving DecidableEq, Repr, Inhabited

/-- a name together with `location.file_id == FileId::BUILT_IN` -/
structure N where
  chars : List Char
  builtIn : Bool
  deriving DecidableEq, Repr, Inhabited

structure FieldNames where
  name : N
  args : List N
  deriving Repr, Inhabited

inductive Members where
  | none                                  -- scalar, union
  | fields (fs : List FieldNames)          -- object, interface
  | values (vs : List N)                   -- enum
  | inputFields (fs : List N)              -- input object
  deriving Repr, Inhabited

structure TypeNames where
  name : N
  members : Members
  deriving Repr, Inhabited

structure DirNames where
  name : N
  args : List N
  deriving Repr, Inhabited

structure SchemaNames where
  directives : List DirNames
  types : List TypeNames
  deriving Repr, Inhabited

/-- `name.starts_with("__")` -/
def startsWith2 : List Char → Bool
  | '_' :: '_' :: _ => true
  | _ => false

/-- `validate_type_system_name` -/
def checkName (site : Site) (n : N) : List (Site × List Char) :=
  if !n.builtIn && startsWith2 n.chars then [(site, n.chars)] else []

def fieldDiags (f : FieldNames) : List (Site × List Char) :=
  checkName .field f.name ++ f.args.flatMap (checkName .argument)

def membersDiags : Members → List (Site × List Char)
  | .none => []
  | .fields fs => fs.flatMap fieldDiags
  | .values vs => vs.flatMap (checkName .enumValue)
  | .inputFields fs => fs.flatMap (checkName .inputField)

def typeDiags (t : TypeNames) : List (Site × List Char) := checkName .type t.name ++ membersDiags t.members

def dirDiags (d : DirNames) : List (Site × List Char) := checkName .directive d.name ++ d.args.flatMap (checkName .argument)

/-- all `ReservedName` diagnostics of `validate_schema`, in the order they are pushed -/
def reservedDiags (s : SchemaNames) : List (Site × List Char) :=
  s.directives.flatMap dirDiags ++ s.types.flatMap typeDiags

end Apollo.SchemaNames
