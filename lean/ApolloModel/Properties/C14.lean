import ApolloModel.Proofs.SchemaValidation
import ApolloModel.Proofs.DirectiveSearch
import ApolloModel.Proofs.Implementation
import ApolloModel.Proofs.DirectiveApplications
import ApolloModel.Proofs.StickyBuild
import ApolloModel.Proofs.SchemaBuildSpec6
import ApolloModel.Proofs.SchemaNames
import ApolloModel.Proofs.ValueCheck
import ApolloModel.Proofs.ImplementsRule
/-
C14 — Schema validation agrees with the specification.

The executable models (`Model/SchemaValidation.lean`) transliterate the rules of apollo-compiler whose
*algorithm* differs from the specification's wording: the stack-based input-object cycle search
(`FindRecursiveInputValue` + `RecursionStack`), the one-step transitive-interface check
(`validate_implements_interfaces`), the root-operation loop with its `seen` vector
(`validate_root_operation_definitions`) and the directive self-reference search
(`FindRecursiveDirective`).  They are tied to the Rust code by the `c14.*` correspondence streams.
The declarative side is `Spec/SchemaValidation.lean`.  `IsValidImplementationFieldType` is proved in
`Properties/C29.lean` (`impl_field_type_iff`).  All theorems hold for schemas of any size.

RULE TABLE — every named rule of the harness' independent validator (harness/src/specschema.rs) and the theorem of
this file that states "apollo's code reports it iff the specification's predicate fails" (model following the code +
declarative predicate + correspondence stream `c14.*`):

  executable-definition, lone-schema-definition, unique-type-names, unique-directive-names,
  extension-type-exists, extension-kind-match, schema-extension-without-schema, unique-field-names,
  unique-enum-values, unique-union-members, unique-input-fields, unique-implemented-interfaces,
  unique-operation-types                                   schema_build_iff_spec           (c13.schema, c14.build)
      (the member/interface/root-operation uniqueness alone: build_reports_iff_duplicate)
  object-has-fields, interface-has-fields, union-has-members, enum-has-values, input-has-fields
                                                           nonempty_rule_iff_spec          (c14.build)
  reserved-name-type, -field, -argument, -enum-value, -input-field, -directive, -directive-argument
                                                           reserved_rule_iff_spec          (c14.reserved)
  directive-argument-type, directive-argument-input-field-unique, default-value-type
                                                           value_rule_iff_spec             (c14.values)
      (default-value-type: the same function; apollo-compiler does not call it on defaults — issue 928, oracle
       parameter `validate_default_values = false`)
  query-root-required, root-type-exists, root-type-object, root-types-distinct
                                                           roots_valid_iff                 (c14.roots)
  unique-argument-names, unique-directive-argument-definitions
                                                           argument_definitions_unique_iff (c14.dirapps)
  field-type-exists, field-type-output, argument-type-exists, argument-type-input, input-field-type-exists,
  input-field-type-input, directive-argument-type-exists, directive-argument-type-input, union-member-exists,
  union-member-object                                      reference_kinds_rule_iff_spec   (c14.kinds)
  implements-exists-interface, interface-self-implementation
                                                           implements_rule_iff_spec        (c14.implements)
  transitive-interfaces-declared                           transitive_interfaces_iff       (c14.implements)
  impl-field-present, impl-field-type, impl-arg-present, impl-arg-type, impl-extra-arg-optional
                                                           implementation_rule_iff_spec    (c14.implfields)
  input-object-cycle, input-object-nesting-limit           input_rule_iff_spec             (c14.inputcycle)
  directive-self-reference, directive-nesting-limit        directive_rule_iff_spec         (c14.dircycle)
  directive-known, directive-location, directive-unique, directive-argument-known, directive-argument-unique,
  directive-argument-required                              directive_applications_rule_iff_spec (c14.dirapps)

No named rule is oracle-only any more.  What stays outside the theorems: each family is proved on its own abstract
view of the schema (the views are tied to the code by the streams, not to each other by a theorem); the value rule
assumes that the types mentioned exist and are input types (the reference rules above); the build theorem is for one
document and the default builder (C13 has the several-sources theorems).
-/
namespace Apollo.C14
open Apollo.SchemaValidation Apollo.SchemaValidation.Spec

/-- Soundness of the input-object search: a reported cycle is a chain of non-null singular fields
    from the input object back to itself. -/
theorem input_cycle_sound (g : IGraph) (limit r : Nat) (hr : r < g.length)
    (h : checkInput g limit r = .recursed) : InputCycleThrough g r :=
  search_sound g limit (limit + 1) [r] (g.fields r) r r rfl hr (fun _ h => h) h

/-- Completeness up to the depth limit: if the input object lies on a non-null cycle the search
    does not accept it (it answers `recursed`, or `limit` when it gave up first). -/
theorem input_cycle_complete (g : IGraph) (limit r : Nat) (h : InputCycleThrough g r) :
    checkInput g limit r ≠ .ok := by
  obtain ⟨ws, hp, hnd, hr, _⟩ := ireach_simple_path g h
  exact search_complete_path g limit ws (limit + 1) [r] r r rfl hp
    (fun w hw hmem => hr (by have : w = r := by simpa using hmem
                             exact this ▸ hw)) hnd

/-- The recursion fuel of the model is never the reason for an answer (termination half). -/
theorem input_search_fuel_sufficient (g : IGraph) (limit r : Nat) :
    checkInput g limit r ≠ .outOfFuel :=
  search_fuel g limit (limit + 1) [r] (g.fields r) (by simp) (by simp)

/-- With at most `limit` (= 32) input objects the depth limit cannot be hit. -/
theorem input_search_no_limit (g : IGraph) (limit r : Nat) (hg : g.length ≤ limit) (hr : r < g.length) :
    checkInput g limit r ≠ .limit :=
  search_no_limit g limit hg (limit + 1) [r] (g.fields r) (by simp)
    (fun x hx => by have : x = r := by simpa using hx
                    exact this ▸ hr)

/-- Exactness under the limit: the search reports input object `r` iff `r` is on a non-null cycle. -/
theorem input_cycle_exact_within_limit (g : IGraph) (limit r : Nat) (hg : g.length ≤ limit)
    (hr : r < g.length) : checkInput g limit r ≠ .ok ↔ InputCycleThrough g r := by
  constructor
  · intro h
    have h1 := input_search_fuel_sufficient g limit r
    have h2 := input_search_no_limit g limit r hg hr
    apply input_cycle_sound g limit r hr
    cases hc : checkInput g limit r <;> simp_all
  · exact input_cycle_complete g limit r

/-- The whole rule: validation pushes no input-object diagnostic iff no input object references itself
    through non-null singular fields (schemas with at most `limit` input objects). -/
theorem input_rule_iff_spec (g : IGraph) (limit : Nat) (hg : g.length ≤ limit) :
    failingInputs g limit = [] ↔ ∀ r, ¬ InputCycleThrough g r := by
  unfold failingInputs
  rw [List.filter_eq_nil_iff]
  constructor
  · intro h r hcyc
    have hr : r < g.length := by
      cases hcyc with
      | single e => obtain ⟨_, _, _, _, hlt⟩ := e; exact hlt
      | cons e _ => obtain ⟨f, hf, _, _, _⟩ := e
                    by_cases hlt : r < g.length
                    · exact hlt
                    · simp [IGraph.fields, List.getD, List.getElem?_eq_none (Nat.le_of_not_lt hlt)] at hf
    have := h r (List.mem_range.mpr hr)
    exact input_cycle_complete g limit r hcyc (by simpa using this)
  · intro h r hr
    have hr' := List.mem_range.mp hr
    have hiff := input_cycle_exact_within_limit g limit r hg hr'
    have hok : checkInput g limit r = .ok := by
      by_cases hc : checkInput g limit r = .ok
      · exact hc
      · exact absurd (hiff.mp hc) (h r)
    simp [hok]

/-- Beyond the limit the verdict can only err on the side of rejecting: an accepted schema still has no cycle. -/
theorem input_rule_accept_sound (g : IGraph) (limit : Nat) (h : failingInputs g limit = []) :
    ∀ r, r < g.length → ¬ InputCycleThrough g r := by
  intro r hr hcyc
  unfold failingInputs at h
  rw [List.filter_eq_nil_iff] at h
  have := h r (List.mem_range.mpr hr)
  exact input_cycle_complete g limit r hcyc (by simpa using this)

/-- `validate_implements_interfaces` checks one step; on every type together that is exactly closure
    under transitively implemented interfaces. -/
theorem transitive_interfaces_iff (s : ISchema) :
    (∀ (a : Nat) (t : TypeInfo), s[a]? = some t → missingTransitive s t = []) ↔ TransitiveClosed s :=
  transitive_closed_iff s

/-- Root operations: no diagnostic iff a query root is given, every given root is an object type and
    the given roots are pairwise different types. -/
theorem roots_valid_iff (q m sub : Option RootTarget) :
    validateRoots q m sub = [] ↔ RootsValid q m sub := by
  unfold validateRoots RootsValid
  rw [List.append_eq_nil_iff, rootLoop_nil_iff]
  cases q <;> simp

/-- Soundness of the directive search: a reported directive really reaches a use of itself through
    its arguments' directives and types. -/
theorem directive_search_sound (s : DSchema) (limit d : Nat)
    (h : checkDirective s limit d = .recursed) : DirectiveSelfReference s d := by
  unfold checkDirective at h
  obtain ⟨x, hx, hwx⟩ := firstErr_err (by decide) h
  obtain ⟨a, ha, rfl⟩ := List.mem_map.mp hx
  cases hd : s.dirs[d]? with
  | none => simp [List.getD, hd] at ha
  | some args =>
    have : s.dirs.getD d [] = args := by simp [List.getD, hd]
    rw [this] at ha
    exact ⟨args, a, hd, ha, walk_sound s limit _ [d] [] (.arg a) d rfl hwx⟩

/-- The full statement for the directive rule (completeness under the limit).  Proved below as
    `directive_search_complete_holds` (the search prunes on two stacks; see Proofs/DirectiveSearch.lean). -/
def directive_search_complete : Prop :=
  ∀ (s : DSchema) (limit d : Nat), DirectiveSelfReference s d → checkDirective s limit d ≠ .ok

/-- The modelled rule set accepts iff the specification's predicates hold.  PARTIAL: covers the rules
    whose algorithm differs from the spec wording (input cycles, transitive interfaces, root
    operations); the directive rule has soundness only (`directive_search_sound`), the field-type rule is
    `C29.impl_field_type_iff`, and the remaining rules are transliterations checked by the oracle. -/
theorem schema_verdict_iff_spec_partial (g : IGraph) (limit : Nat) (hg : g.length ≤ limit)
    (s : ISchema) (q m sub : Option RootTarget) :
    (failingInputs g limit = [] ∧
      (∀ (a : Nat) (t : TypeInfo), s[a]? = some t → missingTransitive s t = []) ∧
      validateRoots q m sub = []) ↔
    ((∀ r, ¬ InputCycleThrough g r) ∧ TransitiveClosed s ∧ RootsValid q m sub) := by
  rw [input_rule_iff_spec g limit hg, transitive_interfaces_iff, roots_valid_iff]

-- Non-vacuity: the hypotheses are met by concrete schemas, and the models do compute.
-- `input A { b: B! }  input B { a: A!  c: C }  input C { x: Int! }`
example : failingInputs [[⟨true, 1⟩], [⟨true, 0⟩, ⟨false, 2⟩], [⟨true, 9⟩]] 32 = [0, 1] := by decide
example : InputCycleThrough [[⟨true, 1⟩], [⟨true, 0⟩]] 0 :=
  .cons ⟨⟨true, 1⟩, by simp [IGraph.fields], rfl, rfl, by simp⟩ (.single ⟨⟨true, 0⟩, by simp [IGraph.fields], rfl, rfl, by simp⟩)
-- a chain of 4 with limit 3 is "too deeply nested" although acyclic
example : checkInput [[⟨true, 1⟩], [⟨true, 2⟩], [⟨true, 3⟩], []] 3 0 = .limit := by decide
-- `interface A  interface B implements A  type C implements B` : C misses A
example : missingTransitive [⟨true, []⟩, ⟨true, [0]⟩, ⟨false, [1]⟩] ⟨false, [1]⟩ = [(0, 1)] := by decide
example : validateRoots (some (.object 0)) (some (.object 0)) none = [.duplicate 0] := by decide
example : validateRoots (some (.object 0)) (some (.object 1)) none = [] := by decide
-- `directive @d(a: T)`, `input T { f: Int @d }`
example : checkDirective ⟨[[⟨[], some 0⟩]], [⟨.input, [], [], [⟨[0], none⟩]⟩]⟩ 32 0 = .recursed := by decide

/-! ### growth: the directive rule in full -/

/-- Completeness of the directive search under the depth limit: a directive whose definition reaches a
    use of itself is never accepted (`recursed`, or `limit` when the search gave up first).  This is the
    statement `directive_search_complete`, now proved (loop removal on the item graph + induction along
    a simple path with both stacks generalised). -/
theorem directive_search_complete_holds : directive_search_complete :=
  fun s limit d h => checkDirective_complete s limit d h

/-- The recursion fuel of the directive model is never the reason for an answer. -/
theorem directive_search_fuel_sufficient (s : DSchema) (limit d : Nat) :
    checkDirective s limit d ≠ .outOfFuel := by
  intro h
  unfold checkDirective at h
  obtain ⟨y, hy, hwy⟩ := firstErr_err (by decide) h
  obtain ⟨a, _, rfl⟩ := List.mem_map.mp hy
  refine walk_fuel s limit _ [d] [] (.arg a) ?_ hwy
  simp only [need, isArg, List.length_singleton, List.length_nil]
  omega

/-- With at most `limit` directive definitions and at most `limit` types the limit cannot be hit. -/
theorem directive_search_no_limit (s : DSchema) (limit d : Nat) (hd : s.dirs.length ≤ limit)
    (ht : s.types.length ≤ limit) (hdr : d < s.dirs.length) : checkDirective s limit d ≠ .limit := by
  intro h
  unfold checkDirective at h
  obtain ⟨y, _, hwy⟩ := firstErr_err (by decide) h
  exact walk_no_limit s limit hd ht _ [d] [] y (by simp)
    (fun e he => by have : e = d := by simpa using he
                    exact this ▸ hdr) (by simp) (by simp) hwy

/-- The directive rule: validation reports no directive definition iff no directive definition
    references itself directly or indirectly (schemas with at most `limit` = 32 directive definitions
    and types). -/
theorem directive_rule_iff_spec (s : DSchema) (limit : Nat) (hd : s.dirs.length ≤ limit)
    (ht : s.types.length ≤ limit) :
    failingDirectives s limit = [] ↔ ∀ d, ¬ DirectiveSelfReference s d := by
  unfold failingDirectives
  rw [List.filter_eq_nil_iff]
  constructor
  · intro h d hself
    have hdr : d < s.dirs.length := by
      obtain ⟨args, _, hargs, _, _⟩ := hself
      by_cases hl : d < s.dirs.length
      · exact hl
      · rw [List.getElem?_eq_none (Nat.le_of_not_lt hl)] at hargs; cases hargs
    have := h d (List.mem_range.mpr hdr)
    exact checkDirective_complete s limit d hself (by simpa using this)
  · intro h d hdr
    have hdr' := List.mem_range.mp hdr
    have h1 := directive_search_fuel_sufficient s limit d
    have h2 := directive_search_no_limit s limit d hd ht hdr'
    have h3 : checkDirective s limit d ≠ .recursed := fun hc => h d (directive_search_sound s limit d hc)
    cases hc : checkDirective s limit d <;> simp_all

/-- Beyond the limit the verdict can only err on the side of rejecting. -/
theorem directive_rule_accept_sound (s : DSchema) (limit : Nat) (h : failingDirectives s limit = []) :
    ∀ d, ¬ DirectiveSelfReference s d := by
  intro d hself
  unfold failingDirectives at h
  rw [List.filter_eq_nil_iff] at h
  have hdr : d < s.dirs.length := by
    obtain ⟨args, _, hargs, _, _⟩ := hself
    by_cases hl : d < s.dirs.length
    · exact hl
    · rw [List.getElem?_eq_none (Nat.le_of_not_lt hl)] at hargs; cases hargs
  have := h d (List.mem_range.mpr hdr)
  exact checkDirective_complete s limit d hself (by simpa using this)

/-! ### growth: IsValidImplementation for a whole type, and kinds of referenced types -/

open Apollo.Implementation Apollo.Implementation.Spec Apollo.SchemaInvariants in
/-- The implementation rule (`MissingInterfaceField` loop + `validate_implementation_field_types` +
    `validate_implementation_field_arguments`): validation pushes no diagnostic for a type iff
    IsValidImplementation holds against every declared interface — a field of the same name for every
    interface field, every interface argument present with the same type, additional arguments optional,
    and a covariant return type (IsValidImplementationFieldType, any subtype relation). -/
theorem implementation_rule_iff_spec (sub : Name → Name → Bool) (getIface : Nat → Option (List FieldM))
    (tfields : List FieldM) (declared : List Nat) :
    implDiags sub getIface tfields declared = [] ↔
      ∀ i ∈ declared, ∀ ifields, getIface i = some ifields → ValidImplementation sub tfields ifields :=
  implDiags_nil_iff sub getIface tfields declared

open Apollo.Implementation Apollo.Implementation.Spec in
/-- The kind checks on type references: no diagnostic iff every field type is an output type, every
    argument / input-field type an input type and every union member an object type (a referenced
    built-in scalar that is missing from the map counts as the scalar validation will insert). -/
theorem reference_kinds_rule_iff_spec (kindOf : String → Option Kind) (t : TypeRefs) :
    typeRefDiags kindOf t = [] ↔ RefsRightKind kindOf t :=
  typeRefDiags_nil_iff kindOf t

open Apollo.Implementation Apollo.SchemaInvariants in
example : (implDiags (fun a c => a == "Node" && c == "A") (fun _ => some [⟨"f", .list (.named "Node"), [⟨"a", "Int", false⟩]⟩])
    [⟨"f", .nonNullList (.nonNullNamed "A"), [⟨"a", "Int", false⟩, ⟨"c", "Int!", true⟩]⟩] [0]).length = 1 := by decide

/-! ### growth 2: directive applications in the schema, and the uniqueness rules -/

/-- Directive applications (`validate_directives` with a schema — the same model as C20's, instantiated
    with a type-system location): no diagnostic iff every applied directive is defined (§5.7.1), allowed at
    the location (§5.7.2), a non-repeatable directive is applied at most once (§5.7.3), and its arguments
    are defined (§5.4.1), unique (§5.4.2) and the required ones present and not `null` (§5.4.2.1).
    Argument value typing is not part of the model. -/
theorem directive_applications_rule_iff_spec (dirDef : Standalone.Name → Option Standalone.DirDef)
    (loc : Standalone.Loc) (dirs : List Standalone.Dir) :
    DirApps.schemaDirDiags dirDef loc dirs = [] ↔ DirApps.Spec.DirectivesValid dirDef loc dirs :=
  DirApps.schemaDirDiags_nil_iff dirDef loc dirs

/-- `validate_argument_definitions`: no `UniqueInputValue` iff the argument names are pairwise distinct. -/
theorem argument_definitions_unique_iff (names : List Standalone.Name) :
    DirApps.argDefDups [] names = 0 ↔ names.Nodup := by
  rw [DirApps.argDefDups_zero_iff]; simp

/-- Build-time uniqueness (`extend_sticky` / `collect_sticky`, model of C13): a collision diagnostic
    (`…FieldNameCollision`, `EnumValueNameCollision`, `UnionMemberNameCollision`, `InputFieldNameCollision`,
    `DuplicateImplementsInterface…`, `DuplicateRootOperation`) is pushed iff a name occurs twice — already
    present from the definition / an earlier extension, or repeated in the list being added. -/
theorem build_reports_iff_duplicate (dup : SchemaBuild.Name → SchemaBuild.Diag) (origin : Option SchemaBuild.Pos)
    (items : List SchemaBuild.Item) (cs : List SchemaBuild.Comp) (errs : List SchemaBuild.Err) :
    (SchemaBuild.extendSticky dup origin cs errs items).2 = errs ↔
      (∀ it ∈ items, SchemaBuild.hasName cs it.name = false) ∧ (items.map (·.name)).Nodup :=
  SchemaBuild.extendSticky_reports_iff_duplicate dup origin items cs errs

/-- …and whatever is reported, the built list never holds a name twice (the first definition wins). -/
theorem build_first_definition_wins (dup : SchemaBuild.Name → SchemaBuild.Diag) (origin : Option SchemaBuild.Pos)
    (items : List SchemaBuild.Item) (cs : List SchemaBuild.Comp) (errs : List SchemaBuild.Err)
    (h : (cs.map (·.name)).Nodup) :
    ((SchemaBuild.extendSticky dup origin cs errs items).1.map (·.name)).Nodup :=
  SchemaBuild.extendSticky_names_nodup dup origin items cs errs h

open Apollo.Implementation Apollo.Implementation.Spec in
/-- The modelled rule set, grown: input cycles, transitive interfaces, root operations, directive
    self-reference, the implementation contract, kinds of references, directive applications, argument
    and member uniqueness — accepted iff the specification's predicates hold.  PARTIAL: argument value
    coercion, non-emptiness, reserved names (see C15.reserved_name_rule) and extension rules are not part
    of this conjunction. -/
theorem schema_verdict_iff_spec_partial2 (g : IGraph) (limit : Nat) (hg : g.length ≤ limit)
    (s : ISchema) (q m sub : Option RootTarget)
    (ds : DSchema) (hd : ds.dirs.length ≤ limit) (ht : ds.types.length ≤ limit)
    (isSub : Name → Name → Bool) (getIface : Nat → Option (List FieldM)) (tfields : List FieldM) (declared : List Nat)
    (kindOf : String → Option Kind) (refs : TypeRefs)
    (dirDef : Standalone.Name → Option Standalone.DirDef) (loc : Standalone.Loc) (apps : List Standalone.Dir)
    (argNames : List Standalone.Name)
    (dup : SchemaBuild.Name → SchemaBuild.Diag) (origin : Option SchemaBuild.Pos) (items : List SchemaBuild.Item)
    (errs : List SchemaBuild.Err) :
    (failingInputs g limit = [] ∧
      (∀ (a : Nat) (t : TypeInfo), s[a]? = some t → missingTransitive s t = []) ∧
      validateRoots q m sub = [] ∧
      failingDirectives ds limit = [] ∧
      implDiags isSub getIface tfields declared = [] ∧
      typeRefDiags kindOf refs = [] ∧
      DirApps.schemaDirDiags dirDef loc apps = [] ∧
      DirApps.argDefDups [] argNames = 0 ∧
      (SchemaBuild.extendSticky dup origin [] errs items).2 = errs) ↔
    ((∀ r, ¬ InputCycleThrough g r) ∧ TransitiveClosed s ∧ RootsValid q m sub ∧
      (∀ d, ¬ DirectiveSelfReference ds d) ∧
      (∀ i ∈ declared, ∀ ifields, getIface i = some ifields → ValidImplementation isSub tfields ifields) ∧
      RefsRightKind kindOf refs ∧
      DirApps.Spec.DirectivesValid dirDef loc apps ∧
      argNames.Nodup ∧
      (items.map (·.name)).Nodup) := by
  rw [input_rule_iff_spec g limit hg, transitive_interfaces_iff, roots_valid_iff, directive_rule_iff_spec ds limit hd ht,
    implementation_rule_iff_spec, reference_kinds_rule_iff_spec, directive_applications_rule_iff_spec,
    argument_definitions_unique_iff, build_reports_iff_duplicate]
  simp [SchemaBuild.hasName]

-- Non-vacuity: `@d0(a0: Int!) on OBJECT` applied twice at OBJECT, once without its argument
example : (DirApps.schemaDirDiags
    (fun n => if n == 0 then some ⟨false, [DirApps.TsLoc.object.loc], [⟨0, true⟩]⟩ else none) DirApps.TsLoc.object.loc
    [⟨0, [⟨0, .other []⟩]⟩, ⟨0, []⟩, ⟨1, []⟩]) = [.uniqueDirective, .requiredArgument, .undefinedDirective] := by decide


/-! ## growth 3: the rules that were oracle-only -/

/-- **Build-time rules.**  `SchemaBuilder` (one pass over the definitions, with a queue of extensions that
    precede their definition; Model/SchemaBuild.lean, tied to the code by `c13.schema` and `c14.build`) reports
    no error iff the document satisfies the specification's order-free reading: no executable definition, at
    most one schema definition, type names unique (built-in types included), directive names unique (a built-in
    directive may be re-defined once), every extension extends a defined type of its own kind, a schema extension
    has a schema to extend, and fields / enum values / union members / input fields / implemented interfaces /
    root operation types are unique within their type, definition and extensions together.
    Subsumes C13's `kind_mismatch_reported_in_both_orders` and `collision_first_definition_wins` examples. -/
theorem schema_build_iff_spec (ds : List SchemaBuild.Def) (hwf : SchemaBuild.WellFormed ds) :
    (SchemaBuild.build (SchemaBuild.Builder.new false false) [ds]).errors = [] ↔ SchemaBuild.BuildSpec ds :=
  SchemaBuild.build_errors_iff_spec ds hwf

/-- The loop invariant behind it, for later use: on an error-free build the entry of every type lists exactly
    the members (and interfaces) its definition and its extensions give it, whatever their order. -/
theorem built_type_has_all_members (ds : List SchemaBuild.Def) (hwf : SchemaBuild.WellFormed ds)
    (he : (SchemaBuild.addDocument (SchemaBuild.Builder.new false false) ds).errors = [])
    (n : SchemaBuild.Name) (t : SchemaBuild.TypeEntry)
    (hf : SchemaBuild.findType (SchemaBuild.addDocument (SchemaBuild.Builder.new false false) ds).types n = some t) :
    (∀ m, SchemaBuild.hasName t.body.members m = true ↔ m ∈ SchemaBuild.memberNames ds n) ∧
    (∀ m, SchemaBuild.hasName t.body.interfaces m = true ↔ m ∈ SchemaBuild.ifaceNames ds n) :=
  let hinv := (SchemaBuild.scan_spec ds hwf).2 he
  ⟨hinv.t.members n t hf, hinv.t.ifaces n t hf⟩

/-- **Non-emptiness.**  On an error-free build, validation pushes no `EmptyFieldSet` / `EmptyMemberSet` /
    `EmptyValueSet` / `EmptyInputValueSet` iff every non-scalar type the document defines has at least one member
    in its definition or in one of its extensions. -/
theorem nonempty_rule_iff_spec (ds : List SchemaBuild.Def) (hwf : SchemaBuild.WellFormed ds)
    (hb : (SchemaBuild.build (SchemaBuild.Builder.new false false) [ds]).errors = []) :
    SchemaNames.emptyTypeDiags (SchemaBuild.build (SchemaBuild.Builder.new false false) [ds]).types = [] ↔
      SchemaBuild.NonEmptyNames ds :=
  SchemaBuild.nonempty_rule_iff_spec ds hwf hb

/-- **Reserved names**, exactly: a `ReservedName` diagnostic is pushed for the name `cs` at `site` iff the document
    introduces that name there (type, directive, field, argument of a field or a directive, enum value, input
    field), outside the built-in definitions, and it starts with two underscores. -/
theorem reserved_diag_exact (s : SchemaNames.SchemaNames) (site : SchemaNames.Site) (cs : List Char) :
    (site, cs) ∈ SchemaNames.reservedDiags s ↔
      ∃ n, SchemaNames.Spec.NamesOf s site n ∧ n.chars = cs ∧ n.builtIn = false ∧ SchemaNames.Spec.Reserved cs :=
  SchemaNames.reserved_diag_iff s site cs

theorem reserved_rule_iff_spec (s : SchemaNames.SchemaNames) :
    SchemaNames.reservedDiags s = [] ↔ SchemaNames.Spec.NoReservedNames s :=
  SchemaNames.reserved_rule_iff_spec s

/-- **Values of correct type** (arguments of directives applied in the schema; default values once they are
    checked): `value_of_correct_type` pushes no diagnostic for a constant iff the constant coerces to the type
    (§3.5 scalars with the `i32` and finite-`f64` ranges, §3.9, §3.10 with §5.6.2–4, §3.11 incl. single-item
    coercion, §3.12; a custom scalar accepts every constant whose object literals have unique fields at every depth,
    `LiteralOK`). -/
theorem value_rule_iff_spec (S : ValueCheck.Schema) (hS : ValueCheck.Spec.Closed S) (ty : ValueCheck.Ty)
    (hty : ValueCheck.Spec.Defined S ty) (v : ValueCheck.Value) :
    ValueCheck.check S [] ty v = [] ↔ ValueCheck.Spec.Coerces S ty v :=
  ValueCheck.value_rule_iff_spec S hS ty hty v

/-- §5.6.3 holds for every object literal inside an accepted custom-scalar literal too (fix cce5216 and its
    extension to nested literals) -/
theorem opaque_literal_iff_unique (v : ValueCheck.Value) :
    ValueCheck.opaqueDiags [] v = [] ↔ ValueCheck.Spec.LiteralOK v := ValueCheck.opaque_iff v

/-- **`implements` lists**: no `UndefinedDefinition` / `RecursiveInterfaceDefinition` from
    `validate_implements_interfaces` iff every listed name is a defined interface and no interface lists itself. -/
theorem implements_rule_iff_spec (s : ISchema) :
    (∀ (a : Nat) (t : TypeInfo), s[a]? = some t → undefinedImplements s t = [] ∧ selfImplements a t = []) ↔
      ImplementsValid s :=
  implements_rule_iff s

open Apollo.Implementation Apollo.Implementation.Spec in
/-- **The whole verdict, family by family.**  Every rule family of the independent validator has its theorem
    (table at the top of this file); accepted iff all the specification's predicates hold.  The views
    (`g`, `s`, roots, `ds`, …, `doc`, `names`, and the argument values `vals` with their types) are the
    abstractions the correspondence streams tie to the real schema. -/
theorem schema_verdict_iff_spec (g : IGraph) (limit : Nat) (hg : g.length ≤ limit)
    (s : ISchema) (q m sub : Option RootTarget)
    (ds : DSchema) (hd : ds.dirs.length ≤ limit) (ht : ds.types.length ≤ limit)
    (isSub : Name → Name → Bool) (getIface : Nat → Option (List FieldM)) (tfields : List FieldM) (declared : List Nat)
    (kindOf : String → Option Kind) (refs : TypeRefs)
    (dirDef : Standalone.Name → Option Standalone.DirDef) (loc : Standalone.Loc) (apps : List Standalone.Dir)
    (argNames : List Standalone.Name)
    (doc : List SchemaBuild.Def) (hwf : SchemaBuild.WellFormed doc)
    (names : SchemaNames.SchemaNames)
    (S : ValueCheck.Schema) (hS : ValueCheck.Spec.Closed S)
    (vals : List (ValueCheck.Ty × ValueCheck.Value)) (hvals : ∀ p ∈ vals, ValueCheck.Spec.Defined S p.1) :
    (failingInputs g limit = [] ∧
      (∀ (a : Nat) (t : TypeInfo), s[a]? = some t → missingTransitive s t = []) ∧
      (∀ (a : Nat) (t : TypeInfo), s[a]? = some t → undefinedImplements s t = [] ∧ selfImplements a t = []) ∧
      validateRoots q m sub = [] ∧
      failingDirectives ds limit = [] ∧
      implDiags isSub getIface tfields declared = [] ∧
      typeRefDiags kindOf refs = [] ∧
      DirApps.schemaDirDiags dirDef loc apps = [] ∧
      DirApps.argDefDups [] argNames = 0 ∧
      ((SchemaBuild.build (SchemaBuild.Builder.new false false) [doc]).errors = [] ∧
        SchemaNames.emptyTypeDiags (SchemaBuild.build (SchemaBuild.Builder.new false false) [doc]).types = []) ∧
      SchemaNames.reservedDiags names = [] ∧
      (∀ p ∈ vals, ValueCheck.check S [] p.1 p.2 = [])) ↔
    ((∀ r, ¬ InputCycleThrough g r) ∧ TransitiveClosed s ∧ ImplementsValid s ∧ RootsValid q m sub ∧
      (∀ d, ¬ DirectiveSelfReference ds d) ∧
      (∀ i ∈ declared, ∀ ifields, getIface i = some ifields → ValidImplementation isSub tfields ifields) ∧
      RefsRightKind kindOf refs ∧
      DirApps.Spec.DirectivesValid dirDef loc apps ∧
      argNames.Nodup ∧
      (SchemaBuild.BuildSpec doc ∧ SchemaBuild.NonEmptyNames doc) ∧
      SchemaNames.Spec.NoReservedNames names ∧
      (∀ p ∈ vals, ValueCheck.Spec.Coerces S p.1 p.2)) := by
  rw [input_rule_iff_spec g limit hg, transitive_interfaces_iff, implements_rule_iff_spec, roots_valid_iff,
    directive_rule_iff_spec ds limit hd ht, implementation_rule_iff_spec, reference_kinds_rule_iff_spec,
    directive_applications_rule_iff_spec, argument_definitions_unique_iff, reserved_rule_iff_spec]
  have hbuild : ((SchemaBuild.build (SchemaBuild.Builder.new false false) [doc]).errors = [] ∧
        SchemaNames.emptyTypeDiags (SchemaBuild.build (SchemaBuild.Builder.new false false) [doc]).types = []) ↔
      (SchemaBuild.BuildSpec doc ∧ SchemaBuild.NonEmptyNames doc) := by
    constructor
    · intro ⟨h1, h2⟩
      exact ⟨(schema_build_iff_spec doc hwf).mp h1, (nonempty_rule_iff_spec doc hwf h1).mp h2⟩
    · intro ⟨h1, h2⟩
      have hb := (schema_build_iff_spec doc hwf).mpr h1
      exact ⟨hb, (nonempty_rule_iff_spec doc hwf hb).mpr h2⟩
  have hv : (∀ p ∈ vals, ValueCheck.check S [] p.1 p.2 = []) ↔ (∀ p ∈ vals, ValueCheck.Spec.Coerces S p.1 p.2) := by
    constructor
    · intro h p hp; exact (value_rule_iff_spec S hS p.1 (hvals p hp) p.2).mp (h p hp)
    · intro h p hp; exact (value_rule_iff_spec S hS p.1 (hvals p hp) p.2).mpr (h p hp)
  rw [hbuild, hv]

-- Non-vacuity of the new families
example : (SchemaBuild.build (SchemaBuild.Builder.new false false)
    [[⟨.typeExt .object, "A", 0, 1, [], [], [⟨"x", 2, 2, ""⟩]⟩, ⟨.typeDef .object, "A", 10, 11, [], [], []⟩,
      ⟨.typeDef .enum, "E", 20, 21, [], [], []⟩]]).errors = [] := by decide
example : SchemaNames.emptyTypeDiags (SchemaBuild.build (SchemaBuild.Builder.new false false)
    [[⟨.typeExt .object, "A", 0, 1, [], [], [⟨"x", 2, 2, ""⟩]⟩, ⟨.typeDef .object, "A", 10, 11, [], [], []⟩,
      ⟨.typeDef .enum, "E", 20, 21, [], [], []⟩]]).types = [("E", .enum)] := by decide
example : SchemaNames.reservedDiags ⟨[⟨⟨"__d".toList, false⟩, [⟨"__a".toList, false⟩]⟩],
    [⟨⟨"__Type".toList, true⟩, .fields [⟨⟨"__x".toList, false⟩, []⟩]⟩]⟩ =
    [(.directive, "__d".toList), (.argument, "__a".toList), (.field, "__x".toList)] := by decide
example : ValueCheck.check ⟨[("I", .input [⟨"a", .nonNullNamed "Int", false⟩])]⟩ [] (.named "I")
    (.object (.cons "a" (.int 2147483648) (.cons "a" .null .nil))) =
    [.uniqueInputValue, .requiredField, .intCoercionError] := by decide

end Apollo.C14
