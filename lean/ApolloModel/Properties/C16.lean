import ApolloModel.Proofs.BuiltinScalars2
import ApolloModel.Proofs.BuiltinScalars3
import ApolloModel.Proofs.ValueCheckStable
/-
C16 — Validation is idempotent.

Model: Model/BuiltinScalars.lean mirrors the built-in-scalar bookkeeping at the end of
`validate_schema` (record_type_ref / all_used / retain / insert), with the `HashSet` iteration
order as a universally quantified rearrangement.  Tied by the correspondence stream H (histories of
validate / unwrap / add a field / validate on the real API).  Executable re-validation is checked
on the implementation (validation is a function of (schema, document)).
-/
namespace Apollo.C16
open Apollo.Scalars

/-- Re-validating a validated schema leaves the type map identical, including which built-in
    scalars are present — for every well-formed schema and every hash-set iteration order. -/
theorem revalidate_fixpoint (order : List Name → List Name) (ho : IsOrder order) (s : Schema) (wf : WellFormed s) :
    bookkeeping order (bookkeeping order s) = bookkeeping order s := Scalars.revalidate_fixpoint order ho s wf

/-- If a reference to a previously removed built-in scalar `B` is added to a validated schema,
    re-validation restores exactly `B` (appended to the type map) and changes nothing else. -/
theorem restore_exact (order : List Name → List Name) (ho : IsOrder order) (s : Schema)
    (hfix : bookkeeping order s = s) (B : Name) (hB : B ∈ builtinScalars) (hund : s.defined B = false) :
    bookkeeping order { s with directiveRefs := B :: s.directiveRefs } =
      { s with directiveRefs := B :: s.directiveRefs, types := s.types ++ [(B, builtinDef)] } :=
  Scalars.restore_exact order ho s hfix B hB hund

/-- after a pass the map contains exactly the built-in scalars that are referenced -/
theorem referenced_builtins_present (order : List Name → List Name) (ho : IsOrder order) (s : Schema)
    (b : Name) (hb : b ∈ builtinScalars) (hr : s.allRefs.contains b = true) :
    (bookkeeping order s).defined b = true :=
  referenced_defined_after order (fun l x hx => (ho.mem l x).mpr hx) s b hb hr

theorem validation_keeps_references (order : List Name → List Name) (s : Schema) (wf : WellFormed s) :
    (bookkeeping order s).allRefs = s.allRefs := allRefs_bookkeeping order s wf

-- Non-vacuity: `Int` unused is pruned; a later reference restores it
def demo : Schema :=
  { types := [("Query", ⟨false, false, ["String"]⟩), ("String", builtinDef), ("Int", builtinDef), ("Boolean", builtinDef)],
    directiveRefs := ["Boolean"] }
example : (bookkeeping id demo).types.map (·.1) = ["Query", "String", "Boolean"] := by decide
example : (bookkeeping id { bookkeeping id demo with directiveRefs := "Int" :: (bookkeeping id demo).directiveRefs }).types.map (·.1)
    = ["Query", "String", "Boolean", "Int"] := by decide

/-! ### growth: the type lookup of the value check does not depend on pruning -/

/-- `value_of_correct_type` finds a definition for every built-in scalar name, whether or not a previous
    validation removed it from the type map (the repair 99806f4; before it the lookup was the map only,
    see `lookup_map_only_misses_pruned`). -/
theorem lookup_builtin_total (s : Schema) (b : Name) (hb : b ∈ builtinScalars) :
    (lookupForValue s b).isSome = true := Scalars.lookup_builtin_total s b hb

/-- The definition the value check sees for ANY type name is the same before and after a validation
    pass (every well-formed map, every hash-set order): the verdict of value checks cannot change between
    `validate(s)` and `validate(validate(s).into_inner())` because of the bookkeeping. -/
theorem value_lookup_stable (order : List Name → List Name) (ho : IsOrder order) (s : Schema) (wf : WellFormed s)
    (hbuilt : ∀ e ∈ s.types, builtinScalars.contains e.1 = true → e.2.isBuiltIn = true) (n : Name) :
    lookupForValue (bookkeeping order s) n = lookupForValue s n :=
  Scalars.value_lookup_stable order ho s wf hbuilt n

/-- Witness for the old lookup: after a pass prunes `Int`, the map-only lookup of `Int` finds nothing,
    while it found the scalar before — the value check was skipped once and ran on the next validation. -/
theorem lookup_map_only_misses_pruned :
    lookupMapOnly demo "Int" = some builtinDef ∧ lookupMapOnly (bookkeeping id demo) "Int" = none ∧
      lookupForValue (bookkeeping id demo) "Int" = some builtinDef := by decide

/-! ### growth 2: the value check itself (Model/ValueCheck.lean, property C14) -/

/-- `value_of_correct_type` reads the schema only through its type lookup: two schemas with the same lookup give
    the same diagnostics for every literal at every type reference (with any variable definitions). -/
theorem value_check_reads_lookup_only (S S' : ValueCheck.Schema) (h : ∀ n, S.lookup n = S'.lookup n)
    (vars : List ValueCheck.VarDef) (ty : ValueCheck.Ty) (v : ValueCheck.Value) :
    ValueCheck.check S vars ty v = ValueCheck.check S' vars ty v :=
  ValueCheck.check_congr S S' h vars v ty

/-- **The value check is stable under validation.**  For every well-formed type map, every hash-set order, every
    type reference and every literal, the full model of the value check (coercion per scalar, enums, lists, input
    objects, custom scalars) yields the same diagnostics on the type map after a validation pass — pruned built-in
    scalars included — as on the map before it.  `detail` is everything the value check looks at in the types
    other than the built-in scalars (validation does not change it).  Hence `validate(s)` and
    `validate(validate(s).into_inner())` agree on every directive-argument value. -/
theorem value_check_stable (order : List Name → List Name) (ho : IsOrder order) (s : Schema) (wf : WellFormed s)
    (hbuilt : ∀ e ∈ s.types, builtinScalars.contains e.1 = true → e.2.isBuiltIn = true)
    (detail : Name → ValueCheck.TypeDef) (vars : List ValueCheck.VarDef) (ty : ValueCheck.Ty) (v : ValueCheck.Value) :
    ValueCheck.check (valueSchema detail (bookkeeping order s)) vars ty v =
      ValueCheck.check (valueSchema detail s) vars ty v :=
  Scalars.value_check_stable order ho s wf hbuilt detail vars ty v

/-- the verdict form, and the same after any number of passes -/
theorem value_verdict_stable (order : List Name → List Name) (ho : IsOrder order) (s : Schema) (wf : WellFormed s)
    (hbuilt : ∀ e ∈ s.types, builtinScalars.contains e.1 = true → e.2.isBuiltIn = true)
    (detail : Name → ValueCheck.TypeDef) (ty : ValueCheck.Ty) (v : ValueCheck.Value) :
    (ValueCheck.check (valueSchema detail (bookkeeping order s)) [] ty v = [] ↔
      ValueCheck.check (valueSchema detail s) [] ty v = []) ∧
    ValueCheck.check (valueSchema detail (bookkeeping order (bookkeeping order s))) [] ty v =
      ValueCheck.check (valueSchema detail s) [] ty v := by
  refine ⟨by rw [value_check_stable order ho s wf hbuilt], ?_⟩
  rw [revalidate_fixpoint order ho s wf, value_check_stable order ho s wf hbuilt]

-- Non-vacuity (the 99806f4 scenario on the full model): `Int` is pruned from `demo`, and an out-of-range integer
-- for an `Int!` input field is still reported on the pruned map
example : ValueCheck.check (valueSchema (fun n => if n == "In" then .input [⟨"f", .nonNullNamed "Int", false⟩] else .other)
      (bookkeeping id { demo with types := demo.types ++ [("In", ⟨false, false, []⟩)] }))
    [] (.named "In") (.object (.cons "f" (.int 123456789012) .nil)) = [.intCoercionError] := by decide

end Apollo.C16
