import ApolloModel.Proofs.ParserLossless
import ApolloModel.Proofs.Lexer2
import ApolloModel.Proofs.ParserRecursion5
/-
C04 — Token and recursion limits are enforced exactly.

Lexer model (C03) + parser model (C01).  Proved for all inputs and all limits: the exact shape of
the limited token stream, the prefix property of the limited tree, the freeze of the error list
after the token-limit error, the balance and bound of the recursion counter.
PARTIAL: the cross-run characterisation "recursion-limit error ⟺ nesting depth of the unlimited
tree > r" and "reached figures = high-water marks" for the compiler wrapper are decided by the
correspondence/oracle on the implementation (every (n, r) pair per generated document).
-/
namespace Apollo.C04
open Apollo.Parse Apollo.Lex Apollo.Rowan

/-- With token limit `n`, the lexer yields exactly the first `n` items of the unlimited stream,
    followed by one limit error iff the unlimited stream is longer than `n`. -/
theorem token_limit_exact (n : Nat) (src : Lex.Str) :
    lex (some n) src = if (lex none src).length ≤ n then lex none src else (lex none src).take n ++ [.limit] :=
  Lex.token_limit_exact n src

/-- …so a limit error is reported iff the unlimited token stream is longer than `n`. -/
theorem token_limit_iff (n : Nat) (src : Lex.Str) :
    Item.limit ∈ lex (some n) src ↔ (lex none src).length > n := by
  rw [token_limit_exact]
  have hnl : Item.limit ∉ lex none src := by
    have key : ∀ fuel count s, Item.limit ∉ lexAux fuel none count s := by
      intro fuel
      induction fuel with
      | zero => intro count s; simp [lexAux]
      | succ k ih =>
        intro count s
        cases s with
        | nil => simp [lexAux]
        | cons c rest =>
          simp only [lexAux, Bool.false_eq_true, if_false, List.mem_cons, not_or]
          exact ⟨fun h => Parse.advance_ne_limit (c :: rest) h.symm, ih _ _⟩
    exact key _ _ _
  by_cases h : (lex none src).length ≤ n
  · simp only [h, if_true]
    exact ⟨fun hm => absurd hm hnl, fun hgt => by omega⟩
  · simp only [h, if_false, List.mem_append, List.mem_singleton, or_true, true_iff]
    omega

/-- With any token limit and any recursion limit, the text of the tree returned by `Parser::parse`
    is a prefix of the input (unless ty.rs threw a token away — the C02 finding). -/
theorem limited_tree_is_prefix (tl : Option Nat) (rl : Nat) (src : Parse.Str) (root : Elem)
    (h : (parse .document tl rl src).outcome = .tree root)
    (hd : (parse .document tl rl src).dropped = false) : root.text <+: src :=
  Parse.tree_text_prefix tl rl src root h hd

/-- Once the token-limit error is recorded (lexer finished, parser no longer accepting errors),
    no grammar function, however it continues, adds another error. -/
theorem no_error_after_token_limit {α : Type} (m : PI α) (s s' : PState) (a : α) (hi : Inv s)
    (hz : s.acceptErrors = false ∧ s.lx.finished = true) (h : m.run s = .ok a s') : s'.errors = s.errors :=
  Parse.errors_frozen_after_limit m s s' a hi hz h

/-- `LimitTracker::check_and_increment` / `decrement` as used by the grammar (`withRec`): the body
    runs one level deeper, the counter is restored afterwards, and the limit branch is taken
    exactly when the incremented counter exceeds the limit. -/
theorem recursion_counter_balanced {α : Type} (m : PI α) (s s' : PState) (a : α) (hi : Inv s)
    (h : m.run s = .ok a s') : s'.recCur = s.recCur ∧ s'.recLimit = s.recLimit := by
  have := m.ok s hi
  simp only [h, Post] at this
  exact ⟨this.2.recCur, this.2.recLimit⟩

/-- the limit branch is taken exactly when the incremented counter exceeds the limit, and then the
    body is not run at all -/
theorem withRec_on_limit {α : Type} (onLimit body : PI α) (s : PState) (h : s.recCur + 1 > s.recLimit) :
    (withRec onLimit body).run s =
      onLimit.run { s with recHigh := if s.recCur + 1 > s.recHigh then s.recCur + 1 else s.recHigh } := by
  simp [withRec, h]

-- Non-vacuity: a limit that stops in the middle of a node (kernel-evaluated)
example : lex (some 2) ['{', 'a', '}'] = [.tok .lCurly ['{'], .tok .name ['a'], .limit] := by decide

/-! ### The recursion limit across runs (growth): the `type` entry point

`Parse.typeDepth src` is read off the lexer's token sequence alone (number of nested list types the text
opens: its leading `[` tokens, ignored tokens allowed after each) — no parser run and no limit is involved
in its definition.  The hypothesis `hterm` (the model did not abort) is exactly `C01.parse_type_terminates`;
the two developments cannot be imported into one file because each declares a structure `Parse.TW`. -/

/-- `Parser::parse_type`, recursion limit `r`, no token limit: a recursion-limit error is reported if and
    only if the nesting depth of the input exceeds `r`. -/
theorem rec_limit_iff_depth (r : Nat) (src : Parse.Str) (hterm : ∀ w, (parse .type none r src).outcome ≠ .abort w) :
    (∃ e, e ∈ (parse .type none r src).errors ∧ e.kind = .limit) ↔ Parse.typeDepth src > r :=
  (Parse.parseType_rec_limit r src hterm).1

/-- …and the limit stops the descent at exactly level `r + 1`: the tracker's high-water mark is
    `min depth (r + 1)` — the limit is enforced neither earlier nor later. -/
theorem rec_high_exact (r : Nat) (src : Parse.Str) (hterm : ∀ w, (parse .type none r src).outcome ≠ .abort w) :
    (parse .type none r src).recHigh = min (Parse.typeDepth src) (r + 1) :=
  (Parse.parseType_rec_limit r src hterm).2

/-- Cross-run form: the depth is what any run that does not hit its limit reaches, so a run with limit `r`
    reports the limit error iff the unlimited run (any limit `R` that is not hit) went deeper than `r`. -/
theorem rec_limit_iff_unlimited_high (r R : Nat) (src : Parse.Str)
    (ht : ∀ w, (parse .type none r src).outcome ≠ .abort w) (hT : ∀ w, (parse .type none R src).outcome ≠ .abort w)
    (hfree : ¬ ∃ e, e ∈ (parse .type none R src).errors ∧ e.kind = .limit) :
    (parse .type none R src).recHigh = Parse.typeDepth src ∧
    ((∃ e, e ∈ (parse .type none r src).errors ∧ e.kind = .limit) ↔ (parse .type none R src).recHigh > r) := by
  have hR := Parse.parseType_rec_limit R src hT
  have hle : Parse.typeDepth src ≤ R := by
    by_cases h : Parse.typeDepth src > R
    · exact absurd (hR.1.mpr h) hfree
    · omega
  have hhigh : (parse .type none R src).recHigh = Parse.typeDepth src := by rw [hR.2]; omega
  exact ⟨hhigh, by rw [hhigh]; exact rec_limit_iff_depth r src ht⟩

/-- The limit is monotone: what is accepted with limit `r` is accepted with every larger limit. -/
theorem rec_limit_monotone (r r' : Nat) (hle : r ≤ r') (src : Parse.Str)
    (ht : ∀ w, (parse .type none r src).outcome ≠ .abort w) (ht' : ∀ w, (parse .type none r' src).outcome ≠ .abort w)
    (h : ∃ e, e ∈ (parse .type none r' src).errors ∧ e.kind = .limit) :
    ∃ e, e ∈ (parse .type none r src).errors ∧ e.kind = .limit := by
  have := (rec_limit_iff_depth r' src ht').mp h
  exact (rec_limit_iff_depth r src ht).mpr (by omega)

/-- The same statement for every entry point, with `depth` the maximal number of simultaneously open
    guarded constructs (selection sets; list values; object-field values; list types) of the token
    sequence.  NOT proved beyond the `type` entry point.  What is missing, in terms of the lemmas that exist
    for `ty.rs` (Proofs/ParserRecursion1–4): (1) `QG` ("leaves high-water mark, limit errors and
    `acceptErrors` alone") for the remaining primitives and loops of parser/mod.rs (`peek_while`,
    `peek_while_kind`, `parse_separated_list`, `peekTokenN`, `err_and_pop`) and for every grammar function
    without a guard; (2) a `depth` function on token sequences that follows value.rs / selection.rs
    (sibling constructs: the maximum over the items of a list, the fields of an object, the selections of a
    set, and over the definitions of a document), with the analogue of `lead_bracket` for each guarded
    construct; (3) the analogue of `RecOut` for runs that visit several sibling constructs: after the first
    limit hit `acceptErrors` is false and the later siblings still move the high-water mark only up to
    `r + 1` (needs the invariant `recHigh ≤ recLimit + 1`, preserved by `withRec`). -/
def rec_limit_iff_depth_statement (depth : Entry → Parse.Str → Nat) : Prop :=
  ∀ (e : Entry) (r : Nat) (src : Parse.Str), (∀ w, (parse e none r src).outcome ≠ .abort w) →
    ((∃ x, x ∈ (parse e none r src).errors ∧ x.kind = .limit) ↔ depth e src > r) ∧
    (parse e none r src).recHigh = min (depth e src) (r + 1)

-- Non-vacuity (kernel-evaluated): `[[Int]]` has depth 2; limit 1 stops at level 2, limit 2 does not stop
example : Parse.typeDepth "[[Int]]".toList = 2 := by decide +kernel
example : (parse .type none 1 "[[Int]]".toList).recHigh = 2 ∧
    (parse .type none 1 "[[Int]]".toList).errors.map (·.kind) = [.limit] := by decide +kernel
example : (parse .type none 2 "[[Int]]".toList).recHigh = 2 ∧ (parse .type none 2 "[[Int]]".toList).errors = [] := by
  decide +kernel

end Apollo.C04
