import ApolloModel.Proofs.ParserLossless
import ApolloModel.Proofs.Lexer2
import ApolloModel.Proofs.ParserRecursion5
import ApolloModel.Proofs.ParserTermination2
import ApolloModel.Proofs.ParserRecursion9
import ApolloModel.Proofs.ParserRecursion13
import ApolloModel.Proofs.ParserRecursion17
import ApolloModel.Proofs.ParserRecursion20
import ApolloModel.Proofs.ParserRecursion25
import ApolloModel.Proofs.ParserRecursion31
import ApolloModel.Proofs.ParserRecursion33
import ApolloModel.Proofs.ParserRecursion37
/-
C04 — Token and recursion limits are enforced exactly.

Lexer model (C03) + parser model (C01).  Proved for all inputs and all limits: the exact shape of
the limited token stream, the prefix property of the limited tree, the freeze of the error list
after the token-limit error, the balance and bound of the recursion counter.
Growth: the cross-run characterisation "recursion-limit error ⟺ nesting depth of the unlimited tree > r"
(all entry points), the token limit at the parser level, and the closed form of the depth on the syntax tree.
PARTIAL: "reached figures = high-water marks" for the compiler wrapper is decided by the correspondence/oracle
on the implementation (every (n, r) pair per generated document).
-/
namespace Apollo.C04
open Apollo.Parse Apollo.Lex Apollo.Rowan

/-- With token limit `n`, the lexer yields exactly the first `n` items of the unlimited stream,
    followed by one limit error iff the unlimited stream is longer than `n`. -/
theorem token_limit_exact (n : Nat) (src : Lex.Str) :
    lex (some n) src = if (lex none src).length ≤ n then lex none src else (lex none src).take n ++ [.limit] :=
  Lex.token_limit_exact n src

/-- …so a limit error is reported iff the unlimited token stream is longer than `n`. -/
theorem token_limit_iff (n : Nat) (src : Lex.Str) :
    Item.limit ∈ lex (some n) src ↔ (lex none src).length > n := by
  rw [token_limit_exact]
  have hnl : Item.limit ∉ lex none src := by
    have key : ∀ fuel count s, Item.limit ∉ lexAux fuel none count s := by
      intro fuel
      induction fuel with
      | zero => intro count s; simp [lexAux]
      | succ k ih =>
        intro count s
        cases s with
        | nil => simp [lexAux]
        | cons c rest =>
          simp only [lexAux, Bool.false_eq_true, if_false, List.mem_cons, not_or]
          exact ⟨fun h => Parse.advance_ne_limit (c :: rest) h.symm, ih _ _⟩
    exact key _ _ _
  by_cases h : (lex none src).length ≤ n
  · simp only [h, if_true]
    exact ⟨fun hm => absurd hm hnl, fun hgt => by omega⟩
  · simp only [h, if_false, List.mem_append, List.mem_singleton, or_true, true_iff]
    omega

/-- With any token limit and any recursion limit, the text of the tree returned by `Parser::parse`
    is a prefix of the input (unless ty.rs threw a token away — the C02 finding). -/
theorem limited_tree_is_prefix (tl : Option Nat) (rl : Nat) (src : Parse.Str) (root : Elem)
    (h : (parse .document tl rl src).outcome = .tree root)
    (hd : (parse .document tl rl src).dropped = false) : root.text <+: src :=
  Parse.tree_text_prefix tl rl src root h hd

/-- Once the token-limit error is recorded (lexer finished, parser no longer accepting errors),
    no grammar function, however it continues, adds another error. -/
theorem no_error_after_token_limit {α : Type} (m : PI α) (s s' : PState) (a : α) (hi : Inv s)
    (hz : s.acceptErrors = false ∧ s.lx.finished = true) (h : m.run s = .ok a s') : s'.errors = s.errors :=
  Parse.errors_frozen_after_limit m s s' a hi hz h

/-- `LimitTracker::check_and_increment` / `decrement` as used by the grammar (`withRec`): the body
    runs one level deeper, the counter is restored afterwards, and the limit branch is taken
    exactly when the incremented counter exceeds the limit. -/
theorem recursion_counter_balanced {α : Type} (m : PI α) (s s' : PState) (a : α) (hi : Inv s)
    (h : m.run s = .ok a s') : s'.recCur = s.recCur ∧ s'.recLimit = s.recLimit := by
  have := m.ok s hi
  simp only [h, Post] at this
  exact ⟨this.2.recCur, this.2.recLimit⟩

/-- the limit branch is taken exactly when the incremented counter exceeds the limit, and then the
    body is not run at all -/
theorem withRec_on_limit {α : Type} (onLimit body : PI α) (s : PState) (h : s.recCur + 1 > s.recLimit) :
    (withRec onLimit body).run s =
      onLimit.run { s with recHigh := if s.recCur + 1 > s.recHigh then s.recCur + 1 else s.recHigh } := by
  simp [withRec, h]

-- Non-vacuity: a limit that stops in the middle of a node (kernel-evaluated)
example : lex (some 2) ['{', 'a', '}'] = [.tok .lCurly ['{'], .tok .name ['a'], .limit] := by decide

/-! ### The recursion limit across runs (growth): the `type` entry point

`Parse.typeDepth src` is read off the lexer's token sequence alone (number of nested list types the text
opens: its leading `[` tokens, ignored tokens allowed after each) — no parser run and no limit is involved
in its definition.  The model never aborts on this entry point (`Parse.parse_type_terminates`, C01), so the
theorems hold for every input and every limit without side condition. -/

/-- `Parser::parse_type`, recursion limit `r`, no token limit: a recursion-limit error is reported if and
    only if the nesting depth of the input exceeds `r`. -/
theorem rec_limit_iff_depth (r : Nat) (src : Parse.Str) :
    (∃ e, e ∈ (parse .type none r src).errors ∧ e.kind = .limit) ↔ Parse.typeDepth src > r :=
  (Parse.parseType_rec_limit r src (fun w => Parse.parse_type_terminates none r src w)).1

/-- …and the limit stops the descent at exactly level `r + 1`: the tracker's high-water mark is
    `min depth (r + 1)` — the limit is enforced neither earlier nor later. -/
theorem rec_high_exact (r : Nat) (src : Parse.Str) :
    (parse .type none r src).recHigh = min (Parse.typeDepth src) (r + 1) :=
  (Parse.parseType_rec_limit r src (fun w => Parse.parse_type_terminates none r src w)).2

/-- Cross-run form: the depth is what any run that does not hit its limit reaches, so a run with limit `r`
    reports the limit error iff the unlimited run (any limit `R` that is not hit) went deeper than `r`. -/
theorem rec_limit_iff_unlimited_high (r R : Nat) (src : Parse.Str)
    (hfree : ¬ ∃ e, e ∈ (parse .type none R src).errors ∧ e.kind = .limit) :
    (parse .type none R src).recHigh = Parse.typeDepth src ∧
    ((∃ e, e ∈ (parse .type none r src).errors ∧ e.kind = .limit) ↔ (parse .type none R src).recHigh > r) := by
  have hle : Parse.typeDepth src ≤ R := by
    by_cases h : Parse.typeDepth src > R
    · exact absurd ((rec_limit_iff_depth R src).mpr h) hfree
    · omega
  have hhigh : (parse .type none R src).recHigh = Parse.typeDepth src := by rw [rec_high_exact R src]; omega
  exact ⟨hhigh, by rw [hhigh]; exact rec_limit_iff_depth r src⟩

/-- The limit is monotone: what is accepted with limit `r` is accepted with every larger limit. -/
theorem rec_limit_monotone (r r' : Nat) (hle : r ≤ r') (src : Parse.Str)
    (h : ∃ e, e ∈ (parse .type none r' src).errors ∧ e.kind = .limit) :
    ∃ e, e ∈ (parse .type none r src).errors ∧ e.kind = .limit := by
  have := (rec_limit_iff_depth r' src).mp h
  exact (rec_limit_iff_depth r src).mpr (by omega)


/-! ### The recursion limit across runs (growth): values (value.rs)

Values have no entry point, so the statement is about a `value` run from a state.  Guarded in value.rs: every
item of a list value and the value of every object field.  The depth is stated through the unlimited run
(the property's own wording): two runs of the same `value` call from the same state, one with limit `r`,
one with a limit `R ≥ r` that is never hit.  `Parse.GI s` = no token limit, "errors no longer accepted ⇒ a
limit error is on record", "lexer finished ⇒ the current token is the EOF token" (all true of the initial
state and kept by every function of parser/mod.rs and value.rs). -/

/-- The limit stops the descent at exactly level `r + 1`: the limited run's high-water mark is
    `min (unlimited high-water mark) (r + 1)`, for every value, every start state and every pair of limits
    — siblings included (after the first hit the later items and fields never go beyond `r + 1`). -/
theorem value_rec_high_exact (n : Nat) (c p : Bool) (s : PState) (r R : Nat) (sr sR : PState)
    (hrR : r ≤ R) (hc : s.recCur ≤ r) (hh : s.recHigh ≤ r) (g : Parse.GI s)
    (hr : (value n c p).run (Parse.setL r s) = .ok () sr) (hR : (value n c p).run (Parse.setL R s) = .ok () sR)
    (hfree : sR.recHigh ≤ R) : sr.recHigh = min sR.recHigh (r + 1) :=
  (Parse.value_cross n c p s r R sr sR hrR hc hh g hr hR hfree).1

/-- A recursion-limit error is on record after the limited run iff the unlimited run went deeper than `r`
    (when the unlimited run itself recorded no limit error). -/
theorem value_rec_limit_iff_depth (n : Nat) (c p : Bool) (s : PState) (r R : Nat) (sr sR : PState)
    (hrR : r ≤ R) (hc : s.recCur ≤ r) (hh : s.recHigh ≤ r) (g : Parse.GI s)
    (hr : (value n c p).run (Parse.setL r s) = .ok () sr) (hR : (value n c p).run (Parse.setL R s) = .ok () sR)
    (hfree : sR.recHigh ≤ R) (hclean : ¬ Parse.HasLim sR.errors) :
    Parse.HasLim sr.errors ↔ sR.recHigh > r := by
  have h := (Parse.value_cross n c p s r R sr sR hrR hc hh g hr hR hfree).2
  constructor
  · intro hl
    rcases h.mp hl with h1 | h1
    · exact h1
    · exact absurd h1 hclean
  · intro hgt
    exact h.mpr (Or.inl hgt)

/-- Below the limit the two runs are the same run: same tree, same errors, same token position. -/
theorem value_same_run_below_limit (n : Nat) (c p : Bool) (s : PState) (r R : Nat) (sr sR : PState)
    (hrR : r ≤ R) (hc : s.recCur ≤ r) (hh : s.recHigh ≤ r) (g : Parse.GI s)
    (hr : (value n c p).run (Parse.setL r s) = .ok () sr) (hR : (value n c p).run (Parse.setL R s) = .ok () sR)
    (hfree : sR.recHigh ≤ R) (hle : sR.recHigh ≤ r) : sr = Parse.setL r sR := by
  rcases (Parse.xAll n).valueX c p s r R () () sr sR hrR hc hh g trivial hr hR with ⟨t, e1, e2, _, _, _, _⟩ | ⟨_, _, d3⟩
  · subst e1 e2; rfl
  · omega

/-- Whatever the input, no value run moves the high-water mark beyond `limit + 1`, and it only adds errors. -/
theorem value_high_bounded (n : Nat) (c p : Bool) (s s' : PState) (hc : s.recCur ≤ s.recLimit)
    (h : (value n c p).run s = .ok () s') :
    s.recHigh ≤ s'.recHigh ∧ s'.recHigh ≤ max s.recHigh (s.recLimit + 1) := by
  have b := (Parse.xAll n).valueB c p s () s' hc h
  exact ⟨b.lo, b.hi⟩

/-- high-water mark and error kinds of a `value` run on a source text (for the examples) -/
def valueRun (r : Nat) (src : String) : Option (Nat × List EKind) :=
  match (value 60 false false).run (initState src.toList none r) with
  | .ok _ s => some (s.recHigh, s.errors.map (·.kind))
  | _ => none

-- `[[1] [2 [3]] {a: [4]}]` nests three guarded constructs; limits 10, 2 and 1 (kernel-evaluated)
example : valueRun 10 "[[1] [2 [3]] {a: [4]}]" = some (3, []) := by decide +kernel
example : valueRun 2 "[[1] [2 [3]] {a: [4]}]" = some (3, [.limit]) := by decide +kernel
example : valueRun 1 "[[1] [2 [3]] {a: [4]}]" = some (2, [.limit]) := by decide +kernel

/-! ### The recursion limit across runs (growth): selection sets and `Parser::parse_selection_set`

Guarded: the body of every selection set (right after its `{`), the selections handed to `field_set` without
braces, and — through arguments and directives — every list item and object-field value.  Same two-run form
as for values; for the entry point the model's termination (`parse_selection_set_terminates`) removes every
side condition but "the larger limit is not hit". -/

/-- selection.rs: a `selection_set` run with limit `r` against the same run with a limit `R ≥ r` that is
    never hit — the limited high-water mark is `min (unlimited high-water mark) (r + 1)`. -/
theorem selection_set_rec_high_exact (n : Nat) (s : PState) (r R : Nat) (sr sR : PState)
    (hrR : r ≤ R) (hc : s.recCur ≤ r) (hh : s.recHigh ≤ r) (g : Parse.GI s)
    (hr : (selectionSet n).run (Parse.setL r s) = .ok () sr) (hR : (selectionSet n).run (Parse.setL R s) = .ok () sR)
    (hfree : sR.recHigh ≤ R) :
    sr.recHigh = min sR.recHigh (r + 1) ∧ (Parse.HasLim sr.errors ↔ (sR.recHigh > r ∨ Parse.HasLim sR.errors)) := by
  rcases (Parse.xSel n).selSet.x s r R () () sr sR hrR hc hh g trivial hr hR with ⟨t, e1, e2, _, th, _, _⟩ | ⟨d1, d2, d3⟩
  · subst e1 e2
    refine ⟨?_, ?_⟩
    · show t.recHigh = min t.recHigh (r + 1)
      omega
    · show Parse.HasLim t.errors ↔ (t.recHigh > r ∨ Parse.HasLim t.errors)
      constructor
      · exact Or.inr
      · rintro (h | h)
        · omega
        · exact h
  · exact ⟨by omega, ⟨fun _ => Or.inl (by omega), fun _ => d1⟩⟩

/-- `Parser::parse_selection_set` with recursion limit `r` (no token limit), against the parse of the same
    text with any limit `R ≥ r` that is not hit: the tracker stops at exactly `min depth (r + 1)` where the
    depth is the high-water mark of the unlimited parse. -/
theorem rec_high_exact_selection_set (r R : Nat) (src : Parse.Str) (hrR : r ≤ R)
    (hfree : (parse .selectionSet none R src).recHigh ≤ R) :
    (parse .selectionSet none r src).recHigh = min (parse .selectionSet none R src).recHigh (r + 1) :=
  (Parse.parseSelectionSet_cross r R src hrR hfree).1

/-- …and a recursion-limit error is reported iff the unlimited parse went deeper than `r`. -/
theorem rec_limit_iff_depth_selection_set (r R : Nat) (src : Parse.Str) (hrR : r ≤ R)
    (hfree : (parse .selectionSet none R src).recHigh ≤ R) :
    (∃ e, e ∈ (parse .selectionSet none r src).errors ∧ e.kind = .limit) ↔ (parse .selectionSet none R src).recHigh > r := by
  have h := (Parse.parseSelectionSet_cross r R src hrR hfree).2
  constructor
  · intro hl
    rcases h.mp hl with h1 | h1
    · exact h1
    · exact absurd h1 (Parse.parse_no_limit_error .selectionSet R src hfree)
  · intro hgt
    exact h.mpr (Or.inl hgt)

-- `{ a(x: [[1]]) { b { c } } }`: depth 3 (kernel-evaluated), limits 5, 2, 1
example : (parse .selectionSet none 5 "{ a(x: [[1]]) { b { c } } }".toList).recHigh = 3 ∧
    (parse .selectionSet none 5 "{ a(x: [[1]]) { b { c } } }".toList).errors = [] := by decide +kernel
example : (parse .selectionSet none 2 "{ a(x: [[1]]) { b { c } } }".toList).recHigh = 3 ∧
    (parse .selectionSet none 2 "{ a(x: [[1]]) { b { c } } }".toList).errors.map (·.kind) = [.limit] := by decide +kernel
example : (parse .selectionSet none 1 "{ a(x: [[1]]) { b { c } } }".toList).recHigh = 2 ∧
    (parse .selectionSet none 1 "{ a(x: [[1]]) { b { c } } }".toList).errors.map (·.kind) = [.limit] := by decide +kernel

/-! ### The recursion limit across runs (growth): `Parser::parse` (documents) and all entry points

Every definition parser of the grammar (operation.rs, fragment.rs, variable.rs, schema/scalar/object/
interface/union/enum/input-object definitions and extensions, directive definitions, ty.rs through
`checkpoint`/`wrap_node`) and the loop of `document()` go through the same two-run calculus
(Proofs/ParserRecursion14–17); `Parse.parse_terminates` discharges abort-freedom for every entry point. -/

/-- `Parser::parse` on a document with recursion limit `r` (no token limit), against the parse of the same
    text with any limit `R ≥ r` that is not hit: the tracker stops at exactly `min depth (r + 1)`, the depth
    being the high-water mark of the unlimited parse. -/
theorem rec_high_exact_document (r R : Nat) (src : Parse.Str) (hrR : r ≤ R)
    (hfree : (parse .document none R src).recHigh ≤ R) :
    (parse .document none r src).recHigh = min (parse .document none R src).recHigh (r + 1) :=
  (Parse.parse_cross .document r R src hrR hfree).1

/-- …and a recursion-limit error is reported iff the unlimited parse went deeper than `r`. -/
theorem rec_limit_iff_depth_document (r R : Nat) (src : Parse.Str) (hrR : r ≤ R)
    (hfree : (parse .document none R src).recHigh ≤ R) :
    (∃ e, e ∈ (parse .document none r src).errors ∧ e.kind = .limit) ↔ (parse .document none R src).recHigh > r := by
  have h := (Parse.parse_cross .document r R src hrR hfree).2
  constructor
  · intro hl
    rcases h.mp hl with h1 | h1
    · exact h1
    · exact absurd h1 (Parse.parse_no_limit_error .document R src hfree)
  · intro hgt
    exact h.mpr (Or.inl hgt)

/-- A parse whose recursion limit is never hit (and that has no token limit) reports no limit error:
    `limit_err` is only reached when `check_and_increment` fails, and then the high-water mark exceeds the
    limit.  For every entry point and every source text. -/
theorem unlimited_parse_has_no_limit_error (e : Entry) (R : Nat) (src : Parse.Str)
    (hfree : (parse e none R src).recHigh ≤ R) : ¬ ∃ x, x ∈ (parse e none R src).errors ∧ x.kind = .limit :=
  Parse.parse_no_limit_error e R src hfree

/-- The statement for every entry point, in cross-run form: the nesting depth of a source text is the
    high-water mark of a parse whose limit `R` is not hit ("the unlimited tree"); with limit `r ≤ R` a
    recursion-limit error is reported iff that depth exceeds `r`, and the tracker stops at exactly
    `min depth (r + 1)`. -/
def rec_limit_iff_depth_statement : Prop :=
  ∀ (e : Entry) (r R : Nat) (src : Parse.Str), r ≤ R → (parse e none R src).recHigh ≤ R →
    ((∃ x, x ∈ (parse e none r src).errors ∧ x.kind = .limit) ↔ (parse e none R src).recHigh > r) ∧
    (parse e none r src).recHigh = min (parse e none R src).recHigh (r + 1)

/-- …proved for the three entry points `document`, `selectionSet`, `type`, with no other side condition. -/
theorem rec_limit_iff_depth_all_entry_points : rec_limit_iff_depth_statement := by
  intro e r R src hrR hfree
  obtain ⟨h1, h2⟩ := Parse.parse_cross e r R src hrR hfree
  refine ⟨⟨fun hl => ?_, fun hgt => h2.mpr (Or.inl hgt)⟩, h1⟩
  rcases h2.mp hl with h | h
  · exact h
  · exact absurd h (Parse.parse_no_limit_error e R src hfree)

/-- the earlier form, with the (now redundant) hypothesis that the unlimited parse recorded no limit error -/
theorem rec_limit_iff_depth_all_entry_points_of_clean (e : Entry) (r R : Nat) (src : Parse.Str) (hrR : r ≤ R)
    (hfree : (parse e none R src).recHigh ≤ R) (_hclean : ¬ ∃ x, x ∈ (parse e none R src).errors ∧ x.kind = .limit) :
    ((∃ x, x ∈ (parse e none r src).errors ∧ x.kind = .limit) ↔ (parse e none R src).recHigh > r) ∧
    (parse e none r src).recHigh = min (parse e none R src).recHigh (r + 1) :=
  rec_limit_iff_depth_all_entry_points e r R src hrR hfree

-- a document with an operation, a fragment and a type definition (kernel-evaluated): depth 2
example : (parse .document none 9 "query($v: [[Int]] = [[1]]) { a { b } } type T { f(x: [Int]): Int }".toList).recHigh = 2 := by
  decide +kernel
example : (parse .document none 1 "query($v: [[Int]] = [[1]]) { a { b } } type T { f(x: [Int]): Int }".toList).errors.map (·.kind) = [.limit] := by
  decide +kernel

-- Non-vacuity (kernel-evaluated): `[[Int]]` has depth 2; limit 1 stops at level 2, limit 2 does not stop
example : Parse.typeDepth "[[Int]]".toList = 2 := by decide +kernel
example : (parse .type none 1 "[[Int]]".toList).recHigh = 2 ∧
    (parse .type none 1 "[[Int]]".toList).errors.map (·.kind) = [.limit] := by decide +kernel
example : (parse .type none 2 "[[Int]]".toList).recHigh = 2 ∧ (parse .type none 2 "[[Int]]".toList).errors = [] := by
  decide +kernel

/-! ### The token limit at the parser level (growth): every entry point, every recursion limit

The parser pulls its tokens one at a time from the lexer (`Lexer::next` through `Parser::next_token`), so these
are statements about `parse e (some n) r src` itself, not about `lex`.  What the lexer's tracker counts: every
item it hands out — tokens of every kind (white space, comments and commas included), lexer errors, and the
EOF token; `(lex none src).length` is that count for the whole source.  `tokHigh` is the tracker's high-water
mark: the number of items the parser asked for, the refused one included. -/

/-- With token limit `n`, for every entry point and every recursion limit:
    (1) the lexer is asked for at most `n + 1` items, and never for more than the source has;
    (2) when the `n + 1`-th item was asked for (and refused), a limit error is reported and the source really
        has more than `n` items;
    (3) a limit error in the list comes from that refusal or from the recursion guard;
    (4) the lexer stands after `k ≤ n` items of the unlimited stream: the text of the remaining items is the
        tail of what the parser left unconsumed — at most `n` items went into the tree. -/
theorem token_limit_parse (e : Entry) (n r : Nat) (src : Parse.Str) :
    (parse e (some n) r src).tokHigh ≤ n + 1 ∧
    (parse e (some n) r src).tokHigh ≤ (lex none src).length ∧
    ((parse e (some n) r src).tokHigh > n →
      (∃ x, x ∈ (parse e (some n) r src).errors ∧ x.kind = .limit) ∧ (lex none src).length > n) ∧
    ((∃ x, x ∈ (parse e (some n) r src).errors ∧ x.kind = .limit) →
      (parse e (some n) r src).tokHigh > n ∨ (parse e (some n) r src).recHigh > r) ∧
    (∃ k, k ≤ n ∧ k ≤ (lex none src).length ∧ k ≤ (parse e (some n) r src).tokHigh ∧
      Lex.texts ((lex none src).drop k) <:+ (parse e (some n) r src).leftover) :=
  Parse.parse_token_limit e n r src

/-- `Parser::parse` (documents) runs the lexer to its end whatever happens on the way (errors, recursion limit):
    the tracker stops at exactly `min (items of the source) (n + 1)` — the limit is enforced neither earlier
    nor later. -/
theorem token_limit_document_high (n r : Nat) (src : Parse.Str) :
    (parse .document (some n) r src).tokHigh = min (lex none src).length (n + 1) :=
  Parse.parse_document_tok_high n r src

/-- …so a document parse whose recursion limit is not hit reports a limit error iff the source has more than
    `n` items.  (The two standalone entry points stop at the first token after the selection set / type and do
    not lex the rest: for them only the four clauses of `token_limit_parse` hold.) -/
theorem token_limit_document_iff (n r : Nat) (src : Parse.Str) (hfree : (parse .document (some n) r src).recHigh ≤ r) :
    (∃ x, x ∈ (parse .document (some n) r src).errors ∧ x.kind = .limit) ↔ (lex none src).length > n :=
  Parse.parse_document_token_limit_iff n r src hfree

/-- The prefix clause for all three entry points (`finish_standalone` unwraps the temporary root without
    changing the text), any token limit, any recursion limit. -/
theorem limited_tree_is_prefix_all_entry_points (e : Entry) (tl : Option Nat) (rl : Nat) (src : Parse.Str) (root : Elem)
    (h : (parse e tl rl src).outcome = .tree root) (hd : (parse e tl rl src).dropped = false) : root.text <+: src :=
  Parse.tree_text_prefix_entry e tl rl src root h hd

/-- What can follow the first limit error (either limit), for every entry point and every pair of limits:
    lexer errors and limit errors only — never a syntax error.  (`push_err` drops everything once
    `accept_errors` is false, but `next_token` pushes what the lexer reports unconditionally; after the
    *token*-limit error the lexer is finished and nothing at all follows: `no_error_after_token_limit`.) -/
theorem errors_after_first_limit (e : Entry) (tl : Option Nat) (r : Nat) (src : Parse.Str) :
    (¬ ∃ x, x ∈ (parse e tl r src).errors ∧ x.kind = .limit) ∨
    ∃ pre i extra, (parse e tl r src).errors = pre ++ (⟨i, 0, .limit⟩ : PErr) :: extra ∧
      (¬ ∃ x, x ∈ pre ∧ x.kind = .limit) ∧ ∀ x ∈ extra, x.kind = .lexer ∨ x.kind = .limit :=
  Parse.parse_errors_after_limit e tl r src

-- `{a}` is four items (`{`, `a`, `}`, EOF): limit 3 refuses the EOF token, limit 4 does not (kernel-evaluated)
example : (lex none "{a}".toList).length = 4 := by decide +kernel
example : (parse .document (some 3) 9 "{a}".toList).tokHigh = 4 ∧
    (parse .document (some 3) 9 "{a}".toList).errors.map (·.kind) = [.limit] := by decide +kernel
example : (parse .document (some 4) 9 "{a}".toList).tokHigh = 4 ∧
    (parse .document (some 4) 9 "{a}".toList).errors = [] := by decide +kernel
-- white space counts: `{ a }` is six items
example : (parse .document (some 5) 9 "{ a }".toList).errors.map (·.kind) = [.limit] := by decide +kernel
-- a standalone entry point does not lex past the token it stops at: `Int ! ! !` as a type, limit 4
example : (lex none "Int ] ] ]".toList).length = 8 ∧
    (parse .type (some 4) 9 "Int ] ] ]".toList).tokHigh = 3 ∧
    (parse .type (some 4) 9 "Int ] ] ]".toList).errors.map (·.kind) = [.syntax] := by decide +kernel
-- after a recursion-limit error the lexer's errors are still reported (kernel-evaluated; same on the implementation)
example : (parse .document none 1 "{ a { b } } ~ { c }".toList).errors.map (·.kind) = [.limit, .lexer] := by decide +kernel

/-! ### The closed form of the nesting depth (growth): a syntactic function of the tree

`Parse.gd` is defined by recursion on the syntax tree alone — no parser run, no limit: a `SELECTION_SET` node and a
`LIST_TYPE` node cost one level, a `LIST_VALUE` node with at least one item costs one level (`[]` costs nothing:
the guard sits on the items), an `OBJECT_FIELD` node with its `:` costs one level (the guard sits on the field's
value), every other node costs nothing; the depth of a node is that cost plus the maximum over its children.
Proofs/ParserRecursion26–31: a judgement "what this function added to the tree has depth `d`, and the tracker's
high-water mark moved to `max high (current + d)`" for every function of the grammar (all definition parsers
included), the five guard sites by hand, everything else by the automation of parts 16/19/22. -/

/-- For a source text that parses without error under a recursion limit `R` that is not hit, the tracker's
    high-water mark IS the nesting depth of the returned tree — every entry point. -/
theorem rec_high_is_tree_depth (e : Entry) (R : Nat) (src : Parse.Str) (herr : (parse e none R src).errors = [])
    (hfree : (parse e none R src).recHigh ≤ R) :
    ∃ root, (parse e none R src).outcome = .tree root ∧ (parse e none R src).recHigh = Parse.gd root :=
  Parse.parse_depth e R src herr hfree

/-- The property's wording: for a grammatical input (its unlimited parse `R` reports no error), with recursion
    limit `r` a recursion-limit error is reported if and only if the nesting depth of its syntax tree exceeds
    `r`, and the tracker stops at exactly `min depth (r + 1)`. -/
theorem rec_limit_iff_tree_depth (e : Entry) (r R : Nat) (src : Parse.Str) (hrR : r ≤ R)
    (herr : (parse e none R src).errors = []) (hfree : (parse e none R src).recHigh ≤ R) :
    ∃ root, (parse e none R src).outcome = .tree root ∧
      ((∃ x, x ∈ (parse e none r src).errors ∧ x.kind = .limit) ↔ Parse.gd root > r) ∧
      (parse e none r src).recHigh = min (Parse.gd root) (r + 1) := by
  obtain ⟨root, h1, h2⟩ := rec_high_is_tree_depth e R src herr hfree
  obtain ⟨h3, h4⟩ := rec_limit_iff_depth_all_entry_points e r R src hrR hfree
  exact ⟨root, h1, by rw [← h2]; exact h3, by rw [← h2]; exact h4⟩

/-- depth of the tree of a parse (0 if there is none) — for the examples -/
def treeDepth (p : PResult) : Nat := match p.outcome with | .tree root => Parse.gd root | _ => 0

-- kernel-evaluated: the tree depth of the examples above, and the cases where the guard sits on the items
example : treeDepth (parse .document none 9 "query($v: [[Int]] = [[1]]) { a { b } } type T { f(x: [Int]): Int }".toList) = 2 := by
  decide +kernel
example : treeDepth (parse .selectionSet none 5 "{ a(x: [[1]]) { b { c } } }".toList) = 3 := by decide +kernel
example : treeDepth (parse .type none 5 "[[Int]]".toList) = 2 := by decide +kernel
-- `[]` and `{}` cost nothing; `[[]]` costs one; `{a: {}}` costs one
example : treeDepth (parse .selectionSet none 5 "{ a(x: [], y: {}) }".toList) = 1 ∧
    (parse .selectionSet none 5 "{ a(x: [], y: {}) }".toList).recHigh = 1 := by decide +kernel
example : treeDepth (parse .selectionSet none 5 "{ a(x: [[]], y: {b: {}}) }".toList) = 2 ∧
    (parse .selectionSet none 5 "{ a(x: [[]], y: {b: {}}) }".toList).recHigh = 2 := by decide +kernel

/-! ### The token-limit error is the last error (growth) -/

/-- "…and reports no error after the first limit error" (the token-limit clause): once the lexer refused an
    item (`tokHigh > n`), the error list ENDS with a limit error — for every entry point, every recursion limit,
    no side condition.  After the refusal the lexer hands out nothing (so no lexer error can follow),
    `accept_errors` is false (so `push_err` drops everything) and `limit_err` finds no token to report at (so a
    later hit of the recursion guard adds nothing either). -/
theorem token_limit_error_is_last (e : Entry) (n r : Nat) (src : Parse.Str) (h : (parse e (some n) r src).tokHigh > n) :
    ∃ pre i, (parse e (some n) r src).errors = pre ++ [(⟨i, 0, .limit⟩ : PErr)] :=
  Parse.parse_token_limit_error_last e n r src h

-- both limits: the recursion-limit error first, then a lexer error, then the token-limit error — which is last
example : (parse .document (some 13) 1 "{ a { b } } ~ { c }".toList).errors.map (·.kind) = [.limit, .lexer, .limit] ∧
    (parse .document (some 13) 1 "{ a { b } } ~ { c }".toList).tokHigh = 14 := by decide +kernel
-- the token limit first: nothing follows, not even the recursion-limit error of the guard that is hit afterwards
example : (parse .document (some 5) 1 "{ a { b } }".toList).errors.map (·.kind) = [.limit] ∧
    (parse .document (some 5) 1 "{ a { b } }".toList).recHigh = 2 ∧
    (parse .document (some 5) 1 "{ a { b } }".toList).tokHigh = 6 := by decide +kernel

/-! ### A limit error is reported iff the limit was hit; the closed form needs only "no error" (growth)

The cross-run calculus (Proofs/ParserRecursion8–17) no longer needs "the larger limit is not hit": when the
larger limit is hit at a guard, the smaller one is hit at the same guard.  Comparing a parse with itself gives
"hit ⇒ the limit error is on record" (at every guard site a token is there to report it at). -/

/-- No token limit: a limit error is reported if and only if the recursion limit was hit — every entry point,
    every source text, every limit. -/
theorem limit_error_iff_hit (e : Entry) (R : Nat) (src : Parse.Str) :
    (∃ x, x ∈ (parse e none R src).errors ∧ x.kind = .limit) ↔ (parse e none R src).recHigh > R :=
  Parse.parse_limit_iff_hit e R src

/-- The cross-run statement with NO side condition: for all `r ≤ R`, the limited run's high-water mark is
    `min (high-water mark of the run with R) (r + 1)` and it reports a limit error iff that mark exceeds `r`. -/
theorem rec_limit_cross_run (e : Entry) (r R : Nat) (src : Parse.Str) (hrR : r ≤ R) :
    (parse e none r src).recHigh = min (parse e none R src).recHigh (r + 1) ∧
    ((∃ x, x ∈ (parse e none r src).errors ∧ x.kind = .limit) ↔ (parse e none R src).recHigh > r) :=
  Parse.parse_cross_all e r R src hrR

/-- The closed form from "no error" alone: the high-water mark of an error-free parse is the depth of its tree. -/
theorem rec_high_is_tree_depth_of_no_error (e : Entry) (R : Nat) (src : Parse.Str) (herr : (parse e none R src).errors = []) :
    ∃ root, (parse e none R src).outcome = .tree root ∧ (parse e none R src).recHigh = Parse.gd root :=
  Parse.parse_depth_of_no_error e R src herr

/-- **The property's wording**: for an input that some parse (limit `R`) accepts without error, with `root` the
    tree of that parse: for every `r ≤ R`, a recursion-limit error is reported with limit `r` if and only if the
    nesting depth `gd root` exceeds `r`; the tracker stops at exactly `min (gd root) (r + 1)`. -/
theorem rec_limit_iff_tree_depth_of_no_error (e : Entry) (r R : Nat) (src : Parse.Str) (hrR : r ≤ R)
    (herr : (parse e none R src).errors = []) :
    ∃ root, (parse e none R src).outcome = .tree root ∧
      ((∃ x, x ∈ (parse e none r src).errors ∧ x.kind = .limit) ↔ Parse.gd root > r) ∧
      (parse e none r src).recHigh = min (Parse.gd root) (r + 1) := by
  obtain ⟨root, h1, h2⟩ := rec_high_is_tree_depth_of_no_error e R src herr
  obtain ⟨h3, h4⟩ := rec_limit_cross_run e r R src hrR
  exact ⟨root, h1, by rw [← h2]; exact h4, by rw [← h2]; exact h3⟩

/-! With a token limit ALSO set, "`recHigh > r` ⇒ a limit error is reported" is not proved (the calculus above is
for runs without token limit; the statement is believed true: at a guard site either a token is current or the
lexer has just refused one, and then the token-limit error is on record — second example above — and is compared
on the implementation for every (n, r) pair).  What IS proved with both limits: `token_limit_parse` (a limit error
comes from the refused item or from a hit guard) and `token_limit_error_is_last`. -/

/-! ### The tree depth and the Ast-level budgets of the completeness theorems (C05/C07) -/

/-- Types: for a source text that spells the type reference `t` (hypotheses of `type_in_grammar_is_accepted`), the
    depth of the returned tree is exactly `tyDepth t`; and `Parse.typeDepth src = tyDepth t`. -/
theorem type_tree_depth_is_tyDepth (rl : Nat) (src : Parse.Str) (t : Ast.Ty) (ts : List Tok) (e : Tok)
    (hclean : LexClean src) (hsig : sig (srcToks src) = ts ++ [e]) (he : e.kind = .eof)
    (hty : ts.map astOf = (Ast.tTy t).map some) (hdepth : Parse.tyDepth t ≤ rl) (hhead : HeadSig (srcToks src)) :
    (∃ root, (parse .type none rl src).outcome = .tree root ∧ Parse.gd root = Parse.tyDepth t) ∧
    Parse.typeDepth src = Parse.tyDepth t :=
  ⟨Parse.type_tree_depth rl src t ts e hclean hsig he hty hdepth hhead, Parse.typeDepth_eq_tyDepth src t ts e hsig hty hhead⟩

/-- Selection sets: for a source text that spells the selections `ss` (hypotheses of `fieldset_accept_complete`),
    fitting the budget `rl − 1` implies that the returned tree is at most `rl` deep (= the high-water mark).
    The converse fails: the budget charges one level for an empty list / object (`vdepth (.list .nil) = 1`),
    the parser guards the items and the tree depth counts them — witnesses below. -/
theorem selection_set_budget_bounds_tree_depth (rl : Nat) (src : Parse.Str) (ss : Ast.Sels) (ts : List Tok) (e : Tok)
    (hclean : LexClean src) (hsig : sig (srcToks src) = ts ++ [e]) (he : e.kind = .eof)
    (hne : ss ≠ Ast.Sels.nil) (hb : 1 ≤ rl) (hfit : Parse.fitSels ss (rl - 1))
    (hx : (TokIs ts (.p .lCurly :: Ast.tSels ss ++ [.p .rCurly]) ∧ HeadSig (srcToks src)) ∨ TokIs ts (Ast.tSels ss)) :
    ∃ root, (parse .selectionSet none rl src).outcome = .tree root ∧ Parse.gd root ≤ rl ∧
      (parse .selectionSet none rl src).recHigh = Parse.gd root :=
  Parse.selection_set_tree_depth_le rl src ss ts e hclean hsig he hne hb hfit hx

-- where the two notions differ: `{ a(x: []) }` is accepted with limit 1 and its tree is 1 deep …
example : (parse .selectionSet none 1 "{ a(x: []) }".toList).errors = [] ∧
    treeDepth (parse .selectionSet none 1 "{ a(x: []) }".toList) = 1 := by decide +kernel
-- … but its selections do not fit the budget 0 = 1 − 1, because the empty list is charged one level
example : Parse.vdepth (.list .nil) = 1 ∧ Parse.vdepth (.obj .nil) = 1 := ⟨rfl, rfl⟩
example : ¬ Parse.fitSels (.cons (.field none "a".toList [("x".toList, .list .nil)] [] .nil) .nil) 0 := by
  intro h
  rw [Parse.fitSels, Parse.fitSel] at h
  have := (h.1.1 ("x".toList, .list .nil) (by simp)).2
  simp [Parse.vdepth, Parse.vsdepth] at this
-- same for `{}`; a non-empty list is charged the same by both
example : (parse .selectionSet none 1 "{ a(x: {}) }".toList).errors = [] ∧
    treeDepth (parse .selectionSet none 1 "{ a(x: {}) }".toList) = 1 := by decide +kernel
example : treeDepth (parse .selectionSet none 2 "{ a(x: [1]) }".toList) = 2 ∧ Parse.vdepth (.list (.cons (.int "1".toList) .nil)) = 1 :=
  ⟨by decide +kernel, rfl⟩

/-! ### Both limits set: "the recursion limit was hit ⇒ a limit error is reported", reduced to one lemma

Still NOT proved unconditionally.  It is true for this reason: either the lexer refused an item — then the token-limit
error is on record and is the last error (`token_limit_error_is_last`), whatever the guards did afterwards, including a
guard hit with no token current (examples below) — or it never refused one, and then the run is the run without token
limit, where every hit is reported (`limit_error_iff_hit`).  The second half, "a token limit that is not reached does
not change the run", is the one missing lemma: it is a two-run (relational) statement about every grammar function,
the generic one-state pass of Proofs/ParserRecursion21–25 cannot express it, and the cross-run calculus of
Proofs/ParserRecursion6–17 is built on `limit = none`.  The theorem below makes the reduction exact: from that lemma
(hypothesis `hsame`, for this source and these limits) the clause follows. -/

/-- **Both limits set.**  If a token limit that was not reached (`tokHigh ≤ n`) leaves the error list and the
    recursion high-water mark as they are without token limit, then a hit recursion limit is reported. -/
theorem rec_hit_reported_with_token_limit (e : Entry) (n r : Nat) (src : Parse.Str)
    (hsame : (parse e (some n) r src).tokHigh ≤ n →
      (parse e (some n) r src).errors = (parse e none r src).errors ∧
      (parse e (some n) r src).recHigh = (parse e none r src).recHigh)
    (h : (parse e (some n) r src).recHigh > r) :
    ∃ x, x ∈ (parse e (some n) r src).errors ∧ x.kind = .limit := by
  by_cases ht : (parse e (some n) r src).tokHigh > n
  · obtain ⟨pre, i, he⟩ := token_limit_error_is_last e n r src ht
    exact ⟨⟨i, 0, .limit⟩, by rw [he]; simp, rfl⟩
  · obtain ⟨h1, h2⟩ := hsame (by omega)
    rw [h1]
    exact (limit_error_iff_hit e r src).mpr (by rw [← h2]; exact h)

/-- The half that IS unconditional: once the token limit was reached a limit error is on record, hit or not. -/
theorem limit_error_when_token_limit_reached (e : Entry) (n r : Nat) (src : Parse.Str)
    (ht : (parse e (some n) r src).tokHigh > n) : ∃ x, x ∈ (parse e (some n) r src).errors ∧ x.kind = .limit := by
  obtain ⟨pre, i, he⟩ := token_limit_error_is_last e n r src ht
  exact ⟨⟨i, 0, .limit⟩, by rw [he]; simp, rfl⟩

-- a guard hit with NO token current (the lexer refused the very first item): `limit_err` adds nothing, the token-limit
-- error is the limit error on record — braced and brace-less field sets
example : (parse .selectionSet (some 0) 0 "{a}".toList).errors.map (·.kind) = [.limit] ∧
    (parse .selectionSet (some 0) 0 "{a}".toList).recHigh = 1 ∧
    (parse .selectionSet (some 0) 0 "{a}".toList).tokHigh = 1 := by decide +kernel
example : (parse .selectionSet (some 0) 0 "a".toList).errors.map (·.kind) = [.limit] ∧
    (parse .selectionSet (some 0) 0 "a".toList).recHigh = 1 := by decide +kernel
-- a token limit that is not reached: the run is the run without token limit (an instance of `hsame`)
example : (parse .document (some 20) 1 "{ a { b } }".toList).tokHigh = 12 ∧
    (parse .document (some 20) 1 "{ a { b } }".toList).errors = (parse .document none 1 "{ a { b } }".toList).errors ∧
    (parse .document (some 20) 1 "{ a { b } }".toList).recHigh = (parse .document none 1 "{ a { b } }".toList).recHigh := by
  decide +kernel

/-! ### Both limits set: the missing lemma, proved for sources within the token limit (growth)

A two-run (relational) pass over the whole grammar (Proofs/ParserRecursion34–37): with at most `n` items in the
source, the run with token limit `n` is, state by state, the run without token limit — the lexer never refuses an
item, and neither does the CLONED lexer that `peek_n` runs ahead (which obeys the limit too).  This gives `hsame` for
every entry point when the source is within the limit, and unconditionally for documents (a document parse lexes the
source to its end, `token_limit_document_high`).  What stays open, exactly: the two standalone entry points on a
source with MORE than `n` items of which at most `n` were lexed (they stop after the selection set / type).  There the
step-by-step relation breaks at `peek_n`: its cloned lexer can reach the limit — and return nothing — while the main
lexer is still below it; the token it looked at is lexed by the main lexer a few steps later, which the
state-by-state relation cannot use. -/

/-- **A token limit that the source does not exceed is irrelevant**: the whole parse result (tree, errors, both
    high-water marks, leftover) is the one without token limit — every entry point, every recursion limit. -/
theorem token_limit_not_exceeded_is_irrelevant (e : Entry) (n r : Nat) (src : Parse.Str) (h : (lex none src).length ≤ n) :
    parse e (some n) r src = parse e none r src :=
  Parse.parse_limit_irrelevant e n r src h

/-- **Both limits set, documents: a hit recursion limit is reported** — no side condition. -/
theorem rec_hit_reported_with_token_limit_document (n r : Nat) (src : Parse.Str)
    (h : (parse .document (some n) r src).recHigh > r) :
    ∃ x, x ∈ (parse .document (some n) r src).errors ∧ x.kind = .limit := by
  refine rec_hit_reported_with_token_limit .document n r src (fun ht => ?_) h
  have hh := token_limit_document_high n r src
  have hle : (lex none src).length ≤ n := by omega
  rw [token_limit_not_exceeded_is_irrelevant .document n r src hle]
  exact ⟨rfl, rfl⟩

/-- **Both limits set, every entry point**: a hit recursion limit is reported, unless the source has more than `n`
    items of which at most `n` were lexed (only possible for the two standalone entry points). -/
theorem rec_hit_reported_with_both_limits (e : Entry) (n r : Nat) (src : Parse.Str)
    (h : (parse e (some n) r src).recHigh > r) :
    (∃ x, x ∈ (parse e (some n) r src).errors ∧ x.kind = .limit) ∨
    ((parse e (some n) r src).tokHigh ≤ n ∧ n < (lex none src).length ∧ e ≠ .document) := by
  by_cases hle : (lex none src).length ≤ n
  · left
    refine rec_hit_reported_with_token_limit e n r src (fun _ => ?_) h
    rw [token_limit_not_exceeded_is_irrelevant e n r src hle]
    exact ⟨rfl, rfl⟩
  · by_cases ht : (parse e (some n) r src).tokHigh > n
    · exact Or.inl (limit_error_when_token_limit_reached e n r src ht)
    · by_cases hd : e = .document
      · subst hd
        exact Or.inl (rec_hit_reported_with_token_limit_document n r src h)
      · exact Or.inr ⟨by omega, by omega, hd⟩

end Apollo.C04
