import ApolloModel.Proofs.ParserLossless
import ApolloModel.Proofs.Lexer2
/-
C04 — Token and recursion limits are enforced exactly.

Lexer model (C03) + parser model (C01).  Proved for all inputs and all limits: the exact shape of
the limited token stream, the prefix property of the limited tree, the freeze of the error list
after the token-limit error, the balance and bound of the recursion counter.
PARTIAL: the cross-run characterisation "recursion-limit error ⟺ nesting depth of the unlimited
tree > r" and "reached figures = high-water marks" for the compiler wrapper are decided by the
correspondence/oracle on the implementation (every (n, r) pair per generated document).
-/
namespace Apollo.C04
open Apollo.Parse Apollo.Lex Apollo.Rowan

/-- With token limit `n`, the lexer yields exactly the first `n` items of the unlimited stream,
    followed by one limit error iff the unlimited stream is longer than `n`. -/
theorem token_limit_exact (n : Nat) (src : Lex.Str) :
    lex (some n) src = if (lex none src).length ≤ n then lex none src else (lex none src).take n ++ [.limit] :=
  Lex.token_limit_exact n src

/-- …so a limit error is reported iff the unlimited token stream is longer than `n`. -/
theorem token_limit_iff (n : Nat) (src : Lex.Str) :
    Item.limit ∈ lex (some n) src ↔ (lex none src).length > n := by
  rw [token_limit_exact]
  have hnl : Item.limit ∉ lex none src := by
    have key : ∀ fuel count s, Item.limit ∉ lexAux fuel none count s := by
      intro fuel
      induction fuel with
      | zero => intro count s; simp [lexAux]
      | succ k ih =>
        intro count s
        cases s with
        | nil => simp [lexAux]
        | cons c rest =>
          simp only [lexAux, Bool.false_eq_true, if_false, List.mem_cons, not_or]
          exact ⟨fun h => Parse.advance_ne_limit (c :: rest) h.symm, ih _ _⟩
    exact key _ _ _
  by_cases h : (lex none src).length ≤ n
  · simp only [h, if_true]
    exact ⟨fun hm => absurd hm hnl, fun hgt => by omega⟩
  · simp only [h, if_false, List.mem_append, List.mem_singleton, or_true, true_iff]
    omega

/-- With any token limit and any recursion limit, the text of the tree returned by `Parser::parse`
    is a prefix of the input (unless ty.rs threw a token away — the C02 finding). -/
theorem limited_tree_is_prefix (tl : Option Nat) (rl : Nat) (src : Parse.Str) (root : Elem)
    (h : (parse .document tl rl src).outcome = .tree root)
    (hd : (parse .document tl rl src).dropped = false) : root.text <+: src :=
  Parse.tree_text_prefix tl rl src root h hd

/-- Once the token-limit error is recorded (lexer finished, parser no longer accepting errors),
    no grammar function, however it continues, adds another error. -/
theorem no_error_after_token_limit {α : Type} (m : PI α) (s s' : PState) (a : α) (hi : Inv s)
    (hz : s.acceptErrors = false ∧ s.lx.finished = true) (h : m.run s = .ok a s') : s'.errors = s.errors :=
  Parse.errors_frozen_after_limit m s s' a hi hz h

/-- `LimitTracker::check_and_increment` / `decrement` as used by the grammar (`withRec`): the body
    runs one level deeper, the counter is restored afterwards, and the limit branch is taken
    exactly when the incremented counter exceeds the limit. -/
theorem recursion_counter_balanced {α : Type} (m : PI α) (s s' : PState) (a : α) (hi : Inv s)
    (h : m.run s = .ok a s') : s'.recCur = s.recCur ∧ s'.recLimit = s.recLimit := by
  have := m.ok s hi
  simp only [h, Post] at this
  exact ⟨this.2.recCur, this.2.recLimit⟩

/-- the limit branch is taken exactly when the incremented counter exceeds the limit, and then the
    body is not run at all -/
theorem withRec_on_limit {α : Type} (onLimit body : PI α) (s : PState) (h : s.recCur + 1 > s.recLimit) :
    (withRec onLimit body).run s =
      onLimit.run { s with recHigh := if s.recCur + 1 > s.recHigh then s.recCur + 1 else s.recHigh } := by
  simp [withRec, h]

-- Non-vacuity: a limit that stops in the middle of a node (kernel-evaluated)
example : lex (some 2) ['{', 'a', '}'] = [.tok .lCurly ['{'], .tok .name ['a'], .limit] := by decide

end Apollo.C04
