import ApolloModel.Proofs.CoercionVars
/-
C28 — Variable coercion follows the specification.

Model: Model/Coercion.lean transliterates `coerce_variable_values` / `coerce_variable_value`
(resolvers/input_coercion.rs) over Model/Json.lean (serde_json values; `graphql_value_to_json`) and
Model/ExecSchema.lean.  Spec: Spec/Coercion.lean — input coercion (§3.5–§3.12) and
CoerceVariableValues (§6.1.2) as a relation, with apollo-compiler's documented scalar rules, and the
one observed deviation as the parameter `Rules`:
  * `Rules.spec`    the specification;
  * `Rules.apollo`  default values are used as written (not coerced).
The code is *exactly* `Rules.apollo` (`coerce_ok_iff_apollo_rules`, no side condition).  Against
`Rules.spec` the property fails on defaults that are not written in coerced form, shown on a witness
(`C28_counterexample_default_not_coerced`); the `_partial` theorems prove the property under a guard
that excludes exactly this class.  (The `ID` arm accepts every JSON integer since fix aeed67a.)
The behaviour of the model is tied to the Rust by the correspondence stream `c28.cv`.
-/
namespace Apollo.C28
open Apollo Apollo.Spec Apollo.Coercion AList

/-- what validation guarantees and the theorems use: input field names and variable names are distinct -/
structure ValidInput (s : ExecSchema) (defs : List InputDef) : Prop where
  schema : SchemaWF s
  vars : (fieldNames defs).Nodup

/-- The recursion never runs out of the fuel the entry point computes (all schemas, variable
    definitions and values; input object types may be recursive). -/
theorem coerce_never_out_of_fuel (s : ExecSchema) (defs : List InputDef) (values : AList Json) :
    coerceVariableValues s defs values ≠ .error .outOfFuel :=
  vars_fuel s defs values

/-- For every schema, operation and JSON variables map: coercion succeeds iff CoerceVariableValues
    succeeds under the rules the code implements (`Rules.apollo`), and the result is a result of that
    relation.  No side condition besides distinct names. -/
theorem coerce_ok_iff_apollo_rules (s : ExecSchema) (defs : List InputDef) (hv : ValidInput s defs)
    (values : AList Json) :
    ((∃ r, coerceVariableValues s defs values = .ok r) ↔ ∃ r, CoercesVars Rules.apollo s defs values r) ∧
    ∀ r, coerceVariableValues s defs values = .ok r → CoercesVars Rules.apollo s defs values r := by
  have sound : ∀ r, coerceVariableValues s defs values = .ok r → CoercesVars Rules.apollo s defs values r :=
    fun r h => vars_sound Rules.apollo s hv.schema (Or.inl rfl) defs hv.vars (Or.inl rfl) values r h
  refine ⟨⟨fun ⟨r, h⟩ => ⟨r, sound r h⟩, ?_⟩, sound⟩
  intro hspec
  cases h : coerceVariableValues s defs values with
  | ok r => exact ⟨r, rfl⟩
  | error e =>
    have he : e ≠ .outOfFuel := by
      intro he
      subst he
      exact vars_fuel s defs values h
    exact absurd hspec (vars_refuse Rules.apollo s defs values e h he)

/-- the full statement of the first sentence of C28 (against the specification itself) -/
def coerce_ok_iff_spec_statement : Prop :=
  ∀ (s : ExecSchema) (defs : List InputDef) (values : AList Json), ValidInput s defs →
    ((∃ r, coerceVariableValues s defs values = .ok r) ↔ ∃ r, CoercesVars Rules.spec s defs values r)

/-- PARTIAL (missing: default values that are not written in coerced form, see
    `C28_counterexample_default_not_coerced`): when every default value of the schema's input fields
    and of the operation's variables is already in coerced form, coercion succeeds iff the
    specification's CoerceVariableValues succeeds. -/
theorem coerce_ok_iff_spec_partial (s : ExecSchema) (defs : List InputDef) (hv : ValidInput s defs)
    (hcan : CanonicalDefaults Rules.spec s) (hvcan : VarDefaultsCanonical Rules.spec s defs)
    (values : AList Json) :
    (∃ r, coerceVariableValues s defs values = .ok r) ↔ ∃ r, CoercesVars Rules.spec s defs values r := by
  constructor
  · rintro ⟨r, h⟩
    exact ⟨r, vars_sound Rules.spec s hv.schema (Or.inr hcan) defs hv.vars (Or.inr hvcan) values r h⟩
  · intro hspec
    cases h : coerceVariableValues s defs values with
    | ok r => exact ⟨r, rfl⟩
    | error e =>
      have he : e ≠ .outOfFuel := by
        intro he
        subst he
        exact vars_fuel s defs values h
      exact absurd hspec (vars_refuse Rules.spec s defs values e h he)

/-- PARTIAL (same guard on defaults): the result of a successful coercion is a result of the
    specification's CoerceVariableValues itself (`Rules.spec`): every provided value coerced per its type,
    defaults for absent variables, nothing for absent nullable variables without default. -/
theorem coerce_result_spec_partial (s : ExecSchema) (defs : List InputDef) (hv : ValidInput s defs)
    (hcan : CanonicalDefaults Rules.spec s) (hvcan : VarDefaultsCanonical Rules.spec s defs)
    (values r : AList Json) (h : coerceVariableValues s defs values = .ok r) :
    CoercesVars Rules.spec s defs values r :=
  vars_sound Rules.spec s hv.schema (Or.inr hcan) defs hv.vars (Or.inr hvcan) values r h

/-- A request error of the model is a request error of the specification (no guard at all):
    whenever coercion fails, CoerceVariableValues has no result. -/
theorem coerce_err_spec_err (s : ExecSchema) (defs : List InputDef) (values : AList Json) (e : CoerceErr)
    (h : coerceVariableValues s defs values = .error e) :
    ¬ ∃ r, CoercesVars Rules.spec s defs values r := by
  have he : e ≠ .outOfFuel := by
    intro he
    subst he
    exact vars_fuel s defs values h
  exact vars_refuse Rules.spec s defs values e h he

/-- The result contains exactly the provided or defaulted variables (no guard). -/
theorem coerce_keys (s : ExecSchema) (defs : List InputDef) (hv : ValidInput s defs)
    (values r : AList Json) (h : coerceVariableValues s defs values = .ok r) (k : String) :
    (get? r k).isSome = true ↔
      ∃ vd, vd ∈ defs ∧ vd.name = k ∧ ((get? values k).isSome = true ∨ vd.default.isSome = true) :=
  vars_keys s defs hv.vars values r h k

/-- the full statement of "each conforming to its declared type" -/
def coerce_conforms_statement : Prop :=
  ∀ (s : ExecSchema) (defs : List InputDef) (values r : AList Json), ValidInput s defs →
    coerceVariableValues s defs values = .ok r →
    ∀ vd rv, vd ∈ defs → get? r vd.name = some rv → Conforms s vd.ty rv

/-- PARTIAL (guard: defaults written in coerced form): every value of the result conforms to the
    declared type of its variable — null only where nullable, one array per list layer (single values
    wrapped), Int within 32 bits, Float a float or an integer below 2^53 − 1 in magnitude, String /
    Boolean of their own kind, ID a string or an integer, enum values by name, input objects with
    only declared fields, every field with a default present, every absent field nullable. -/
theorem coerce_conforms_partial (s : ExecSchema) (defs : List InputDef) (hv : ValidInput s defs)
    (hcan : CanonicalDefaults Rules.spec s) (hvcan : VarDefaultsCanonical Rules.spec s defs)
    (values r : AList Json) (h : coerceVariableValues s defs values = .ok r) :
    ∀ vd rv, vd ∈ defs → get? r vd.name = some rv → Conforms s vd.ty rv := by
  intro vd rv hvd hr
  obtain ⟨_, hall⟩ := coerce_result_spec_partial s defs hv hcan hvcan values r h
  have hx := hall vd hvd
  cases hg : get? values vd.name with
  | some v =>
    simp only [hg] at hx
    obtain ⟨rv', hr', hc⟩ := hx
    rw [hr] at hr'
    cases hr'
    exact coerces_conforms rfl hc
  | none =>
    cases hd : vd.default with
    | some d =>
      simp only [hg, hd] at hx
      obtain ⟨rd, hr', hc⟩ := hx
      rw [hr] at hr'
      cases hr'
      exact coerces_conforms rfl (by simpa [DefaultOutcome, Rules.spec] using hc)
    | none =>
      simp only [hg, hd] at hx
      rw [hr] at hx
      cases hx.2

/-- Explicit `null` is kept (for a nullable variable), absence without default leaves no entry. -/
theorem explicit_null_kept_absent_omitted (s : ExecSchema) (defs : List InputDef) (hv : ValidInput s defs)
    (values r : AList Json) (h : coerceVariableValues s defs values = .ok r) (vd : InputDef) (hvd : vd ∈ defs) :
    (get? values vd.name = some .null → get? r vd.name = some .null ∧ vd.ty.isNonNull = false) ∧
    (get? values vd.name = none → vd.default = none → get? r vd.name = none) := by
  obtain ⟨_, hall⟩ := (coerce_ok_iff_apollo_rules s defs hv values).2 r h
  have hx := hall vd hvd
  constructor
  · intro hg
    simp only [hg] at hx
    obtain ⟨rv, hr, hc⟩ := hx
    cases hc
    case null hn => exact ⟨hr, hn⟩
    case listSingle inner r' hsh hn hna hc' => simp [Json.isNull] at hn
    case scalar name htd hsh hn hok => simp [Json.isNull] at hn
  · intro hg hd
    simp only [hg, hd] at hx
    exact hx.2

/-! ### The place where the code departs from the specification -/

def schema0 : ExecSchema := { types := [] }

theorem schema0_wf : SchemaWF schema0 := by
  intro n fields h
  simp [schema0, ExecSchema.typeDef?, get?] at h

/-- `query($x: [Int] = 1)` with `{}`: the code returns `{"x": 1}`, which is not a list. -/
theorem C28_counterexample_default_not_coerced : ¬ coerce_conforms_statement := by
  intro hall
  have hm : coerceVariableValues schema0 [⟨"x", .list (.named "Int"), some (.int 1)⟩] [] = .ok [("x", .int 1)] := rfl
  have h := hall schema0 [⟨"x", .list (.named "Int"), some (.int 1)⟩] [] [("x", .int 1)]
    ⟨schema0_wf, (by simp [fieldNames])⟩
    hm ⟨"x", .list (.named "Int"), some (.int 1)⟩ (.int 1) (by simp) (by simp [get?])
  cases h
  case scalar name htd hsh hn hok => simp [Ty.shape] at hsh

/-! ### The hypotheses are satisfiable by a non-trivial instance -/

/-- `input P { x: Int!  y: Int = 7  l: [Float] = [1.5]  p: P }`, `enum Color { RED GREEN }` -/
def schema1 : ExecSchema :=
  { types := [("Color", .enum ["RED", "GREEN"]),
      ("P", .input [⟨"x", .nonNullNamed "Int", none⟩, ⟨"y", .named "Int", some (.int 7)⟩,
        ⟨"l", .list (.named "Float"), some (.list [.float "1.5"])⟩, ⟨"p", .named "P", none⟩])] }

def defs1 : List InputDef :=
  [⟨"a", .list (.nonNullNamed "P"), none⟩, ⟨"c", .named "Color", some (.enum "RED")⟩, ⟨"n", .named "ID", none⟩]

/-- the guards of the `_partial` theorems hold for this schema and these variable definitions -/
example : ValidInput schema1 defs1 ∧ CanonicalDefaults Rules.spec schema1 ∧ VarDefaultsCanonical Rules.spec schema1 defs1 := by
  have hP : ∀ n fields, schema1.typeDef? n = some (.input fields) → n = "P" ∧ fields =
      [⟨"x", .nonNullNamed "Int", none⟩, ⟨"y", .named "Int", some (.int 7)⟩,
        ⟨"l", .list (.named "Float"), some (.list [.float "1.5"])⟩, ⟨"p", .named "P", none⟩] := by
    intro n fields h
    simp only [schema1, ExecSchema.typeDef?, get?] at h
    split at h
    · cases h
    split at h
    · cases h
    split at h
    · next e => cases h; exact ⟨e.symm, rfl⟩
    · cases h
  refine ⟨⟨?_, by simp [fieldNames, defs1]⟩, ?_, ?_⟩
  · intro n fields h
    obtain ⟨_, rfl⟩ := hP n fields h
    simp [fieldNames]
  · intro n fields h fd d hfd hd
    obtain ⟨_, rfl⟩ := hP n fields h
    simp only [List.mem_cons, List.not_mem_nil, or_false] at hfd
    rcases hfd with rfl | rfl | rfl | rfl
    · cases hd
    · cases hd
      exact Coerces.scalar _ "Int" _ rfl rfl rfl (by simp [ScalarOk, Value.toJson])
    · cases hd
      refine Coerces.listItems _ (.named "Float") _ _ rfl rfl ?_
      intro p hp
      simp only [Value.toJsonList, Value.toJson, List.zip_cons_cons, List.zip_nil_right, List.mem_singleton] at hp
      subst hp
      exact Coerces.scalar _ "Float" _ rfl rfl rfl (by simp [ScalarOk])
    · cases hd
  · intro vd d hvd hd
    simp only [defs1, List.mem_cons, List.not_mem_nil, or_false] at hvd
    rcases hvd with rfl | rfl | rfl
    · cases hd
    · cases hd
      exact Coerces.enum _ "Color" ["RED", "GREEN"] "RED" rfl rfl (by simp)
    · cases hd

/-- single object wrapped into a list, nested object, defaults filled in, default variable, absent variable -/
example : coerceVariableValues schema1 defs1 [("a", .obj [("p", .obj [("x", .int 2), ("y", .null)]), ("x", .int 1)])] =
    .ok [("a", .arr [.obj [("p", .obj [("x", .int 2), ("y", .null), ("l", .arr [.float "1.5"])]), ("x", .int 1),
      ("y", .int 7), ("l", .arr [.float "1.5"])]]), ("c", .str "RED")] := rfl

/-- unknown field, Int out of range, string for a number, missing required field: request errors -/
example : coerceVariableValues schema1 defs1 [("a", .obj [("x", .int 1), ("w", .int 1)])] = .error .value := rfl
example : coerceVariableValues schema1 defs1 [("a", .obj [("x", .int 2147483648)])] = .error .value := rfl
example : coerceVariableValues schema1 defs1 [("a", .obj [("x", .str "1")])] = .error .value := rfl
example : coerceVariableValues schema1 defs1 [("a", .obj [("y", .int 1)])] = .error .value := rfl
/-- ID from an integer above `i64::MAX` (fix aeed67a) -/
example : coerceVariableValues schema1 defs1 [("a", .arr []), ("n", .int 9223372036854775808)] =
    .ok [("a", .arr []), ("c", .str "RED"), ("n", .int 9223372036854775808)] := rfl

end Apollo.C28
