import ApolloModel.Proofs.SmithNames
import ApolloModel.Proofs.SmithGraph
/-
C32 — apollo-smith generates valid documents deterministically.   PARTIAL BY DESIGN:
the three mechanisms the property anchors are proved on their models for ALL inputs; that every
generated document validates end to end is explored on the implementation (harness/src/p32.rs), not
proved (it would need the whole generator and the whole validator in one theorem).

Model: Model/Smith.lean.  Determinism: every definition below is a function of the byte list and
of the data already generated; the code side rests on `Unstructured` and the absence of hash-order
dependence (C22).
-/
namespace Apollo.C32
open Apollo.SmithGen

/-! ### unique type names (`name.rs::type_name`) -/

/-- For every set of used names and every base string the `while` loop terminates (within
    `|used| + 1` candidates) and the returned name is not in the set; the set grows by that name. -/
theorem type_name_fresh (used : List Name) (base : Name) :
    ∃ n, typeNameFrom used base = some (n, n :: used) ∧ n ∉ used :=
  typeNameFrom_spec used base

/-- …and it is the FIRST free one of `base, base0, base1, …`. -/
theorem type_name_first (used : List Name) (base n : Name) (used' : List Name)
    (h : typeNameFrom used base = some (n, used')) :
    ∃ j, n = candidate base j ∧ ∀ i, i < j → candidate base i ∈ used := by
  unfold typeNameFrom at h
  cases hf : firstFree used base (used.length + 1) 0 with
  | none => rw [hf] at h; cases h
  | some m =>
    rw [hf] at h
    simp only [Option.map_some, Option.some.injEq, Prod.mk.injEq] at h
    obtain ⟨_, j, _, e, hall⟩ := firstFree_some _ _ _ hf
    exact ⟨j, by rw [← h.1]; exact e, fun i hi => hall i (Nat.zero_le _) hi⟩

/-- Any number of successive `type_name` calls, for EVERY byte source: the names handed out are
    pairwise different and different from every name that was already used. -/
theorem type_names_unique (k : Nat) (used : List Name) (bytes : List Nat) (names : List Name)
    (h : typeNames k used bytes [] = some names) : names.Nodup ∧ ∀ n ∈ names, n ∉ used := by
  obtain ⟨h1, h2⟩ := typeNames_nodup k used bytes [] names h (by simp) List.nodup_nil
  refine ⟨h1, fun n hn => ?_⟩
  rcases h2 n hn with e | e
  · simp at e
  · exact e

/-- `type_name` never fails and never loops, whatever the bytes: the retry loop of `limited_string`
    ends (each failed attempt consumes a byte; exhausted input yields "A") and so does the suffix loop. -/
theorem type_name_total (used : List Name) (bytes : List Nat) : ∃ r, typeName used bytes = some r := by
  obtain ⟨⟨base, rest⟩, hb⟩ := limitedString_total (bytes.length + 2) bytes (by omega)
  obtain ⟨n, hn, _⟩ := typeNameFrom_spec used base
  exact ⟨(n, n :: used, rest), by simp [typeName, hb, hn]⟩

/-! ### implements closure and backfill (`implements_graph.rs`, `interface.rs`, `object.rs`) -/

/-- `closure(start)` is exactly `start` plus everything reachable along `implements` edges
    (and empty for an unknown name); in particular the saturation never runs out of fuel. -/
theorem implements_closure (g : Graph) (start x : Name) :
    x ∈ g.closure start ↔ start ∈ g.nodes ∧ Reach g.succ [start] x :=
  g.mem_closure start x

/-- After `expand_transitive_*_implementations` the type declares (base + extensions) exactly what it
    declared before plus its whole closure; no other type is touched. -/
theorem backfill_step (g : Graph) (defs : List Def) (name : Name)
    (hex : defs.any (fun d => d.name == name) = true) :
    (∀ q, q ∈ declared (expandTransitive g defs name) name ↔ q ∈ declared defs name ∨ (q ∈ g.closure name ∧ q ≠ name)) ∧
    (∀ other, other ≠ name → declared (expandTransitive g defs name) other = declared defs other) :=
  ⟨expandTransitive_declared g defs name hex, fun other hne => expandTransitive_other g defs name other hne⟩

theorem any_name_modifyFirst (p : Def → Bool) (f : Def → Def) (hf : ∀ d, (f d).name = d.name) (n : Name) :
    ∀ defs : List Def, (modifyFirst p f defs).any (fun d => d.name == n) = defs.any (fun d => d.name == n) := by
  intro defs
  induction defs with
  | nil => rfl
  | cons d ds ih =>
    simp only [modifyFirst]
    split
    · simp [hf d]
    · simp [ih]

theorem any_name_expand (g : Graph) (defs : List Def) (name n : Name) :
    (expandTransitive g defs name).any (fun d => d.name == n) = defs.any (fun d => d.name == n) := by
  unfold expandTransitive
  simp only
  split <;> (apply any_name_modifyFirst; intro d; rfl)

/-- The whole backfill loop, in ANY processing order that contains the type: afterwards the type
    lists every interface of its closure (the validator's "transitively implemented interfaces must
    also be listed" rule), and nothing outside `declared ∪ closure` was added. -/
theorem backfill_lists_transitive (g : Graph) (order : List Name) (name : Name) :
    ∀ (defs : List Def), defs.any (fun d => d.name == name) = true →
    (∀ q, q ∈ declared (backfillAll g defs order) name → q ∈ declared defs name ∨ (q ∈ g.closure name ∧ q ≠ name)) ∧
    (name ∈ order → ∀ q, q ∈ g.closure name → q ≠ name → q ∈ declared (backfillAll g defs order) name) ∧
    (∀ q, q ∈ declared defs name → q ∈ declared (backfillAll g defs order) name) := by
  induction order with
  | nil =>
    intro defs _
    exact ⟨fun q h => Or.inl h, fun h => by simp at h, fun q h => h⟩
  | cons o rest ih =>
    intro defs hex
    have hex' : (expandTransitive g defs o).any (fun d => d.name == name) = true := by
      rw [any_name_expand]; exact hex
    obtain ⟨i1, i2, i3⟩ := ih (expandTransitive g defs o) hex'
    simp only [backfillAll, List.foldl_cons] at i1 i2 i3 ⊢
    by_cases e : o = name
    · subst e
      have hs := expandTransitive_declared g defs o hex
      refine ⟨?_, ?_, ?_⟩
      · intro q hq
        rcases i1 q hq with h | h
        · exact (hs q).mp h
        · exact Or.inr h
      · intro _ q hq hne
        exact i3 q ((hs q).mpr (Or.inr ⟨hq, hne⟩))
      · intro q hq
        exact i3 q ((hs q).mpr (Or.inl hq))
    · have hs := expandTransitive_other g defs o name (fun h => e h.symm)
      rw [hs] at i1 i3
      refine ⟨i1, ?_, i3⟩
      intro hm
      exact i2 (by
        rcases List.mem_cons.mp hm with h | h
        · exact absurd h.symm e
        · exact h)

/-! ### fragment pruning (`lib.rs::prune_unused_fragments`, `fragment.rs::reachable_fragment_names`) -/

/-- The fragments kept are exactly the defined fragments reachable from the operations (directly or
    through other fragments): nothing unused survives, nothing used is dropped. -/
theorem prune_exact (ops : List (List Name)) (frags : List Frag) (f : Frag) :
    f ∈ prune ops frags ↔ f ∈ frags ∧ Reach (fragSucc frags) ops.flatten f.name := by
  unfold prune
  simp only [List.mem_filter, List.contains_iff_mem, mem_reachable]

/-- Pruning introduces no dangling spread: with unique fragment names (which `type_name` provides),
    a spread that occurs in an operation or in a KEPT fragment and named a defined fragment before
    pruning still names a kept fragment. -/
theorem prune_no_dangling (ops : List (List Name)) (frags : List Frag)
    (huniq : (frags.map (·.name)).Nodup) (x : Name)
    (huse : x ∈ ops.flatten ∨ ∃ f ∈ prune ops frags, x ∈ f.spreads)
    (hdef : ∃ f ∈ frags, f.name = x) : ∃ f ∈ prune ops frags, f.name = x := by
  obtain ⟨fx, hfx, hname⟩ := hdef
  refine ⟨fx, (prune_exact ops frags fx).mpr ⟨hfx, ?_⟩, hname⟩
  rw [hname]
  rcases huse with h | ⟨f, hf, hx⟩
  · exact Reach.root h
  · obtain ⟨hf1, hf2⟩ := (prune_exact ops frags f).mp hf
    refine Reach.step hf2 ?_
    -- `f` is the first (the only) fragment with its name
    have hfind : frags.find? (·.name == f.name) = some f := by
      clear hf hf2 hfx
      induction frags with
      | nil => cases hf1
      | cons a as ih =>
        simp only [List.find?_cons]
        by_cases e : (a.name == f.name) = true
        · simp only [e]
          rcases List.mem_cons.mp hf1 with h | h
          · rw [h]
          · exfalso
            simp only [List.map_cons, List.nodup_cons, List.mem_map] at huniq
            exact huniq.1 ⟨f, h, by simpa using (by simpa using e : a.name = f.name).symm⟩
        · simp only [e]
          rcases List.mem_cons.mp hf1 with h | h
          · subst h; simp at e
          · simp only [List.map_cons, List.nodup_cons] at huniq
            exact ih huniq.2 h
    simp only [fragSucc, hfind]
    exact hx

/-! ### non-vacuity -/

private def s (x : String) : Name := x.toList

example : typeNameFrom [s "A", s "A0", s "B"] (s "A") = some (s "A1", [s "A1", s "A", s "A0", s "B"]) := by
  decide +kernel
example : (Graph.closure { nodes := [s "X", s "Y", s "Z"], edges := [(s "X", s "Y"), (s "Y", s "Z")] } (s "X")) = [s "X", s "Y", s "Z"] := by
  decide
example : declared (backfillAll (graphOf [⟨s "Z", false, []⟩, ⟨s "Y", false, [s "Z"]⟩, ⟨s "X", false, [s "Y"]⟩])
    [⟨s "Z", false, []⟩, ⟨s "Y", false, [s "Z"]⟩, ⟨s "X", false, [s "Y"]⟩] [s "Z", s "Y", s "X"]) (s "X") = [s "Y", s "Z"] := by decide
example : (prune [[s "A"]] [⟨s "A", [s "B"]⟩, ⟨s "B", []⟩, ⟨s "C", [s "D"]⟩, ⟨s "D", []⟩]).map (·.name) = [s "A", s "B"] := by decide
-- orphan chains are dropped entirely, cycles terminate
example : (prune [[s "A"]] [⟨s "A", [s "B"]⟩, ⟨s "B", [s "A"]⟩]).map (·.name) = [s "A", s "B"] := by decide

end Apollo.C32
