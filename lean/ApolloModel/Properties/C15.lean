import ApolloModel.Proofs.SchemaInvariants
import ApolloModel.Properties.C29
import ApolloModel.Properties.C14
import ApolloModel.Properties.C16
import ApolloModel.Proofs.SchemaBuildScalars
/-
C15 — Valid schemas are internally consistent.

On the C14 model (`Model/SchemaValidation.lean`: input-object graph, implements graph, root operations)
a schema accepted by the modelled rule set satisfies the corresponding invariants of the statement
(`valid_implies_invariants`), each conjunct from the soundness half of the C14 rule theorems.  The
built-in scalar clause is proved on the C16 model of the bookkeeping at the end of `validate_schema`
(`validated_scalars_exact`), the covariance clause is `C29.impl_field_type_iff`, and the argument and
reserved-name rules have their own small models here.  The Boolean evaluators used by the `c15.inv`
correspondence stream are proved equal to the declarative predicates (`*_inv_iff`).
-/
namespace Apollo.C15
open Apollo.SchemaValidation Apollo.SchemaValidation.Spec Apollo.SchemaInvariants

/-- the part of a schema the modelled rules look at -/
structure MSchema where
  g : IGraph
  s : ISchema
  q : Option RootTarget
  m : Option RootTarget
  sub : Option RootTarget

/-- validation pushes no diagnostic of the modelled rules -/
def Accepts (limit : Nat) (M : MSchema) : Prop :=
  failingInputs M.g limit = [] ∧
  (∀ (a : Nat) (t : TypeInfo), M.s[a]? = some t → implementsDiagCount M.s a t = 0) ∧
  validateRoots M.q M.m M.sub = []

/-- the corresponding clauses of C15 -/
def Inv (M : MSchema) : Prop :=
  -- a query root; every root operation type a distinct object type
  RootsValid M.q M.m M.sub ∧
  -- `implements` only names interfaces, and never the interface itself
  (∀ a b, Declares M.s a b → (getInterface M.s b).isSome) ∧
  (∀ (a : Nat) (t : TypeInfo), M.s[a]? = some t → t.isInterface = true → a ∉ t.implements) ∧
  -- the transitive-interface contract
  TransitiveClosed M.s ∧
  -- no input object has a non-null cycle
  (∀ r, r < M.g.length → ¬ InputCycleThrough M.g r)

/-- Acceptance by the modelled rules implies the invariants, for every schema and every limit. -/
theorem valid_implies_invariants (limit : Nat) (M : MSchema) (h : Accepts limit M) : Inv M := by
  obtain ⟨hin, himp, hroots⟩ := h
  have hparts : ∀ (a : Nat) (t : TypeInfo), M.s[a]? = some t →
      undefinedImplements M.s t = [] ∧ missingTransitive M.s t = [] ∧ selfImplements a t = [] := by
    intro a t ht
    have := himp a t ht
    unfold implementsDiagCount at this
    refine ⟨List.length_eq_zero_iff.mp (by omega), List.length_eq_zero_iff.mp (by omega),
      List.length_eq_zero_iff.mp (by omega)⟩
  refine ⟨(C14.roots_valid_iff _ _ _).mp hroots, ?_, ?_, ?_, C14.input_rule_accept_sound M.g limit hin⟩
  · intro a b ⟨t, ht, hb⟩
    have := (hparts a t ht).1
    unfold undefinedImplements at this
    rw [List.filter_eq_nil_iff] at this
    have := this b hb
    cases hg : getInterface M.s b <;> simp_all
  · intro a t ht hi hmem
    have := (hparts a t ht).2.2
    unfold selfImplements at this
    simp only [hi, if_true] at this
    rw [List.filter_eq_nil_iff] at this
    exact this a hmem (by simp)
  · exact (C14.transitive_interfaces_iff M.s).mp fun a t ht => (hparts a t ht).2.1

/-- The evaluators of the `c15.inv` stream compute the declarative clauses. -/
theorem roots_inv_iff (q m sub : Option RootTarget) : rootsInv q m sub = true ↔ RootsValid q m sub :=
  rootsInv_iff q m sub

theorem trans_inv_iff (s : ISchema) : transInv s = true ↔ TransitiveClosed s := transInv_iff s

theorem input_inv_iff (g : IGraph) : inputInv g = true ↔ ∀ r, ¬ InputCycleThrough g r := inputInv_iff g

/-- Built-in scalars: after the bookkeeping at the end of `validate_schema` the type map contains
    exactly the referenced built-in scalars, for every hash-set iteration order.  Hypotheses: what a
    successful build guarantees (unique names; a type named like a built-in scalar is the built-in
    definition — redefining one is the build error `BuiltInScalarTypeRedefinition`). -/
theorem validated_scalars_exact (order : List Scalars.Name → List Scalars.Name) (ho : Scalars.IsOrder order)
    (s : Scalars.Schema) (wf : Scalars.WellFormed s)
    (hbuilt : ∀ e ∈ s.types, Scalars.builtinScalars.contains e.1 = true → e.2.isBuiltIn = true) :
    scalarsInv (Scalars.bookkeeping order s) = true := by
  unfold scalarsInv
  rw [List.all_eq_true]
  intro b hb
  rw [Scalars.allRefs_bookkeeping order s wf]
  cases hr : s.allRefs.contains b
  · cases hd : (Scalars.bookkeeping order s).defined b
    · rfl
    · have := Scalars.defined_after_referenced order ho s hbuilt b hb hd
      rw [hr] at this; cases this
  · have := Scalars.referenced_defined_after order (fun l x hx => (ho.mem l x).mpr hx) s b hb hr
    simp [this]

/-- Covariance of implementing field types: an accepted pair satisfies the specification's
    IsValidImplementationFieldType (from C29, for every subtype relation). -/
theorem impl_field_type_contract (sub : Name → Name → Bool) (iface impl : Ty)
    (h : Gen.isValidImplementationFieldType sub iface impl = true) :
    Apollo.Spec.validImplFieldType sub (Apollo.Spec.embed impl) (Apollo.Spec.embed iface) = true := by
  rw [← C29.impl_field_type_iff]; exact h

/-- Argument contract of one implemented field: no diagnostic iff every interface argument exists with
    the same type and every additional argument is optional. -/
theorem impl_arguments_contract (iface impl : List Arg) :
    argDiags iface impl = [] ↔
      (∀ ia ∈ iface, ∃ a, impl.find? (fun a => a.name == ia.name) = some a ∧ a.ty = ia.ty) ∧
      (∀ a ∈ impl, (∀ ia ∈ iface, ia.name ≠ a.name) → a.required = false) := by
  unfold argDiags
  rw [List.append_eq_nil_iff, List.filterMap_eq_nil_iff, List.filterMap_eq_nil_iff]
  constructor
  · intro ⟨h1, h2⟩
    constructor
    · intro ia hia
      have := h1 ia hia
      cases hf : impl.find? (fun a => a.name == ia.name) with
      | none => simp [hf] at this
      | some a =>
        simp only [hf] at this
        by_cases hty : ia.ty = a.ty
        · exact ⟨a, rfl, hty.symm⟩
        · simp [hty] at this
    · intro a ha hno
      have := h2 a ha
      cases hr : a.required
      · rfl
      · have hany : (iface.any fun ia => ia.name == a.name) = false := by
          rw [List.any_eq_false]; intro ia hia; simpa using hno ia hia
        simp [hany, hr] at this
  · intro ⟨h1, h2⟩
    constructor
    · intro ia hia
      obtain ⟨a, hf, hty⟩ := h1 ia hia
      simp [hf, hty]
    · intro a ha
      by_cases hany : (iface.any fun ia => ia.name == a.name) = true
      · simp [hany]
      · have hno : ∀ ia ∈ iface, ia.name ≠ a.name := by
          intro ia hia heq
          exact hany (List.any_eq_true.mpr ⟨ia, hia, by simp [heq]⟩)
        simp [h2 a ha hno]

/-- Reserved names: no diagnostic iff the name is built-in or does not start with `__`. -/
theorem reserved_name_rule (isBuiltIn : Bool) (name : String) :
    reservedNameDiags isBuiltIn name = 0 ↔ (isBuiltIn = true ∨ name.startsWith "__" = false) := by
  unfold reservedNameDiags
  cases isBuiltIn <;> cases h : name.startsWith "__" <;> simp

/-- "Every referenced type exists with the right kind": acceptance by the kind checks implies it.
    (Formerly an unproved placeholder; now the soundness half of `C14.reference_kinds_rule_iff_spec`.) -/
def referenced_types_have_right_kind : Prop :=
  ∀ (kindOf : String → Option Implementation.Kind) (t : Implementation.TypeRefs),
    Implementation.typeRefDiags kindOf t = [] → Implementation.Spec.RefsRightKind kindOf t

theorem referenced_types_have_right_kind_holds : referenced_types_have_right_kind :=
  fun kindOf t h => (C14.reference_kinds_rule_iff_spec kindOf t).mp h

/-- the model schema with what the contract and kind rules look at -/
structure MSchemaF extends MSchema where
  /-- `schema.is_subtype` -/
  isSubtype : Name → Name → Bool
  /-- fields of interface `i` (`none`: the name is not an interface) -/
  getIface : Nat → Option (List Implementation.FieldM)
  /-- fields of type `a` -/
  typeFields : Nat → List Implementation.FieldM
  /-- `schema.types.get` as a kind -/
  kindOf : String → Option Implementation.Kind
  /-- inner named types referenced by definition `a` -/
  refs : Nat → Implementation.TypeRefs

def AcceptsF (limit : Nat) (M : MSchemaF) : Prop :=
  Accepts limit M.toMSchema ∧
  (∀ (a : Nat) (t : TypeInfo), M.s[a]? = some t →
    Implementation.implDiags M.isSubtype M.getIface (M.typeFields a) t.implements = []) ∧
  (∀ a, Implementation.typeRefDiags M.kindOf (M.refs a) = [])

def InvF (M : MSchemaF) : Prop :=
  Inv M.toMSchema ∧
  -- the field and argument contracts of everything a type implements
  (∀ (a : Nat) (t : TypeInfo), M.s[a]? = some t → ∀ i ∈ t.implements, ∀ ifields, M.getIface i = some ifields →
    Implementation.Spec.ValidImplementation M.isSubtype (M.typeFields a) ifields) ∧
  -- every referenced type exists with the right kind
  (∀ a, Implementation.Spec.RefsRightKind M.kindOf (M.refs a))

/-- `valid_implies_invariants` extended with the field/argument contracts (IsValidImplementation for
    every declared interface) and the kinds of referenced types, now that those rules are modelled. -/
theorem valid_implies_invariants_full (limit : Nat) (M : MSchemaF) (h : AcceptsF limit M) : InvF M :=
  ⟨valid_implies_invariants limit M.toMSchema h.1,
   fun a t ht => (C14.implementation_rule_iff_spec M.isSubtype M.getIface (M.typeFields a) t.implements).mp (h.2.1 a t ht),
   fun a => (C14.reference_kinds_rule_iff_spec M.kindOf (M.refs a)).mp (h.2.2 a)⟩

/-- The two further evaluators of the `c15.inv` stream compute the declarative clauses. -/
theorem contracts_inv_iff (sub : Name → Name → Bool) (s : ISchema) (fields : List (List Implementation.FieldM)) :
    Implementation.contractsInv sub s fields = true ↔
      ∀ a, a < s.length → ∀ i ∈ (s.getD a default).implements, ∀ ifields,
        Implementation.ifaceFields s fields i = some ifields →
        Implementation.Spec.ValidImplementation sub (fields.getD a []) ifields :=
  Implementation.contractsInv_iff sub s fields

theorem kinds_inv_iff (kindOf : String → Option Implementation.Kind) (refs : List Implementation.TypeRefs) :
    Implementation.kindsInv kindOf refs = true ↔ ∀ t ∈ refs, Implementation.Spec.RefsRightKind kindOf t :=
  Implementation.kindsInv_iff kindOf refs

/-! ### growth 2: pairwise distinct names and applied directives -/

/-- the model schema with its built lists (fields / enum values / members / interfaces / input fields of
    each definition, as produced by `collect_sticky` / `extend_sticky`), the argument names of each field
    or directive definition, and the directive applications of each location -/
structure MSchemaG extends MSchemaF where
  /-- the name lists of the built schema -/
  builtLists : List (List SchemaBuild.Comp)
  /-- argument names, one list per field / directive definition -/
  argNameLists : List (List Standalone.Name)
  /-- `schema.directive_definitions.get` -/
  dirDef : Standalone.Name → Option Standalone.DirDef
  /-- the directives applied at each location of the document -/
  applications : List (Standalone.Loc × List Standalone.Dir)

def AcceptsG (limit : Nat) (M : MSchemaG) : Prop :=
  AcceptsF limit M.toMSchemaF ∧
  -- every list of the schema was built by the sticky insertion, starting from the empty list
  (∀ l ∈ M.builtLists, ∃ dup origin errs items, l = (SchemaBuild.extendSticky dup origin [] errs items).1) ∧
  (∀ ns ∈ M.argNameLists, DirApps.argDefDups [] ns = 0) ∧
  (∀ la ∈ M.applications, DirApps.schemaDirDiags M.dirDef la.1 la.2 = [])

def InvG (M : MSchemaG) : Prop :=
  InvF M.toMSchemaF ∧
  -- names in every list are pairwise distinct
  (∀ l ∈ M.builtLists, (l.map (·.name)).Nodup) ∧
  (∀ ns ∈ M.argNameLists, ns.Nodup) ∧
  -- every applied directive is defined and allowed at its location (and unique unless repeatable, with
  -- defined, unique and sufficient arguments)
  (∀ la ∈ M.applications, DirApps.Spec.DirectivesValid M.dirDef la.1 la.2)

/-- `valid_implies_invariants_full` extended with "names in every list are pairwise distinct" (from the
    build: `C14.build_first_definition_wins`; argument names from `C14.argument_definitions_unique_iff`) and
    "every applied directive is defined and allowed at its location" (`C14.directive_applications_rule_iff_spec`). -/
theorem valid_implies_invariants_full2 (limit : Nat) (M : MSchemaG) (h : AcceptsG limit M) : InvG M := by
  obtain ⟨hF, hbuilt, hargs, happs⟩ := h
  refine ⟨valid_implies_invariants_full limit M.toMSchemaF hF, ?_, ?_, ?_⟩
  · intro l hl
    obtain ⟨dup, origin, errs, items, rfl⟩ := hbuilt l hl
    exact C14.build_first_definition_wins dup origin items [] errs (by simp)
  · intro ns hns
    exact (C14.argument_definitions_unique_iff ns).mp (hargs ns hns)
  · intro la hla
    exact (C14.directive_applications_rule_iff_spec M.dirDef la.1 la.2).mp (happs la hla)


/-! ### growth 3: the invariants that come from the build, non-emptiness, reserved names and values -/

/-- the model schema with the document it was built from (names only), the names it introduces with their
    origin, and the constants given to the arguments of its applied directives with the argument types -/
structure MSchemaH extends MSchemaG where
  /-- the type-system document, as `SchemaBuilder` reads it -/
  doc : List SchemaBuild.Def
  docWellFormed : SchemaBuild.WellFormed doc
  /-- every name the schema introduces, with "is located in the built-in file" -/
  introduced : SchemaNames.SchemaNames
  /-- what the value check looks at in the types -/
  valueSchema : ValueCheck.Schema
  valueSchemaClosed : ValueCheck.Spec.Closed valueSchema
  /-- (argument type, constant) for every argument of every directive applied in the schema -/
  argValues : List (ValueCheck.Ty × ValueCheck.Value)
  argTypesDefined : ∀ p ∈ argValues, ValueCheck.Spec.Defined valueSchema p.1

def AcceptsH (limit : Nat) (M : MSchemaH) : Prop :=
  AcceptsG limit M.toMSchemaG ∧
  (SchemaBuild.build (SchemaBuild.Builder.new false false) [M.doc]).errors = [] ∧
  SchemaNames.emptyTypeDiags (SchemaBuild.build (SchemaBuild.Builder.new false false) [M.doc]).types = [] ∧
  SchemaNames.reservedDiags M.introduced = [] ∧
  (∀ p ∈ M.argValues, ValueCheck.check M.valueSchema [] p.1 p.2 = [])

def InvH (M : MSchemaH) : Prop :=
  InvG M.toMSchemaG ∧
  -- type and directive names are unique, every extension extended a type of its kind, members are unique
  SchemaBuild.BuildSpec M.doc ∧
  -- every object, interface, union, enum and input object type has a member
  SchemaBuild.NonEmptyNames M.doc ∧
  -- the entry of every type lists the members of its definition and of all its extensions
  (∀ n t, SchemaBuild.findType (SchemaBuild.build (SchemaBuild.Builder.new false false) [M.doc]).types n = some t →
    ∀ m, SchemaBuild.hasName t.body.members m = true ↔ m ∈ SchemaBuild.memberNames M.doc n) ∧
  -- no name outside the introspection system starts with two underscores
  SchemaNames.Spec.NoReservedNames M.introduced ∧
  -- the constant given to every directive argument is a value of the argument's type
  (∀ p ∈ M.argValues, ValueCheck.Spec.Coerces M.valueSchema p.1 p.2)

/-- `valid_implies_invariants_full2` extended with the families of C14's third growth: the build rules
    (`C14.schema_build_iff_spec`), non-emptiness (`C14.nonempty_rule_iff_spec`), the merged member lists
    (`C14.built_type_has_all_members`), reserved names (`C14.reserved_rule_iff_spec`) and argument values
    (`C14.value_rule_iff_spec`). -/
theorem valid_implies_invariants_full3 (limit : Nat) (M : MSchemaH) (h : AcceptsH limit M) : InvH M := by
  obtain ⟨hG, hbuild, hempty, hres, hvals⟩ := h
  have he : (SchemaBuild.addDocument (SchemaBuild.Builder.new false false) M.doc).errors = [] := by
    have h1 : (SchemaBuild.build (SchemaBuild.Builder.new false false) [M.doc]).errors =
      SchemaBuild.sortBy SchemaBuild.Err.lt
        (SchemaBuild.finishRaw (SchemaBuild.addDocument (SchemaBuild.Builder.new false false) M.doc)).errors := rfl
    rw [h1, SchemaBuild.sortBy_nil_iff] at hbuild
    exact Classical.byContradiction fun hne =>
      (SchemaBuild.finishRaw_mono _ (SchemaBuild.addDocument_adopt M.doc (SchemaBuild.Builder.new false false))).ne_nil hne hbuild
  have hadopt := ((SchemaBuild.scan_spec M.doc M.docWellFormed).2 he).adopt
  have htypes : (SchemaBuild.build (SchemaBuild.Builder.new false false) [M.doc]).types =
      (SchemaBuild.addDocument (SchemaBuild.Builder.new false false) M.doc).types :=
    SchemaBuild.finishRaw_types _ hadopt
  refine ⟨valid_implies_invariants_full2 limit M.toMSchemaG hG,
    (C14.schema_build_iff_spec M.doc M.docWellFormed).mp hbuild,
    (C14.nonempty_rule_iff_spec M.doc M.docWellFormed hbuild).mp hempty, ?_,
    (C14.reserved_rule_iff_spec M.introduced).mp hres, ?_⟩
  · intro n t hf
    rw [htypes] at hf
    exact (C14.built_type_has_all_members M.doc M.docWellFormed he n t hf).1
  · intro p hp
    exact (C14.value_rule_iff_spec M.valueSchema M.valueSchemaClosed p.1 (M.argTypesDefined p hp) p.2).mp (hvals p hp)


/-! ### growth 4: the former hypotheses as consequences -/

/-- The built-in scalar clause without its hypotheses: on the type map of an error-free build (any `refs`: the named
    types each definition refers to), after the bookkeeping of `validate_schema` the map contains exactly the
    referenced built-in scalars.  "Unique names" and "a type named like a built-in scalar is the built-in
    definition" now come from `C14.schema_build_iff_spec` (`SchemaBuild.build_guarantees_scalar_hypotheses`). -/
theorem validated_scalars_exact_of_build (ds : List SchemaBuild.Def) (hwf : SchemaBuild.WellFormed ds)
    (hb : (SchemaBuild.build (SchemaBuild.Builder.new false false) [ds]).errors = [])
    (refs : SchemaBuild.Name → List SchemaBuild.Name) (dirRefs : List SchemaBuild.Name)
    (order : List Scalars.Name → List Scalars.Name) (ho : Scalars.IsOrder order) :
    scalarsInv (Scalars.bookkeeping order
      (SchemaBuild.scalarsView refs dirRefs (SchemaBuild.build (SchemaBuild.Builder.new false false) [ds]).types)) = true :=
  let h := SchemaBuild.build_guarantees_scalar_hypotheses ds hwf hb refs dirRefs
  validated_scalars_exact order ho _ h.1 h.2

def InvI (M : MSchemaH) : Prop :=
  InvH M ∧
  -- no enum value and no directive (nor directive argument) of the document has a reserved name
  (∀ t ∈ M.introduced.types, ∀ vs, t.members = .values vs → ∀ v ∈ vs, v.builtIn = false → ¬ SchemaNames.Spec.Reserved v.chars) ∧
  (∀ d ∈ M.introduced.directives, (d.name.builtIn = false → ¬ SchemaNames.Spec.Reserved d.name.chars) ∧
    ∀ a ∈ d.args, a.builtIn = false → ¬ SchemaNames.Spec.Reserved a.chars) ∧
  -- the type map: names pairwise different; an entry named like a built-in type is the built-in definition
  ((SchemaBuild.build (SchemaBuild.Builder.new false false) [M.doc]).types.map (·.name)).Nodup ∧
  (∀ t ∈ (SchemaBuild.build (SchemaBuild.Builder.new false false) [M.doc]).types,
    t.name ∈ SchemaBuild.builtinTypeNames → t.builtin = true) ∧
  -- no definition of the document takes the name of a built-in type
  (∀ d ∈ M.doc, d.defKind.isSome = true → d.name ∉ SchemaBuild.builtinTypeNames) ∧
  -- after validation the map contains exactly the referenced built-in scalars, whatever the references are
  (∀ refs dirRefs order, Scalars.IsOrder order →
    scalarsInv (Scalars.bookkeeping order
      (SchemaBuild.scalarsView refs dirRefs (SchemaBuild.build (SchemaBuild.Builder.new false false) [M.doc]).types)) = true)

/-- `valid_implies_invariants_full3` with the clauses that used to be hypotheses or oracle-only stated as
    consequences: reserved names of enum values and of directives / directive arguments (from
    `C14.reserved_rule_iff_spec`), and the build facts the "exactly the referenced built-in scalars" clause
    depends on (from `C14.schema_build_iff_spec`), with that clause itself. -/
theorem valid_implies_invariants_full4 (limit : Nat) (M : MSchemaH) (h : AcceptsH limit M) : InvI M := by
  have h3 := valid_implies_invariants_full3 limit M h
  have hbuild := h.2.1
  have hspec := h3.2.1
  have hres := h3.2.2.2.2.1
  have hfacts := SchemaBuild.built_types_facts M.doc M.docWellFormed hbuild
  refine ⟨h3, ?_, ?_, hfacts.1, hfacts.2, ?_, ?_⟩
  · intro t ht vs hm v hv hb
    exact hres .enumValue v (.enumValue t vs v ht hm hv) hb
  · intro d hd
    exact ⟨fun hb => hres .directive d.name (.directive d hd) hb,
      fun a ha hb => hres .argument a (.directiveArg d a hd ha) hb⟩
  · intro d hd hk hmem
    have := hspec.uniqueTypes
    rw [List.nodup_append] at this
    refine this.2.2 _ hmem _ ?_ rfl
    unfold SchemaBuild.typeDefNames
    exact List.mem_map.mpr ⟨d, List.mem_filter.mpr ⟨hd, hk⟩, rfl⟩
  · intro refs dirRefs order ho
    exact validated_scalars_exact_of_build M.doc M.docWellFormed hbuild refs dirRefs order ho

-- Non-vacuity
example : Accepts 32 ⟨[[⟨true, 1⟩], [⟨false, 0⟩]], [⟨true, []⟩, ⟨true, [0]⟩, ⟨false, [1, 0]⟩],
    some (.object 2), none, none⟩ := by
  refine ⟨by decide, ?_, by decide⟩
  intro a t ht
  match a, ht with
  | 0, ht => cases ht; decide
  | 1, ht => cases ht; decide
  | 2, ht => cases ht; decide
  | n + 3, ht => simp at ht
example : rootsInv (some (.object 0)) (some (.object 0)) none = false := by decide
example : transInv [⟨true, []⟩, ⟨true, [0]⟩, ⟨false, [1]⟩] = false := by decide
example : inputInv [[⟨true, 1⟩], [⟨true, 0⟩]] = false := by decide
example : argDiags [⟨"a", "Int", false⟩] [⟨"a", "Int!", true⟩, ⟨"b", "Int!", true⟩]
    = [.typeMismatch "a", .extraRequired "b"] := by decide
example : scalarsInv (Scalars.bookkeeping id Apollo.C16.demo) = true := by decide

end Apollo.C15
