import ApolloModel.Proofs.NameHeapStep
import ApolloModel.Proofs.NameHeapNode
/-
C30 — Names and nodes are memory-safe shared values.

Model: Model/NameHeap.lean.  A history is ANY list of operations (creation from `&str`, `&'static str`
or `Arc<str>`, clone, drop, `with_location`, `to_cloned_arc`, conversion back to `Arc<str>`; for nodes
new / clone / drop / `make_mut` / `get_mut` / `same_location`) over a pool of slots of any size.  An
access to a freed cell, a decrement of a freed cell and `Arc::from_raw` on a static pointer are
explicit ghost events of the model (`uaf`, `dfree`, `confused`), so the safety clauses below are
statements about all histories, proved by induction with the invariant `Inv`
(Proofs/NameHeapName.lean, NameHeapStep.lean, NameHeapNode.lean).

Threads: every operation of the model performs at most one atomic read-modify-write on a cell
(`Arc::clone`/`Arc::drop`), or is the composition of two operations of the model (`Arc::from(name)` =
`to_cloned_arc` then drop), so an execution on several threads is an interleaving of the threads'
histories; `schedules_safe` states the clauses for every schedule.  That an atomic RMW is one
indivisible step is the trusted part (DESIGN §6.5).
-/
namespace Apollo.C30
open Apollo.Rc Apollo.Rc.Heap
open Apollo.FileId (pack tagOf fileIdOf)
open Apollo.NameHeap

/-- the states reachable by a history from an empty pool of `pool` slots -/
def reach (pool : Nat) (ops : List Op) : St := run (init pool) ops

theorem reach_inv (pool : Nat) (ops : List Op) : Inv (reach pool ops) := run_inv ops _ (init_inv pool)

/-- The strong count of every cell is exactly the number of live handles (heap names and
    `Arc<str>`s) that point to it, after every history. -/
theorem count_invariant (pool : Nat) (ops : List Op) (c : Nat) :
    (reach pool ops).heap.strongOf c = refsOf owns (reach pool ops).slots c :=
  (reach_inv pool ops).heap.count c

/-- No history decrements the count of a freed cell, and a cell is freed exactly when its count is 0
    (so it is freed once: a freed cell has no owner left that could free it again). -/
theorem no_double_free (pool : Nat) (ops : List Op) :
    (reach pool ops).heap.dfree = 0 ∧
    ∀ (c : Nat) (cell : Cell Text), (reach pool ops).heap.cells[c]? = some cell → (cell.freed = true ↔ cell.strong = 0) :=
  ⟨(reach_inv pool ops).heap.dfree, (reach_inv pool ops).heap.freed⟩

/-- No history reads or increments a freed cell, `as_arc` never reinterprets a static pointer as an
    `Arc`, and every live handle points to an unfreed cell. -/
theorem no_use_after_free (pool : Nat) (ops : List Op) :
    (reach pool ops).heap.uaf = 0 ∧ (reach pool ops).confused = 0 ∧
    ∀ (i : Nat) (s : Slot) (c : Nat), (reach pool ops).slots[i]? = some s → owns s = some c →
      ∃ cell, (reach pool ops).heap.cells[c]? = some cell ∧ cell.freed = false := by
  have inv := reach_inv pool ops
  refine ⟨inv.heap.uaf, inv.confused, ?_⟩
  intro i s c hs ho
  obtain ⟨cell, h1, h2, _⟩ := inv.heap.live (refs_pos hs ho)
  exact ⟨cell, h1, h2⟩

/-- When every handle has been dropped every cell has been freed. -/
theorem no_leak (pool : Nat) (ops : List Op) (hall : ∀ s ∈ (reach pool ops).slots, s = .empty) :
    (reach pool ops).heap.liveCells = 0 ∧
    ∀ (c : Nat) (cell : Cell Text), (reach pool ops).heap.cells[c]? = some cell → cell.freed = true := by
  have inv := reach_inv pool ops
  have hz : ∀ c, refsOf owns (reach pool ops).slots c = 0 := fun c =>
    refsOf_zero_of_all_none owns c _ (fun s hs => by rw [hall s hs]; rfl)
  exact ⟨inv.heap.liveCells_zero hz, inv.heap.all_freed hz⟩

/-- …and more precisely, at any time a cell is freed iff no live handle points to it. -/
theorem freed_iff_unreferenced (pool : Nat) (ops : List Op) (c : Nat) (cell : Cell Text)
    (hc : (reach pool ops).heap.cells[c]? = some cell) :
    cell.freed = true ↔ refsOf owns (reach pool ops).slots c = 0 := by
  have inv := reach_inv pool ops
  have h1 := inv.heap.count c
  simp [strongOf, hc] at h1
  rw [← h1]
  exact inv.heap.freed c cell hc

/-- Every live name reads back the text and the location that were supplied (ghost fields `gText`,
    `gLoc`: set by the constructors / `with_location`, copied by clone, see `*_supplies` below), its
    length is the byte length of that text, and every live `Arc<str>` reads the supplied text. -/
theorem text_location_preserved (pool : Nat) (ops : List Op) (i : Nat) :
    (∀ n, (reach pool ops).slots[i]? = some (.name n) →
      n.read (reach pool ops).heap = some n.gText ∧ n.location = n.gLoc ∧ n.len = byteLen n.gText) ∧
    (∀ c g, (reach pool ops).slots[i]? = some (.arc c g) → (reach pool ops).heap.read c = some g) := by
  have inv := reach_inv pool ops
  constructor
  · intro n hs
    have hw := inv.wf _ (mem_of_get hs)
    refine ⟨?_, hw.2.1, hw.2.2.1⟩
    rcases asArc_cases hw with ⟨c, hp, _, ho, hv⟩ | ⟨t, hp, _, _, ht⟩
    · obtain ⟨v, hr, hv'⟩ := read_of_live inv.heap (refs_pos hs ho)
      rw [hv] at hv'; cases hv'
      simp [Name.read, hp, hr]
    · simp [Name.read, hp, ht]
  · intro c g hs
    have hv : (reach pool ops).heap.valOf c = some g := inv.wf _ (mem_of_get hs)
    obtain ⟨v, hr, hv'⟩ := read_of_live inv.heap (refs_pos hs (rfl : owns (.arc c g) = some c))
    rw [hv] at hv'; cases hv'
    exact hr

/-- what the constructors supply -/
theorem new_supplies (st : St) (dst : Nat) (t : Text) (he : isEmptyAt st dst = true) :
    ∃ n, (step st (.newName dst t)).1.slots[dst]? = some (.name n) ∧ n.gText = t ∧ n.gLoc = none := by
  have hd := isEmptyAt_iff.mp he
  obtain ⟨hlt, _⟩ := List.getElem?_eq_some_iff.mp hd
  have hr : ({ st with heap := (st.heap.alloc t).1 } : St).heap.read (st.heap.alloc t).2 = some t := read_alloc_new _ _
  refine ⟨mkHeapName (st.heap.alloc t).2 t, ?_, rfl, rfl⟩
  simp only [step, he, if_true, step.nameFromArcRes, nameFromArc_of_read hr, setSlot]
  rw [List.getElem?_set]; simp [hlt]

theorem new_static_supplies (st : St) (dst : Nat) (t : Text) (he : isEmptyAt st dst = true) :
    ∃ n, (step st (.newStatic dst t)).1.slots[dst]? = some (.name n) ∧ n.gText = t ∧ n.gLoc = none ∧ n.isStatic = true := by
  have hd := isEmptyAt_iff.mp he
  obtain ⟨hlt, _⟩ := List.getElem?_eq_some_iff.mp hd
  refine ⟨{ ptr := .static t, len := byteLen t, start := 0, tagged := packNone TAG_STATIC, gText := t, gLoc := none },
    ?_, rfl, rfl, ?_⟩
  · simp only [step, he, if_true, setSlot]
    rw [List.getElem?_set]; simp only [hlt, if_true]
  · simp [Name.isStatic, tagOf_packNone]

/-- `with_location` supplies the location (a `FileId` is a `u64`; attaching `FileId::NONE`, which
    only crate-internal code can do, means "no location") and leaves the text alone -/
theorem with_location_supplies (st : St) (s fid start : Nat) (n : Name) (hs : slotAt st s = .name n)
    (hf : fid < 2 ^ 63) :
    ∃ n', (step st (.withLocation s fid start n.len)).1.slots[s]? = some (.name n') ∧ n'.gText = n.gText ∧
      n'.ptr = n.ptr ∧ n'.gLoc = if fid = NONE then none else some (fid, start, n.len) := by
  have hg := slotAt_name hs
  obtain ⟨hlt, _⟩ := List.getElem?_eq_some_iff.mp hg
  have hm : fid % 2 ^ 64 = fid := Nat.mod_eq_of_lt (by omega)
  obtain ⟨p, hp, _⟩ := Apollo.C31.pack_unpack (tagOf n.tagged) fid hf
  refine ⟨{ n with start := start, tagged := p, gLoc := if fid = NONE then none else some (fid, start, n.len) },
    ?_, rfl, rfl, rfl⟩
  simp only [step, hs, hm, hp, bne_self_eq_false, Bool.false_eq_true, if_false, setSlot]
  rw [List.getElem?_set]; simp only [hlt, if_true]

/-- a clone is the same name: same pointer, same ghosts -/
theorem clone_supplies (st : St) (dst src : Nat) (n : Name) (he : isEmptyAt st dst = true)
    (hs : slotAt st src = .name n) : (step st (.clone dst src)).1.slots[dst]? = some (.name n) := by
  have hd := isEmptyAt_iff.mp he
  obtain ⟨hlt, _⟩ := List.getElem?_eq_some_iff.mp hd
  simp only [step, he, if_true, hs]
  cases n.asArc <;> simp only [setSlot] <;> rw [List.getElem?_set] <;> simp [hlt]

/-- Equality and hashing look at the text only: for all live names `a`, `b` after any history,
    `a == b` iff the supplied texts are equal, and the hasher is fed the supplied text — whatever
    locations were attached. -/
theorem eq_hash_ignore_location (pool : Nat) (ops : List Op) (i j : Nat) (a b : Name)
    (ha : (reach pool ops).slots[i]? = some (.name a)) (hb : (reach pool ops).slots[j]? = some (.name b)) :
    nameEq (reach pool ops).heap a b = (a.gText == b.gText) ∧
    nameHashInput (reach pool ops).heap a = some a.gText := by
  have h1 := ((text_location_preserved pool ops i).1 a ha).1
  have h2 := ((text_location_preserved pool ops j).1 b hb).1
  simp [nameEq, nameHashInput, h1, h2]

/-- …and syntactically: the fields written by `with_location` are not read by `==`/`hash`. -/
theorem eq_hash_location_blind (h : Heap Text) (n m : Name) (start tagged : Nat) (g : Option NameHeap.Loc) :
    nameEq h { n with start := start, tagged := tagged, gLoc := g } m = nameEq h n m ∧
    nameHashInput h { n with start := start, tagged := tagged, gLoc := g } = nameHashInput h n :=
  ⟨rfl, rfl⟩

/-- The tag bit survives every history: a name answers `as_static_str` iff its pointer is a static
    pointer and `to_cloned_arc` iff it is a heap pointer (this is what keeps `Arc::from_raw` away
    from static memory; it rests on C31's `pack_unpack`). -/
theorem tag_roundtrip (pool : Nat) (ops : List Op) (i : Nat) (n : Name)
    (hs : (reach pool ops).slots[i]? = some (.name n)) :
    n.isStatic = !n.ptr.isHeap ∧ (n.ptr.isHeap = true → ∃ c, n.asArc = .arc c) ∧ (n.ptr.isHeap = false → n.asArc = .notArc) := by
  have hw := (reach_inv pool ops).wf _ (mem_of_get hs)
  refine ⟨?_, ?_, ?_⟩
  · simp [Name.isStatic, hw.1, TAG_STATIC]
  · intro hh
    rcases asArc_cases hw with ⟨c, _, ha, _, _⟩ | ⟨t, hp, _, _, _⟩
    · exact ⟨c, ha⟩
    · simp [hp, Ptr.isHeap] at hh
  · intro hh
    rcases asArc_cases hw with ⟨c, hp, _, _, _⟩ | ⟨t, _, ha, _, _⟩
    · simp [hp, Ptr.isHeap] at hh
    · exact ha

/-- All of the above for every number of threads, every per-thread history and EVERY schedule:
    the interleaved execution is a history. -/
theorem schedules_safe (pool : Nat) (threads : List (List Op)) (sched : List Nat) :
    let st := reach pool (interleave sched threads)
    st.heap.uaf = 0 ∧ st.heap.dfree = 0 ∧ st.confused = 0 ∧ ∀ c, st.heap.strongOf c = refsOf owns st.slots c := by
  have inv := reach_inv pool (interleave sched threads)
  exact ⟨inv.heap.uaf, inv.heap.dfree, inv.confused, inv.heap.count⟩

/-! ### nodes -/
section Nodes

def nreach (pool : Nat) (ops : List NodeHeap.Op) : NodeHeap.St := NodeHeap.run (NodeHeap.init pool) ops

theorem nreach_inv (pool : Nat) (ops : List NodeHeap.Op) : NodeHeap.Inv (nreach pool ops) :=
  NodeHeap.run_inv ops _ (NodeHeap.init_inv pool)

/-- nodes: count = number of handles, no access to a freed allocation, no double release -/
theorem node_count_invariant (pool : Nat) (ops : List NodeHeap.Op) :
    (∀ c, (nreach pool ops).heap.strongOf c = refsOf NodeHeap.own (nreach pool ops).slots c) ∧
    (nreach pool ops).heap.uaf = 0 ∧ (nreach pool ops).heap.dfree = 0 :=
  ⟨(nreach_inv pool ops).heap.count, (nreach_inv pool ops).heap.uaf, (nreach_inv pool ops).heap.dfree⟩

/-- nodes: every live handle reads a live allocation -/
theorem node_no_use_after_free (pool : Nat) (ops : List NodeHeap.Op) (i c : Nat)
    (hs : (nreach pool ops).slots[i]? = some (some c)) : ∃ x, NodeHeap.readSlot (nreach pool ops) i = some x := by
  obtain ⟨x, hx, _⟩ := NodeHeap.readSlot_eq_valOf (nreach_inv pool ops) hs
  exact ⟨x, hx⟩

/-- nodes: all handles dropped ⇒ every allocation (and the value in it) released -/
theorem node_no_leak (pool : Nat) (ops : List NodeHeap.Op) (hall : ∀ s ∈ (nreach pool ops).slots, s = none) :
    (nreach pool ops).heap.liveCells = 0 := by
  have hz : ∀ c, refsOf NodeHeap.own (nreach pool ops).slots c = 0 := fun c =>
    refsOf_zero_of_all_none NodeHeap.own c _ (fun s hs => by rw [hall s hs])
  exact (nreach_inv pool ops).heap.liveCells_zero hz

/-- Copy-on-write: after ANY history, `make_mut` (and `get_mut`) on one node changes neither the
    value nor the location read through any other node — in particular not through its clones. -/
theorem make_mut_isolated (pool : Nat) (ops : List NodeHeap.Op) (s j v : Nat) (hj : j ≠ s) :
    NodeHeap.readSlot (NodeHeap.step (nreach pool ops) (.makeMut s v)).1 j = NodeHeap.readSlot (nreach pool ops) j ∧
    NodeHeap.readSlot (NodeHeap.step (nreach pool ops) (.getMut s v)).1 j = NodeHeap.readSlot (nreach pool ops) j :=
  ⟨NodeHeap.mutate_isolated _ (nreach_inv pool ops) s j v hj _ (Or.inl rfl),
   NodeHeap.mutate_isolated _ (nreach_inv pool ops) s j v hj _ (Or.inr rfl)⟩

end Nodes

/-! ### non-vacuity and what goes wrong without the mechanism -/

-- a history that shares, relocates, converts and drops: one cell, freed at the end
example : (reach 3 [.newName 0 ['a'], .clone 1 0, .withLocation 1 7 4 1, .toClonedArc 2 1, .drop 0,
                    .intoArc 0 1, .drop 0, .drop 2]).heap.cells.map (fun c => (c.strong, c.freed)) = [(0, true)] := by
  decide
example : ((reach 3 [.newName 0 ['a'], .clone 1 0, .withLocation 1 7 4 1, .toClonedArc 2 1]).heap.strongOf 0) = 3 := by
  decide
-- the ghost events are real: a name whose tag bit was lost leaks its cell (no decrement on drop) …
example : (step { heap := (Heap.empty.alloc ['a']).1, confused := 0,
                  slots := [.name { ptr := .heap 0, len := 1, start := 0, tagged := packNone TAG_STATIC, gText := ['a'], gLoc := none }] }
             (.drop 0)).1.heap.strongOf 0 = 1 := by decide
-- … and a static name whose tag bit was set is handed to `Arc::from_raw`
example : (step { heap := Heap.empty, confused := 0,
                  slots := [.name { ptr := .static ['a'], len := 1, start := 0, tagged := packNone TAG_ARC, gText := ['a'], gLoc := none }] }
             (.drop 0)).1.confused = 1 := by decide
-- copy-on-write really copies when shared and really writes in place when unique
example : (nreach 2 [.new 0 5 none, .clone 1 0, .makeMut 0 9]).slots = [some 1, some 0] := by decide
example : NodeHeap.readSlot (nreach 2 [.new 0 5 (some (3, 1, 2)), .clone 1 0, .makeMut 0 9]) 0 = some { val := 9, loc := some (3, 1, 2) } := by
  decide
example : NodeHeap.readSlot (nreach 2 [.new 0 5 none, .clone 1 0, .makeMut 0 9]) 1 = some { val := 5, loc := none } := by decide
example : (nreach 2 [.new 0 5 none, .makeMut 0 9]).slots = [some 0, none] := by decide

end Apollo.C30
