import ApolloModel.Spec.Introspection
import ApolloModel.Proofs.Execution
/-
C24 — Introspection agrees with the reference implementation.

The reference implementation is not available here; the agreement of the full introspection response
with an independent reference introspection (written from the specification §4) is checked on the
implementation by the harness.  The theorems below cover the resolvers whose logic is more than a field
read (Model/Introspection.lean), for all inputs, and the partial-execution clause on the executor model.
-/
namespace Apollo.C24
open Apollo Apollo.Introspection Apollo.Spec Apollo.Exec

theorem resolverFor_list (t : Ty) : resolverFor (.list t) = .wrapper (.list t) := rfl
theorem resolverFor_nonNullList (t : Ty) : resolverFor (.nonNullList t) = .wrapper (.nonNullList t) := rfl

/-- The `kind` / `name` / `ofType` chain that `TypeResolver` / `TypeDefResolver` produce for a type
    reference of ANY nesting equals the specification's wrapping types (NON_NULL and LIST layers, then
    the named type with its own kind), given enough `ofType` selections. -/
theorem type_ref_spec (kindOf : String → TKind) : ∀ (t : Ty) (n : Nat), wrappers t < n →
    chain kindOf n (resolverFor t) = specChain kindOf (embed t) := by
  intro t
  induction t with
  | named name =>
    intro n h
    cases n with
    | zero => omega
    | succ n => simp [chain, resolverFor, link, ofType, specChain, embed]
  | nonNullNamed name =>
    intro n h
    simp only [wrappers] at h
    match n, h with
    | n + 2, _ => simp [chain, resolverFor, link, ofType, specChain, embed]
  | list inner ih =>
    intro n h
    simp only [wrappers] at h
    match n, h with
    | n + 1, h =>
      have := ih n (by omega)
      simp [chain, resolverFor_list, link, ofType, specChain, embed, this]
  | nonNullList inner ih =>
    intro n h
    simp only [wrappers] at h
    match n, h with
    | n + 2, h =>
      have := ih n (by omega)
      simp [chain, resolverFor_nonNullList, link, ofType, specChain, embed, this]

/-- With fewer `ofType` selections than wrappers the chain is the corresponding prefix (the standard
    query's `TypeRef` fragment cuts deep types; nothing else changes). -/
theorem type_ref_prefix (kindOf : String → TKind) : ∀ (t : Ty) (n : Nat),
    chain kindOf n (resolverFor t) = (specChain kindOf (embed t)).take n := by
  intro t
  induction t with
  | named name =>
    intro n
    cases n with
    | zero => simp [chain]
    | succ n => simp [chain, resolverFor, link, ofType, specChain, embed]
  | nonNullNamed name =>
    intro n
    match n with
    | 0 => simp [chain]
    | 1 => simp [chain, resolverFor, link, ofType, specChain, embed]
    | n + 2 => simp [chain, resolverFor, link, ofType, specChain, embed]
  | list inner ih =>
    intro n
    match n with
    | 0 => simp [chain]
    | n + 1 => simp [chain, resolverFor_list, link, ofType, specChain, embed, ih n]
  | nonNullList inner ih =>
    intro n
    match n with
    | 0 => simp [chain]
    | 1 => simp [chain, resolverFor_nonNullList, link, ofType, specChain, embed]
    | n + 2 => simp [chain, resolverFor_nonNullList, link, ofType, specChain, embed, ih n]

/-- Deprecation filtering: with `includeDeprecated: true` every element is listed; otherwise (false,
    null, or not given — the coerced argument is then `false`) exactly the non-deprecated elements, in
    definition order. -/
theorem deprecation_filter_spec (xs : List Elem) :
    visible true xs = xs ∧
    (∀ e, e ∈ visible false xs ↔ e ∈ xs ∧ e.deprecated = false) ∧
    List.Sublist (visible false xs) xs ∧
    includeDeprecated (.bool true) = true ∧ includeDeprecated (.bool false) = false ∧ includeDeprecated .null = false := by
  refine ⟨by simp [visible], ?_, by simp [visible], rfl, rfl, rfl⟩
  intro e
  simp [visible]

/-- `possibleTypes` of an interface: exactly the object types that declare it. -/
theorem possible_types_spec (objs : List ObjInfo) (iface n : String) :
    n ∈ implementerObjects objs iface ↔ ∃ o, o ∈ objs ∧ o.name = n ∧ iface ∈ o.implements := by
  simp [implementerObjects, List.mem_map, List.mem_filter]
  constructor
  · rintro ⟨o, ⟨ho, hi⟩, rfl⟩
    exact ⟨o, ho, rfl, hi⟩
  · rintro ⟨o, ho, rfl, hi⟩
    exact ⟨o, ⟨ho, hi⟩, rfl⟩

/-- `kind` distinguishes the eight kinds (the printed names are pairwise different). -/
theorem kind_spec (a b : TKind) : a.text = b.text ↔ a = b := by
  cases a <;> cases b <;> decide

/-- Partial execution: a concrete root field (its resolver answers `SkipForPartialExecution`) adds no
    key and no error, whatever its type, arguments or sub-selections. -/
theorem concrete_roots_skipped (env : Env) (n : Nat) (path : Path) (objTy : String) (objId : Nat) (fdef : FieldDef)
    (f0 : Sel) (rest : List Sel) (args : AList Json) (st : St)
    (hargs : coerceArgs env f0.fargs fdef.args [] = some args) (hname : f0.fname ≠ "__typename")
    (hw : env.world.get? objId f0.fname = some .skip) :
    execField (completeValue env (n + 1)) env path objTy objId fdef (f0 :: rest) st = (.ok none, st) := by
  simp [execField, hargs, hname, hw, completeValue, tryNullify]

end Apollo.C24
