import ApolloModel.Spec.Introspection
import ApolloModel.Proofs.Execution
import ApolloModel.Proofs.IntrospectionFull3
/-
C24 — Introspection agrees with the reference implementation.

The reference implementation is not available here; the agreement of the full introspection response
with an independent reference introspection (written from the specification §4) is checked on the
implementation by the harness.  The theorems below cover the resolvers whose logic is more than a field
read (Model/Introspection.lean), for all inputs, and the partial-execution clause on the executor model.
-/
namespace Apollo.C24
open Apollo Apollo.Introspection Apollo.Spec Apollo.Exec

theorem resolverFor_list (t : Ty) : resolverFor (.list t) = .wrapper (.list t) := rfl
theorem resolverFor_nonNullList (t : Ty) : resolverFor (.nonNullList t) = .wrapper (.nonNullList t) := rfl

/-- The `kind` / `name` / `ofType` chain that `TypeResolver` / `TypeDefResolver` produce for a type
    reference of ANY nesting equals the specification's wrapping types (NON_NULL and LIST layers, then
    the named type with its own kind), given enough `ofType` selections. -/
theorem type_ref_spec (kindOf : String → TKind) : ∀ (t : Ty) (n : Nat), wrappers t < n →
    chain kindOf n (resolverFor t) = specChain kindOf (embed t) := by
  intro t
  induction t with
  | named name =>
    intro n h
    cases n with
    | zero => omega
    | succ n => simp [chain, resolverFor, link, ofType, specChain, embed]
  | nonNullNamed name =>
    intro n h
    simp only [wrappers] at h
    match n, h with
    | n + 2, _ => simp [chain, resolverFor, link, ofType, specChain, embed]
  | list inner ih =>
    intro n h
    simp only [wrappers] at h
    match n, h with
    | n + 1, h =>
      have := ih n (by omega)
      simp [chain, resolverFor_list, link, ofType, specChain, embed, this]
  | nonNullList inner ih =>
    intro n h
    simp only [wrappers] at h
    match n, h with
    | n + 2, h =>
      have := ih n (by omega)
      simp [chain, resolverFor_nonNullList, link, ofType, specChain, embed, this]

/-- With fewer `ofType` selections than wrappers the chain is the corresponding prefix (the standard
    query's `TypeRef` fragment cuts deep types; nothing else changes). -/
theorem type_ref_prefix (kindOf : String → TKind) : ∀ (t : Ty) (n : Nat),
    chain kindOf n (resolverFor t) = (specChain kindOf (embed t)).take n := by
  intro t
  induction t with
  | named name =>
    intro n
    cases n with
    | zero => simp [chain]
    | succ n => simp [chain, resolverFor, link, ofType, specChain, embed]
  | nonNullNamed name =>
    intro n
    match n with
    | 0 => simp [chain]
    | 1 => simp [chain, resolverFor, link, ofType, specChain, embed]
    | n + 2 => simp [chain, resolverFor, link, ofType, specChain, embed]
  | list inner ih =>
    intro n
    match n with
    | 0 => simp [chain]
    | n + 1 => simp [chain, resolverFor_list, link, ofType, specChain, embed, ih n]
  | nonNullList inner ih =>
    intro n
    match n with
    | 0 => simp [chain]
    | 1 => simp [chain, resolverFor_nonNullList, link, ofType, specChain, embed]
    | n + 2 => simp [chain, resolverFor_nonNullList, link, ofType, specChain, embed, ih n]

/-- Deprecation filtering: with `includeDeprecated: true` every element is listed; otherwise (false,
    null, or not given — the coerced argument is then `false`) exactly the non-deprecated elements, in
    definition order. -/
theorem deprecation_filter_spec (xs : List Elem) :
    visible true xs = xs ∧
    (∀ e, e ∈ visible false xs ↔ e ∈ xs ∧ e.deprecated = false) ∧
    List.Sublist (visible false xs) xs ∧
    includeDeprecated (.bool true) = true ∧ includeDeprecated (.bool false) = false ∧ includeDeprecated .null = false := by
  refine ⟨by simp [visible], ?_, by simp [visible], rfl, rfl, rfl⟩
  intro e
  simp [visible]

/-- `possibleTypes` of an interface: exactly the object types that declare it. -/
theorem possible_types_spec (objs : List ObjInfo) (iface n : String) :
    n ∈ implementerObjects objs iface ↔ ∃ o, o ∈ objs ∧ o.name = n ∧ iface ∈ o.implements := by
  simp [implementerObjects, List.mem_map, List.mem_filter]
  constructor
  · rintro ⟨o, ⟨ho, hi⟩, rfl⟩
    exact ⟨o, ho, rfl, hi⟩
  · rintro ⟨o, ho, rfl, hi⟩
    exact ⟨o, ⟨ho, hi⟩, rfl⟩

/-- `kind` distinguishes the eight kinds (the printed names are pairwise different). -/
theorem kind_spec (a b : TKind) : a.text = b.text ↔ a = b := by
  cases a <;> cases b <;> decide

/-- Partial execution: a concrete root field (its resolver answers `SkipForPartialExecution`) adds no
    key and no error, whatever its type, arguments or sub-selections. -/
theorem concrete_roots_skipped (env : Env) (n : Nat) (path : Path) (objTy : String) (objId : Nat) (fdef : FieldDef)
    (f0 : Sel) (rest : List Sel) (args : AList Json) (st : St)
    (hargs : coerceArgs env f0.fargs fdef.args [] = some args) (hname : f0.fname ≠ "__typename")
    (hw : env.world.get? objId f0.fname = some .skip) :
    execField (completeValue env (n + 1)) env path objTy objId fdef (f0 :: rest) st = (.ok none, st) := by
  simp [execField, hargs, hname, hw, completeValue, tryNullify]

/-! ## The whole introspection schema

Model/IntrospectionFull.lean: every resolver of introspection/resolvers.rs (`SchemaMetaField`,
`TypeDefResolver`, `TypeResolver`, `DirectiveResolver`, `FieldResolver`, `EnumValueResolver`,
`InputValueResolver`), the `__schema` / `__type` / `__typename` meta-fields and `partial_execute`, run in
the executor of C26 (generalised from a resolver table to resolver objects that see the coerced
arguments).  Spec/IntrospectionFull.lean: specification §4.2 as a function schema → query → response.
The stream c24.full evaluates the standard introspection query in this model and compares the whole
response — every type and directive, in the order of the response — with `partial_execute`. -/
section Full
open Apollo.Spec.Introspection

/-- `__Schema.types`: every named type of the schema (introspection types and the built-in scalars in
    use included: they are in `schema.types`), in the order of `schema.types`. -/
theorem schema_types_spec (s : ISchema) (args : AList Json) :
    (resolveI s .schema "types" args).map (mapRV toSpec) =
      some (.list (s.types.map fun d => .object "__Type" (.type (.named d.name)))) := by
  rw [schema_spec]; simp [specField]

/-- `__Schema.directives`, `queryType`, `mutationType`, `subscriptionType`, `description` -/
theorem schema_roots_spec (s : ISchema) (args : AList Json) :
    (resolveI s .schema "directives" args).map (mapRV toSpec) =
        some (.list (s.directives.map fun d => .object "__Directive" (.directive d))) ∧
    (resolveI s .schema "queryType" args).map (mapRV toSpec) = some (orNull (s.query.map fun n => typeValue s (.named n))) ∧
    (resolveI s .schema "mutationType" args).map (mapRV toSpec) = some (orNull (s.mutation.map fun n => typeValue s (.named n))) ∧
    (resolveI s .schema "subscriptionType" args).map (mapRV toSpec) = some (orNull (s.subscription.map fun n => typeValue s (.named n))) ∧
    (resolveI s .schema "description" args).map (mapRV toSpec) = some (.leaf (str? s.description)) := by
  refine ⟨?_, ?_, ?_, ?_, ?_⟩ <;> (rw [schema_spec]; simp [specField])

/-- `__Type.fields(includeDeprecated)`: for OBJECT and INTERFACE the fields in definition order — the
    deprecated ones only when `includeDeprecated` is true —, for every other kind null. -/
theorem type_fields_spec (s : ISchema) (d : ITypeDef) (hd : s.typeDef? d.name = some d) (args : AList Json) :
    (resolveI s (.typeDef d) "fields" args).map (mapRV toSpec) =
      some (orNull ((fieldsOfKind d.kind).map fun fs =>
        .list ((listed (·.deprecated) args fs).map fun x => .object "__Field" (.field x)))) := by
  rw [typeDef_spec s d hd]; simp [specField, hd, namedTypeField]

/-- `__Type.interfaces`: for OBJECT and INTERFACE the declared interfaces (interfaces implementing
    interfaces included), otherwise null. -/
theorem type_interfaces_spec (s : ISchema) (d : ITypeDef) (hd : s.typeDef? d.name = some d) (args : AList Json) :
    (resolveI s (.typeDef d) "interfaces" args).map (mapRV toSpec) =
      some (orNull ((interfacesOfKind d.kind).map (typeValues s))) := by
  rw [typeDef_spec s d hd]; simp [specField, hd, namedTypeField]

/-- `__Type.possibleTypes`: for INTERFACE the OBJECT types implementing it, for UNION its members,
    otherwise null. -/
theorem type_possible_types_spec (s : ISchema) (d : ITypeDef) (hd : s.typeDef? d.name = some d) (args : AList Json) :
    (resolveI s (.typeDef d) "possibleTypes" args).map (mapRV toSpec) =
      some (orNull ((possibleTypesOf s d).map (typeValues s))) := by
  rw [typeDef_spec s d hd]; simp [specField, hd, namedTypeField]

/-- `__Type.enumValues(includeDeprecated)`: for ENUM, otherwise null. -/
theorem enum_values_spec (s : ISchema) (d : ITypeDef) (hd : s.typeDef? d.name = some d) (args : AList Json) :
    (resolveI s (.typeDef d) "enumValues" args).map (mapRV toSpec) =
      some (orNull ((enumValuesOfKind d.kind).map fun vs =>
        .list ((listed (·.deprecated) args vs).map fun x => .object "__EnumValue" (.enumValue x)))) := by
  rw [typeDef_spec s d hd]; simp [specField, hd, namedTypeField]

/-- `__Type.inputFields(includeDeprecated)`: for INPUT_OBJECT, otherwise null. -/
theorem input_fields_spec (s : ISchema) (d : ITypeDef) (hd : s.typeDef? d.name = some d) (args : AList Json) :
    (resolveI s (.typeDef d) "inputFields" args).map (mapRV toSpec) =
      some (orNull ((inputFieldsOfKind d.kind).map (inputValueList args))) := by
  rw [typeDef_spec s d hd]; simp [specField, hd, namedTypeField]

/-- `kind`, `name`, `description`, `specifiedByURL`, `ofType` of a named type -/
theorem named_type_scalars_spec (s : ISchema) (d : ITypeDef) (hd : s.typeDef? d.name = some d) (args : AList Json) :
    (resolveI s (.typeDef d) "kind" args).map (mapRV toSpec) = some (.leaf (.str (kindName d.kind))) ∧
    (resolveI s (.typeDef d) "name" args).map (mapRV toSpec) = some (.leaf (.str d.name)) ∧
    (resolveI s (.typeDef d) "description" args).map (mapRV toSpec) = some (.leaf (str? d.description)) ∧
    (resolveI s (.typeDef d) "specifiedByURL" args).map (mapRV toSpec) = some (.leaf (str? (specifiedByOfKind d.kind))) ∧
    (resolveI s (.typeDef d) "ofType" args).map (mapRV toSpec) = some (.leaf .null) := by
  refine ⟨?_, ?_, ?_, ?_, ?_⟩ <;> (rw [typeDef_spec s d hd]; simp [specField, hd, namedTypeField])

/-- a wrapping type: `kind` LIST / NON_NULL, `ofType` the wrapped type, every other field null -/
theorem wrapping_type_spec (s : ISchema) (t : Ty) (ht : ∀ n, t ≠ .named n) (f : String) (args : AList Json) :
    (resolveI s (.typeRef t) f args).map (mapRV toSpec) = specField asWritten s (.type (embed t)) f args :=
  typeRef_spec s t ht f args

/-- `__Directive`: `name`, `description`, `locations`, `args(includeDeprecated)`, `isRepeatable` -/
theorem directives_spec (s : ISchema) (d : IDirective) (args : AList Json) :
    (resolveI s (.directive d) "args" args).map (mapRV toSpec) = some (inputValueList args d.args) ∧
    (resolveI s (.directive d) "locations" args).map (mapRV toSpec) = some (.list (d.locations.map fun l => .leaf (.str l))) ∧
    (resolveI s (.directive d) "isRepeatable" args).map (mapRV toSpec) = some (.leaf (.bool d.repeatable)) ∧
    (resolveI s (.directive d) "name" args).map (mapRV toSpec) = some (.leaf (.str d.name)) ∧
    (resolveI s (.directive d) "description" args).map (mapRV toSpec) = some (.leaf (str? d.description)) := by
  refine ⟨?_, ?_, ?_, ?_, ?_⟩ <;> (rw [directive_spec]; simp [specField])

/-- `__Field`: `args(includeDeprecated)`, `type`, `isDeprecated`, `deprecationReason` (the reason
    given, else the default of `@deprecated(reason:)`, "No longer supported") -/
theorem field_args_spec (s : ISchema) (hdep : deprecatedIsBuiltin s = true) (d : IField) (args : AList Json) :
    (resolveI s (.field d) "args" args).map (mapRV toSpec) = some (inputValueList args d.args) ∧
    (resolveI s (.field d) "type" args).map (mapRV toSpec) = some (typeValue s (embed d.ty)) ∧
    (resolveI s (.field d) "isDeprecated" args).map (mapRV toSpec) = some (.leaf (.bool (isDeprecated d.deprecated))) ∧
    (resolveI s (.field d) "deprecationReason" args).map (mapRV toSpec) = some (.leaf (reasonOf d.deprecated)) := by
  refine ⟨?_, ?_, ?_, ?_⟩ <;> (rw [field_spec s hdep]; simp [specField])

/-- `__InputValue`: `type`, `defaultValue` (THE LITERAL AS WRITTEN), deprecation -/
theorem input_value_spec (s : ISchema) (hdep : deprecatedIsBuiltin s = true) (d : IInputValue) (args : AList Json) :
    (resolveI s (.inputValue d) "type" args).map (mapRV toSpec) = some (typeValue s (embed d.ty)) ∧
    (resolveI s (.inputValue d) "defaultValue" args).map (mapRV toSpec) = some (.leaf (str? (d.default.map printValue))) ∧
    (resolveI s (.inputValue d) "isDeprecated" args).map (mapRV toSpec) = some (.leaf (.bool (isDeprecated d.deprecated))) ∧
    (resolveI s (.inputValue d) "deprecationReason" args).map (mapRV toSpec) = some (.leaf (reasonOf d.deprecated)) := by
  refine ⟨?_, ?_, ?_, ?_⟩ <;> (rw [inputValue_spec s hdep]; simp [specField, asWritten])

/-- `__EnumValue` -/
theorem enum_value_spec (s : ISchema) (hdep : deprecatedIsBuiltin s = true) (d : IEnumValue) (f : String) (args : AList Json) :
    (resolveI s (.enumValue d) f args).map (mapRV toSpec) = specField asWritten s (.enumValue d) f args :=
  enumValue_spec s hdep d f args

/-- FIELD BY FIELD, all at once: every resolver object the executor can meet, every field name, all
    coerced arguments. -/
theorem resolvers_eq_spec (s : ISchema) (hdep : deprecatedIsBuiltin s = true) (o : IObj) (ho : ObjOk s o) (f : String)
    (args : AList Json) :
    (resolveI s o f args).map (mapRV toSpec) = specField asWritten s (toSpec o) f args :=
  resolve_spec s hdep o ho f args

/-- THE WHOLE RESPONSE (`defaultValue` = the literal as written): for every schema with distinct type
    names whose `@deprecated` is the built-in directive, every introspection query — any selection
    shape — and every fuel, the modelled `partial_execute` returns the response the specification
    prescribes. -/
theorem introspection_eq_spec (s : ISchema) (hu : typeNamesDistinct s = true) (hdep : deprecatedIsBuiltin s = true)
    (fuel cfuel : Nat) (frags : AList Frag) (vars : AList Json) (sels : List Sel) :
    partialExecute fuel cfuel s frags vars sels = specResponse asWritten fuel cfuel s frags vars sels :=
  partialExecute_eq_spec s hu hdep fuel cfuel frags vars sels

/-- `defaultValue`: the code prints the literal AS WRITTEN, the reference the printed COERCED value
    (`coerceDefault`: one item at a list type becomes a list, input objects get the defaults of the
    fields left out, in definition order; `refPrint` escapes every control character).  The two agree
    whenever the default is already in canonical form (a decidable check). -/
theorem default_value_spec (fmtFloat : String → String) (dfuel : Nat) (s : ISchema) (v : IInputValue)
    (h : canonicalDefault fmtFloat dfuel s v = true) : asWritten s v = printedCoerced fmtFloat dfuel s v :=
  default_value_canonical fmtFloat dfuel s v h

/-- THE WHOLE RESPONSE WITH THE REFERENCE'S `defaultValue`, on schemas all of whose defaults are
    written in canonical form (what the generator of the check produces). -/
theorem introspection_eq_reference_on_canonical_defaults (fmtFloat : String → String) (dfuel : Nat) (s : ISchema)
    (hu : typeNamesDistinct s = true) (hdep : deprecatedIsBuiltin s = true)
    (hcan : defaultsCanonical fmtFloat dfuel s = true)
    (fuel cfuel : Nat) (frags : AList Frag) (vars : AList Json) (sels : List Sel) :
    partialExecute fuel cfuel s frags vars sels =
      specResponse (printedCoerced fmtFloat dfuel) fuel cfuel s frags vars sels :=
  partialExecute_eq_spec_canonical fmtFloat dfuel s hu hdep hcan fuel cfuel frags vars sels

/-! the two known findings, kernel-evaluated on the model:
    `input In { x: Int, y: Int, z: Int = 5 }`, `f(a: Float = 1.0, b: [Int] = 1, c: In = {y: 2, x: 1}, t: String = "tab<TAB>!")` -/
def wIn : ITypeDef := { name := "In", description := none, kind := .inputObject [ivNo "x" (.named "Int") none, ivNo "y" (.named "Int") none, ivNo "z" (.named "Int") (some (.int 5))] }
def wSchema : ISchema := apolloSchema { description := none, query := some "Query", mutation := none, subscription := none, types := [wIn], directives := [] }
/-- the reference prints the number `1.0` as `1` -/
def wFmt (t : String) : String := if t == "1.0" then "1" else t

/-- finding `default-value-printed-as-written` -/
theorem default_value_printed_as_written :
    asWritten wSchema (ivNo "a" (.named "Float") (some (.float "1.0"))) = some "1.0" ∧
    printedCoerced wFmt 8 wSchema (ivNo "a" (.named "Float") (some (.float "1.0"))) = some "1" ∧
    asWritten wSchema (ivNo "b" (.list (.named "Int")) (some (.int 1))) = some "1" ∧
    printedCoerced wFmt 8 wSchema (ivNo "b" (.list (.named "Int")) (some (.int 1))) = some "[1]" ∧
    asWritten wSchema (ivNo "c" (.named "In") (some (.obj [("y", .int 2), ("x", .int 1)]))) = some "{y: 2, x: 1}" ∧
    printedCoerced wFmt 8 wSchema (ivNo "c" (.named "In") (some (.obj [("y", .int 2), ("x", .int 1)]))) = some "{x: 1, y: 2, z: 5}" := by
  decide

/-- finding `default-value-tab-not-escaped` -/
theorem default_value_tab_not_escaped :
    asWritten wSchema (ivNo "t" (.named "String") (some (.str "tab\t!"))) = some "\"tab\t!\"" ∧
    printedCoerced wFmt 8 wSchema (ivNo "t" (.named "String") (some (.str "tab\t!"))) = some "\"tab\\t!\"" := by
  decide

/-- the canonical-form guard is not vacuous, and rejects the witnesses above -/
theorem canonical_guard_witness :
    canonicalDefault wFmt 8 wSchema (ivNo "k" (.named "Float") (some (.float "1.5"))) = true ∧
    canonicalDefault wFmt 8 wSchema (ivNo "c" (.named "In") (some (.obj [("x", .int 1), ("y", .int 2), ("z", .int 5)]))) = true ∧
    canonicalDefault wFmt 8 wSchema (ivNo "a" (.named "Float") (some (.float "1.0"))) = false ∧
    canonicalDefault wFmt 8 wSchema (ivNo "t" (.named "String") (some (.str "tab\t!"))) = false := by
  decide

/-- the hypotheses of `introspection_eq_spec` hold for what `Schema::parse_and_validate` builds from a
    document with distinct type names: the built-in `@deprecated` is there -/
theorem apollo_schema_deprecated_builtin (user : ISchema) : deprecatedIsBuiltin (apolloSchema user) = true := by
  simp [deprecatedIsBuiltin, apolloSchema, builtinDirectives, ivNo]

end Full

end Apollo.C24
