import ApolloModel.Proofs.SmithResponse5
/-
C33 — generated responses match the operation's shape.

Model: `Model/SmithResponse.lean` (apollo-smith `ResponseBuilder`: concrete_type, collect_fields,
selection_set, generate_field_value, list_layers, leaf_field, should_be_null, default scalar
generators; the randomness source is an arbitrary script of answers).  Every theorem below holds for
EVERY schema, fragment table, configuration (list bounds, null ratio), selection set, script and fuel.
-/
namespace Apollo.C33
open Apollo Apollo.Smith

/-- **Response keys and values of every generated object.**  If `selection_set` returns a value, it is an
    object whose keys are exactly the response keys of `collect_fields` for the concrete type that was
    drawn, in that order, and each key holds: the concrete type's name for `__typename`; `null` only for a
    field whose type is nullable; otherwise a value with one list per list layer of the field type, no null
    inside, and innermost values that are objects (composite fields) or leaves of the named type (enum
    values that the schema defines; Int/Float/Boolean/String/ID of the right JSON kind). -/
theorem response_object (s : Schema) (frags : Fragments) (cfg : Cfg) (f : Nat) (ty : Name) (sels : Sels)
    (script : List Nat) (j : Json) (r : List Nat) (h : selectionSet s frags cfg f ty sels script = .ok j r) :
    ∃ concrete script' grouped fields,
      concreteType s ty script = .ok concrete script'
      ∧ collectFields s frags concrete f sels = some grouped
      ∧ j = .obj fields
      ∧ fields.keys = grouped.keys
      ∧ entriesOk (fun mf v => (mf.name = "__typename" ∧ v = .str concrete) ∨ (v = .null ∧ mf.ty.isNonNull = false)
          ∨ shape s (!mf.sub.isEmpty) mf.ty v) grouped fields.toList :=
  selectionSet_spec s frags cfg f ty sels script j r h

/-- **Lists nest exactly as the field type does, and nothing below the top of a field is null.** -/
theorem field_value_shape (s : Schema) (frags : Fragments) (cfg : Cfg) (f : Nat) (mf : FieldInfo)
    (fields : List FieldInfo) (script : List Nat) (j : Json) (r : List Nat)
    (h : fieldValue s frags cfg f mf fields mf.ty script = .ok j r) : shape s (!mf.sub.isEmpty) mf.ty j :=
  fieldValue_shape s frags cfg f mf fields mf.ty script j r h

/-- a well-shaped value is not `null` -/
theorem shape_not_null (s : Schema) (c : Bool) : ∀ ty : Ty, ¬ shape s c ty .null
  | .named n => by cases c <;> simp [shape, isObj, leafOk]
  | .nonNullNamed n => by cases c <;> simp [shape, isObj, leafOk]
  | .list _ => by simp [shape]
  | .nonNullList _ => by simp [shape]

/-- **Non-null positions are never null**: a `null` is written only under a nullable field type. -/
theorem null_only_when_nullable (s : Schema) (frags : Fragments) (cfg : Cfg) (f : Nat) (concrete : Name)
    (mf : FieldInfo) (fields : List FieldInfo) (script : List Nat) (r : List Nat)
    (h : groupValue s frags cfg f concrete mf fields script = .ok .null r) : mf.ty.isNonNull = false := by
  rcases groupValue_spec s frags cfg f concrete mf fields script .null r h with ⟨_, h2⟩ | ⟨_, h2⟩ | h2
  · cases h2
  · exact h2
  · exact absurd h2 (shape_not_null s _ mf.ty)

/-- **`__typename` is a possible type**: the concrete type drawn for a selection set on a union is one of its
    members, on an interface one of the object types implementing it, otherwise the type itself.  (An interface
    without implementers — excluded by the property's precondition — yields the interface's own name.) -/
theorem concrete_type_is_possible (s : Schema) (ty : Name) (script : List Nat) (c : Name) (r : List Nat)
    (h : concreteType s ty script = .ok c r) :
    c ∈ possibleTypes s ty ∨ (s.get? ty = some .interface ∧ implementers s ty = [] ∧ c = ty) :=
  concreteType_possible s ty script c r h

/-- a generated list has exactly the drawn number of items -/
theorem list_length_is_drawn (s : Schema) (frags : Fragments) (cfg : Cfg) (f : Nat) (mf : FieldInfo)
    (fields : List FieldInfo) (inner : Ty) (n : Nat) (script : List Nat) (items : Jsons) (r : List Nat)
    (h : listItems s frags cfg f mf fields inner n script = .ok items r) : items.length = n :=
  listItems_length s frags cfg f mf fields inner n script items r h

/-- the response keys of a selection set are pairwise distinct (fields sharing a response key are merged) -/
theorem response_keys_distinct (s : Schema) (frags : Fragments) (concrete : Name) (f : Nat) (sels : Sels) (g : Grouped)
    (h : collectFields s frags concrete f sels = some g) : g.keys.Nodup :=
  collectFields_nodup s frags concrete f sels g h

/-- non-vacuity: a nested-list field `c: [[Int!]]` with script `[2, 1, 7, 0]` (outer length 2, first inner
    length 1 → 7, second inner length 0) gives `{"c":[[7],[]]}` — a list of lists -/
example :
    (match buildData [("Query", .object []), ("Int", .scalar)] [] { minList := 0, maxList := 5, nullRatio := none } 50
        "Query" (.cons (.field none "c" (.list (.list (.nonNullNamed "Int"))) "Int" .nil) .nil) [2, 1, 7, 0] with
      | .ok j _ => j.render
      | _ => "?") = "{\"c\":[[7],[]]}" := by decide +kernel

/-! ### `collect_fields` against the specification's CollectFields (§6.3.2)

`specCollectFields` (Proofs/SmithResponse3.lean) transcribes the algorithm: ordered groups, visited-fragments
set (each named fragment at most once), DoesFragmentTypeApply through the possible types.  The builder's
`collect_fields` has no visited set: it expands a fragment again at every spread. -/

/-- **DoesFragmentTypeApply.**  For an object type `concrete` of a schema with unique type names,
    `type_condition_matches(cond, concrete)` holds exactly when `concrete` is a possible type of `cond`
    (the type itself; an object listing the interface — validity (C15) makes every implementer list the
    interface directly; a member of the union). -/
theorem type_condition_matches_spec (s : Schema) (hnd : (s.map (·.1)).Nodup) (cond concrete : Name)
    (impls : List Name) (hc : s.get? concrete = some (.object impls)) :
    typeConditionMatches s cond concrete = decide (concrete ∈ possibleTypes s cond) := by
  rw [typeConditionMatches_eq_apply s hnd cond concrete impls hc]
  unfold doesFragmentTypeApply
  cases h : (possibleTypes s cond).contains concrete <;> simp_all

/-- **Same response keys, same order; per key the same fields up to repeats.**  For a fragment table whose
    spread graph is acyclic (a rank decreasing from a fragment to the fragments spread in its body — valid
    documents have one), whenever both terminate: the builder's grouped field set and the specification's
    have the same response keys in the same order, and for every key the specification's field list is the
    builder's list with some entries removed, each of which already occurs earlier in that list
    (`Redundant`): the builder collects a fragment's fields again each time the fragment is spread. -/
theorem collect_keys_eq_spec (s : Schema) (hnd : (s.map (·.1)).Nodup) (frags : Fragments) (rank : Name → Nat)
    (hac : Acyclic frags rank) (concrete : Name) (impls : List Name) (hc : s.get? concrete = some (.object impls))
    (sels : Sels) (fm fs : Nat) (g gs : Grouped) (v : List Name)
    (hm : collectFields s frags concrete fm sels = some g)
    (hs : specCollectFields s frags concrete fs [] [] sels = some (gs, v)) :
    g.keys = gs.keys ∧ ∀ k, Redundant [] (g.get k) (gs.get k) :=
  collect_vs_spec s hnd frags rank hac concrete impls hc sels fm fs g gs v hm hs

/-- …in particular, per key, both collect exactly the same set of fields. -/
theorem collect_same_fields (s : Schema) (hnd : (s.map (·.1)).Nodup) (frags : Fragments) (rank : Name → Nat)
    (hac : Acyclic frags rank) (concrete : Name) (impls : List Name) (hc : s.get? concrete = some (.object impls))
    (sels : Sels) (fm fs : Nat) (g gs : Grouped) (v : List Name)
    (hm : collectFields s frags concrete fm sels = some g)
    (hs : specCollectFields s frags concrete fs [] [] sels = some (gs, v)) (k : String) (x : FieldInfo) :
    x ∈ g.get k ↔ x ∈ gs.get k := by
  have h := (collect_vs_spec s hnd frags rank hac concrete impls hc sels fm fs g gs v hm hs).2 k
  constructor
  · intro hx
    rcases h.mem_iff.2 x hx with e | e
    · cases e
    · exact e
  · exact h.mem_iff.1 x

/-- The repeats really occur: `{ ...F ...F }` with `fragment F on Q { a }` — the builder keeps two copies of
    `a` under the key `a`, the specification one (kernel-evaluated). -/
theorem collect_duplicates_occur :
    let s : Schema := [("Q", .object []), ("Int", .scalar)]
    let frags : Fragments := [("F", "Q", .cons (.field none "a" (.named "Int") "Int" .nil) .nil)]
    let sels : Sels := .cons (.spread "F") (.cons (.spread "F") .nil)
    (collectFields s frags "Q" 10 sels).map (fun g => g.map fun e => (e.1, e.2.length)) = some [("a", 2)] ∧
    (specCollectFields s frags "Q" 10 [] [] sels).map (fun r => (r.1.map fun e => (e.1, e.2.length), r.2)) =
      some ([("a", 1)], ["F"]) := by
  decide +kernel

/-- **Fuel.**  For an acyclic fragment table `collect_fields` never runs out of fuel once the fuel is at least
    `collectFuel` = (cells of the selection set at this level) + (largest rank spread + 1) × (largest fragment
    body): the model's `none` is not reachable for valid documents. -/
theorem collect_fuel_sufficient (s : Schema) (frags : Fragments) (concrete : Name) (rank : Name → Nat)
    (hac : Acyclic frags rank) (sels : Sels) (f : Nat) (hf : collectFuel frags rank sels ≤ f) :
    ∃ g, collectFields s frags concrete f sels = some g :=
  collectFields_total s frags concrete rank hac sels f hf

/-- **`response_object`, in terms of the specification.**  The object generated for a selection set has
    exactly the response keys of the specification's CollectFields for the concrete type that was drawn, in
    that order (for an object concrete type, unique type names, an acyclic fragment table). -/
theorem response_object_spec_keys (s : Schema) (hnd : (s.map (·.1)).Nodup) (frags : Fragments) (rank : Name → Nat)
    (hac : Acyclic frags rank) (cfg : Cfg) (f : Nat) (ty : Name) (sels : Sels)
    (script : List Nat) (j : Json) (r : List Nat) (h : selectionSet s frags cfg f ty sels script = .ok j r) :
    ∃ concrete script' fields,
      concreteType s ty script = .ok concrete script' ∧ j = .obj fields ∧
      ∀ impls fs gs v, s.get? concrete = some (.object impls) →
        specCollectFields s frags concrete fs [] [] sels = some (gs, v) → fields.keys = gs.keys := by
  obtain ⟨concrete, script', grouped, fields, h1, h2, h3, h4, _⟩ := response_object s frags cfg f ty sels script j r h
  refine ⟨concrete, script', fields, h1, h3, ?_⟩
  intro impls fs gs v hc hs
  rw [h4]
  exact (collect_vs_spec s hnd frags rank hac concrete impls hc sels f fs grouped gs v h2 hs).1

end Apollo.C33
