import ApolloModel.Proofs.SmithResponse2
/-
C33 — generated responses match the operation's shape.

Model: `Model/SmithResponse.lean` (apollo-smith `ResponseBuilder`: concrete_type, collect_fields,
selection_set, generate_field_value, list_layers, leaf_field, should_be_null, default scalar
generators; the randomness source is an arbitrary script of answers).  Every theorem below holds for
EVERY schema, fragment table, configuration (list bounds, null ratio), selection set, script and fuel.
-/
namespace Apollo.C33
open Apollo Apollo.Smith

/-- **Response keys and values of every generated object.**  If `selection_set` returns a value, it is an
    object whose keys are exactly the response keys of `collect_fields` for the concrete type that was
    drawn, in that order, and each key holds: the concrete type's name for `__typename`; `null` only for a
    field whose type is nullable; otherwise a value with one list per list layer of the field type, no null
    inside, and innermost values that are objects (composite fields) or leaves of the named type (enum
    values that the schema defines; Int/Float/Boolean/String/ID of the right JSON kind). -/
theorem response_object (s : Schema) (frags : Fragments) (cfg : Cfg) (f : Nat) (ty : Name) (sels : Sels)
    (script : List Nat) (j : Json) (r : List Nat) (h : selectionSet s frags cfg f ty sels script = .ok j r) :
    ∃ concrete script' grouped fields,
      concreteType s ty script = .ok concrete script'
      ∧ collectFields s frags concrete f sels = some grouped
      ∧ j = .obj fields
      ∧ fields.keys = grouped.keys
      ∧ entriesOk (fun mf v => (mf.name = "__typename" ∧ v = .str concrete) ∨ (v = .null ∧ mf.ty.isNonNull = false)
          ∨ shape s (!mf.sub.isEmpty) mf.ty v) grouped fields.toList :=
  selectionSet_spec s frags cfg f ty sels script j r h

/-- **Lists nest exactly as the field type does, and nothing below the top of a field is null.** -/
theorem field_value_shape (s : Schema) (frags : Fragments) (cfg : Cfg) (f : Nat) (mf : FieldInfo)
    (fields : List FieldInfo) (script : List Nat) (j : Json) (r : List Nat)
    (h : fieldValue s frags cfg f mf fields mf.ty script = .ok j r) : shape s (!mf.sub.isEmpty) mf.ty j :=
  fieldValue_shape s frags cfg f mf fields mf.ty script j r h

/-- a well-shaped value is not `null` -/
theorem shape_not_null (s : Schema) (c : Bool) : ∀ ty : Ty, ¬ shape s c ty .null
  | .named n => by cases c <;> simp [shape, isObj, leafOk]
  | .nonNullNamed n => by cases c <;> simp [shape, isObj, leafOk]
  | .list _ => by simp [shape]
  | .nonNullList _ => by simp [shape]

/-- **Non-null positions are never null**: a `null` is written only under a nullable field type. -/
theorem null_only_when_nullable (s : Schema) (frags : Fragments) (cfg : Cfg) (f : Nat) (concrete : Name)
    (mf : FieldInfo) (fields : List FieldInfo) (script : List Nat) (r : List Nat)
    (h : groupValue s frags cfg f concrete mf fields script = .ok .null r) : mf.ty.isNonNull = false := by
  rcases groupValue_spec s frags cfg f concrete mf fields script .null r h with ⟨_, h2⟩ | ⟨_, h2⟩ | h2
  · cases h2
  · exact h2
  · exact absurd h2 (shape_not_null s _ mf.ty)

/-- **`__typename` is a possible type**: the concrete type drawn for a selection set on a union is one of its
    members, on an interface one of the object types implementing it, otherwise the type itself.  (An interface
    without implementers — excluded by the property's precondition — yields the interface's own name.) -/
theorem concrete_type_is_possible (s : Schema) (ty : Name) (script : List Nat) (c : Name) (r : List Nat)
    (h : concreteType s ty script = .ok c r) :
    c ∈ possibleTypes s ty ∨ (s.get? ty = some .interface ∧ implementers s ty = [] ∧ c = ty) :=
  concreteType_possible s ty script c r h

/-- a generated list has exactly the drawn number of items -/
theorem list_length_is_drawn (s : Schema) (frags : Fragments) (cfg : Cfg) (f : Nat) (mf : FieldInfo)
    (fields : List FieldInfo) (inner : Ty) (n : Nat) (script : List Nat) (items : Jsons) (r : List Nat)
    (h : listItems s frags cfg f mf fields inner n script = .ok items r) : items.length = n :=
  listItems_length s frags cfg f mf fields inner n script items r h

/-- the response keys of a selection set are pairwise distinct (fields sharing a response key are merged) -/
theorem response_keys_distinct (s : Schema) (frags : Fragments) (concrete : Name) (f : Nat) (sels : Sels) (g : Grouped)
    (h : collectFields s frags concrete f sels = some g) : g.keys.Nodup :=
  collectFields_nodup s frags concrete f sels g h

/-- non-vacuity: a nested-list field `c: [[Int!]]` with script `[2, 1, 7, 0]` (outer length 2, first inner
    length 1 → 7, second inner length 0) gives `{"c":[[7],[]]}` — a list of lists -/
example :
    (match buildData [("Query", .object []), ("Int", .scalar)] [] { minList := 0, maxList := 5, nullRatio := none } 50
        "Query" (.cons (.field none "c" (.list (.list (.nonNullNamed "Int"))) "Int" .nil) .nil) [2, 1, 7, 0] with
      | .ok j _ => j.render
      | _ => "?") = "{\"c\":[[7],[]]}" := by decide +kernel

end Apollo.C33
