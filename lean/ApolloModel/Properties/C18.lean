import ApolloModel.Proofs.TypedDoc
import ApolloModel.Proofs.TypedIter
import ApolloModel.Proofs.TypedValid
import ApolloModel.Proofs.TypedValid3
import ApolloModel.Proofs.TypedVars6
/-
C18 — Executable documents are typed consistently with the schema.

Model: Model/TypedDoc.lean (`typeField` = `Schema::type_field` with the meta-fields, `buildDocT` =
`document_from_ast` with a schema keeping what the Rust stores: definition and selection-set type per field,
selection-set type per inline fragment / operation / fragment; `run` = the explicit-stack loop of
`root_fields` / `all_fields`).  The second sentence is stated on the validation model of Model/Standalone.lean.
All theorems hold for every schema, every document (valid or not, cyclic or not).
-/
namespace Apollo.C18
open Apollo.Standalone Apollo.Typed

/-- names are the numbers of Model/Standalone.lean (`Apollo.Name`, the strings of Model/ExecRules.lean, is in scope too) -/
abbrev Name := Standalone.Name

/-! ### field lookup, meta-fields included -/

/-- `Schema::type_field`, completely: unknown type; explicit field of an object or interface type;
    `__typename` exactly on composite types; `__schema` / `__type` exactly on the query root type. -/
theorem type_field_meta (s : TSchema) (t f : Name) :
    typeField s t f =
      match s.findType t with
      | none => .noSuchType
      | some td =>
        match explicitField td f with
        | some d => .ok d
        | none =>
          if f = nTypename then (if td.kind.isComposite then .ok metaTypename else .noSuchField)
          else if f = nSchema then (if s.query = some t then .ok metaSchema else .noSuchField)
          else if f = nType then (if s.query = some t then .ok metaType else .noSuchField)
          else .noSuchField := by
  unfold typeField
  cases s.findType t with
  | none => rfl
  | some td =>
    simp only
    cases explicitField td f with
    | some d => rfl
    | none =>
      simp only
      by_cases h1 : f = nTypename
      · subst h1
        cases hc : td.kind.isComposite <;> cases hq : (s.query == some t) <;>
          simp_all [nTypename, nSchema, nType]
      · by_cases h2 : f = nSchema
        · subst h2
          cases hq : (s.query == some t) <;> simp_all [nTypename, nSchema]
        · by_cases h3 : f = nType
          · subst h3
            cases hq : (s.query == some t) <;> simp_all [nTypename, nSchema, nType]
          · cases hq : (s.query == some t) <;> simp_all

/-- union types have no explicit fields: only `__typename` can be selected on them -/
theorem type_field_union (s : TSchema) (t f : Name) (td : TypeDef) (h : s.findType t = some td)
    (hk : td.kind = .union) (hq : s.query ≠ some t) :
    typeField s t f = if f = nTypename then .ok metaTypename else .noSuchField := by
  rw [type_field_meta, h]
  simp only [explicitField, hk, TKind.isComposite]
  by_cases h1 : f = nTypename
  · simp [h1]
  · simp [h1, hq]

/-! ### typing -/

/-- In the document built against a schema, every operation is typed by the schema's root operation type,
    every fragment by the type condition of a fragment definition of that name in the source, every field
    carries `type_field(parent type, name)` and its selection set is typed by that definition's inner type,
    every inline fragment's selection set is typed by its type condition, or by the parent type when there
    is none (`annotated`); no kept field has a sub-selection on a scalar or enum type. -/
theorem typing_invariant (s : TSchema) (ast : Ast) :
    (∀ o, o ∈ (buildDocT s ast).ops →
        s.root o.opType = some o.ty ∧ annotated s o.ty o.sels = true ∧ noLeafSub s o.sels = true) ∧
    (∀ f, f ∈ (buildDocT s ast).frags →
        annotated s f.ty f.sels = true ∧ noLeafSub s f.sels = true ∧ (s.findType f.ty).isSome = true ∧
          ∃ g, Def.frag g ∈ ast ∧ g.name = f.name ∧ g.tc = f.ty) :=
  ⟨(buildDocT_typed s ast).ops, (buildDocT_typed s ast).frags⟩

/-- the same for any selection set converted under a parent type (`SelectionSet::extend_from_ast`) -/
theorem typing_selection_set (s : TSchema) (parent : Name) (t : Sels) :
    annotated s parent (buildT s parent t) = true ∧ noLeafSub s (buildT s parent t) = true :=
  ⟨buildT_annotated s t parent, buildT_noLeafSub s t parent⟩

/-! ### the iterators -/

/-- `root_fields`: the explicit-stack loop yields exactly the fields of the recursive walk that does not
    descend into fields and enters each named fragment once, for every document (cyclic ones included);
    `m` = any number of further turns of the loop. -/
theorem root_fields_spec (doc : TDoc) (t : TSels) (m : Nat) :
    run doc false ((dfs doc false t).2.2 + m) [t] [] = (dfs doc false t).1 ∧
      Walk doc false t [] (dfs doc false t).1 (dfs doc false t).2.1 :=
  ⟨run_eq_dfs doc false t m, dfs_walk doc false t⟩

/-- `all_fields`: the same with descent into every field's sub-selection. -/
theorem all_fields_spec (doc : TDoc) (t : TSels) (m : Nat) :
    run doc true ((dfs doc true t).2.2 + m) [t] [] = (dfs doc true t).1 ∧
      Walk doc true t [] (dfs doc true t).1 (dfs doc true t).2.1 :=
  ⟨run_eq_dfs doc true t m, dfs_walk doc true t⟩

/-- what the driver prints is that -/
theorem iterate_eq_spec (doc : TDoc) (all : Bool) (t : TSels) : iterate doc all t = (dfs doc all t).1 := by
  have := run_eq_dfs doc all t 0
  simpa [iterate] using this

/-- each named fragment is entered at most once, and only defined fragments are entered -/
theorem fragments_entered_once (doc : TDoc) (all : Bool) (t : TSels) :
    (dfs doc all t).2.1.Nodup ∧ ∀ f ∈ (dfs doc all t).2.1, (doc.findFrag f).isSome = true := by
  obtain ⟨h1, h2⟩ := dfs_seen_inv doc all t
  refine ⟨h1, ?_⟩
  intro f hf
  have := h2 f hf
  simp only [List.mem_map] at this
  obtain ⟨d, hd, hn⟩ := this
  unfold TDoc.findFrag
  cases hq : List.find? (fun g => g.name == f) doc.frags with
  | some _ => rfl
  | none =>
    have := List.find?_eq_none.mp hq d hd
    simp [hn] at this

/-! ### valid documents (validation model of Model/Standalone.lean, current code) -/

/-- In a document that validates against a schema, in the selection tree of every operation (through fields
    and inline fragments): every field is defined on its parent type, composite fields have sub-selections,
    leaf fields have none, every spread names an existing fragment.
    PARTIAL: the same for the bodies of fragment definitions is proved per entered fragment
    (`valid_entered_fragment`), not yet for "every fragment of a valid document is entered"; used variables
    are checked by a typed rule that is not modelled.  Those clauses are checked on the implementation. -/
theorem valid_leaf_shape_spreads_defined_partial (defer : BuiltDoc → List Nat) (sc : Schema) (ast : Ast)
    (h : validate (currentParams defer) (some sc) ast = []) :
    ∀ o, o ∈ (build (some sc) ast).doc.ops →
      ∃ t, sc.root o.ty = some t ∧ treeOk sc (build (some sc) ast).doc t o.sels = true :=
  valid_ops_treeOk _ rfl sc ast h

/-- A fragment definition whose validation reports nothing has a composite type condition, is not on a
    spread cycle, and its body has the shape above. -/
theorem valid_entered_fragment (p : Params) (sc : Schema) (doc : BuiltDoc) (n : Nat) (f : Frag) (V V' : List Name)
    (ht : typed sc f.tc f.sels = true) (h : enterFrag p (some sc) doc n f V = ([], V')) :
    sc.kind f.tc = some .composite ∧ ¬ f.name ∈ reach doc f.sels ∧ treeOk sc doc f.tc f.sels = true :=
  enterFrag_treeOk p sc doc n f V V' ht h

/-- **Every fragment of a valid document is entered** by the validation walk of some operation
    (`validate_fragment_definition` ran on it and reported nothing): the unused-fragment rule puts it in the
    `reach` of an operation, and a quiet walk marks and enters everything the operation reaches. -/
theorem valid_all_fragments_entered (defer : BuiltDoc → List Nat) (sc : Schema) (ast : Ast)
    (h : validate (currentParams defer) (some sc) ast = []) :
    ∀ f, f ∈ (build (some sc) ast).doc.frags → Entered (currentParams defer) sc (build (some sc) ast).doc f :=
  Apollo.Standalone.valid_all_fragments_entered _ rfl sc ast h

/-- **valid_document_wellformed** — second sentence of the property, on the validation model, for every schema
    view and document: in a document that validates, in every operation AND in every fragment definition,
    fields are defined on their parent type, composite fields have sub-selections, leaf fields have none, every
    spread names an existing fragment (`treeOk`); every fragment's type condition is a composite type and no
    fragment is on a spread cycle. -/
theorem valid_document_wellformed (defer : BuiltDoc → List Nat) (sc : Schema) (ast : Ast)
    (h : validate (currentParams defer) (some sc) ast = []) :
    (∀ o, o ∈ (build (some sc) ast).doc.ops →
      ∃ t, sc.root o.ty = some t ∧ treeOk sc (build (some sc) ast).doc t o.sels = true) ∧
    (∀ f, f ∈ (build (some sc) ast).doc.frags →
      sc.kind f.tc = some .composite ∧ ¬ f.name ∈ reach (build (some sc) ast).doc f.sels ∧
        treeOk sc (build (some sc) ast).doc f.tc f.sels = true) :=
  valid_document_wellformed_model _ rfl sc ast h

/-- **Variables, per operation** (PARTIAL: the value-level rule itself is not modelled).  In a valid document,
    for every operation `o`: its walk is quiet, marks every fragment `o` reaches through spreads, and ENTERS each
    of them — `validate_fragment_definition` runs on it within `o`'s `OperationValidationContext`, i.e. with `o`'s
    variable definitions.  Consequently every variable occurrence that `o` uses (`usedVars`, the set the
    unused-variable rule works with) sits in `o`'s own directives / selection tree or in the directives / body of a
    fragment entered by `o`'s walk: the places where `value_of_correct_type` is called with `o.variables`.
    What is missing for the full "every used variable is defined": the rule `UndefinedVariable` of value.rs is a
    typed rule outside the model — and it is FALSE of the code for variables inside an object literal given to a
    custom scalar (finding `valid-undefined-variable-in-custom-scalar-object`). -/
theorem valid_vars_defined_partial (defer : BuiltDoc → List Nat) (sc : Schema) (ast : Ast)
    (h : validate (currentParams defer) (some sc) ast = []) :
    ∀ o, o ∈ (build (some sc) ast).doc.ops → ∀ v ∈ usedVars (build (some sc) ast).doc o,
      v ∈ varsDirs o.dirs ∨ v ∈ varsSels o.sels ∨
      ∃ d, d ∈ (build (some sc) ast).doc.frags ∧ d.name ∈ reach (build (some sc) ast).doc o.sels ∧
        Entered (currentParams defer) sc (build (some sc) ast).doc d ∧ (v ∈ varsDirs d.dirs ∨ v ∈ varsSels d.sels) := by
  intro o ho v hv
  obtain ⟨t, V', _, _, hreach, hdone⟩ :=
    valid_reached_fragments_entered_per_operation _ rfl sc ast h o ho
  simp only [usedVars, List.mem_append, List.mem_flatMap] at hv
  rcases hv with (hv | hv) | ⟨g, hg, hv⟩
  · exact .inl hv
  · exact .inr (.inl hv)
  · right; right
    obtain ⟨d, hd, hent, _⟩ := hdone g (hreach g hg)
    rw [hd] at hv
    have hmem : d ∈ (build (some sc) ast).doc.frags := List.mem_of_find?_eq_some hd
    have hname : d.name = g := by
      have := List.find?_some hd
      simpa using this
    exact ⟨d, hmem, by rw [hname]; exact hg, hent, by simpa [List.mem_append] using hv⟩

/-! ### non-vacuity -/

-- `type Query(20) { a(30): Int(21)  o(31): A(22) }  type A(22) { a: Int }  union U(23)  scalar Int(21)`
def wSchema : TSchema :=
  { types := [{ name := 20, kind := .object, fields := [(30, { id := 3, ty := 21 }), (31, { id := 4, ty := 22 })] },
              { name := 21, kind := .scalar, fields := [] },
              { name := 22, kind := .object, fields := [(30, { id := 5, ty := 21 })] },
              { name := 23, kind := .union, fields := [] }],
    query := some 20, mutation := none, subscription := none }

-- `{ ... { o { ... { a __typename } nope } } __schema ...F ...F } fragment F on Query { a ...G } fragment G on Query { o { a } ...F }`
def wDoc : Ast :=
  [.op { ty := .query, name := none, vars := [], dirs := [],
         sels := .inline none [] (.field 31 [] [] (.inline none [] (.field 30 [] [] .nil (.field 5 [] [] .nil .nil)) (.field 99 [] [] .nil .nil)) .nil)
                   (.field 6 [] [] .nil (.spread 40 [] (.spread 40 [] .nil))) },
   .frag { name := 40, tc := 20, dirs := [], sels := .field 30 [] [] .nil (.spread 41 [] .nil) },
   .frag { name := 41, tc := 20, dirs := [], sels := .field 31 [] [] (.field 30 [] [] .nil .nil) (.spread 40 [] .nil) }]

example : dumpDoc (buildDocT wSchema wDoc) =
    "op:-:20[I-:20[F31:4:22[I-:22[F30:5:21[]F5:0:8[]]]]F6:1:9[]S40;S40;] R(31:22 6:9 30:21 31:22) A(31:22 30:21 5:8 6:9 30:21 31:22 30:21) | frag:40:20[F30:3:21[]S41;] frag:41:20[F31:4:22[F30:5:21[]]S40;]" := by
  decide +kernel
example : typeField wSchema 23 nTypename = .ok metaTypename ∧ typeField wSchema 21 nTypename = .noSuchField ∧
    typeField wSchema 22 nSchema = .noSuchField ∧ typeField wSchema 20 nType = .ok metaType := by decide

/-! ### variables: every used variable is declared (on the typed rules of Model/ExecRules.lean)

`Model/ExecRules.lean` (C17) models the typed executable rules that `Model/Standalone.lean` leaves opaque — among them
the variable part of `value_of_correct_type` after fixes 1d09582 / 9a745ed (UndefinedVariable at every depth: lists,
input objects, list / object literals given to a custom scalar) and the per-operation walk with `validated_fragments`.
C17 proves its SOUNDNESS (`operation_variables_in_scope_spec`); here is its COMPLETENESS: nothing reported ⇒ every
variable use was met and is declared.  The theorems take as hypothesis the facts that the STRUCTURAL rules and the
value-shape rules establish for a valid document (`DocOk`: fields, arguments and directives are defined, spreads name
fragments, type conditions are composite, no fragment is on a spread cycle — proved of valid documents on the
structural model above: `valid_document_wellformed` — and every literal position the check descends into has a type the
schema knows, `litOk`; that an object literal names only defined input fields, each once, is reported by the model
itself since `keyDiags`).  `valid_document_variables_defined_reduced` below needs less. -/

end Apollo.C18
namespace Apollo.C18
open Apollo.ExecRules

/-- **completeness of the variable part of `value_of_correct_type`**: a value of nesting depth ≤ k whose check
    reports nothing has every variable it contains — at any depth, in lists, input-object literals and literals given
    to a custom scalar — declared by the operation -/
theorem value_variables_complete (s : RSchema) (vars : List RVarDef) (k : Nat) (ty : Apollo.Ty) (v : RVal)
    (hd : RVal.depth v ≤ k) (hl : litOk s k ty v) (h : valueDiags s vars k ty v = []) :
    ∀ n ∈ RVal.vars v, declared vars n = true :=
  valueDiags_complete s vars k ty v hd hl h

/-- **the walk of one operation is complete**: when `validate_operation` reports none of the typed diagnostics, every
    variable the operation USES — in its own directives, in the directives / arguments of every field, spread and
    inline fragment of its selection tree and, through spreads at any depth, in the directives and bodies of the
    fragments it reaches (`UsesSels`; the fields of these trees are the fields `all_fields` yields, `all_fields_spec`)
    — is declared by THAT operation.  In particular a fragment shared by several operations is checked against each of
    them (each walk starts with an empty `validated_fragments`), and the fuel of the fragment recursion is sufficient. -/
theorem valid_operation_variables_defined (s : RSchema) (doc : RBuilt) (o : ROp)
    (hfr : ∀ f d, doc.findFrag f = some d → FragOk s doc d) (hdirs : dirsOk s o.dirs)
    (t : String) (hroot : s.root o.ty = some t) (hsels : SelsOk s doc t o.sels) (h : opDiags s doc o = []) :
    ∀ n, (n ∈ dirsVars o.dirs ∨ UsesSels doc o.sels n) → declared o.vars n = true :=
  operation_variables_defined s doc o hfr hdirs t hroot hsels h

/-- **valid_document_variables_defined** — for every schema and document: if the typed rules report nothing, every
    variable used by every operation (through fragments, inside list / object / custom-scalar literals) is declared by
    that operation. -/
theorem valid_document_variables_defined (s : RSchema) (ast : RAst) (hok : DocOk s (build s ast))
    (h : typedDiags s ast = []) :
    ∀ o ∈ (build s ast).ops, ∀ n, (n ∈ dirsVars o.dirs ∨ UsesSels (build s ast) o.sels n) → declared o.vars n = true :=
  document_variables_defined s ast hok h

/-- the same for the quantity the harness computes with the real iterator (stream `c18.opvars`): the variables written in
    the arguments and directives of the fields that `all_fields` yields for an operation are declared by it -/
theorem valid_document_all_fields_variables_defined (s : RSchema) (ast : RAst) (hok : DocOk s (build s ast))
    (h : typedDiags s ast = []) :
    ∀ o ∈ (build s ast).ops, ∀ n ∈ opFieldVars (build s ast) o, declared o.vars n = true :=
  fun o ho n hn => document_variables_defined s ast hok h o ho n (.inr (opFieldVars_uses _ o n hn))

/-- **The hypothesis reduced.**  What `document_from_ast` itself guarantees (every kept field is defined on the type it
    is selected on; every kept operation has its root type: `build_inv`) and what `value_of_correct_type` itself reports
    (an object literal naming an undefined field, or a field twice: `keyDiags`) is no longer assumed.  With the typed
    rules quiet, every used variable is declared as soon as (`DocOkW`) arguments and directives are defined with literal
    positions of known type, spreads name fragments, type conditions are composite types and no fragment is on a spread
    cycle — one structural rule each (UndefinedArgument, UndefinedDirective, UndefinedFragment, InvalidFragmentTarget,
    RecursiveFragmentDefinition; their model is `Standalone.validate` on the erased document, C17's per-rule theorems).
    PARTIAL: `DocOkW` is still a hypothesis on the ExecRules document, not derived from `Standalone.validate (erase …) = []`
    (no simulation between `ExecRules.build` and `Standalone.build ∘ erase` is proved). -/
theorem valid_document_variables_defined_reduced (s : RSchema) (ast : RAst) (hok : DocOkW s (build s ast))
    (h : typedDiags s ast = []) :
    ∀ o ∈ (build s ast).ops, ∀ n, (n ∈ dirsVars o.dirs ∨ UsesSels (build s ast) o.sels n) → declared o.vars n = true :=
  document_variables_defined s ast (docOk_of_built s ast hok) h

/-- what the build guarantees without any hypothesis -/
theorem built_fields_defined (s : RSchema) (ast : RAst) :
    (∀ o ∈ (build s ast).ops, ∃ t, s.root o.ty = some t ∧ FieldsDefined s t o.sels) ∧
    (∀ f ∈ (build s ast).frags, FieldsDefined s f.tc f.sels) :=
  ⟨(build_inv s ast).ops, (build_inv s ast).frags⟩

/-- for a schema whose input-object fields all have types the schema knows (`InputClosed`, true of a valid schema), the
    only fact about a literal that `argsOk` still asks for follows from "the argument is defined and its type is known" -/
theorem literal_shape_from_closed_schema (s : RSchema) (hc : InputClosed s) (defs : List InDef) (args : List RArg)
    (h : ∀ a ∈ args, ∃ d, defs.find? (·.name == a.name) = some d ∧ (s.kindForValue d.ty.innerNamedType).isSome) :
    argsOk s defs args :=
  argsOk_of_closed s hc defs args h

-- Non-vacuity (kernel-evaluated): `scalar S  type Query { f(x: S): Int }`,
-- `query($v: Int) { f(x: {a: [$v, $w]}) }`: `$w`, inside a list inside an object given to a custom scalar, is reported
def vSchema : RSchema :=
  { types := [{ name := "Query", kind := .object [], fields := [("f", { args := [{ name := "x", ty := .named "S", hasDefault := false }], ty := .named "Int" })] },
              { name := "S", kind := .scalar false, fields := [] }],
    query := some "Query", mutation := none, subscription := none, dirs := [] }
def vDoc (inner : List RVal) : RAst :=
  [.op { ty := .query, name := none, vars := [{ name := "v", ty := .named "Int", default := .absent, dirs := [] }], dirs := [],
         sels := .field "f" [] [{ name := "x", value := .obj [("a", .list inner)] }] .nil .nil }]
example : typedDiags vSchema (vDoc [.var "v", .var "w"]) = [.undefinedVariable "w"] := by decide
example : typedDiags vSchema (vDoc [.var "v", .lit]) = [] := by decide

end Apollo.C18
