import ApolloModel.Model.VariableUsage
/-
C29 — Type compatibility checks match the specification.

`Gen.isAssignableTo` and `Gen.isValidImplementationFieldType` are REGENERATED from the Rust source
on every run (translator/translate.py); `Model.isVariableUsageAllowed` is hand-written and tied by
correspondence.  The spec side is `Spec/Types.lean`.  All theorems are for unbounded nesting.
-/
namespace Apollo.C29
open Apollo Apollo.Spec

/-- The four-constructor representation embeds exactly onto the well-formed spec types. -/
theorem embed_wf (t : Ty) : (embed t).WF = true := by
  induction t with
  | named n => rfl
  | nonNullNamed n => rfl
  | list t ih => simpa [embed, STy.WF] using ih
  | nonNullList t ih => simpa [embed, STy.WF] using ih

theorem unembed_embed (t : Ty) : unembed (embed t) = t := by
  induction t with
  | named n => rfl
  | nonNullNamed n => rfl
  | list t ih => simp [embed, unembed, ih]
  | nonNullList t ih => simp [embed, unembed, ih]

theorem embed_unembed : ∀ (s : STy), s.WF = true → embed (unembed s) = s
  | .named n, _ => rfl
  | .list t, h => by
      have := embed_unembed t (by simpa [STy.WF] using h)
      simp [unembed, embed, this]
  | .nonNull (.named n), _ => rfl
  | .nonNull (.list t), h => by
      have := embed_unembed t (by simpa [STy.WF] using h)
      simp [unembed, embed, this]
  | .nonNull (.nonNull t), h => by simp [STy.WF] at h

/-- `Type::is_assignable_to` is the spec's AreTypesCompatible, for all type references. -/
theorem assignable_iff (a b : Ty) :
    Gen.isAssignableTo a b = STy.compat (embed a) (embed b) := by
  induction a generalizing b with
  | named n => cases b <;> simp [Gen.isAssignableTo, embed, STy.compat] <;> rw [BEq.comm]
  | nonNullNamed n => cases b <;> simp [Gen.isAssignableTo, embed, STy.compat] <;> rw [BEq.comm]
  | list t ih => cases b <;> simp [Gen.isAssignableTo, embed, STy.compat, ih]
  | nonNullList t ih => cases b <;> simp [Gen.isAssignableTo, embed, STy.compat, ih]

theorem embed_isNonNull (t : Ty) : (embed t).isNonNull = t.isNonNull := by
  cases t <;> rfl

/-- The variable-usage rule equals IsVariableUsageAllowed, including `= null` defaults. -/
theorem usage_allowed_iff (v : Ty) (d : DefaultValue) (l : Ty) (ld : Bool) :
    Model.isVariableUsageAllowed v d l ld
      = variableUsageAllowed (embed v) d (embed l) ld := by
  unfold Model.isVariableUsageAllowed variableUsageAllowed
  rw [embed_isNonNull]
  cases l <;> cases hv : v.isNonNull <;>
    simp [Ty.isNonNull, embed, Ty.nullable, assignable_iff]

/-- The interface implementation check equals IsValidImplementationFieldType under the schema's
    subtype relation (`sub abstract concrete`). Spec argument order: (fieldType, implementedFieldType). -/
theorem impl_field_type_iff (sub : Name → Name → Bool) (iface impl : Ty) :
    Gen.isValidImplementationFieldType sub iface impl
      = validImplFieldType sub (embed impl) (embed iface) := by
  induction iface generalizing impl with
  | named n => cases impl <;> simp [Gen.isValidImplementationFieldType, embed, validImplFieldType] <;> rw [BEq.comm]
  | nonNullNamed n => cases impl <;> simp [Gen.isValidImplementationFieldType, embed, validImplFieldType] <;> rw [BEq.comm]
  | list t ih => cases impl <;> simp [Gen.isValidImplementationFieldType, embed, validImplFieldType, ih]
  | nonNullList t ih => cases impl <;> simp [Gen.isValidImplementationFieldType, embed, validImplFieldType, ih]

/-- Sanity: assignability is reflexive and transitive (a preorder), for all types. -/
theorem assignable_refl (a : Ty) : Gen.isAssignableTo a a = true := by
  induction a with
  | named n => simp [Gen.isAssignableTo]
  | nonNullNamed n => simp [Gen.isAssignableTo]
  | list t ih => simpa [Gen.isAssignableTo] using ih
  | nonNullList t ih => simpa [Gen.isAssignableTo] using ih

-- Non-vacuity: the theorems speak about non-trivial instances.
example : Gen.isAssignableTo (.nonNullList (.nonNullNamed "A")) (.list (.named "A")) = true := by decide
example : Gen.isAssignableTo (.list (.named "A")) (.nonNullList (.named "A")) = false := by decide
example : Model.isVariableUsageAllowed (.named "Int") .null (.nonNullNamed "Int") false = false := by decide
example : Model.isVariableUsageAllowed (.named "Int") .nonNullValue (.nonNullNamed "Int") false = true := by decide
example : Gen.isValidImplementationFieldType (fun a c => a == "I" && c == "O")
    (.list (.named "I")) (.nonNullList (.nonNullNamed "O")) = true := by decide

end Apollo.C29
