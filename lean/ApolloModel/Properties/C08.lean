import ApolloModel.Proofs.AstDocument3
/-
C08 — AST serialization round-trips.

Model: `Model/Ast.lean` (the serializer as a command stream interpreted by `State`), reference
parser `Model/AstParse.lean`.  The theorems below are stated on the *token stream* of the serializer's
output, `toksOf (c… x)`: it is read off the command list and therefore does not depend on the
indentation configuration at all (`tokens_config_independent`), and the reference parser reads it
back to exactly the AST that was printed, for values, types, directives and selection sets of
unbounded size and nesting.
-/
namespace Apollo.C08
open Apollo.Ast

/-- The configuration (indent prefix, initial level, single-line regions) only enters through `interp`;
    the tokens written are a function of the AST and of `output_empty` alone. -/
theorem tokens_config_independent (pre₁ pre₂ : Option Str) (l₁ l₂ : Nat) (doc : Document)
    (h : outputEmptyAtStart pre₁ l₁ = outputEmptyAtStart pre₂ l₂) :
    toksOf (cDocument (outputEmptyAtStart pre₁ l₁) doc) = toksOf (cDocument (outputEmptyAtStart pre₂ l₂) doc) := by
  rw [h]

/-- every value reads back, whatever follows it -/
theorem value_print_parse (v : Value) (rest : List Tok) (h : wfValue v = true) :
    pValue (szValue v) (toksOf (cValue v) ++ rest) = some (v, rest) := by
  rw [toksOf_cValue]; exact value_roundtrip v _ rest h (Nat.le_refl _)

/-- every type reference reads back unless a `!` follows it (the serializer never writes one there) -/
theorem type_print_parse (t : Ty) (rest : List Tok) (h : rest.head? ≠ some (.p .bang)) :
    pTy (szTy t) (toksOf (cTy t) ++ rest) = some (t, rest) := by
  rw [toksOf_cTy]; exact ty_roundtrip t _ rest (Nat.le_refl _) h

/-- every directive list (with its arguments) reads back unless `@` or `(` follows it -/
theorem directives_print_parse (ds : List Directive) (rest : List Tok) (h : wfDirs ds = true) (hr : dirFollow rest) :
    pDirectives (szDirs ds) (toksOf (cDirectives ds) ++ rest) = some (ds, rest) := by
  rw [toksOf_cDirectives]; exact directives_roundtrip ds _ rest h (Nat.le_refl _) hr

/-- every selection (fields with aliases, arguments, directives and sub-selections of any depth, fragment
    spreads, inline fragments with and without a type condition) reads back inside a selection set -/
theorem selection_print_parse (s : Sel) (rest : List Tok) (h : wfSel s = true) (hr : selFollow rest = true) :
    pSel (szSel s) (toksOf (cSel s) ++ rest) = some (s, rest) := by
  rw [toksOf_cSel]; exact sel_roundtrip s _ rest h (Nat.le_refl _) hr

/-- every non-empty selection set reads back: `{ … }` -/
theorem selection_set_print_parse (ss : Sels) (rest : List Tok) (hne : ss ≠ .nil) (h : wfSels ss = true) :
    pSelectionSet (szSels ss) (toksOf (curly (cSels ss)) ++ rest) = some (ss, rest) := by
  rw [toksOf_curly, toksAll_cSels]
  simpa [pSelectionSet] using selsNE_roundtrip ss _ rest hne h (Nat.le_refl _)

/-- **Main theorem.** For every configuration (indent prefix or none, initial level) and every well-formed
    non-empty document — all 17 definition kinds, descriptions, directives, variables with defaults, values and
    selection sets of any size and nesting — the reference parser reads the token stream of the serializer's output
    back to exactly the document that was printed.  The shorthand query form is only ever written for the first
    definition (`output_empty`), which is what makes the follow-token argument of the proof go through. -/
theorem document_print_parse (pre : Option Str) (level : Nat) (doc : Document) (hne : doc ≠ [])
    (h : wfDefinitions doc = true) :
    pDocument (szDefinitions doc) (toksOf (cDocument (outputEmptyAtStart pre level) doc)) = some doc := by
  rw [toksOf_cDocument]
  exact document_roundtrip _ doc _ hne h (Nat.le_refl _)

/-- every definition on its own (as `Display for Definition` prints it, `output_empty = true`) -/
theorem definition_print_parse (oe : Bool) (d : Definition) (rest : List Tok) (h : wfDefinition d = true)
    (hr : defFollow rest = true) :
    pDefinition (szDefinition d) (toksOf (cDefinition oe d) ++ rest) = some (d, rest) := by
  rw [toksOf_cDefinition]
  exact first_definition_roundtrip oe d _ rest h (Nat.le_refl _) hr

/-- serializing the re-parsed AST gives byte-identical text, for every configuration -/
theorem reprint_identical (pre : Option Str) (level : Nat) (doc doc' : Document) (hne : doc ≠ [])
    (h : wfDefinitions doc = true)
    (hp : pDocument (szDefinitions doc) (toksOf (cDocument (outputEmptyAtStart pre level) doc)) = some doc') :
    (serializeDocument pre level doc').out = (serializeDocument pre level doc).out := by
  rw [document_print_parse pre level doc hne h] at hp
  cases hp; rfl

/-- Why the shorthand form is restricted to the first definition: written after `type T` it would be read as
    the fields of `T` (kernel-evaluated witness on the token streams). -/
theorem shorthand_elsewhere_breaks :
    pDocument 40 (tDefinition false (.objectDef none "T".toList [] [] [])
        ++ tDefinition true (.operation .query none [] [] (.cons (.field none "a".toList [] [] .nil) .nil)))
      = none := by decide +kernel

/-- the hypotheses are satisfiable by a non-trivial selection: `a: b(x: [1, {y: E}]) @d { ... on T { c } ...F }` -/
example : wfSel (.field (some "a".toList) "b".toList
    [("x".toList, .list (.cons (.int "1".toList) (.cons (.obj (.cons "y".toList (.enum "E".toList) .nil)) .nil)))]
    [{ name := "d".toList, args := [] }]
    (.cons (.inline (some "T".toList) [] (.cons (.field none "c".toList [] [] .nil) .nil))
      (.cons (.spread "F".toList []) .nil))) = true := by decide

end Apollo.C08
