import ApolloModel.Proofs.ParserTree44
import ApolloModel.Proofs.ParserComplete30
import ApolloModel.Proofs.ParserTreeDef13
import ApolloModel.Proofs.ParserTreeInj2
import ApolloModel.Proofs.AstDocument3
import ApolloModel.Proofs.AstText7
import ApolloModel.Proofs.AstText8
import ApolloModel.Proofs.AstText12
import ApolloModel.Proofs.AstParseWf
import ApolloModel.Proofs.FromCst
/-
C08 — AST serialization round-trips.

Model: `Model/Ast.lean` (the serializer as a command stream interpreted by `State`), reference
parser `Model/AstParse.lean`.  The theorems below are stated on the *token stream* of the serializer's
output, `toksOf (c… x)`: it is read off the command list and therefore does not depend on the
indentation configuration at all (`tokens_config_independent`), and the reference parser reads it
back to exactly the AST that was printed, for values, types, directives and selection sets of
unbounded size and nesting.
-/
namespace Apollo.C08
open Apollo.Ast

/-- The configuration (indent prefix, initial level, single-line regions) only enters through `interp`;
    the tokens written are a function of the AST and of `output_empty` alone. -/
theorem tokens_config_independent (pre₁ pre₂ : Option Str) (l₁ l₂ : Nat) (doc : Document)
    (h : outputEmptyAtStart pre₁ l₁ = outputEmptyAtStart pre₂ l₂) :
    toksOf (cDocument (outputEmptyAtStart pre₁ l₁) doc) = toksOf (cDocument (outputEmptyAtStart pre₂ l₂) doc) := by
  rw [h]

/-- every value reads back, whatever follows it -/
theorem value_print_parse (v : Value) (rest : List Tok) (h : wfValue v = true) :
    pValue (szValue v) (toksOf (cValue v) ++ rest) = some (v, rest) := by
  rw [toksOf_cValue]; exact value_roundtrip v _ rest h (Nat.le_refl _)

/-- every type reference reads back unless a `!` follows it (the serializer never writes one there) -/
theorem type_print_parse (t : Ty) (rest : List Tok) (h : rest.head? ≠ some (.p .bang)) :
    pTy (szTy t) (toksOf (cTy t) ++ rest) = some (t, rest) := by
  rw [toksOf_cTy]; exact ty_roundtrip t _ rest (Nat.le_refl _) h

/-- every directive list (with its arguments) reads back unless `@` or `(` follows it -/
theorem directives_print_parse (ds : List Directive) (rest : List Tok) (h : wfDirs ds = true) (hr : dirFollow rest) :
    pDirectives (szDirs ds) (toksOf (cDirectives ds) ++ rest) = some (ds, rest) := by
  rw [toksOf_cDirectives]; exact directives_roundtrip ds _ rest h (Nat.le_refl _) hr

/-- every selection (fields with aliases, arguments, directives and sub-selections of any depth, fragment
    spreads, inline fragments with and without a type condition) reads back inside a selection set -/
theorem selection_print_parse (s : Sel) (rest : List Tok) (h : wfSel s = true) (hr : selFollow rest = true) :
    pSel (szSel s) (toksOf (cSel s) ++ rest) = some (s, rest) := by
  rw [toksOf_cSel]; exact sel_roundtrip s _ rest h (Nat.le_refl _) hr

/-- every non-empty selection set reads back: `{ … }` -/
theorem selection_set_print_parse (ss : Sels) (rest : List Tok) (hne : ss ≠ .nil) (h : wfSels ss = true) :
    pSelectionSet (szSels ss) (toksOf (curly (cSels ss)) ++ rest) = some (ss, rest) := by
  rw [toksOf_curly, toksAll_cSels]
  simpa [pSelectionSet] using selsNE_roundtrip ss _ rest hne h (Nat.le_refl _)

/-- **Main theorem.** For every configuration (indent prefix or none, initial level) and every well-formed
    non-empty document — all 17 definition kinds, descriptions, directives, variables with defaults, values and
    selection sets of any size and nesting — the reference parser reads the token stream of the serializer's output
    back to exactly the document that was printed.  The shorthand query form is only ever written for the first
    definition (`output_empty`), which is what makes the follow-token argument of the proof go through. -/
theorem document_print_parse (pre : Option Str) (level : Nat) (doc : Document) (hne : doc ≠ [])
    (h : wfDefinitions doc = true) :
    pDocument (szDefinitions doc) (toksOf (cDocument (outputEmptyAtStart pre level) doc)) = some doc := by
  rw [toksOf_cDocument]
  exact document_roundtrip _ doc _ hne h (Nat.le_refl _)

/-- every definition on its own (as `Display for Definition` prints it, `output_empty = true`) -/
theorem definition_print_parse (oe : Bool) (d : Definition) (rest : List Tok) (h : wfDefinition d = true)
    (hr : defFollow rest = true) :
    pDefinition (szDefinition d) (toksOf (cDefinition oe d) ++ rest) = some (d, rest) := by
  rw [toksOf_cDefinition]
  exact first_definition_roundtrip oe d _ rest h (Nat.le_refl _) hr

/-- serializing the re-parsed AST gives byte-identical text, for every configuration -/
theorem reprint_identical (pre : Option Str) (level : Nat) (doc doc' : Document) (hne : doc ≠ [])
    (h : wfDefinitions doc = true)
    (hp : pDocument (szDefinitions doc) (toksOf (cDocument (outputEmptyAtStart pre level) doc)) = some doc') :
    (serializeDocument pre level doc').out = (serializeDocument pre level doc).out := by
  rw [document_print_parse pre level doc hne h] at hp
  cases hp; rfl

/-- Why the shorthand form is restricted to the first definition: written after `type T` it would be read as
    the fields of `T` (kernel-evaluated witness on the token streams). -/
theorem shorthand_elsewhere_breaks :
    pDocument 40 (tDefinition false (.objectDef none "T".toList [] [] [])
        ++ tDefinition true (.operation .query none [] [] (.cons (.field none "a".toList [] [] .nil) .nil)))
      = none := by decide +kernel

/-- the hypotheses are satisfiable by a non-trivial selection: `a: b(x: [1, {y: E}]) @d { ... on T { c } ...F }` -/
example : wfSel (.field (some "a".toList) "b".toList
    [("x".toList, .list (.cons (.int "1".toList) (.cons (.obj (.cons "y".toList (.enum "E".toList) .nil)) .nil)))]
    [{ name := "d".toList, args := [] }]
    (.cons (.inline (some "T".toList) [] (.cons (.field none "c".toList [] [] .nil) .nil))
      (.cons (.spread "F".toList []) .nil))) = true := by decide

/-! ## From tokens to text (Proofs/AstText*.lean)

The theorems above speak about `toksOf`, the tokens the serializer writes.  The ones below say what the
written TEXT is and that the lexer model reads it back to those tokens. -/

/-- **No glue.** In the command list of every document (for either value of `output_empty`) no token is written
    directly after a token it would merge with — name or number after name or number, string after string,
    `...` after a number: between them there is a write that happens in EVERY configuration (`" "`, `","`,
    `new_line_or_space`, `indent_or_space`, `dedent_or_space`; `indent`, `dedent` and the newline-only writes
    do not count).  Writing `...on T`, or dropping the space in `query Q`, makes this false. -/
theorem no_glue (oe : Bool) (doc : Document) : separated (cDocument oe doc) := separated_document oe doc

/-- `separated` does reject glue: `queryQ`, `1 2` without the comma or space, `""` directly before `"x"`, `1...`;
    and accepts `...on T` (which lexes as `...`, `on`, `T`). -/
example : ¬ separated [kw "query", nm "Q".toList] := by unfold separated; decide
example : ¬ separated [.tok (.int "1".toList), .indent, .tok (.int "2".toList)] := by unfold separated; decide
example : ¬ separated [.str false [], .rawIfNewlines ['\n'], .str false "x".toList] := by unfold separated; decide
example : ¬ separated [.tok (.int "1".toList), pn .spread] := by unfold separated; decide
example : separated [pn .spread, kw "on", sp, nm "T".toList] := by unfold separated; decide

/-- the same for the pieces printed on their own -/
theorem no_glue_pieces (oe : Bool) (d : Definition) (sels : Sels) (v : Value) (t : Ty) :
    separated (cDefinition oe d) ∧ separated (curly (cSels sels)) ∧ separated (cValue v) ∧ separated (cTy t) :=
  ⟨separated_definition oe d, separated_selection_set sels, separated_value v, separated_type t⟩

/-- **Segmentation of the printed text**, for every configuration and document.  The output is the initial
    indentation followed by the texts of the segments `docSegs` (token texts: `tokText` / the string serializer;
    ignored texts: spaces, commas, newlines, indentation); the tokens of the segments are `toksOf`; two tokens
    that would merge are always separated by a NON-EMPTY ignored segment (`segScan` succeeds); and, when the
    indentation prefix consists of ignored characters (spaces, tabs, commas, newlines, BOM), so does every
    ignored segment. -/
theorem text_segmentation (pre : Option Str) (level : Nat) (doc : Document) :
    (serializeDocument pre level doc).out = initialIndent pre level ++ segsText (docSegs pre level doc) ∧
    segsToks (docSegs pre level doc) = toksOf (cDocument (outputEmptyAtStart pre level) doc) ∧
    (∃ e, segScan none (docSegs pre level doc) = some e) ∧
    ((∀ p, pre = some p → strIgnored p = true) →
      strIgnored (initialIndent pre level) = true ∧
      ∀ s, Seg.ign s ∈ docSegs pre level doc → strIgnored s = true) := by
  refine ⟨interp_out _ _, render_toks _ _, ?_, ?_⟩
  · have hsep := separated_document (outputEmptyAtStart pre level) doc
    unfold separated at hsep
    cases h : scan none (cDocument (outputEmptyAtStart pre level) doc) with
    | none => simp [h] at hsep
    | some e =>
      obtain ⟨e', h', _⟩ := render_separated _ (initSt pre level) none none e (.inl rfl) h
      exact ⟨e', h'⟩
  · intro hpre
    exact ⟨initialIndent_ignored pre level hpre,
      render_ignored _ _ none (prefixIgnored_init pre level hpre) (separated_document _ doc)⟩

/-- names and punctuators, on their own, lex back to their token (maximal munch for names) -/
theorem name_and_punctuator_lex_back (n : Str) (k : P) (h : wfName n = true) :
    TokOk (.name n) n ∧ TokOk (.p k) (tokText (.p k)) := ⟨tokOk_name n h, tokOk_punct k⟩

/-- **The text lexes back to the tokens.**  For every configuration whose indentation prefix is ignored text
    and every document whose names are GraphQL names: the lexer model (Model/Lexer.lean), run on the printed
    text, yields exactly `toksOf` — names, punctuators and all ignored text are proved; that each number and
    each string literal, taken alone, lexes back to its token is the hypothesis `NumbersLex` / `StringsLex`
    (vacuous for documents without numbers and strings). -/
theorem text_lexes_back (pre : Option Str) (level : Nat) (doc : Document)
    (hpre : ∀ p, pre = some p → strIgnored p = true)
    (hn : NamesWf (docSegs pre level doc)) (hnum : NumbersLex (docSegs pre level doc))
    (hstr : StringsLex (docSegs pre level doc)) :
    sigToks (Apollo.Lex.lex none (serializeDocument pre level doc).out)
      = some (toksOf (cDocument (outputEmptyAtStart pre level) doc)) := by
  obtain ⟨hout, htoks, ⟨e, hscan⟩, _⟩ := text_segmentation pre level doc
  rw [hout, ← htoks]
  exact lex_segments _ _ none e (segsWf_doc pre level doc hpre hn hnum hstr)
    (initialIndent_ignored pre level hpre) hscan

/-- **Text round trip** (lexer + reference parser): printing, lexing and parsing give the document back. -/
theorem document_text_roundtrip (pre : Option Str) (level : Nat) (doc : Document) (hne : doc ≠ [])
    (hwf : wfDefinitions doc = true) (hpre : ∀ p, pre = some p → strIgnored p = true)
    (hn : NamesWf (docSegs pre level doc)) (hnum : NumbersLex (docSegs pre level doc))
    (hstr : StringsLex (docSegs pre level doc)) :
    (sigToks (Apollo.Lex.lex none (serializeDocument pre level doc).out)).bind (pDocument (szDefinitions doc))
      = some doc := by
  rw [text_lexes_back pre level doc hpre hn hnum hstr]
  exact document_print_parse pre level doc hne hwf

/-- integer literals (`-?(0|[1-9][0-9]*)`), on their own, lex back to their token when followed by anything
    that is neither a name character nor `.` -/
theorem integer_lex_back (s : Str) (h : wfIntLit s = true) : TokOk (.int s) s := tokOk_int s h

/-- `text_lexes_back` with the integer case discharged: what remains assumed is that float literals and
    string literals, taken alone, lex back to their tokens. -/
theorem text_lexes_back_ints (pre : Option Str) (level : Nat) (doc : Document)
    (hpre : ∀ p, pre = some p → strIgnored p = true)
    (hn : NamesWf (docSegs pre level doc)) (hint : IntsWf (docSegs pre level doc))
    (hfl : FloatsLex (docSegs pre level doc)) (hstr : StringsLex (docSegs pre level doc)) :
    sigToks (Apollo.Lex.lex none (serializeDocument pre level doc).out)
      = some (toksOf (cDocument (outputEmptyAtStart pre level) doc)) :=
  text_lexes_back pre level doc hpre hn (numbersLex_doc pre level doc hint hfl) hstr

/-! ### all token kinds (numbers via C03's completeness theorems, strings via C09's round trip + the block DFA) -/

/-- IntValue and FloatValue texts (the grammar's, `Spec/Lexical.lean`), on their own, lex back to their token -/
theorem number_lex_back (t : Str) :
    (Apollo.Spec.Lexical.IsIntValue t → TokOk (.int t) t) ∧ (Apollo.Spec.Lexical.IsFloatValue t → TokOk (.float t) t) :=
  ⟨tokOk_int_spec t, tokOk_float_spec t⟩

/-- Every string literal the serializer writes — quoted form, single-line and multi-line block form, value or
    description, any white-space indentation prefix, any level — is read by the lexer model as ONE StringValue
    token that is exactly the printed text, whatever follows it (other than a quote), and that token decodes to
    the string.  (Block form: `escapeTriple` never lets the block-string states close, `brun_escapeTriple`.) -/
theorem string_lex_back (p : Option Str) (n : Nat) (isDescription : Bool) (s : Str)
    (hp : ∀ pre, p = some pre → pre.all Apollo.Strs.isWs = true) :
    TokOk (.str s) (Apollo.Strs.serializeStringValue p n isDescription s) := tokOk_string p n isDescription s hp

/-- **The text lexes back to the tokens — no hypothesis about numbers or strings left.**  For every white-space
    indentation prefix (or none), every level and every document whose names, IntValues and FloatValues have
    the grammar's syntax, the lexer model reads the printed text as exactly `toksOf`. -/
theorem text_lexes_back_full (pre : Option Str) (level : Nat) (doc : Document)
    (hpre : ∀ p, pre = some p → p.all Apollo.Strs.isWs = true)
    (hn : NamesWf (docSegs pre level doc)) (hi : IntsSpec (docSegs pre level doc))
    (hf : FloatsSpec (docSegs pre level doc)) :
    sigToks (Apollo.Lex.lex none (serializeDocument pre level doc).out)
      = some (toksOf (cDocument (outputEmptyAtStart pre level) doc)) := by
  obtain ⟨hout, htoks, ⟨e, hscan⟩, _⟩ := text_segmentation pre level doc
  have hign : ∀ p, pre = some p → strIgnored p = true := fun p hp => ws_ignored p (hpre p hp)
  rw [hout, ← htoks]
  exact lex_segments _ _ none e (segsWf_doc_full pre level doc hpre hn hi hf)
    (initialIndent_ignored pre level hign) hscan

/-- **parse_wf**: whatever the reference parser returns is non-empty and satisfies `wfDefinitions`. -/
theorem parse_wf (f : Nat) (ts : List Tok) (d : Document) (h : pDocument f ts = some d) :
    d ≠ [] ∧ wfDefinitions d = true := Apollo.Ast.parse_wf f ts d h

/-- **End to end, for documents that come from a parse.**  If the reference parser read `d` from some token
    stream, then for every white-space indentation setting: printing `d`, lexing the text with the lexer model
    and parsing the tokens gives `d` back.  Remaining hypotheses: the names, IntValues and FloatValues in `d`
    have the grammar's syntax (true of lexer tokens by C03 `advance_token_sound`; not yet carried through the
    parser in Lean). -/
theorem reparse_roundtrip (f : Nat) (ts : List Tok) (d : Document) (hparse : pDocument f ts = some d)
    (pre : Option Str) (level : Nat) (hpre : ∀ p, pre = some p → p.all Apollo.Strs.isWs = true)
    (hn : NamesWf (docSegs pre level d)) (hi : IntsSpec (docSegs pre level d)) (hf : FloatsSpec (docSegs pre level d)) :
    (sigToks (Apollo.Lex.lex none (serializeDocument pre level d).out)).bind (pDocument (szDefinitions d)) = some d := by
  obtain ⟨hne, hwf⟩ := Apollo.Ast.parse_wf f ts d hparse
  rw [text_lexes_back_full pre level d hpre hn hi hf]
  exact document_print_parse pre level d hne hwf

/-- the hypotheses of `text_lexes_back` are satisfiable: `query Q { a { ...F } b: c }  fragment F on T { a }`
    printed with two-space indentation at level 1 and on a single line -/
def exampleDoc : Document :=
  [.operation .query (some "Q".toList) [] []
     (.cons (.field none "a".toList [] [] (.cons (.spread "F".toList []) .nil))
       (.cons (.field (some "b".toList) "c".toList [] [] .nil) .nil)),
   .fragment "F".toList "T".toList [] (.cons (.field none "a".toList [] [] .nil) .nil)]

example : sigToks (Apollo.Lex.lex none (serializeDocument (some "  ".toList) 1 exampleDoc).out)
    = some (toksOf (cDocument (outputEmptyAtStart (some "  ".toList) 1) exampleDoc)) := by
  have h := plain_hyps (docSegs (some "  ".toList) 1 exampleDoc) (by decide)
  exact text_lexes_back _ _ _ (by intro p hp; cases hp; decide) h.1 h.2.1 h.2.2

example : sigToks (Apollo.Lex.lex none (serializeDocument none 0 exampleDoc).out)
    = some (toksOf (cDocument (outputEmptyAtStart none 0) exampleDoc)) := by
  have h := plain_hyps (docSegs none 0 exampleDoc) (by decide)
  exact text_lexes_back _ _ _ (by intro p hp; cases hp) h.1 h.2.1 h.2.2

/-- `text_lexes_back_full` on a document with a multi-line block description, a one-line block description, a
    quoted string with escapes and an empty string, printed with a two-space prefix at level 1:
    `"""a\n b""" type T { "d" f(x: String = "q\"\\", y: String = ""): T }` -/
def exampleDoc2 : Document :=
  [.objectDef (some "a\n b".toList) "T".toList [] []
     [{ desc := some "d".toList, name := "f".toList,
        args := [{ desc := none, name := "x".toList, ty := .named "String".toList, default := some (.str "q\"\\".toList), dirs := [] },
                 { desc := none, name := "y".toList, ty := .named "String".toList, default := some (.str []), dirs := [] }],
        ty := .named "T".toList, dirs := [] }]]

example : sigToks (Apollo.Lex.lex none (serializeDocument (some "  ".toList) 1 exampleDoc2).out)
    = some (toksOf (cDocument (outputEmptyAtStart (some "  ".toList) 1) exampleDoc2)) := by
  have h := noNumbers_hyps (docSegs (some "  ".toList) 1 exampleDoc2) (by decide)
  exact text_lexes_back_full _ _ _ (by intro p hp; cases hp; decide) h.1 h.2.1 h.2.2

/-! ### growth: the CST → AST conversion has a model (Model/FromCst.lean), tied by the stream `c08.fromcst`

The reference parser `pDocument` (tokens → AST) and the pipeline CST parser model → `FromCst.fromCst` are two
independent models of `ast::Document::parse`.  Both are tied to the real parser + from_cst.rs on every
generated document (`c08.ast` for the former on error-free documents; `c08.fromcst` for the latter on valid AND
erroneous inputs, with every Name's location).  That they agree with each other is kernel-evaluated below on
documents covering the definition kinds; the general statement
`∀ src, errors = [] → fromCst (parse src) = pDocument (tokens src)` is NOT proved (it needs the shape of the
tree built by every grammar function of the parser model, which only the type entry point has so far). -/
def from_cst_agrees_with_reference_parser : Prop :=
  ∀ (src : String), (Apollo.Parse.parse .document none 500 src.toList).errors = [] → FromCst.modelsAgree src = true

theorem from_cst_agrees_witness_executable :
    FromCst.modelsAgree "query Q($v: [Int!]! = [1] @d) @e { a: b(x: {k: \"s\", l: [1.5, true, null, E, $v]}) @f { ...F ... on T { c } } } fragment F on T @d { x }" = true := by
  decide +kernel

theorem from_cst_agrees_witness_type_system :
    FromCst.modelsAgree "\"\"\"d\"\"\" type T implements I & J @d { \"x\" f(a: Int = 1 @d): [T!]! @d } extend union U = A | B interface I { a: Int } enum E @d { \"v\" A B @d } input N { a: [Int] = [1] } scalar S @d directive @d(a: Int) repeatable on FIELD | OBJECT schema @d { query: T mutation: T } extend schema { subscription: T } extend type T { g: Int } extend enum E { C } extend input N { b: Int } extend scalar S @e extend interface I @d" = true := by
  decide +kernel

/-! ## Pipeline: the CST parser followed by `from_cst.rs`, instead of the reference parser

The round-trip theorems above read the printed tokens back with the reference parser `pDocument`.  This section ties the
REAL pipeline model to it — `Parse.parse` (the rowan tree built by apollo-parser's grammar functions) followed by
`FromCst` (the CST → AST conversion, `from_cst.rs`) — stage by stage.  The instrument is the acceptance calculus
extended to the builder (`Parse.Tr`, Proofs/ParserTree1–4.lean): `Tr E H m R` says what an error-free run of the grammar
function `m` consumed AND what it appended to the children vector of the rowan builder (junk tokens — whitespace, comments,
commas — aside); leaf nodes (`NAME[IDENT]`, …) are exact, because `from_cst.rs` reads them through `first_token`.
On the conversion side (Proofs/ParserTree3.lean) `support::child / children / token` are computed on the plain child list
of a node, whatever the byte offsets and junk tokens.

Stage (i), the type entry point, is complete: `type_cst_of_accepted`, `type_pipeline_agrees`, `pipeline_print_parse_type`.
Stage (ii), values (all kinds, lists and objects of any nesting, strings through the C06 decoder): `value_pipeline`,
`pipeline_print_parse_value`; `string_tokens_decode` is the lexer fact it needs.
Stage (iii), first half: `arguments_pipeline`, `directives_pipeline` (parser + conversion), and the conversion half for
selections, `selection_conversion` (the parser half for selection sets is not done yet).
-/
section Pipeline
open Apollo.Parse Apollo.Rowan

/-- **The tree of an accepted type** (`Parser::parse_type`, no token limit, any recursion limit): no error ⇒ the source
    lexes cleanly, its significant tokens are `tTy t ++ [EOF]`, and the tree returned is `TyTree t`:
    `NAMED_TYPE[NAME[IDENT n]]`, `LIST_TYPE[ [ Type ] ]`, `NON_NULL_TYPE[Type !]`, junk tokens between children only. -/
theorem type_cst_of_accepted (rl : Nat) (src : Parse.Str) (root : Elem)
    (h : (parse .type none rl src).outcome = .tree root) (herr : (parse .type none rl src).errors = []) :
    Parse.LexClean src ∧ ∃ t ts e, Parse.sig (Parse.srcToks src) = ts ++ [e] ∧ e.kind = .eof ∧
      ts.map Parse.astOfV = (tTy t).map some ∧ FromCst.TyTree t root :=
  Parse.parseType_cst rl src root h herr

/-- **Stage (i): the pipeline agrees with the reference parser on types.**  For an accepted source, `impl Convert for
    cst::Type` on the tree of `Parser::parse_type` (at any byte offset, with any location set, fuel = size of the tree)
    and `pTy` on the significant tokens return the same type. -/
theorem type_pipeline_agrees (rl : Nat) (src : Parse.Str) (root : Elem)
    (h : (parse .type none rl src).outcome = .tree root) (herr : (parse .type none rl src).errors = []) :
    ∃ t ts e x, Parse.sig (Parse.srcToks src) = ts ++ [e] ∧ e.kind = .eof ∧ ts.map Parse.astOfV = x.map some ∧
      (∀ (R : List FromCst.Loc) (s : Nat) (hp : ∀ y ∈ nameRanges root s, y ∈ R),
        ∃ l, FromCst.cType (FromCst.size root) ⟨(root, s), hp⟩ = some (t, l)) ∧
      pTy (szTy t) x = some (t, []) :=
  Parse.parseType_fromCst_agrees rl src root h herr

/-- **pipeline_print_parse_type.**  CST parser + conversion read the printed text of every type `t` (names valid,
    nesting within the recursion limit) back to `t` itself.  (With C10's `type_display_parse_roundtrip` this closes the
    remark there that the CST → AST step for types had no Lean model.) -/
theorem pipeline_print_parse_type (t : Ty) (hwf : tyNamesWf t = true) (rl : Nat) (hd : Parse.tyDepth t ≤ rl) :
    (parse .type none rl (tyText t)).errors = [] ∧
    ∃ root, (parse .type none rl (tyText t)).outcome = .tree root ∧
      ∀ (R : List FromCst.Loc) (s : Nat) (hp : ∀ y ∈ nameRanges root s, y ∈ R),
        ∃ l, FromCst.cType (FromCst.size root) ⟨(root, s), hp⟩ = some (t, l) := by
  obtain ⟨h1, root, h2, _, h3⟩ := Parse.pipeline_print_parse_type t hwf rl hd
  exact ⟨h1, root, h2, h3⟩

/-- the lexer facts the tree calculus carries (every Name token is a valid name; text that starts like a name is a Name
    token) hold for the token queue of every source text -/
theorem lexer_facts_for_every_source (src : Parse.Str) : Parse.LQ (Parse.srcToks src) := Parse.lq_srcToks src

/-- every String token the lexer model hands to the parser is decoded by `String::from(&cst::StringValue)`: quoted
    strings are in the lexer's exact language (four hex digits after `\u`, no surrogates), block strings end with their
    closing quotes — none of the `unwrap`s / slices of node_ext.rs can fail on a token of an error-free lexing -/
theorem string_tokens_decode (src : Parse.Str) :
    ∀ t ∈ Parse.srcToks src, t.kind = .stringValue → (Strs.decodeStringToken t.data).isSome = true :=
  Parse.strQ_srcToks src

/-- **Stage (ii): values.**  An error-free run of `value.rs::value` (any fuel, constant or not, from any state of the
    calculus: `St` = no token limit, builder invariant, queue ending in EOF, lexer facts) consumed the tokens of ONE value
    `v` — well-formed, without variables in a constant context —, appended exactly one element `ev` besides junk tokens,
    `impl Convert for cst::Value` on `ev` (any offset, any location set, fuel = size of `ev`) returns `v`, and the
    reference parser `pValue` on the same tokens returns `v` too — or the run stopped at the end of input inside an
    unclosed list (`AtEof`, reported by the caller's closing token). -/
theorem value_pipeline (n : Nat) (c p : Bool) (s s' : PState) (st : Parse.St s)
    (h : (Parse.value n c p).run s = .ok () s') (hnd : ¬ Parse.Doomed s') :
    ∃ cs added, Parse.Toks s = cs ++ Parse.Toks s' ∧ s'.builder.children = s.builder.children ++ added ∧
      ((∃ v ev, (Parse.sig cs).map Parse.astOfV = (tValue v).map some ∧ Parse.valueOk c v = true ∧
          Parse.sigE added = [ev] ∧ FromCst.ValTree v ev ∧
          (∀ (R : List FromCst.Loc) (o : Nat) (hp : ∀ y ∈ nameRanges ev o, y ∈ R),
            ∃ l, FromCst.cValue (FromCst.size ev) ⟨(ev, o), hp⟩ = some (v, l)) ∧
          pValue (szValue v) (tValue v) = some (v, []))
        ∨ Parse.AtEof s') :=
  Parse.value_pipeline n c p s s' st h hnd

/-- **pipeline_print_parse_value.**  If the tokens consumed by an error-free run of `value` spell the printed tokens
    `tValue v0` of a well-formed value `v0` (C05 `value_accept_complete_total`: such a run exists whenever `v0` fits the
    recursion limit), the element built converts to `v0` itself. -/
theorem pipeline_print_parse_value (n : Nat) (c p : Bool) (s s' : PState) (st : Parse.St s)
    (h : (Parse.value n c p).run s = .ok () s') (hnd : ¬ Parse.Doomed s') (hne : ¬ Parse.AtEof s')
    (v0 : Value) (hwf : wfValue v0 = true) (cs : List Parse.Tok) (ht : Parse.Toks s = cs ++ Parse.Toks s')
    (hspell : (Parse.sig cs).map Parse.astOfV = (tValue v0).map some) :
    ∃ added ev, s'.builder.children = s.builder.children ++ added ∧ Parse.sigE added = [ev] ∧
      ∀ (R : List FromCst.Loc) (o : Nat) (hp : ∀ y ∈ nameRanges ev o, y ∈ R),
        ∃ l, FromCst.cValue (FromCst.size ev) ⟨(ev, o), hp⟩ = some (v0, l) :=
  Parse.pipeline_print_parse_value n c p s s' st h hnd hne v0 hwf cs ht hspell

/-- **Stage (iii), arguments.**  An error-free run of `argument.rs::arguments` entered on `(` consumed the tokens
    `tArguments args` (`args ≠ []`, values well-formed for the context) and appended ONE element besides junk, the node
    `ARGUMENTS[( ARGUMENT[NAME : value]+ )]`; on every parent node whose ARGUMENTS child is that element,
    `collect_opt(x.arguments(), …)` of from_cst.rs returns `args`. -/
theorem arguments_pipeline (n : Nat) (c : Bool) (s s' : PState) (st : Parse.St s) (hq : Parse.HeadK .lParen (Parse.Toks s))
    (h : (Parse.arguments n c).run s = .ok () s') (hnd : ¬ Parse.Doomed s') :
    ∃ cs added args ea, Parse.Toks s = cs ++ Parse.Toks s' ∧ s'.builder.children = s.builder.children ++ added ∧ args ≠ [] ∧
      (Parse.sig cs).map Parse.astOfV = (tArguments args).map some ∧ Parse.argsOk c args ∧ Parse.sigE added = [ea] ∧
      FromCst.ArgsNode args ea ∧
      ∀ (k : SK) (pcs : List Elem) (m : Nat), (Parse.sigE pcs).find? (FromCst.nodeP (· == "ARGUMENTS")) = some ea →
        ea ∈ Parse.sigE pcs → FromCst.size (.node k pcs) ≤ m + 1 →
        ∀ (R : List FromCst.Loc) (o : Nat) (hp : ∀ y ∈ nameRanges (.node k pcs) o, y ∈ R),
          ∃ l, FromCst.argumentsOf m ⟨(.node k pcs, o), hp⟩ = some (args, l) :=
  Parse.arguments_pipeline n c s s' st hq h hnd

/-- **Stage (iii), directives.**  The same for `directive.rs::directives` entered on `@`: tokens `tDirectives ds`, ONE
    element `DIRECTIVES[DIRECTIVE[@ NAME Arguments?]+]`, and `collect_opt(x.directives(), …)` returns `ds`. -/
theorem directives_pipeline (n : Nat) (c : Bool) (s s' : PState) (st : Parse.St s) (hq : Parse.HeadK .at (Parse.Toks s))
    (h : (Parse.directives n c).run s = .ok () s') (hnd : ¬ Parse.Doomed s') :
    ∃ cs added ds ed, Parse.Toks s = cs ++ Parse.Toks s' ∧ s'.builder.children = s.builder.children ++ added ∧
      (Parse.sig cs).map Parse.astOfV = (tDirectives ds).map some ∧ Parse.dirsOk c ds ∧ Parse.sigE added = [ed] ∧
      FromCst.DirsNode ds ed ∧
      ∀ (k : SK) (pcs : List Elem) (m : Nat), (Parse.sigE pcs).find? (FromCst.nodeP (· == "DIRECTIVES")) = some ed →
        ed ∈ Parse.sigE pcs → FromCst.size (.node k pcs) ≤ m + 1 →
        ∀ (R : List FromCst.Loc) (o : Nat) (hp : ∀ y ∈ nameRanges (.node k pcs) o, y ∈ R),
          ∃ l, FromCst.directivesOf m ⟨(.node k pcs, o), hp⟩ = some (ds, l) :=
  Parse.directives_pipeline n c s s' st hq h hnd

/-- **Stage (iii), selections — the conversion half.**  `impl Convert for cst::Selection` on a tree of the shape
    `SelTree sel` (FIELD[ALIAS? NAME ARGUMENTS? DIRECTIVES? SELECTION_SET?], FRAGMENT_SPREAD[... FRAGMENT_NAME DIRECTIVES?],
    INLINE_FRAGMENT[... TYPE_CONDITION? DIRECTIVES? SELECTION_SET], any nesting, junk tokens anywhere between children)
    returns `sel`.  (That selection.rs builds these shapes: `selection_set_pipeline`, `fieldset_cst_of_accepted` below.) -/
theorem selection_conversion (n : Nat) (sel : Sel) (e : Elem) (h : FromCst.SelTree sel e) (hs : FromCst.size e ≤ n) :
    ∀ (R : List FromCst.Loc) (o : Nat) (hp : ∀ y ∈ nameRanges e o, y ∈ R), ∃ l, FromCst.cSelection n ⟨(e, o), hp⟩ = some (sel, l) :=
  FromCst.cSelection_selTree n sel e h hs

/-- **Stage (iii), selections — the parser half.**  An error-free run of `selection.rs::selection_set` entered on `{`
    (any fuel, from any state of the calculus) consumed the tokens `{ tSels sels }` of a non-empty list of selections —
    well-formed: values without unknown shapes, spreads not named `on`, inline fragments with a selection set — and
    appended ONE element besides junk, of the shape `SelSetNode sels`: `SELECTION_SET[{ Selection+ }]` whose child nodes
    are FIELD / FRAGMENT_SPREAD / INLINE_FRAGMENT trees `SelTree` (alias look-ahead, arguments, directives, nested
    selection sets, type conditions; by the four-way induction field / inline fragment / selection / selection set);
    `convert_selection_set` on it (fuel ≥ its size) returns `sels`, and so does the reference parser on the tokens. -/
theorem selection_set_pipeline (n : Nat) (s s' : PState) (st : Parse.St s) (hq : Parse.HeadK .lCurly (Parse.Toks s))
    (h : (Parse.selectionSet n).run s = .ok () s') (hnd : ¬ Parse.Doomed s') :
    ∃ cs added sels es, Parse.Toks s = cs ++ Parse.Toks s' ∧ s'.builder.children = s.builder.children ++ added ∧
      sels ≠ .nil ∧ wfSels sels = true ∧
      (Parse.sig cs).map Parse.astOfV = (Ast.Tok.p .lCurly :: tSels sels ++ [Ast.Tok.p .rCurly]).map some ∧
      Parse.sigE added = [es] ∧ FromCst.SelSetNode sels es ∧
      (∀ (m : Nat), FromCst.size es ≤ m + 1 → ∀ (R : List FromCst.Loc) (o : Nat) (hp : ∀ y ∈ nameRanges es o, y ∈ R),
        ∃ l, FromCst.collectM (FromCst.cSelection m) (FromCst.childrenP FromCst.isSelectionKind ⟨(es, o), hp⟩) =
          some (FromCst.selsToList sels, l)) ∧
      pSelectionSet (szSels sels) (Ast.Tok.p .lCurly :: tSels sels ++ [Ast.Tok.p .rCurly]) = some (sels, []) := by
  obtain ⟨_, cs, added, h1, _, _, h4, h5⟩ := Parse.St.step (Parse.tr_selSet n) st hq h hnd
  rcases h5 with ⟨sels, es, hne, hwf, h6, h7, h8⟩ | f
  · refine ⟨cs, added, sels, es, h1, h4, hne, hwf, h6, h7, h8, ?_, ?_⟩
    · intro m hm R o hp
      exact FromCst.selSet_collect m sels es h8 (fun es' a b => FromCst.cSels_selsTree m sels es' a b) hm R o hp
    · simpa [pSelectionSet] using selsNE_roundtrip sels _ [] hne hwf (Nat.le_refl _)
  · exact absurd f id

/-- **The tree of an accepted field set** (`Parser::parse_selection_set`, no token limit, any recursion limit): no error
    ⇒ the source lexes cleanly, its significant tokens are `{ Selection+ }` or, brace-less, `Selection+`, then the end
    of input, and the tree handed out by `finish_standalone` is ONE `SELECTION_SET` node (`FieldSetNode sels root`:
    the braced node itself, or the brace-less node opened by `field_set`) — never the temporary root. -/
theorem fieldset_cst_of_accepted (rl : Nat) (src : Parse.Str) (root : Elem)
    (h : (parse .selectionSet none rl src).outcome = .tree root) (herr : (parse .selectionSet none rl src).errors = []) :
    Parse.LexClean src ∧ ∃ (sels : Sels) (ts : List Parse.Tok) (e : Parse.Tok),
      Parse.sig (Parse.srcToks src) = ts ++ [e] ∧ e.kind = .eof ∧ sels ≠ .nil ∧ wfSels sels = true ∧
      (ts.map Parse.astOfV = (Ast.Tok.p .lCurly :: tSels sels ++ [Ast.Tok.p .rCurly]).map some ∨ ts.map Parse.astOfV = (tSels sels).map some) ∧
      FromCst.FieldSetNode sels root :=
  Parse.parseFieldSet_cst rl src root h herr

/-- **Stage (iii), entry point: the pipeline agrees with the reference parser on field sets.**  For an accepted source,
    `convert_selection_set` on the tree of `Parser::parse_selection_set` (what `FieldSet::from_cst`/`ast::Document`
    do with it; any byte offset, any location set, fuel = size of the tree) and the reference parser `pSelectionSet` on
    the significant tokens (with the braces added when the source has none) return the same selections. -/
theorem fieldset_pipeline_agrees (rl : Nat) (src : Parse.Str) (root : Elem)
    (h : (parse .selectionSet none rl src).outcome = .tree root) (herr : (parse .selectionSet none rl src).errors = []) :
    ∃ (sels : Sels) (ts : List Parse.Tok) (e : Parse.Tok) (x : List Ast.Tok),
      Parse.sig (Parse.srcToks src) = ts ++ [e] ∧ e.kind = .eof ∧ ts.map Parse.astOfV = x.map some ∧ sels ≠ .nil ∧
      (x = Ast.Tok.p .lCurly :: tSels sels ++ [Ast.Tok.p .rCurly] ∨ x = tSels sels) ∧
      (∀ (R : List FromCst.Loc) (s : Nat) (hp : ∀ y ∈ nameRanges root s, y ∈ R),
        ∃ l, FromCst.collectM (FromCst.cSelection (FromCst.size root))
          (FromCst.childrenP FromCst.isSelectionKind (⟨(root, s), hp⟩ : FromCst.PE R)) = some (FromCst.selsToList sels, l)) ∧
      pSelectionSet (szSels sels) (Ast.Tok.p .lCurly :: tSels sels ++ [Ast.Tok.p .rCurly]) = some (sels, []) := by
  obtain ⟨sels, ts, e, x, h1, h2, h3, h4, h5, _, h7, h8⟩ := Parse.parseFieldSet_fromCst_agrees rl src root h herr
  exact ⟨sels, ts, e, x, h1, h2, h3, h4, h5, h7, h8⟩

/-- **pipeline_print_parse_fieldset.**  Whenever the significant tokens of a cleanly lexing source spell a non-empty
    well-formed list of selections `ss` — in braces (no ignored token in front) or brace-less — within the recursion
    limit (C07 `fieldset_accept_complete`), `Parser::parse_selection_set` accepts, hands out one SELECTION_SET node, and
    `convert_selection_set` on it returns `ss` itself (`FromCst.listToSels (selsToList ss) = ss`). -/
theorem pipeline_print_parse_fieldset (rl : Nat) (src : Parse.Str) (ss : Sels) (ts : List Parse.Tok) (e : Parse.Tok)
    (hclean : Parse.LexClean src) (hsig : Parse.sig (Parse.srcToks src) = ts ++ [e]) (he : e.kind = .eof)
    (hne : ss ≠ .nil) (hwf : wfSels ss = true) (hb : 1 ≤ rl) (hfit : Parse.fitSels ss (rl - 1))
    (hx : (ts.map Parse.astOfV = (Ast.Tok.p .lCurly :: tSels ss ++ [Ast.Tok.p .rCurly]).map some ∧
            (∀ hd tl, Parse.srcToks src = hd :: tl → isIgnoredKind hd.kind = false)) ∨
          ts.map Parse.astOfV = (tSels ss).map some) :
    (parse .selectionSet none rl src).errors = [] ∧
    ∃ root, (parse .selectionSet none rl src).outcome = .tree root ∧ FromCst.FieldSetNode ss root ∧
      (∀ (R : List FromCst.Loc) (s : Nat) (hp : ∀ y ∈ nameRanges root s, y ∈ R),
        ∃ l, FromCst.collectM (FromCst.cSelection (FromCst.size root))
          (FromCst.childrenP FromCst.isSelectionKind (⟨(root, s), hp⟩ : FromCst.PE R)) = some (FromCst.selsToList ss, l)) ∧
      FromCst.listToSels (FromCst.selsToList ss) = ss := by
  obtain ⟨h1, root, h2, h3, h4⟩ := Parse.pipeline_print_parse_fieldset rl src ss ts e hclean hsig he hne hwf hb hfit hx
  exact ⟨h1, root, h2, h3, h4, FromCst.listToSels_toList ss⟩

/-- **Stage (iv), variable definitions.**  An error-free run of `variable.rs::variable_definitions` entered on `(`
    consumed the tokens `tVarDefs vs` (`vs ≠ []`, default values constant and well-formed, directives well-formed) and
    appended ONE element besides junk, the node `VARIABLE_DEFINITIONS[( VARIABLE_DEFINITION[VARIABLE[$ NAME] : Type
    DEFAULT_VALUE[= value]? DIRECTIVES?]+ )]`; `collect_opt(x.variable_definitions(), …)` of from_cst.rs on it returns `vs`. -/
theorem variable_definitions_pipeline (n : Nat) (s s' : PState) (st : Parse.St s) (hq : Parse.HeadK .lParen (Parse.Toks s))
    (h : (Parse.variableDefinitions n).run s = .ok () s') (hnd : ¬ Parse.Doomed s') :
    ∃ cs added vs ev, Parse.Toks s = cs ++ Parse.Toks s' ∧ s'.builder.children = s.builder.children ++ added ∧ vs ≠ [] ∧
      (Parse.sig cs).map Parse.astOfV = (tVarDefs vs).map some ∧ wfVarDefs vs = true ∧ Parse.sigE added = [ev] ∧
      Parse.VarDefsNode vs ev ∧
      ∀ (m : Nat), FromCst.size ev ≤ m + 1 → ∀ (R : List FromCst.Loc) (o : Nat) (hp : ∀ y ∈ nameRanges ev o, y ∈ R),
        ∃ l, FromCst.collectM (FromCst.cVariableDefinition m) (FromCst.children "VARIABLE_DEFINITION" ⟨(ev, o), hp⟩) = some (vs, l) := by
  obtain ⟨_, cs, added, h1, _, _, h4, h5⟩ := Parse.St.step (Parse.tr_variableDefinitions n) st hq h hnd
  rcases h5 with ⟨vs, ev, hne, h6, h7, h8, h9⟩ | f
  · exact ⟨cs, added, vs, ev, h1, h4, hne, h6, h7, h8, h9, fun m hm R o hp => FromCst.varDefs_collect m vs ev h9 hm R o hp⟩
  · exact absurd f id

/-- **Stage (iv), fragment definitions.**  An error-free run of `fragment.rs::fragment_definition` entered on the
    `fragment` keyword consumed the tokens `tDefinition (.fragment name tc dirs sels)` of a WELL-FORMED fragment
    definition (`wfDefinition`: name not `on`, directives and selections well-formed, selection set non-empty) and
    appended ONE element besides junk, `FRAGMENT_DEFINITION[fragment FRAGMENT_NAME TYPE_CONDITION DIRECTIVES?
    SELECTION_SET]`; `impl Convert for cst::Definition` on it (fuel + 1 ≥ its size) returns that definition. -/
theorem fragment_definition_pipeline (n : Nat) (s s' : PState) (st : Parse.St s)
    (hq : Parse.HeadP (fun t : Parse.Tok => t.kind = .name ∧ t.data = "fragment".toList) (Parse.Toks s))
    (h : (Parse.fragmentDefinition n).run s = .ok () s') (hnd : ¬ Parse.Doomed s') :
    ∃ cs added name tc dirs sels ed, Parse.Toks s = cs ++ Parse.Toks s' ∧ s'.builder.children = s.builder.children ++ added ∧
      (Parse.sig cs).map Parse.astOfV = (tDefinition false (.fragment name tc dirs sels)).map some ∧
      wfDefinition (.fragment name tc dirs sels) = true ∧ Parse.sigE added = [ed] ∧
      FromCst.FragDefTree name tc dirs sels ed ∧
      ∀ (m : Nat), FromCst.size ed ≤ m + 1 → ∀ (R : List FromCst.Loc) (o : Nat) (hp : ∀ y ∈ nameRanges ed o, y ∈ R),
        ∃ l, FromCst.cDefinition m ⟨(ed, o), hp⟩ = some (.fragment name tc dirs sels, l) := by
  obtain ⟨_, cs, added, h1, _, _, h4, h5⟩ := Parse.St.step (Parse.tr_fragmentDefinition n) st hq h hnd
  rcases h5 with ⟨name, tc, dirs, sels, ed, h6, h7, h8, h9⟩ | f
  · exact ⟨cs, added, name, tc, dirs, sels, ed, h1, h4, h6, h7, h8, h9,
      fun m hm R o hp => FromCst.cDefinition_fragment m name tc dirs sels ed h9 hm R o hp⟩
  · exact absurd f id

/-- **Stage (iv), operation definitions.**  An error-free run of `operation.rs::operation_definition` (entered anywhere:
    on `query` / `mutation` / `subscription`, on the `{` of a shorthand query; everything else reports an error) consumed
    the printer's tokens `tDefinition it.1 it.2` of ONE well-formed operation definition `it.2` — long form (`it.1 =
    false`: OPERATION_TYPE, optional name, variable definitions, directives, selection set) or shorthand (`it.1 = true`:
    the selection set alone, and `it.2` is the anonymous query) — and appended ONE element besides junk, an
    OPERATION_DEFINITION node; `impl Convert for cst::Definition` on it (fuel + 1 ≥ its size) returns `it.2`. -/
theorem operation_definition_pipeline (n : Nat) (s s' : PState) (st : Parse.St s)
    (h : (Parse.operationDefinition n).run s = .ok () s') (hnd : ¬ Parse.Doomed s') :
    ∃ (cs : List Parse.Tok) (added : List Elem) (it : Bool × Definition) (ed : Elem), Parse.Toks s = cs ++ Parse.Toks s' ∧ s'.builder.children = s.builder.children ++ added ∧
      (Parse.sig cs).map Parse.astOfV = (tDefinition it.1 it.2).map some ∧ wfDefinition it.2 = true ∧
      Parse.isExecutable it.2 = true ∧ Parse.sigE added = [ed] ∧
      FromCst.nodeP (fun k => k == "OPERATION_DEFINITION" || k == "FRAGMENT_DEFINITION") ed = true ∧
      ∀ (m : Nat), FromCst.size ed ≤ m + 1 → ∀ (R : List FromCst.Loc) (o : Nat) (hp : ∀ y ∈ nameRanges ed o, y ∈ R),
        ∃ l, FromCst.cDefinition m ⟨(ed, o), hp⟩ = some (it.2, l) := by
  obtain ⟨_, cs, added, h1, _, _, h4, h5⟩ := Parse.St.step (Parse.tr_operationDefinition n) st trivial h hnd
  rcases h5 with ⟨it, ed, h6, h7, h8, h9, h10, h11⟩ | f
  · exact ⟨cs, added, it, ed, h1, h4, h6, h7, h10, h8, h11, fun m hm R o hp => h9.2 m hm R o hp⟩
  · exact absurd f id

/-- **Stage (iv), the top level, generically.**  `Q tokens elements` is what ONE definition parser, started where the
    dispatcher of `document()` starts it, consumes and builds (`DefTrs n Q`: twenty entry conditions, the same as C05's
    `DefLemmas`).  Then `Parser::parse` (no token limit, any recursion limit) without error returns `DOCUMENT[…]` whose
    significant children are, definition by definition, the elements built, and the significant tokens are the
    definitions' tokens followed by EOF; the list of definitions is not empty.  (Instances: the executable definitions
    below; the type-system definitions are builderA's `PipelineTypeSystem`.) -/
theorem document_cst_of_accepted (Q : List Parse.Tok → List Elem → Prop) (L : ∀ n, Parse.DefTrs n Q) (rl : Nat)
    (src : Parse.Str) (root : Elem)
    (h : (parse .document none rl src).outcome = .tree root) (herr : (parse .document none rl src).errors = []) :
    Parse.LexClean src ∧ ∃ ts e inner, Parse.sig (Parse.srcToks src) = ts ++ [e] ∧ e.kind = .eof ∧ root = Elem.node "DOCUMENT" inner ∧
      ∃ items : List (List Parse.Tok × List Elem), items ≠ [] ∧ ts = (items.map (·.1)).flatten ∧
        Parse.sigE inner = (items.map (·.2)).flatten ∧ ∀ i ∈ items, Q i.1 i.2 :=
  Parse.parseDocument_cst L rl src root h herr

/-- `Document::from_cst` on such a tree when every definition satisfies `DefItemR` (printer's tokens of a well-formed
    definition in either form, ONE node, `impl Convert for cst::Definition` returns the definition): the tokens are
    `itemsToks its`, and `from_cst` returns exactly the definitions of `its`. -/
theorem document_from_cst_of_items (root : Elem) (inner : List Elem) (ts : List Parse.Tok)
    (items : List (List Parse.Tok × List Elem)) (hroot : root = Elem.node "DOCUMENT" inner) (hne : items ≠ [])
    (hts : ts = (items.map (·.1)).flatten) (hsig : Parse.sigE inner = (items.map (·.2)).flatten)
    (hall : ∀ i ∈ items, Parse.DefItemR i.1 i.2) :
    ∃ its : List (Bool × Definition), its ≠ [] ∧ ts.map Parse.astOfV = (itemsToks its).map some ∧
      (∀ i ∈ its, wfDefinition i.2 = true) ∧ (FromCst.fromCst root).1 = its.map (·.2) :=
  Parse.document_fromCst_of_items root inner ts items hroot hne hts hsig hall

/-- **The token-view bridging lemma.**  The reference parser's reading of the lexer model's output
    (`sigToks (lex none src)`, the view of `text_lexes_back` / `document_text_roundtrip`) is `X` exactly if the source
    has no lexer error and the parser model's significant tokens (the view of the acceptance theorems of C05 / C07 and
    of the pipeline theorems) are, through `astOfV`, `X` followed by the EOF token. -/
theorem token_view_bridge (src : Parse.Str) (X : List Ast.Tok) :
    sigToks (Apollo.Lex.lex none src) = some X ↔
      Parse.LexClean src ∧ ∃ ts e, Parse.sig (Parse.srcToks src) = ts ++ [e] ∧ e.kind = .eof ∧ ts.map Parse.astOfV = X.map some :=
  Parse.sigToks_src_iff src X

/-- **executable_document_pipeline_agrees.**  For an accepted source whose tree holds executable definitions only
    (`ExecRoot`: every child of the root that `Document::from_cst` looks at is an OPERATION_DEFINITION or a
    FRAGMENT_DEFINITION): the lexer model's tokens are the printer's tokens `itemsToks its` of a non-empty list of
    well-formed executable definitions (each in the long form, anonymous queries also in the shorthand form),
    `Document::from_cst` on the tree of the CST parser returns exactly these definitions, and so does the reference
    parser `pDocument` on the tokens (any fuel ≥ their size): the two models of `ast::Document::parse` agree. -/
theorem executable_document_pipeline_agrees (rl : Nat) (src : Parse.Str) (root : Elem)
    (h : (parse .document none rl src).outcome = .tree root) (herr : (parse .document none rl src).errors = [])
    (hexec : Parse.ExecRoot root) :
    ∃ its : List (Bool × Definition), its ≠ [] ∧ sigToks (Apollo.Lex.lex none src) = some (itemsToks its) ∧
      (∀ i ∈ its, wfDefinition i.2 = true ∧ Parse.isExecutable i.2 = true) ∧
      (FromCst.fromCst root).1 = its.map (·.2) ∧
      ∀ f, szDefinitions (its.map (·.2)) ≤ f → pDocument f (itemsToks its) = some (its.map (·.2)) := by
  obtain ⟨hclean, ts, e, its, h1, h2, h3, h4, h5, h6, h7⟩ := Parse.parseExecutableDocument_agrees rl src root h herr hexec
  exact ⟨its, h3, (Parse.sigToks_src_iff src _).mpr ⟨hclean, ts, e, h1, h2, h4⟩, h5, h6, h7⟩

/-- the same without looking at the tree: if the tokens of an accepted source are the printer's tokens of well-formed
    executable definitions `its` (which definition parser ran is decided by the tokens: a type-system definition starts
    with a description or a Name other than `query` / `mutation` / `subscription` / `fragment`, and an executable
    definition is read back by the reference parser whatever follows it), `from_cst` returns the definitions of `its`. -/
theorem executable_tokens_pipeline (rl : Nat) (src : Parse.Str) (root : Elem) (its : List (Bool × Definition))
    (h : (parse .document none rl src).outcome = .tree root) (herr : (parse .document none rl src).errors = [])
    (h0 : ∀ it ∈ its, wfDefinition it.2 = true ∧ Parse.isExecutable it.2 = true)
    (hlex : sigToks (Apollo.Lex.lex none src) = some (itemsToks its)) :
    (FromCst.fromCst root).1 = its.map (·.2) := by
  obtain ⟨_, ts, e, hsig, _, hx⟩ := (Parse.sigToks_src_iff src _).mp hlex
  exact Parse.pipeline_exec_of_tokens rl src root its h herr h0 ts e hsig hx

/-- **pipeline_print_parse_executable_document.**  For every configuration (white-space indentation prefix or none,
    any level) and every non-empty well-formed EXECUTABLE document `doc` (operations and fragments; names, IntValues and
    FloatValues of the grammar's syntax) within the recursion limit: the printed text is accepted by the CST parser model
    without error, and `Document::from_cst` on the tree returns `doc` itself.  Text level: `text_lexes_back_full`; token
    views: `token_view_bridge`; acceptance: C05 `executable_document_accept_complete`; tree and conversion: the tree
    calculus.  With `document_text_roundtrip` both models of `ast::Document::parse` read `print doc` back to `doc`. -/
theorem pipeline_print_parse_executable_document (pre : Option Ast.Str) (level : Nat) (doc : Document) (hne : doc ≠ [])
    (hwf : ∀ d ∈ doc, wfDefinition d = true) (hexec : ∀ d ∈ doc, Parse.isExecutable d = true)
    (hpre : ∀ p, pre = some p → p.all Apollo.Strs.isWs = true)
    (hn : NamesWf (docSegs pre level doc)) (hi : IntsSpec (docSegs pre level doc)) (hf : FloatsSpec (docSegs pre level doc))
    (rl : Nat) (hfit : Parse.IsExecDocFit rl (toksOf (cDocument (outputEmptyAtStart pre level) doc))) :
    (parse .document none rl (serializeDocument pre level doc).out).errors = [] ∧
    ∃ root, (parse .document none rl (serializeDocument pre level doc).out).outcome = .tree root ∧
      (FromCst.fromCst root).1 = doc := by
  cases doc with
  | nil => exact absurd rfl hne
  | cons d r =>
    have hlex := text_lexes_back_full pre level (d :: r) hpre hn hi hf
    rw [toksOf_cDocument, tDocument_items] at hlex hfit
    obtain ⟨hclean, ts, e, hsig, he, hx⟩ := (Parse.sigToks_src_iff _ _).mp hlex
    have herr := Parse.parseDocument_complete_sig rl _ _ ts e hclean hsig he hx hfit
    obtain ⟨root, hroot⟩ := Parse.parseDocument_tree none rl (serializeDocument pre level (d :: r)).out
    have h0 : ∀ it ∈ ((outputEmptyAtStart pre level, d) :: r.map (fun d => (false, d)) : List (Bool × Definition)),
        wfDefinition it.2 = true ∧ Parse.isExecutable it.2 = true := by
      intro it hit
      rcases List.mem_cons.mp hit with rfl | hit
      · exact ⟨hwf d (by simp), hexec d (by simp)⟩
      · obtain ⟨d', hd', rfl⟩ := List.mem_map.mp hit
        exact ⟨hwf d' (by simp [hd']), hexec d' (by simp [hd'])⟩
    have := Parse.pipeline_exec_of_tokens rl _ root _ hroot herr h0 ts e hsig hx
    refine ⟨herr, root, hroot, ?_⟩
    rw [this]
    simp [List.map_map, Function.comp_def]

/-- **The document theorem with the type system plugged in** (the interface for stage (v)).  `T : ∀ n, TsTrs n Q` are
    the fifteen type-system entries of `DefTrs` (definitions and extensions, entered where the dispatcher enters them)
    with any relation `Q`; the four operation entries and the fragment entry are this section's.  Then an accepted
    document is `DOCUMENT[…]`, item by item an executable definition (`ExecItemR`: printer's tokens, well-formed, ONE
    OPERATION_DEFINITION / FRAGMENT_DEFINITION node that converts) or a `Q` item, and if every `Q` item of the run is
    a definition without liberties (`DefItemR`), `Document::from_cst` returns exactly the definitions, whose printer's
    tokens are the significant tokens of the source. -/
theorem document_pipeline_with_type_system (Q : List Parse.Tok → List Elem → Prop) (T : ∀ n, Parse.TsTrs n Q) (rl : Nat)
    (src : Parse.Str) (root : Elem)
    (h : (parse .document none rl src).outcome = .tree root) (herr : (parse .document none rl src).errors = []) :
    Parse.LexClean src ∧ ∃ ts e inner, Parse.sig (Parse.srcToks src) = ts ++ [e] ∧ e.kind = .eof ∧ root = Elem.node "DOCUMENT" inner ∧
      ∃ items : List (List Parse.Tok × List Elem), items ≠ [] ∧ ts = (items.map (·.1)).flatten ∧
        Parse.sigE inner = (items.map (·.2)).flatten ∧ (∀ i ∈ items, Parse.ExecItemR i.1 i.2 ∨ Q i.1 i.2) ∧
        ((∀ i ∈ items, Q i.1 i.2 → Parse.DefItemR i.1 i.2) →
          ∃ its : List (Bool × Definition), its ≠ [] ∧ ts.map Parse.astOfV = (itemsToks its).map some ∧
            (∀ i ∈ its, wfDefinition i.2 = true) ∧ (FromCst.fromCst root).1 = its.map (·.2)) :=
  Parse.parseDocument_fromCst Q T rl src root h herr

end Pipeline

section PipelineTypeSystem
open Apollo.Parse Apollo.Rowan

/-- **Stage (v), type-system definitions and extensions: conversion.**  On the tree `DefTree l ed` of a loose
    type-system definition or extension `l` (any of the eight definitions — schema, scalar, object, interface, union,
    enum, input object, directive — and the seven extensions), `impl Convert for cst::Definition` of from_cst.rs
    (fuel + 1 ≥ the size of the node) succeeds with `looseConv l`: descriptions through the C06 decoder, names
    validated, a leading separator not represented, a root operation type without its named type dropped. -/
theorem type_system_definition_converts (m : Nat) (l : Parse.LooseDef) (ed : Elem) (h : FromCst.DefTree l ed)
    (hs : FromCst.size ed ≤ m + 1) (R : List FromCst.Loc) (o : Nat) (hp : ∀ y ∈ nameRanges ed o, y ∈ R) :
    ∃ lg, FromCst.cDefinition m ⟨(ed, o), hp⟩ = some (FromCst.looseConv l, lg) :=
  FromCst.cDefinition_defTree m l ed h hs R o hp

/-- **Stage (v), type-system definitions and extensions: the pipeline.**  `document()` dispatches on the current
    token `t`; when the selecting text is a type-system keyword (`TsSel`: `t` reads one of the eight definition
    keywords, or `t` is a description and the next significant token does, or `t` reads `extend` and the next
    significant token one of the seven extension keywords) and the run of the dispatcher adds no error, then

    * it consumed the tokens `l.toks` of ONE loose definition `l` (the optional keyword IS there) and appended ONE
      element `ed` besides junk, the tree `DefTree l ed`;
    * `cDefinition` on `ed` returns `looseConv l`;
    * when `l` has neither of the two deviations (`l.strict = some d`: no leading `&`/`|`, every root operation type
      has its named type), `looseConv l = d`, the consumed tokens are `tDefinition false d` — the tokens the
      serializer writes for `d` — `d` is well-formed (`wfDefinition`), and the reference parser reads those tokens
      back to `d` (`pDefinition`), whatever definition or end of input follows. -/
theorem type_system_definition_pipeline (n : Nat) (s s' : PState) (t : Parse.Tok) (rest : List Parse.Tok) (ks : List String)
    (st : Parse.St s) (hc : s.current = some t) (ht : Parse.Toks s = t :: rest) (hsel : Parse.TsSel t rest ks)
    (h : (Parse.documentDispatch n t.kind).run s = .ok () s') (hnd : ¬ Parse.Doomed s') :
    ∃ cs added l ed, Parse.Toks s = cs ++ Parse.Toks s' ∧ s'.builder.children = s.builder.children ++ added ∧
      l.kws = ks ∧ (Parse.sig cs).map Parse.astOfV = l.toks.map some ∧ l.wf = true ∧ Parse.sigE added = [ed] ∧
      FromCst.DefTree l ed ∧
      (∀ (m : Nat), FromCst.size ed ≤ m + 1 → ∀ (R : List FromCst.Loc) (o : Nat) (hp : ∀ y ∈ nameRanges ed o, y ∈ R),
        ∃ lg, FromCst.cDefinition m ⟨(ed, o), hp⟩ = some (FromCst.looseConv l, lg)) ∧
      ∀ d, l.strict = some d →
        FromCst.looseConv l = d ∧ l.toks = tDefinition false d ∧ wfDefinition d = true ∧
        ∀ (f : Nat) (follow : List Ast.Tok), szDefinition d ≤ f → defFollow follow = true →
          pDefinition f (tDefinition false d ++ follow) = some (d, follow) := by
  obtain ⟨_, cs, added, h1, _, _, h4, h5⟩ := Parse.tr_typeSystemDefinition n s s' t rest ks st hc ht hsel h hnd
  rcases h5 with ⟨l, ed, hk, h6, h7, h8, h9⟩ | f
  · refine ⟨cs, added, l, ed, h1, h4, hk, h6, h7, h8, h9,
      fun m hm R o hp => FromCst.cDefinition_defTree m l ed h9 hm R o hp, ?_⟩
    intro d hd
    have hwf := Parse.LooseDef.wf_strict l d hd h7
    exact ⟨FromCst.looseConv_strict l d hd, Parse.LooseDef.toks_strict l d hd, hwf,
      fun f follow hf hfo => definition_roundtrip d f follow hwf hf hfo⟩
  · exact absurd f id

/-- **Stage (v), the dispatcher of `document()`.**  An error-free run of the dispatcher on the current token `t`
    either selected a type-system definition or extension (`TsSel`; then `type_system_definition_pipeline` applies — the
    run consumed the tokens of ONE loose definition and appended its tree), or it IS a run of `fragment_definition`
    (selecting text `fragment`) or of `operation_definition` (selecting text `query` / `mutation` / `subscription` / `{`)
    from a state with the same token queue and the same tree builder — the two productions of stage (iv).  No other
    case is error-free (every other branch ends in `err_and_pop`). -/
theorem document_dispatch_cases (n : Nat) (s s' : PState) (t : Parse.Tok) (rest : List Parse.Tok) (st : Parse.St s)
    (hc : s.current = some t) (ht : Parse.Toks s = t :: rest)
    (h : (Parse.documentDispatch n t.kind).run s = .ok () s') (hnd : ¬ Parse.Doomed s') :
    (∃ ks, Parse.TsSel t rest ks ∧ Parse.St s' ∧ Parse.TrRes Parse.NoE s s' (Parse.TsR ks)) ∨
    (∃ sP d, Parse.St sP ∧ Parse.Toks sP = Parse.Toks s ∧ sP.builder = s.builder ∧ Parse.SelData t rest d ∧
      ((d = "fragment".toList ∧ (Parse.fragmentDefinition n).run sP = .ok () s') ∨
       ((d = "query".toList ∨ d = "mutation".toList ∨ d = "subscription".toList ∨ d = "{".toList) ∧
         (Parse.operationDefinition n).run sP = .ok () s'))) :=
  Parse.documentDispatch_cases n s s' t rest st hc ht h hnd

/-- **Stage (v), injectivity: the tokens determine the definition.**  If the tokens consumed for an accepted loose
    type-system definition or extension `l` (`l.wf`: the facts the parser establishes) are the tokens the serializer
    writes for a well-formed `d`, then what `from_cst` makes of `l` is `d`.  Proof through the reference parser: on
    `l.toks` it returns `looseConv l` (a leading `&` / `|` is accepted and not represented) or fails (a root operation
    type without its named type) — `Parse.loose_parse` —, on `tDefinition false d` it returns `d`
    (`definition_roundtrip`); covers all fifteen constructors. -/
theorem type_system_tokens_determine_definition (l : Parse.LooseDef) (d : Definition) (hw : l.wf = true)
    (hd : wfDefinition d = true) (h : l.toks = tDefinition false d) : FromCst.looseConv l = d :=
  Parse.loose_tokens_determine_definition l d hw hd h

/-- **Stage (v), injectivity, strict form.**  Under the same hypotheses the accepted loose definition uses neither
    liberty: `l.strict = some d` — a leading `&` / `|` would make the token list differ from the serializer's (the same
    tokens without it are the serializer's, too), a root operation type without its named type makes the reference
    parser fail. -/
theorem type_system_tokens_force_strict (l : Parse.LooseDef) (d : Definition) (hw : l.wf = true)
    (hd : wfDefinition d = true) (h : l.toks = tDefinition false d) : l.strict = some d :=
  Parse.loose_tokens_strict l d hw hd h

end PipelineTypeSystem

section PipelineWhole
open Apollo.Parse Apollo.Rowan

/-- **document_pipeline_agrees — every accepted document, the whole grammar.**  `Parser::parse` (model; no token limit,
    any recursion limit) without error: the significant tokens are `docToks its` for a non-empty list of items —
    executable definitions in the long or shorthand form, type-system definitions and extensions up to the two
    liberties (`LooseDef`: a leading `&` / `|` in a separated list, a root operation type without its named type) —
    every item with the well-formedness facts the parser establishes (`DocItem.wfB`), and `Document::from_cst` on the
    tree of the CST parser returns, item by item, `DocItem.conv` (for a loose definition `looseConv`: the leading
    separator is not represented, the incomplete root operation is dropped).
    STRICT CASE (`strictItems its = some items`: no liberty used): the tokens are the printer's tokens `itemsToks
    items`, every definition satisfies `wfDefinition` (no hypothesis left), `from_cst` returns exactly the definitions
    of `items`, and the reference parser `pDocument` returns the same list whenever the decomposition satisfies
    `ItemsFollowOk` (a shorthand query directly follows only a definition that always ends in `}`; automatic for
    executable documents, `followOk_of_closed`, and for the printer's shape, `followOk_tDocument`).  That is the
    statement `from_cst_agrees_with_reference_parser` up to (1) the two liberties — where the reference parser rejects
    and `from_cst` returns `looseConv` —, (2) `ItemsFollowOk` of the parser's own decomposition, which the
    per-definition theorems do not export (it is the parser's greediness: what the next token after a definition was),
    and (3) the fuel constant of `modelsAgree`. -/
theorem document_pipeline_agrees (rl : Nat) (src : Parse.Str) (root : Elem)
    (h : (parse .document none rl src).outcome = .tree root) (herr : (parse .document none rl src).errors = []) :
    Parse.LexClean src ∧ ∃ (ts : List Parse.Tok) (e : Parse.Tok) (its : List Parse.DocItem),
      Parse.sig (Parse.srcToks src) = ts ++ [e] ∧ e.kind = .eof ∧ its ≠ [] ∧
      ts.map Parse.astOfV = (Parse.docToks its).map some ∧ (∀ i ∈ its, i.wfB) ∧
      (FromCst.fromCst root).1 = its.map Parse.DocItem.conv ∧
      ∀ items, Parse.strictItems its = some items →
        items ≠ [] ∧ Parse.docToks its = itemsToks items ∧ (∀ a ∈ items, wfDefinition a.2 = true) ∧
        (FromCst.fromCst root).1 = items.map (·.2) ∧
        (ItemsFollowOk items → ∀ f, szDefinitions (items.map (·.2)) ≤ f →
          pDocument f (itemsToks items) = some ((FromCst.fromCst root).1)) :=
  Parse.parseDocument_agrees rl src root h herr

/-- C05's `document_accepted_reference_parser` WITHOUT its hypothesis (a): the well-formedness of the strict
    definitions is established by the parser (stage (iii)–(v) export `wfSel`, `wfVarDefs`, `LooseDef.wf`), so what is left
    is (b) `ItemsFollowOk` alone.  (Stated here because the tree calculus cannot be imported into C05.lean: four
    declaration names clash between ParserTree* / ParserTreeDef13 and ParserComplete27 / ParserExact*.) -/
theorem document_accepted_reference_parser_wf (rl : Nat) (src : Parse.Str)
    (herr : (parse .document none rl src).errors = []) :
    ∃ (ts : List Parse.Tok) (e : Parse.Tok) (its : List Parse.DocItem),
      Parse.sig (Parse.srcToks src) = ts ++ [e] ∧ e.kind = .eof ∧ ts.map Parse.astOfV = (Parse.docToks its).map some ∧
      ∀ items, Parse.strictItems its = some items →
        items ≠ [] ∧ Parse.docToks its = itemsToks items ∧ (∀ a ∈ items, wfDefinition a.2 = true) ∧
        (ItemsFollowOk items → ∀ f, szDefinitions (items.map (·.2)) ≤ f →
          pDocument f (itemsToks items) = some (items.map (·.2))) := by
  obtain ⟨root, hroot⟩ := Parse.parseDocument_tree none rl src
  obtain ⟨_, ts, e, its, h1, h2, _, h4, _, _, h7⟩ := Parse.parseDocument_agrees rl src root hroot herr
  refine ⟨ts, e, its, h1, h2, h4, fun items hs => ?_⟩
  obtain ⟨a, b, c, d, g⟩ := h7 items hs
  exact ⟨a, b, c, fun hf f hsz => by rw [← d]; exact g hf f hsz⟩

/-- **pipeline_print_parse_document, as far as it is proved.**  For every configuration and every non-empty
    well-formed document `doc` (all 17 definition kinds; names, IntValues, FloatValues of the grammar's syntax) whose
    printed text the CST parser model accepts (C05 `strict_document_accept_complete`: within the recursion limit it
    does): the tree converts, item by item, to definitions whose tokens re-concatenate to the printed tokens, and
    `Document::from_cst` returns `doc` ITSELF provided the parser's decomposition uses no liberty and satisfies
    `ItemsFollowOk`.  For executable documents both provisos are theorems (`pipeline_print_parse_executable_document`);
    for type-system definitions they are the parser's greediness and the injectivity of `LooseDef.toks`, not proved. -/
theorem printed_document_pipeline (pre : Option Ast.Str) (level : Nat) (doc : Document) (hne : doc ≠ [])
    (hwf : wfDefinitions doc = true) (hpre : ∀ p, pre = some p → p.all Apollo.Strs.isWs = true)
    (hn : NamesWf (docSegs pre level doc)) (hi : IntsSpec (docSegs pre level doc)) (hf : FloatsSpec (docSegs pre level doc))
    (rl : Nat) (root : Elem)
    (h : (parse .document none rl (serializeDocument pre level doc).out).outcome = .tree root)
    (herr : (parse .document none rl (serializeDocument pre level doc).out).errors = []) :
    ∃ its : List Parse.DocItem, its ≠ [] ∧
      Parse.docToks its = toksOf (cDocument (outputEmptyAtStart pre level) doc) ∧ (∀ i ∈ its, i.wfB) ∧
      (FromCst.fromCst root).1 = its.map Parse.DocItem.conv ∧
      ∀ items, Parse.strictItems its = some items → ItemsFollowOk items → (FromCst.fromCst root).1 = doc := by
  have hlex := text_lexes_back_full pre level doc hpre hn hi hf
  obtain ⟨_, ts, e, its, h1, h2, h3, h4, h5, h6, h7⟩ := Parse.parseDocument_agrees rl _ root h herr
  obtain ⟨_, ts', e', h1', _, h4'⟩ := (Parse.sigToks_src_iff _ _).mp hlex
  have hts : ts' = ts := by
    have hh := h1.symm.trans h1'
    have hl := congrArg List.length hh
    simp at hl
    exact ((List.append_inj hh hl).1).symm
  subst hts
  have htoks : Parse.docToks its = toksOf (cDocument (outputEmptyAtStart pre level) doc) := by
    have : (Parse.docToks its).map some = (toksOf (cDocument (outputEmptyAtStart pre level) doc)).map some := h4.symm.trans h4'
    exact Parse.map_some_inj this
  refine ⟨its, h3, htoks, h5, h6, fun items hs hfol => ?_⟩
  obtain ⟨a, b, c, d, g⟩ := h7 items hs
  have p1 := g hfol (max (szDefinitions (items.map (·.2))) (szDefinitions doc)) (Nat.le_max_left _ _)
  have p2 := document_roundtrip (outputEmptyAtStart pre level) doc
    (max (szDefinitions (items.map (·.2))) (szDefinitions doc)) hne hwf (Nat.le_max_right _ _)
  rw [← b, htoks, toksOf_cDocument, p2] at p1
  exact (Option.some.inj p1).symm

/-- **`from_cst_agrees_with_reference_parser` is FALSE as stated**: on the KNOWN FINDING of C05 (`schema { query: }` is
    accepted without error — `root_operation_type_definition` calls `named_type`, which silently does nothing) the CST
    parser model accepts, `Document::from_cst` returns a schema definition without that root operation, and the
    reference parser rejects the tokens.  (Kernel-evaluated.)  The true statement is `document_pipeline_agrees`: agreement
    in the strict case; on this input `strictItems` is `none`.  A leading `&` / `|`, the other liberty, is read by both
    models alike (`type T implements & A { a: Int }` agrees). -/
theorem from_cst_agreement_fails_on_incomplete_root_operation :
    (Apollo.Parse.parse .document none 500 "schema { query: }".toList).errors = [] ∧
      FromCst.modelsAgree "schema { query: }" = false ∧
      FromCst.modelsAgree "type T implements & A { a: Int }" = true := by
  decide +kernel

theorem from_cst_agrees_with_reference_parser_refuted : ¬ from_cst_agrees_with_reference_parser := by
  intro h
  have h1 := h "schema { query: }" from_cst_agreement_fails_on_incomplete_root_operation.1
  rw [from_cst_agreement_fails_on_incomplete_root_operation.2.1] at h1
  cases h1

theorem wfDefinitions_mem : ∀ (ds : List Definition), wfDefinitions ds = true → ∀ x ∈ ds, wfDefinition x = true
  | [], _, x, hx => by cases hx
  | d :: r, h, x, hx => by
    simp only [wfDefinitions, Bool.and_eq_true] at h
    rcases List.mem_cons.mp hx with rfl | hx
    · exact h.1
    · exact wfDefinitions_mem r h.2 x hx

/-- **pipeline_print_parse_document — serialize, then the REAL pipeline, gives the document back.**  For every
    configuration (white-space indentation prefix or none, any level) and every well-formed non-empty document `d :: r`
    of ALL 17 definition kinds (names, IntValues, FloatValues of the grammar's syntax): the printed text is accepted by
    the CST parser model without error, and `Document::from_cst` on its tree returns the document ITSELF.
    `its` is the document in builderB's completeness language (C05 `strict_document_accept_complete`): the same
    definitions, `strictItems its = some [(output_empty, d), (false, r₁), …]`, within the recursion limit (`itemFit rl`) and
    each definition allowed before the first token of the next (`DocFollowOk`, the follow guard of C05).
    How: `text_lexes_back_full` (text), `token_view_bridge` (token views), builderB's completeness run and the tree
    calculus on the SAME run (`Parse.docLoop_trG`: each dispatch consumes exactly the tokens of the next printed
    definition, so the parser's decomposition IS the printed one — greediness without exporting follow tokens),
    builderA's `loose_tokens_determine_definition` (the tokens of a type-system item determine what `from_cst` makes
    of it, the two liberties included), `Document::from_cst` on the DOCUMENT root. -/
theorem pipeline_print_parse_document (pre : Option Ast.Str) (level : Nat) (d : Definition) (r : List Definition)
    (hwf : wfDefinitions (d :: r) = true) (hpre : ∀ p, pre = some p → p.all Apollo.Strs.isWs = true)
    (hn : NamesWf (docSegs pre level (d :: r))) (hi : IntsSpec (docSegs pre level (d :: r)))
    (hf : FloatsSpec (docSegs pre level (d :: r)))
    (rl : Nat) (its : List Parse.DocItem)
    (hstrict : Parse.strictItems its = some ((outputEmptyAtStart pre level, d) :: r.map (fun x => (false, x))))
    (hfit : ∀ i ∈ its, Parse.itemFit rl i) (hfol : Parse.DocFollowOk its) :
    (parse .document none rl (serializeDocument pre level (d :: r)).out).errors = [] ∧
    ∃ root, (parse .document none rl (serializeDocument pre level (d :: r)).out).outcome = .tree root ∧
      (FromCst.fromCst root).1 = d :: r := by
  have hlex := text_lexes_back_full pre level (d :: r) hpre hn hi hf
  rw [toksOf_cDocument, tDocument_items] at hlex
  obtain ⟨hclean, ts, e, hsig, he, hx⟩ := (Parse.sigToks_src_iff _ _).mp hlex
  have hne : its ≠ [] := by
    rintro rfl
    simp [Parse.strictItems] at hstrict
  have hw : ∀ a ∈ ((outputEmptyAtStart pre level, d) :: r.map (fun x => (false, x)) : List (Bool × Definition)),
      wfDefinition a.2 = true := by
    intro a ha
    rcases List.mem_cons.mp ha with rfl | ha
    · exact wfDefinitions_mem _ hwf d (by simp)
    · obtain ⟨x, hx', rfl⟩ := List.mem_map.mp ha
      exact wfDefinitions_mem _ hwf x (by simp [hx'])
  obtain ⟨herr, root, hroot, hconv⟩ := Parse.pipeline_strict_document rl _ its _ hstrict hw hne hfit hfol ts e hclean hsig he hx
  refine ⟨herr, root, hroot, ?_⟩
  rw [hconv]
  simp [List.map_map, Function.comp_def]

/-- `strictItems` inverts `Parse.itemsOfDocument` (operation / fragment → `.exec`, a type-system definition or extension →
    the strict `.loose l` with `l.strict = some d`) on well-formed documents -/
theorem printed_document_items_strict (oe : Bool) (d : Definition) (r : List Definition)
    (hwf : wfDefinitions (d :: r) = true) :
    Parse.strictItems (Parse.itemsOfDocument oe (d :: r)) = some ((Parse.itemFlag oe d, d) :: r.map (fun x => (false, x))) ∧
      itemsToks ((Parse.itemFlag oe d, d) :: r.map (fun x => (false, x))) = tDocument oe (d :: r) := by
  refine ⟨Parse.strictItems_itemsOfDocument oe d r (wfDefinitions_mem _ hwf), ?_⟩
  rw [Parse.itemsToks_flag, tDocument_items]

/-- **the follow guard of C05 `document_accept_complete` is a theorem for printed documents**: in the serializer's shape
    (shorthand form only for the first definition) every next definition starts with a description or a keyword —
    never `{`, `@`, `(`, `&`, `|`, `=`, never the Name `implements` — which is what `looseFollow` asks of the token after
    a type-system definition -/
theorem printed_document_follow_ok (oe : Bool) (ds : List Definition) (hwf : wfDefinitions ds = true) :
    Parse.DocFollowOk (Parse.itemsOfDocument oe ds) :=
  Parse.docFollowOk_of_printed oe ds (wfDefinitions_mem _ hwf)

/-- **pipeline_print_parse_document, closed**: serialize, then the REAL pipeline, gives the document back — with NO
    hypothesis from the completeness language.  For every configuration and every well-formed non-empty document `d :: r`
    of all 17 definition kinds (names, IntValues, FloatValues of the grammar's syntax) whose definitions are within the
    recursion limit (`Parse.definitionFit rl`: the exact guards of C05 `document_accept_complete` read on the abstract
    syntax — nesting of types / values / selection sets within `rl`, `Const` positions, enum values, names ≠ `on`,
    directive locations among the nineteen, an extension has a component): the printed text parses with ZERO errors and
    `Document::from_cst` on its tree returns `d :: r`.  The items are `Parse.itemsOfDocument`, their `strictItems` and
    `DocFollowOk` are proved (`printed_document_items_strict`, `printed_document_follow_ok`). -/
theorem pipeline_print_parse_document_closed (pre : Option Ast.Str) (level : Nat) (d : Definition) (r : List Definition)
    (hwf : wfDefinitions (d :: r) = true) (hpre : ∀ p, pre = some p → p.all Apollo.Strs.isWs = true)
    (hn : NamesWf (docSegs pre level (d :: r))) (hi : IntsSpec (docSegs pre level (d :: r)))
    (hf : FloatsSpec (docSegs pre level (d :: r)))
    (rl : Nat) (hfit : ∀ x ∈ d :: r, Parse.definitionFit rl x) :
    (parse .document none rl (serializeDocument pre level (d :: r)).out).errors = [] ∧
    ∃ root, (parse .document none rl (serializeDocument pre level (d :: r)).out).outcome = .tree root ∧
      (FromCst.fromCst root).1 = d :: r := by
  have hlex := text_lexes_back_full pre level (d :: r) hpre hn hi hf
  rw [toksOf_cDocument] at hlex
  obtain ⟨hclean, ts, e, hsig, he, hx⟩ := (Parse.sigToks_src_iff _ _).mp hlex
  obtain ⟨hstrict, htoks⟩ := printed_document_items_strict (outputEmptyAtStart pre level) d r hwf
  have hw : ∀ a ∈ ((Parse.itemFlag (outputEmptyAtStart pre level) d, d) :: r.map (fun x => (false, x)) : List (Bool × Definition)),
      wfDefinition a.2 = true := by
    intro a ha
    rcases List.mem_cons.mp ha with rfl | ha
    · exact wfDefinitions_mem _ hwf d (by simp)
    · obtain ⟨x, hx', rfl⟩ := List.mem_map.mp ha
      exact wfDefinitions_mem _ hwf x (by simp [hx'])
  obtain ⟨herr, root, hroot, hconv⟩ := Parse.pipeline_strict_document rl _ (Parse.itemsOfDocument (outputEmptyAtStart pre level) (d :: r)) _
    hstrict hw (by simp [Parse.itemsOfDocument])
    (Parse.itemFit_itemsOfDocument rl _ (d :: r) hfit) (printed_document_follow_ok _ (d :: r) hwf) ts e hclean hsig he
    (by rw [htoks]; exact hx)
  refine ⟨herr, root, hroot, ?_⟩
  rw [hconv]
  simp [List.map_map, Function.comp_def]

end PipelineWhole

section PropertyStatement
open Apollo.Parse Apollo.Rowan

theorem wfDefinitions_of_mem : ∀ (ds : List Definition), (∀ x ∈ ds, wfDefinition x = true) → wfDefinitions ds = true
  | [], _ => rfl
  | d :: r, h => by
    simp only [wfDefinitions, Bool.and_eq_true]
    exact ⟨h d (by simp), wfDefinitions_of_mem r (fun x hx => h x (by simp [hx]))⟩

/-- **reprint_byte_identical** (the last clause of the property, on the real pipeline model): for every configuration
    and every well-formed non-empty document within the recursion limit, printing, parsing with the CST parser model,
    converting with `Document::from_cst` and printing again gives byte-identical text. -/
theorem reprint_byte_identical (pre : Option Ast.Str) (level : Nat) (d : Definition) (r : List Definition)
    (hwf : wfDefinitions (d :: r) = true) (hpre : ∀ p, pre = some p → p.all Apollo.Strs.isWs = true)
    (hn : NamesWf (docSegs pre level (d :: r))) (hi : IntsSpec (docSegs pre level (d :: r)))
    (hf : FloatsSpec (docSegs pre level (d :: r)))
    (rl : Nat) (hfit : ∀ x ∈ d :: r, Parse.definitionFit rl x) :
    ∃ root, (parse .document none rl (serializeDocument pre level (d :: r)).out).outcome = .tree root ∧
      (serializeDocument pre level (FromCst.fromCst root).1).out = (serializeDocument pre level (d :: r)).out := by
  obtain ⟨_, root, hroot, hconv⟩ := pipeline_print_parse_document_closed pre level d r hwf hpre hn hi hf rl hfit
  exact ⟨root, hroot, by rw [hconv]⟩

/-- **parsed_document_roundtrip — the statement of property C08 on the real pipeline model.**  Let `src` be ANY source
    that `Parser::parse` (model; no token limit, recursion limit `rl`) accepts with zero errors, `root` its tree and
    `D = Document::from_cst root` its AST.  Then EITHER the accepted text uses one of the two liberties of the parser
    (`strictItems its = none` for the decomposition `its` of `document_pipeline_agrees`: a leading `&` / `|` in a
    separated list, or a root operation type without its named type — the recorded C05 finding), OR:
    `D` is non-empty and well-formed, and for EVERY configuration (white-space indentation prefix or none, any level) and
    every recursion limit `rl2` within which the definitions of `D` fit (`definitionFit rl2`, the single explicit
    hypothesis; exact soundness `document_accept_sound_exact` is to discharge it with `rl2 = rl`):
    serializing `D` and parsing the text again gives NO errors and an EQUAL AST (`from_cst` of the new tree is `D`), and
    serializing the re-parsed AST gives BYTE-IDENTICAL text.
    No hypothesis on names or numbers: that every Name of `D` is a GraphQL name and every Int / Float an IntValue /
    FloatValue text is derived from the lexer model (`nameQ_srcToks`, `numQ_srcToks` through `lex_ok_tokens_sound`) and
    carried through the printer's tokens (`tokOkA_printed`: the only token the printer adds is the keyword `query`). -/
theorem parsed_document_roundtrip (rl : Nat) (src : Parse.Str) (root : Elem)
    (h : (parse .document none rl src).outcome = .tree root) (herr : (parse .document none rl src).errors = []) :
    (∃ its : List Parse.DocItem, sigToks (Apollo.Lex.lex none src) = some (Parse.docToks its) ∧
        (FromCst.fromCst root).1 = its.map Parse.DocItem.conv ∧ Parse.strictItems its = none) ∨
    ((FromCst.fromCst root).1 ≠ [] ∧ wfDefinitions (FromCst.fromCst root).1 = true ∧
      ∀ (pre : Option Ast.Str) (level : Nat), (∀ p, pre = some p → p.all Apollo.Strs.isWs = true) →
      ∀ rl2 : Nat, (∀ x ∈ (FromCst.fromCst root).1, Parse.definitionFit rl2 x) →
        (parse .document none rl2 (serializeDocument pre level (FromCst.fromCst root).1).out).errors = [] ∧
        ∃ root2, (parse .document none rl2 (serializeDocument pre level (FromCst.fromCst root).1).out).outcome = .tree root2 ∧
          (FromCst.fromCst root2).1 = (FromCst.fromCst root).1 ∧
          (serializeDocument pre level (FromCst.fromCst root2).1).out =
            (serializeDocument pre level (FromCst.fromCst root).1).out) := by
  obtain ⟨hclean, ts, e, its, h1, h2, h3, h4, h5, h6, h7⟩ := Parse.parseDocument_agrees rl src root h herr
  cases hs : Parse.strictItems its with
  | none =>
    exact Or.inl ⟨its, (Parse.sigToks_src_iff src _).mpr ⟨hclean, ts, e, h1, h2, h4⟩, h6, hs⟩
  | some items =>
    right
    obtain ⟨a, b, c, dd, _⟩ := h7 items hs
    have hok : ∀ t ∈ itemsToks items, Parse.TokOkA t :=
      Parse.tokOkA_of_src src hclean ts e h1 (itemsToks items) (by rw [← b]; exact h4)
    rw [dd]
    have hwfm : ∀ x ∈ items.map (·.2), wfDefinition x = true := by
      intro x hx
      obtain ⟨i, hi, rfl⟩ := List.mem_map.mp hx
      exact c i hi
    refine ⟨by simpa using a, wfDefinitions_of_mem _ hwfm, ?_⟩
    intro pre level hpre rl2 hfit
    obtain ⟨hn, hi, hf⟩ := Parse.segs_hyps_of_toks pre level (items.map (·.2))
      (Parse.tokOkA_printed (outputEmptyAtStart pre level) items hok)
    cases hD : items.map (·.2) with
    | nil => exact absurd hD (by simpa using a)
    | cons x r =>
      rw [hD] at hn hi hf hfit hwfm
      obtain ⟨e1, root2, e2, e3⟩ := pipeline_print_parse_document_closed pre level x r (wfDefinitions_of_mem _ hwfm) hpre hn hi hf rl2 hfit
      exact ⟨e1, root2, e2, e3, by rw [e3]⟩

/-- **parsed_document_roundtrip at the SAME recursion limit, hypothesis moved to the parser's own items.**  For every
    source accepted with zero errors at recursion limit `rl`, with `D = Document::from_cst` of its tree and `its` the
    decomposition of `document_pipeline_agrees` (tokens = `docToks its`, `D = its.map DocItem.conv`): either the text uses
    a liberty (`strictItems its = none`), or — PROVIDED every item satisfies the (charged) guard `Parse.itemFit rl` of C05
    `document_accept_complete` — for every configuration `print D` parses with ZERO errors at the SAME `rl`, `from_cst`
    gives `D` again, and the reprint is byte-identical.  `definitionFit rl` of the AST is derived from `itemFit rl` of the
    strict items (`Parse.definitionFit_of_strict_items`: `itemOfDef` inverts `DocItem.strict`).
    What still separates this from the unconditional statement: C05 `document_accept_sound_exact_unconditional` gives
    `Exact.itemFitX rl` for ITS decomposition of the same token list; needed are (1) that decomposition is this one (both
    are pinned by the tokens and the run, not proved), (2) `itemFitX → itemFit` for strict items (`looseFit_of_looseFitX`,
    all root names present), and (3) the exact budget `Exact.itemFit` against the charged `Parse.itemFit` that
    `pipeline_print_parse_document_closed` uses (they differ on empty list / object literals `[]`, `{}`): either the closed
    theorem is restated over `Exact.parseDocument_complete_items`, or the difference stays as a hypothesis. -/
theorem parsed_document_roundtrip_same_limit (rl : Nat) (src : Parse.Str) (root : Elem)
    (h : (parse .document none rl src).outcome = .tree root) (herr : (parse .document none rl src).errors = []) :
    ∃ its : List Parse.DocItem, sigToks (Apollo.Lex.lex none src) = some (Parse.docToks its) ∧
      (FromCst.fromCst root).1 = its.map Parse.DocItem.conv ∧
      (Parse.strictItems its = none ∨
       ((∀ i ∈ its, Parse.itemFit rl i) →
        ∀ (pre : Option Ast.Str) (level : Nat), (∀ p, pre = some p → p.all Apollo.Strs.isWs = true) →
          (parse .document none rl (serializeDocument pre level (FromCst.fromCst root).1).out).errors = [] ∧
          ∃ root2, (parse .document none rl (serializeDocument pre level (FromCst.fromCst root).1).out).outcome = .tree root2 ∧
            (FromCst.fromCst root2).1 = (FromCst.fromCst root).1 ∧
            (serializeDocument pre level (FromCst.fromCst root2).1).out =
              (serializeDocument pre level (FromCst.fromCst root).1).out)) := by
  obtain ⟨hclean, ts, e, its, h1, h2, h3, h4, h5, h6, h7⟩ := Parse.parseDocument_agrees rl src root h herr
  refine ⟨its, (Parse.sigToks_src_iff src _).mpr ⟨hclean, ts, e, h1, h2, h4⟩, h6, ?_⟩
  cases hs : Parse.strictItems its with
  | none => exact Or.inl rfl
  | some items =>
    right
    intro hfit pre level hpre
    obtain ⟨a, b, c, dd, _⟩ := h7 items hs
    have hok : ∀ t ∈ itemsToks items, Parse.TokOkA t :=
      Parse.tokOkA_of_src src hclean ts e h1 (itemsToks items) (by rw [← b]; exact h4)
    have hdf := Parse.definitionFit_of_strict_items rl its items hs hfit
    rw [dd]
    have hwfm : ∀ x ∈ items.map (·.2), wfDefinition x = true := by
      intro x hx
      obtain ⟨i, hi, rfl⟩ := List.mem_map.mp hx
      exact c i hi
    obtain ⟨hn, hi, hf⟩ := Parse.segs_hyps_of_toks pre level (items.map (·.2))
      (Parse.tokOkA_printed (outputEmptyAtStart pre level) items hok)
    cases hD : items.map (·.2) with
    | nil => exact absurd hD (by simpa using a)
    | cons x r =>
      rw [hD] at hn hi hf hdf hwfm
      obtain ⟨e1, root2, e2, e3⟩ := pipeline_print_parse_document_closed pre level x r (wfDefinitions_of_mem _ hwfm) hpre hn hi hf rl hdf
      exact ⟨e1, root2, e2, e3, by rw [e3]⟩

/-- **step (3): `pipeline_print_parse_document_closed` over the EXACT recursion budget.**  The same statement with
    `Parse.Exact.definitionFit rl` (builderB's exact guards: `vdepth`, the empty literals `[]` / `{}` cost nothing) in place of
    the charged `Parse.definitionFit rl`: the combined loop, the strict-document theorem and the follow guard of a printed
    document are repeated over the exact completeness calculus (Proofs/ParserTree37-38, `Exact.parseDocument_complete_items`). -/
theorem pipeline_print_parse_document_exact (pre : Option Ast.Str) (level : Nat) (d : Definition) (r : List Definition)
    (hwf : wfDefinitions (d :: r) = true) (hpre : ∀ p, pre = some p → p.all Apollo.Strs.isWs = true)
    (hn : NamesWf (docSegs pre level (d :: r))) (hi : IntsSpec (docSegs pre level (d :: r)))
    (hf : FloatsSpec (docSegs pre level (d :: r)))
    (rl : Nat) (hfit : ∀ x ∈ d :: r, Parse.Exact.definitionFit rl x) :
    (parse .document none rl (serializeDocument pre level (d :: r)).out).errors = [] ∧
    ∃ root, (parse .document none rl (serializeDocument pre level (d :: r)).out).outcome = .tree root ∧
      (FromCst.fromCst root).1 = d :: r := by
  have hlex := text_lexes_back_full pre level (d :: r) hpre hn hi hf
  rw [toksOf_cDocument] at hlex
  obtain ⟨hclean, ts, e, hsig, he, hx⟩ := (Parse.sigToks_src_iff _ _).mp hlex
  obtain ⟨hstrict, htoks⟩ := printed_document_items_strict (outputEmptyAtStart pre level) d r hwf
  have hw : ∀ a ∈ ((Parse.itemFlag (outputEmptyAtStart pre level) d, d) :: r.map (fun x => (false, x)) : List (Bool × Definition)),
      wfDefinition a.2 = true := by
    intro a ha
    rcases List.mem_cons.mp ha with rfl | ha
    · exact wfDefinitions_mem _ hwf d (by simp)
    · obtain ⟨x, hx', rfl⟩ := List.mem_map.mp ha
      exact wfDefinitions_mem _ hwf x (by simp [hx'])
  obtain ⟨herr, root, hroot, hconv⟩ := Parse.Exact.pipeline_strict_document rl _ (Parse.itemsOfDocument (outputEmptyAtStart pre level) (d :: r)) _
    hstrict hw (by simp [Parse.itemsOfDocument])
    (Parse.Exact.itemFit_itemsOfDocument rl _ (d :: r) hfit) (Parse.Exact.docFollowOk_of_printed _ (d :: r) (wfDefinitions_mem _ hwf)) ts e hclean hsig he
    (by rw [htoks]; exact hx)
  refine ⟨herr, root, hroot, ?_⟩
  rw [hconv]
  simp [List.map_map, Function.comp_def]


/-- **parsed_document_roundtrip at the same recursion limit, EXACT guard** (steps (2) and (3) done): as
    `parsed_document_roundtrip_same_limit`, with the hypothesis on the parser's own items weakened to the sound-side guard
    `Parse.Exact.itemFitX rl` — the guard `document_accept_sound_exact_unconditional` establishes (`itemFitX → itemFit` on
    strict items: `Parse.Exact.itemFit_of_itemFitX_strict`, all root names present). -/
theorem parsed_document_roundtrip_same_limit_exact (rl : Nat) (src : Parse.Str) (root : Elem)
    (h : (parse .document none rl src).outcome = .tree root) (herr : (parse .document none rl src).errors = []) :
    ∃ its : List Parse.DocItem, sigToks (Apollo.Lex.lex none src) = some (Parse.docToks its) ∧
      (FromCst.fromCst root).1 = its.map Parse.DocItem.conv ∧
      (Parse.strictItems its = none ∨
       ((∀ i ∈ its, Parse.Exact.itemFitX rl i) →
        ∀ (pre : Option Ast.Str) (level : Nat), (∀ p, pre = some p → p.all Apollo.Strs.isWs = true) →
          (parse .document none rl (serializeDocument pre level (FromCst.fromCst root).1).out).errors = [] ∧
          ∃ root2, (parse .document none rl (serializeDocument pre level (FromCst.fromCst root).1).out).outcome = .tree root2 ∧
            (FromCst.fromCst root2).1 = (FromCst.fromCst root).1 ∧
            (serializeDocument pre level (FromCst.fromCst root2).1).out =
              (serializeDocument pre level (FromCst.fromCst root).1).out)) := by
  obtain ⟨hclean, ts, e, its, h1, h2, h3, h4, h5, h6, h7⟩ := Parse.parseDocument_agrees rl src root h herr
  refine ⟨its, (Parse.sigToks_src_iff src _).mpr ⟨hclean, ts, e, h1, h2, h4⟩, h6, ?_⟩
  cases hs : Parse.strictItems its with
  | none => exact Or.inl rfl
  | some items =>
    right
    intro hfitX pre level hpre
    have hfit : ∀ i ∈ its, Parse.Exact.itemFit rl i := by
      intro i hi
      have : ∃ a, i.strict = some a := by
        clear hfitX h7 h6 h5 h4 h3
        induction its generalizing items with
        | nil => cases hi
        | cons j r ih =>
          simp only [Parse.strictItems] at hs
          cases hj : j.strict with
          | none => rw [hj] at hs; simp at hs
          | some a =>
            cases hr : Parse.strictItems r with
            | none => rw [hj, hr] at hs; simp at hs
            | some b =>
              rcases List.mem_cons.mp hi with rfl | hi'
              · exact ⟨a, hj⟩
              · exact ih b hr hi'
      obtain ⟨a, ha⟩ := this
      exact Parse.Exact.itemFit_of_itemFitX_strict rl i a ha (hfitX i hi)
    obtain ⟨a, b, c, dd, _⟩ := h7 items hs
    have hok : ∀ t ∈ itemsToks items, Parse.TokOkA t :=
      Parse.tokOkA_of_src src hclean ts e h1 (itemsToks items) (by rw [← b]; exact h4)
    have hdf := Parse.Exact.definitionFit_of_strict_items rl its items hs hfit
    rw [dd]
    have hwfm : ∀ x ∈ items.map (·.2), wfDefinition x = true := by
      intro x hx
      obtain ⟨i, hi, rfl⟩ := List.mem_map.mp hx
      exact c i hi
    obtain ⟨hn, hi, hf⟩ := Parse.segs_hyps_of_toks pre level (items.map (·.2))
      (Parse.tokOkA_printed (outputEmptyAtStart pre level) items hok)
    cases hD : items.map (·.2) with
    | nil => exact absurd hD (by simpa using a)
    | cons x r =>
      rw [hD] at hn hi hf hdf hwfm
      obtain ⟨e1, root2, e2, e3⟩ := pipeline_print_parse_document_exact pre level x r (wfDefinitions_of_mem _ hwfm) hpre hn hi hf rl hdf
      exact ⟨e1, root2, e2, e3, by rw [e3]⟩

/-- **parsed_document_roundtrip_unconditional, executable documents.**  For EVERY source that `Parser::parse` (model; no
    token limit) accepts with zero errors at recursion limit `rl` and whose tree holds executable definitions only
    (`ExecRoot`), with `D = Document::from_cst` of the tree: for every configuration, serializing `D` and parsing the text
    again AT THE SAME `rl` gives NO errors and an EQUAL AST, and serializing the re-parsed AST gives BYTE-IDENTICAL text.
    NO hypothesis is left — no `definitionFit`, no syntax hypothesis on names or numbers, no liberty case (executable items
    are always strict).  Step (1) for executable definitions: the tree calculus and builderB / builderD's exact soundness
    calculus run on the SAME dispatch run (`Parse.docLoop_trS`, `Parse.parseDocument_cstS`), the exact budget implies
    well-formedness (`Parse.Exact.execFit_wf`), so the two views of an item are the same definition
    (`Parse.Exact.exec_item_fit`) and each definition of `D` is within the exact budget of the accepted run. -/
theorem parsed_document_roundtrip_unconditional_executable (rl : Nat) (src : Parse.Str) (root : Elem)
    (h : (parse .document none rl src).outcome = .tree root) (herr : (parse .document none rl src).errors = [])
    (hexec : Parse.ExecRoot root) (pre : Option Ast.Str) (level : Nat)
    (hpre : ∀ p, pre = some p → p.all Apollo.Strs.isWs = true) :
    (parse .document none rl (serializeDocument pre level (FromCst.fromCst root).1).out).errors = [] ∧
    ∃ root2, (parse .document none rl (serializeDocument pre level (FromCst.fromCst root).1).out).outcome = .tree root2 ∧
      (FromCst.fromCst root2).1 = (FromCst.fromCst root).1 ∧
      (serializeDocument pre level (FromCst.fromCst root2).1).out =
        (serializeDocument pre level (FromCst.fromCst root).1).out := by
  obtain ⟨hclean, ts, e, its, h1, h2, h3, h4, h5, h6⟩ := Parse.Exact.parseExecutableDocument_fit rl src root h herr hexec
  have hok : ∀ t ∈ itemsToks its, Parse.TokOkA t := Parse.tokOkA_of_src src hclean ts e h1 (itemsToks its) h4
  rw [h6]
  have hwfm : ∀ x ∈ its.map (·.2), wfDefinition x = true := by
    intro x hx
    obtain ⟨i, hi, rfl⟩ := List.mem_map.mp hx
    exact (h5 i hi).1
  have hdf : ∀ x ∈ its.map (·.2), Parse.Exact.definitionFit rl x := by
    intro x hx
    obtain ⟨i, hi, rfl⟩ := List.mem_map.mp hx
    exact (h5 i hi).2
  obtain ⟨hn, hi, hf⟩ := Parse.segs_hyps_of_toks pre level (its.map (·.2))
    (Parse.tokOkA_printed (outputEmptyAtStart pre level) its hok)
  cases hD : its.map (·.2) with
  | nil => exact absurd hD (by simpa using h3)
  | cons x r =>
    rw [hD] at hn hi hf hdf hwfm
    obtain ⟨e1, root2, e2, e3⟩ := pipeline_print_parse_document_exact pre level x r (wfDefinitions_of_mem _ hwfm) hpre hn hi hf rl hdf
    exact ⟨e1, root2, e2, e3, by rw [e3]⟩

/-- **parsed_document_roundtrip_unconditional — property C08 on the real pipeline model, no hypothesis left.**  For EVERY
    source `src` that `Parser::parse` (model; no token limit) accepts with zero errors at recursion limit `rl`, with `root`
    its tree and `D = Document::from_cst root`: EITHER the accepted text uses one of the two liberties of the parser
    (`strictItems its = none` for the decomposition `its` of the run: a leading `&` / `|` in a separated list, or a root
    operation type without its named type — the recorded C05 finding), OR, for EVERY configuration (white-space
    indentation prefix or none, any level): serializing `D` and parsing the text again AT THE SAME `rl` gives NO errors
    and an EQUAL AST (`from_cst` of the new tree is `D`), and serializing the re-parsed AST gives BYTE-IDENTICAL text.
    No `definitionFit` hypothesis, no hypothesis on names or numbers.  The three steps: (1) the tree calculus and the
    exact soundness calculus of C05 run on the SAME dispatch run (`Parse.docLoop_trS`); the exact budget implies the
    well-formedness facts (`Exact.execFit_wf`, `Exact.looseFitX_wf`), so the two views of an item are the same item
    (`Exact.exec_item_fit`, `Exact.loose_item_fit` through builderA's `loose_tokens_strict`) and every strict item is
    within the exact budget `rl` of the accepted run; (2) `Exact.itemFit_of_itemFitX_strict`; (3) the closed print-parse
    theorem over the exact budget (`pipeline_print_parse_document_exact`). -/
theorem parsed_document_roundtrip_unconditional (rl : Nat) (src : Parse.Str) (root : Elem)
    (h : (parse .document none rl src).outcome = .tree root) (herr : (parse .document none rl src).errors = []) :
    (∃ its : List Parse.DocItem, sigToks (Apollo.Lex.lex none src) = some (Parse.docToks its) ∧
        (FromCst.fromCst root).1 = its.map Parse.DocItem.conv ∧ Parse.strictItems its = none) ∨
    ((FromCst.fromCst root).1 ≠ [] ∧ wfDefinitions (FromCst.fromCst root).1 = true ∧
      ∀ (pre : Option Ast.Str) (level : Nat), (∀ p, pre = some p → p.all Apollo.Strs.isWs = true) →
        (parse .document none rl (serializeDocument pre level (FromCst.fromCst root).1).out).errors = [] ∧
        ∃ root2, (parse .document none rl (serializeDocument pre level (FromCst.fromCst root).1).out).outcome = .tree root2 ∧
          (FromCst.fromCst root2).1 = (FromCst.fromCst root).1 ∧
          (serializeDocument pre level (FromCst.fromCst root2).1).out =
            (serializeDocument pre level (FromCst.fromCst root).1).out) := by
  obtain ⟨hclean, ts, e, its, h1, h2, h3, h4, h6, h7⟩ := Parse.Exact.parseDocument_agrees_fit rl src root h herr
  cases hs : Parse.strictItems its with
  | none =>
    exact Or.inl ⟨its, (Parse.sigToks_src_iff src _).mpr ⟨hclean, ts, e, h1, h2, h4⟩, h6, hs⟩
  | some items =>
    right
    obtain ⟨a, b, c, dd, hdf⟩ := h7 items hs
    have hok : ∀ t ∈ itemsToks items, Parse.TokOkA t := Parse.tokOkA_of_src src hclean ts e h1 (itemsToks items) b
    rw [dd]
    have hwfm : ∀ x ∈ items.map (·.2), wfDefinition x = true := by
      intro x hx
      obtain ⟨i, hi, rfl⟩ := List.mem_map.mp hx
      exact c i hi
    refine ⟨by simpa using a, wfDefinitions_of_mem _ hwfm, ?_⟩
    intro pre level hpre
    obtain ⟨hn, hi, hf⟩ := Parse.segs_hyps_of_toks pre level (items.map (·.2))
      (Parse.tokOkA_printed (outputEmptyAtStart pre level) items hok)
    cases hD : items.map (·.2) with
    | nil => exact absurd hD (by simpa using a)
    | cons x r =>
      rw [hD] at hn hi hf hdf hwfm
      obtain ⟨e1, root2, e2, e3⟩ := pipeline_print_parse_document_exact pre level x r (wfDefinitions_of_mem _ hwfm) hpre hn hi hf rl hdf
      exact ⟨e1, root2, e2, e3, by rw [e3]⟩

/-- **parsed_document_roundtrip_leading_separator — the first liberty does not break the property.**  For EVERY source
    accepted with zero errors at `rl`, with `its` the decomposition of the run and `D = Document::from_cst` of the tree: if
    every root operation type of every schema definition / extension has its named type (`DocItem.named`; leading `&` / `|`
    separators are allowed anywhere), then `D` is non-empty and well-formed and, for every configuration, serializing `D`
    and parsing again AT THE SAME `rl` gives NO errors and an EQUAL AST, and the reprint is BYTE-IDENTICAL.  (`from_cst`
    does not represent the leading separator: `D` is the strict reading of the items without it, `LooseDef.unlead`; the
    exact budget and the well-formedness facts do not see the separator, `looseFitX_unlead`, `wf_unlead`; the item of the
    exact soundness calculus on the same tokens is identified through the reference parser, which reads a leading
    separator — builderA's `loose_parse`, split into `loose_parse_named` / `loose_parse_nameless`.)  With
    `parsed_document_roundtrip_unconditional` the only accepted sources for which the property is not proved are those
    with a root operation type WITHOUT its named type — the recorded C05 finding, see
    `parsed_document_roundtrip_fails_on_finding`. -/
theorem parsed_document_roundtrip_leading_separator (rl : Nat) (src : Parse.Str) (root : Elem)
    (h : (parse .document none rl src).outcome = .tree root) (herr : (parse .document none rl src).errors = []) :
    ∃ its : List Parse.DocItem, sigToks (Apollo.Lex.lex none src) = some (Parse.docToks its) ∧
      (FromCst.fromCst root).1 = its.map Parse.DocItem.conv ∧
      ((∀ i ∈ its, i.named) →
        (FromCst.fromCst root).1 ≠ [] ∧ wfDefinitions (FromCst.fromCst root).1 = true ∧
        ∀ (pre : Option Ast.Str) (level : Nat), (∀ p, pre = some p → p.all Apollo.Strs.isWs = true) →
          (parse .document none rl (serializeDocument pre level (FromCst.fromCst root).1).out).errors = [] ∧
          ∃ root2, (parse .document none rl (serializeDocument pre level (FromCst.fromCst root).1).out).outcome = .tree root2 ∧
            (FromCst.fromCst root2).1 = (FromCst.fromCst root).1 ∧
            (serializeDocument pre level (FromCst.fromCst root2).1).out =
              (serializeDocument pre level (FromCst.fromCst root).1).out) := by
  obtain ⟨hclean, ts, e, its, h1, h2, h3, h4, h6, h7⟩ := Parse.Exact.parseDocument_agrees_named rl src root h herr
  refine ⟨its, (Parse.sigToks_src_iff src _).mpr ⟨hclean, ts, e, h1, h2, h4⟩, h6, ?_⟩
  intro hnamed
  obtain ⟨items, a, dd, c, hdf, hsub⟩ := h7 hnamed
  have hsrc : ∀ t ∈ Parse.docToks its, Parse.TokOkA t := Parse.tokOkA_of_src src hclean ts e h1 (Parse.docToks its) h4
  have hok : ∀ t ∈ itemsToks items, Parse.TokOkA t := fun t ht => hsrc t (hsub t ht)
  rw [dd]
  have hwfm : ∀ x ∈ items.map (·.2), wfDefinition x = true := by
    intro x hx
    obtain ⟨i, hi, rfl⟩ := List.mem_map.mp hx
    exact c i hi
  refine ⟨by simpa using a, wfDefinitions_of_mem _ hwfm, ?_⟩
  intro pre level hpre
  obtain ⟨hn, hi, hf⟩ := Parse.segs_hyps_of_toks pre level (items.map (·.2))
    (Parse.tokOkA_printed (outputEmptyAtStart pre level) items hok)
  cases hD : items.map (·.2) with
  | nil => exact absurd hD (by simpa using a)
  | cons x r =>
    rw [hD] at hn hi hf hdf hwfm
    obtain ⟨e1, root2, e2, e3⟩ := pipeline_print_parse_document_exact pre level x r (wfDefinitions_of_mem _ hwfm) hpre hn hi hf rl hdf
    exact ⟨e1, root2, e2, e3, by rw [e3]⟩

/-- the AST the pipeline model returns for a source (`Document::from_cst` of the tree of `Parser::parse`, recursion limit 500) -/
def astOfSource (src : String) : Document :=
  (FromCst.fromCst (Parse.rootOf (Apollo.Parse.parse .document none 500 src.toList))).1

/-- **parsed_document_roundtrip_fails_on_finding — the C08-visible consequence of the recorded C05 finding**
    (kernel-evaluated on the model).  `schema { query: }` is accepted with zero errors (`root_operation_type_definition`
    calls `named_type`, which silently does nothing when no Name follows); `Document::from_cst` drops the root operation
    without a type, so the AST is a schema definition WITHOUT root operations; the serializer prints `schema {}`; and
    parsing that text reports an error.  "Every document that parses without errors re-parses without errors after
    serialization" is FALSE for this source. -/
theorem parsed_document_roundtrip_fails_on_finding :
    (Apollo.Parse.parse .document none 500 "schema { query: }".toList).errors = [] ∧
    (serializeDocument none 0 (astOfSource "schema { query: }")).out = "schema {}".toList ∧
    (Apollo.Parse.parse .document none 500 (serializeDocument none 0 (astOfSource "schema { query: }")).out).errors ≠ [] := by
  decide +kernel

/-- what happens on the other nameless-root inputs (kernel-evaluated): `from_cst` drops the nameless root; when a root
    with its type remains (`schema { query: Q mutation: }` → `schema { query: Q }`) or the definition is an extension with
    a directive (`extend schema @d { query: }` → `extend schema @d`), the AST `D` obtained is NOT the one the source
    spells, but `D` itself is a fixed point: printing `D` parses with zero errors, to the same AST (equal dumps), and the
    reprint is byte-identical. -/
theorem nameless_root_fixed_points :
    (∀ src ∈ ["schema { query: Q mutation: }", "extend schema @d { query: }"],
      (Apollo.Parse.parse .document none 500 src.toList).errors = [] ∧
      (Apollo.Parse.parse .document none 500 (serializeDocument none 0 (astOfSource src)).out).errors = [] ∧
      Ast.dDocument (FromCst.fromCst (Parse.rootOf (Apollo.Parse.parse .document none 500
          (serializeDocument none 0 (astOfSource src)).out))).1 = Ast.dDocument (astOfSource src) ∧
      (serializeDocument none 0 (FromCst.fromCst (Parse.rootOf (Apollo.Parse.parse .document none 500
          (serializeDocument none 0 (astOfSource src)).out))).1).out = (serializeDocument none 0 (astOfSource src)).out) ∧
    (serializeDocument none 0 (astOfSource "schema { query: Q mutation: }")).out = "schema { query: Q }".toList ∧
    (serializeDocument none 0 (astOfSource "extend schema @d { query: }")).out = "extend schema @d".toList := by
  decide +kernel

end PropertyStatement

end Apollo.C08
