import ApolloModel.Proofs.Numbers3
/-
C10 — Names, numbers and type references are well-formed.

Models: Model/Name.lean (`Name::is_valid_syntax`), Model/Numbers.lean (`IntValue::valid_syntax`,
`FloatValue::valid_syntax`, `From<i32>`, `From<f64>`), all hand-written mirrors of name.rs /
ast/impls.rs tied by the exhaustive correspondence stream N.  The specification side is the
October 2021 lexical grammar written as explicit decompositions (Proofs/Numbers.lean `Spec*`).
Type-reference round trip: see C07/C08 (parser model); here it is checked on the implementation.
-/
namespace Apollo.C10
open Apollo Apollo.Num

/-- A Name can be created from a string iff it matches `[_A-Za-z][_0-9A-Za-z]*`. -/
theorem name_valid_iff (s : Str) :
    isValidName s = true ↔ ∃ c cs, s = c :: cs ∧ isNameStart c = true ∧ ∀ x ∈ cs, isNameContinue x = true :=
  Num.name_valid_iff s

/-- NameStart is exactly `_`, `A`–`Z`, `a`–`z`; NameContinue adds the digits. -/
theorem nameStart_iff (c : Char) :
    isNameStart c = true ↔ (c = '_' ∨ ('A' ≤ c ∧ c ≤ 'Z') ∨ ('a' ≤ c ∧ c ≤ 'z')) := by
  simp only [isNameStart, isAsciiAlpha, Bool.or_eq_true, Bool.and_eq_true, decide_eq_true_eq, beq_iff_eq]
  constructor
  · rintro ((h | h) | h)
    · exact Or.inr (Or.inr h)
    · exact Or.inr (Or.inl h)
    · exact Or.inl h
  · rintro (h | h | h)
    · exact Or.inr h
    · exact Or.inl (Or.inr h)
    · exact Or.inl (Or.inl h)

/-- Integer-literal deserialization accepts exactly the spec's IntValue texts. -/
theorem int_valid_iff_spec (s : Str) : validInt s = true ↔ SpecIntegerPart s := Num.int_valid_iff_spec s

/-- Float-literal deserialization accepts exactly the spec's FloatValue texts
    (in particular an exponent indicator must be followed by at least one digit). -/
theorem float_valid_iff_spec (s : Str) : validFloat s = true ↔ SpecFloat s := Num.float_valid_iff_spec s

/-- Every integer — hence every `i32` — serializes to a valid IntValue literal. -/
theorem int_from_i32_valid (i : Int) : validInt (intToString i) = true := Num.int_from_i32_valid i

/-- Every finite `f64`, given the shape of Rust's `Display` output, serializes to a valid FloatValue. -/
theorem float_text_valid (t : Str) (h : RustF64Display t) : validFloat (floatFixup t) = true :=
  Num.float_text_valid t h

-- Non-vacuity / regression witnesses
example : validFloat "1e".toList = false := by decide          -- C10 defect (fixed): empty exponent
example : validFloat "1e+".toList = false := by decide
example : validFloat "-0.5E-10".toList = true := by decide
example : validInt "-0".toList = true := by decide
example : validInt "01".toList = false := by decide
example : intToString (-7) = ['-', '7'] := by simp [intToString, natDigits, digitChar]
example : RustF64Display "-0".toList := ⟨"-0".toList, [], by simp, ⟨['0'], Or.inr rfl, Or.inl rfl⟩, Or.inl rfl⟩

end Apollo.C10
