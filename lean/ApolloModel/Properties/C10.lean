import ApolloModel.Proofs.Numbers3
import ApolloModel.Proofs.NumbersParse
import ApolloModel.Proofs.TypeText
import ApolloModel.Proofs.ParserWhole
/-
C10 — Names, numbers and type references are well-formed.

Models: Model/Name.lean (`Name::is_valid_syntax`), Model/Numbers.lean (`IntValue::valid_syntax`,
`FloatValue::valid_syntax`, `From<i32>`, `From<f64>`), all hand-written mirrors of name.rs /
ast/impls.rs tied by the exhaustive correspondence stream N.  The specification side is the
October 2021 lexical grammar written as explicit decompositions (Proofs/Numbers.lean `Spec*`).
Type-reference round trip: see C07/C08 (parser model); here it is checked on the implementation.
-/
namespace Apollo.C10
open Apollo Apollo.Num

/-- A Name can be created from a string iff it matches `[_A-Za-z][_0-9A-Za-z]*`. -/
theorem name_valid_iff (s : Str) :
    isValidName s = true ↔ ∃ c cs, s = c :: cs ∧ isNameStart c = true ∧ ∀ x ∈ cs, isNameContinue x = true :=
  Num.name_valid_iff s

/-- NameStart is exactly `_`, `A`–`Z`, `a`–`z`; NameContinue adds the digits. -/
theorem nameStart_iff (c : Char) :
    isNameStart c = true ↔ (c = '_' ∨ ('A' ≤ c ∧ c ≤ 'Z') ∨ ('a' ≤ c ∧ c ≤ 'z')) := by
  simp only [isNameStart, isAsciiAlpha, Bool.or_eq_true, Bool.and_eq_true, decide_eq_true_eq, beq_iff_eq]
  constructor
  · rintro ((h | h) | h)
    · exact Or.inr (Or.inr h)
    · exact Or.inr (Or.inl h)
    · exact Or.inl h
  · rintro (h | h | h)
    · exact Or.inr h
    · exact Or.inl (Or.inr h)
    · exact Or.inl (Or.inl h)

/-- Integer-literal deserialization accepts exactly the spec's IntValue texts. -/
theorem int_valid_iff_spec (s : Str) : validInt s = true ↔ SpecIntegerPart s := Num.int_valid_iff_spec s

/-- Float-literal deserialization accepts exactly the spec's FloatValue texts
    (in particular an exponent indicator must be followed by at least one digit). -/
theorem float_valid_iff_spec (s : Str) : validFloat s = true ↔ SpecFloat s := Num.float_valid_iff_spec s

/-- Every integer — hence every `i32` — serializes to a valid IntValue literal. -/
theorem int_from_i32_valid (i : Int) : validInt (intToString i) = true := Num.int_from_i32_valid i

/-- Every finite `f64`, given the shape of Rust's `Display` output, serializes to a valid FloatValue. -/
theorem float_text_valid (t : Str) (h : RustF64Display t) : validFloat (floatFixup t) = true :=
  Num.float_text_valid t h

-- Non-vacuity / regression witnesses
example : validFloat "1e".toList = false := by decide          -- C10 defect (fixed): empty exponent
example : validFloat "1e+".toList = false := by decide
example : validFloat "-0.5E-10".toList = true := by decide
example : validInt "-0".toList = true := by decide
example : validInt "01".toList = false := by decide
example : intToString (-7) = ['-', '7'] := by simp [intToString, natDigits, digitChar]
example : RustF64Display "-0".toList := ⟨"-0".toList, [], by simp, ⟨['0'], Or.inr rfl, Or.inl rfl⟩, Or.inl rfl⟩

/-! ### growth: the two round trips -/

/-- **Integers: print then parse is the identity, for every integer** (hence every `i32`): the decimal
    printer `intToString` (model of `i32::to_string`, used by `From<i32> for IntValue`) followed by the
    decimal parser `parseDec` (model of `str::parse`, used by `try_to_i32`). -/
theorem int_print_parse (i : Int) : parseDec (intToString i) = some i := Num.parseDec_intToString i

/-- `IntValue::from(v).try_to_i32() == Ok(v)` for every `v` in the `i32` range. -/
theorem i32_roundtrip (i : Int) (h : inI32 i = true) : tryToI32 (intToString i) = some i :=
  Num.tryToI32_intToString i h

/-- The converse half: for a text with IntValue syntax (`-?(0|[1-9][0-9]*)`; `-0` is one, `00` and `+1`
    are not) `try_to_i32` has a decimal value to look at, succeeds with that value when it fits `i32`, and
    fails exactly when it does not — overflow is the only error, as the doc comment of `try_to_i32` says. -/
theorem try_to_i32_fails_iff_overflow (s : Str) (h : validInt s = true) :
    ∃ v, parseDec s = some v ∧ (tryToI32 s = none ↔ inI32 v = false) ∧ (inI32 v = true → tryToI32 s = some v) :=
  Num.tryToI32_of_validInt s h

/-- **Type references: Display then `Type::parse`**, for EVERY type reference of unbounded nesting whose
    names are `Name`s.  The text printed by `Display for Type` (`tyText`)
    (1) lexes without any error item,
    (2) to exactly the tokens of the type (no ignored token in between) followed by EOF,
    (3) is accepted by the type entry point (`parse_type`, C07's parser model) without any error when the
        list nesting does not exceed the recursion limit,
    (4) which consumes the whole input,
    (5) and the reference AST parser reads the tokens back as the same type.
    Step (5) uses the reference parser `pTy` (tied to `from_cst.rs` by the streams c08.ast and c10.typert),
    not a model of the CST→AST conversion. -/
theorem type_display_parse_roundtrip (t : Ast.Ty) (hwf : Ast.tyNamesWf t = true) (rl : Nat)
    (hd : Parse.tyDepth t ≤ rl) :
    (∀ it ∈ Lex.lex none (Ast.tyText t), it.isErr = false) ∧
    Ast.sigToks (Lex.lex none (Ast.tyText t)) = some (Ast.tTy t) ∧
    (Parse.parse .type none rl (Ast.tyText t)).errors = [] ∧
    (Parse.parse .type none rl (Ast.tyText t)).leftover = [] ∧
    Ast.pTy (Ast.szTy t) (Ast.tTy t) = some (t, []) := by
  have herr := Parse.parseType_tyText rl t hwf hd
  obtain ⟨root, hroot⟩ := Parse.parseType_tree none rl (Ast.tyText t)
  refine ⟨?_, Ast.sigToks_tyText t hwf, herr,
    Parse.standalone_whole_input .type (Or.inl rfl) rl _ root hroot herr, ?_⟩
  · intro it hit
    rw [Ast.lex_tyText_whole t hwf] at hit
    rcases List.mem_append.mp hit with h1 | h1
    · exact Ast.tyItems_no_err t it h1
    · have : it = .tok .eof [] := by simpa using h1
      rw [this]; rfl
  · have := Ast.ty_roundtrip t (Ast.szTy t) [] (Nat.le_refl _) (by simp)
    simpa using this

/-- different types print different token lists (so the type read back is the only candidate) -/
theorem type_tokens_injective (t t' : Ast.Ty) (h : Ast.tTy t = Ast.tTy t') : t = t' := by
  have a := Ast.ty_roundtrip t (max (Ast.szTy t) (Ast.szTy t')) [] (Nat.le_max_left _ _) (by simp)
  have b := Ast.ty_roundtrip t' (max (Ast.szTy t) (Ast.szTy t')) [] (Nat.le_max_right _ _) (by simp)
  rw [h] at a
  rw [a] at b
  simpa using b

-- Non-vacuity
example : parseDec "-2147483648".toList = some (-2147483648) := by decide
example : tryToI32 "2147483648".toList = none := by decide
example : tryToI32 "-0".toList = some 0 := by decide
example : Ast.tyText (.nonNullList (.list (.nonNullNamed "A_1".toList))) = "[[A_1!]]!".toList := by decide

end Apollo.C10
