import ApolloModel.Proofs.ParserWhole
import ApolloModel.Proofs.ParserType10
import ApolloModel.Proofs.ParserSel9
import ApolloModel.Proofs.ParserComplete29
import ApolloModel.Proofs.ParserExactS7
/-
C07 — Standalone type and field-set parsing consume the whole input.
Parser model of C01 with the repaired entry points (`expect_end_of_input`).
-/
namespace Apollo.C07
open Apollo.Parse Apollo.Rowan

/-- If `parse_type` / `parse_selection_set` (no token limit) report no error, the parser consumed
    the whole input: nothing is left over except the empty EOF token. -/
theorem standalone_whole_input (e : Entry) (he : e = .type ∨ e = .selectionSet) (rl : Nat) (src : Parse.Str)
    (root : Elem) (h : (parse e none rl src).outcome = .tree root) (herr : (parse e none rl src).errors = []) :
    (parse e none rl src).leftover = [] :=
  Parse.standalone_whole_input e he rl src root h herr

/-- `parse_type` always ends with a tree (no panic: C01 `parse_no_panic`; no fuel / progress abort:
    C01 `parse_terminates_partial`), so in particular an error-free parse has one.  (For `parse_selection_set`
    the corresponding statement still needs the termination of the selection grammar, see C01.) -/
theorem whole_input_is_one_construct_statement :
    ∀ (rl : Nat) (src : Parse.Str), (parse .type none rl src).errors = [] → ∃ root, (parse .type none rl src).outcome = .tree root :=
  fun rl src _ => Parse.parseType_tree none rl src

-- Regression witnesses for the repaired defect (kernel-evaluated on the model)
example : (parse .type none 500 ['A', ' ', ']', ']', ' ', 'x']).errors ≠ [] := by decide +kernel
example : (parse .selectionSet none 500 ['a', ' ', '}', ' ', 'b']).errors ≠ [] := by decide +kernel
example : (parse .type none 500 ['[', 'A', '!', ']', '!', ' ']).errors = [] := by decide +kernel
example : (parse .selectionSet none 500 ['{', 'a', '}']).errors = [] := by decide +kernel

/-! ### `parse_type`: the whole input is ONE type of the grammar (growth) -/

/-- **Acceptance is sound.**  `Parser::parse_type` without token limit, any recursion limit, ANY source text:
    if the parse reports no error, then the source has no lexer error and its significant tokens (whitespace,
    comments, commas removed; `srcToks` is the parser's token queue after lexing, see `type_accept_sound_lex`
    for the lexer model's output) are exactly `tTy t` for some type reference `t` of the grammar
    `Type : NamedType | [Type] | Type!` (unbounded nesting), followed by the end-of-input token.
    Proved by induction on the fuel of `ty.rs::parse` with an invariant relating the tokens consumed so far
    to the queue (Proofs/ParserType1–6); the outcome is always a tree (`Parse.parseType_tree`). -/
theorem type_accept_sound (rl : Nat) (src : Parse.Str) (herr : (parse .type none rl src).errors = []) :
    LexClean src ∧ ∃ (t : Ast.Ty) (ts : List Tok) (e : Tok),
      sig (srcToks src) = ts ++ [e] ∧ e.kind = .eof ∧ ts.map astOf = (Ast.tTy t).map some :=
  Parse.parseType_sound' rl src herr

/-- the earlier form, with the (now redundant) hypothesis that the outcome is a tree -/
theorem type_accept_sound_tree (rl : Nat) (src : Parse.Str) (root : Elem)
    (_h : (parse .type none rl src).outcome = .tree root) (herr : (parse .type none rl src).errors = []) :
    LexClean src ∧ ∃ (t : Ast.Ty) (ts : List Tok) (e : Tok),
      sig (srcToks src) = ts ++ [e] ∧ e.kind = .eof ∧ ts.map astOf = (Ast.tTy t).map some :=
  type_accept_sound rl src herr

/-- Contrapositive, which is how the known C02 defect (ty.rs drops a token that cannot start a type, e.g.
    `[!`) stays consistent with acceptance: whenever the significant tokens are NOT one type followed by the
    end of input, an error is reported — the dropped token never goes unnoticed. -/
theorem type_reject_non_type (rl : Nat) (src : Parse.Str)
    (hnot : ¬ ∃ (t : Ast.Ty) (ts : List Tok) (e : Tok),
      sig (srcToks src) = ts ++ [e] ∧ e.kind = .eof ∧ ts.map astOf = (Ast.tTy t).map some) :
    (parse .type none rl src).errors ≠ [] :=
  fun herr => hnot (Parse.parseType_sound' rl src herr).2

/-- **Acceptance is complete.**  For every type reference `t` whose list nesting is at most the recursion
    limit: any source text without lexer error whose significant tokens are `tTy t` (names: whatever Name
    tokens the lexer produced) followed by the end of input, with ignored tokens (whitespace, comments,
    commas) anywhere EXCEPT in front of the first token, is parsed without any error.
    (A leading ignored token is rejected by `parse_type`: witness below.) -/
theorem type_accept_complete (rl : Nat) (src : Parse.Str) (t : Ast.Ty) (ts : List Tok) (e : Tok)
    (hclean : LexClean src) (hsig : sig (srcToks src) = ts ++ [e]) (he : e.kind = .eof)
    (hty : ts.map astOf = (Ast.tTy t).map some) (hdepth : Parse.tyDepth t ≤ rl)
    (hhead : ∀ hd tl, srcToks src = hd :: tl → isIgnoredKind hd.kind = false) :
    (parse .type none rl src).errors = [] :=
  Parse.parseType_complete_sig rl src t ts e hclean hsig he hty hdepth hhead

/-! #### the same in terms of the lexer model (`Lex.lex none src`) -/

/-- the parser's token queue is the token list of the lexer model's output (kinds and texts), and the source
    is "lex-clean" iff that output has no error item -/
theorem queue_is_lexer_output (src : Parse.Str) :
    (srcToks src).map (fun t => (t.kind, t.data)) = lexToks src
    ∧ (LexClean src ↔ ∀ it ∈ Lex.lex none src, it.isErr = false) :=
  ⟨Parse.srcToks_lex src, Parse.lexClean_lex src⟩

/-- soundness over `Lex.lex none src`: an error-free `parse_type` means no error item and
    `lexSig src` (the non-ignored tokens of the lexer output) = the tokens of one type, then EOF -/
theorem type_accept_sound_lex (rl : Nat) (src : Parse.Str) (herr : (parse .type none rl src).errors = []) :
    (∀ it ∈ Lex.lex none src, it.isErr = false) ∧
    ∃ (t : Ast.Ty) (ks : List (Lex.Kind × Parse.Str)) (e : Lex.Kind × Parse.Str),
      lexSig src = ks ++ [e] ∧ e.1 = .eof ∧ ks.map astOfKD = (Ast.tTy t).map some :=
  Parse.parseType_sound_lex rl src herr

/-- completeness over `Lex.lex none src` -/
theorem type_accept_complete_lex (rl : Nat) (src : Parse.Str) (t : Ast.Ty)
    (ks : List (Lex.Kind × Parse.Str)) (e : Lex.Kind × Parse.Str)
    (hclean : ∀ it ∈ Lex.lex none src, it.isErr = false) (hsig : lexSig src = ks ++ [e]) (he : e.1 = .eof)
    (hty : ks.map astOfKD = (Ast.tTy t).map some) (hdepth : Parse.tyDepth t ≤ rl)
    (hhead : ∀ p, (lexToks src).head? = some p → isIgnoredKind p.1 = false) :
    (parse .type none rl src).errors = [] :=
  Parse.parseType_complete_lex rl src t ks e hclean hsig he hty hdepth hhead

-- the C02 defect inputs: a token is dropped, and an error is reported
example : (parse .type none 500 "[!".toList).dropped = true ∧ (parse .type none 500 "[!".toList).errors ≠ [] := by decide +kernel
example : (parse .type none 500 "[]".toList).errors ≠ [] := by decide +kernel
example : (parse .type none 500 "A!!".toList).errors ≠ [] := by decide +kernel
example : (parse .type none 500 " A".toList).errors ≠ [] := by decide +kernel
-- completeness witnesses: nesting at the recursion limit, ignored tokens inside and behind
example : (parse .type none 2 "[[A!]!]!".toList).errors = [] := by decide +kernel
example : (parse .type none 1 "[[A]]".toList).errors ≠ [] := by decide +kernel
example : (parse .type none 500 "[ A ,! #c\n ] , !  ".toList).errors = [] := by decide +kernel
example : (parse .type none 0 "A!".toList).errors = [] := by decide +kernel

section Selections
/-! ### `parse_selection_set` (`selection::field_set`): the whole input is ONE field set (growth) -/

/-- **Acceptance is sound** for the other standalone entry point.  `Parser::parse_selection_set` without token
    limit, any recursion limit, any source text: if the parse ends with a tree and reports no error, then the
    source has no lexer error and its significant tokens are — `IsFieldSet` — either a braced selection set
    `{ Selection+ }` or, brace-less (the FieldSet form `a b { c }`), a non-empty list of selections, in both
    cases followed by the end of input.  `Selection` is the C08 reference grammar (`Ast.tSel`): field with
    optional alias, arguments, directives and nested selection set; `... Name Directives?` with Name ≠ `on`;
    `... (on Name)? Directives? { Selection+ }`.
    The `_tree` hypothesis stays until the termination of the selection grammar is proved (C01). -/
theorem fieldset_accept_sound_tree (rl : Nat) (src : Parse.Str) (root : Elem)
    (h : (parse .selectionSet none rl src).outcome = .tree root) (herr : (parse .selectionSet none rl src).errors = []) :
    LexClean src ∧ ∃ (x : List Ast.Tok) (ts : List Tok) (e : Tok),
      sig (srcToks src) = ts ++ [e] ∧ e.kind = .eof ∧ TokIs ts x ∧ IsFieldSet x :=
  Parse.parseFieldSet_sound_tree rl src root h herr

/-- the braced form, at any place inside a document: started on `{`, an error-free run of
    `selection::selection_set` consumes exactly `{ Selection+ }` and leaves the rest of the queue untouched -/
theorem selection_set_accept_sound (n : Nat) (s s' : PState) (t : Tok) (rest : List Tok) (w : TW s) (he : EofEnd s)
    (ht : Toks s = t :: rest) (hk : t.kind = .lCurly) (h : (selectionSet n).run s = .ok () s') (hnd : ¬ Doomed s') :
    ∃ (cs : List Tok) (ss : Ast.Sels), Toks s = cs ++ Toks s' ∧ NoEof cs ∧ ss ≠ Ast.Sels.nil ∧
      TokIs (sig cs) (.p .lCurly :: Ast.tSels ss ++ [.p .rCurly]) := by
  obtain ⟨cs, x, a, b, _, d, ss, hne, rfl⟩ := (Parse.sel_all_sound n).1 s s' t rest w he ht hk h hnd
  exact ⟨cs, ss, a, b, hne, d⟩

-- witnesses (kernel-evaluated on the model)
example : (parse .selectionSet none 500 "a b { c }".toList).errors = [] := by decide +kernel
example : (parse .selectionSet none 500 "{ x: a(b: 1) @d ... on T { c } ...F }".toList).errors = [] := by decide +kernel
example : (parse .selectionSet none 500 "{ ...on }".toList).errors ≠ [] := by decide +kernel
example : (parse .selectionSet none 500 "{ }".toList).errors ≠ [] := by decide +kernel

/-- **Acceptance is sound, with no hypothesis on the outcome**: `parse_selection_set` always ends with a tree
    (no panic: C01 `parse_no_panic`; no abort: builderE's `parse_selection_set_terminates`). -/
theorem fieldset_accept_sound (rl : Nat) (src : Parse.Str) (herr : (parse .selectionSet none rl src).errors = []) :
    LexClean src ∧ ∃ (x : List Ast.Tok) (ts : List Tok) (e : Tok),
      sig (srcToks src) = ts ++ [e] ∧ e.kind = .eof ∧ TokIs ts x ∧ IsFieldSet x :=
  Parse.parseFieldSet_sound rl src herr

/-- both standalone entry points always produce a tree -/
theorem standalone_always_tree (e : Entry) (he : e = .type ∨ e = .selectionSet) (tl : Option Nat) (rl : Nat) (src : Parse.Str) :
    ∃ root, (parse e tl rl src).outcome = .tree root := by
  rcases he with rfl | rfl
  · exact Parse.parseType_tree tl rl src
  · exact Parse.parseFieldSet_tree tl rl src

end Selections

section Executable
/-! ### executable definitions (growth): per-definition lemmas for the document-level theorem -/

/-- `operation::operation_definition`, from ANY state: if the run adds no error, the tokens it consumed (the
    rest of the queue is untouched, no EOF among them) are — `IsOperation` — the tokens of a full operation
    definition `tDefinition false (.operation ty name vars dirs sels)` (keyword, optional name, optional
    `( $v : Type DefaultValue? Directives? … )`, directives, selection set) or of the shorthand `{ Selection+ }`;
    the selection set is non-empty. -/
theorem operation_definition_accept_sound (n : Nat) (s s' : PState) (w : TW s) (he : EofEnd s)
    (h : (operationDefinition n).run s = .ok () s') (hnd : ¬ Doomed s') :
    ∃ (cs : List Tok) (x : List Ast.Tok), Toks s = cs ++ Toks s' ∧ NoEof cs ∧ EofEnd s' ∧
      (sig cs).map astOfV = x.map some ∧ IsOperation x :=
  (Parse.acc_operationDefinition n).sound s s' () w he trivial h hnd

/-- `fragment::fragment_definition`, from a state whose queue starts with the Name token `fragment`: if the run
    adds no error, the consumed tokens are `tDefinition false (.fragment name tc dirs sels)` with `name ≠ on` and
    a non-empty selection set. -/
theorem fragment_definition_accept_sound (n : Nat) (s s' : PState) (w : TW s) (he : EofEnd s)
    (hkw : AtFragmentKw (Toks s)) (h : (fragmentDefinition n).run s = .ok () s') (hnd : ¬ Doomed s') :
    ∃ (cs : List Tok) (x : List Ast.Tok), Toks s = cs ++ Toks s' ∧ NoEof cs ∧ EofEnd s' ∧
      (sig cs).map astOfV = x.map some ∧ IsFragment x :=
  (Parse.acc_fragmentDefinition n).sound s s' () w he hkw h hnd

/-- `variable::variable_definitions` started on `(`: a non-empty list `( $name : Type DefaultValue? Directives? … )` -/
theorem variable_definitions_accept_sound (n : Nat) (s s' : PState) (w : TW s) (he : EofEnd s)
    (hk : KindP (· == Lex.Kind.lParen) (Toks s)) (h : (variableDefinitions n).run s = .ok () s') (hnd : ¬ Doomed s') :
    ∃ (cs : List Tok) (x : List Ast.Tok), Toks s = cs ++ Toks s' ∧ NoEof cs ∧ EofEnd s' ∧
      (sig cs).map astOfV = x.map some ∧ ∃ vs : List Ast.VarDef, vs ≠ [] ∧ x = Ast.tVarDefs vs :=
  (Parse.acc_variableDefinitions n).sound s s' () w he hk h hnd

/-! ### completeness of the `selectionSet` entry point (growth 5/6) -/

/-- **Acceptance is complete** for `Parser::parse_selection_set` (no token limit).  Take any non-empty selection
    list `ss` of the C08 reference grammar (fields with optional alias / arguments / directives / nested selection
    set, fragment spreads with a name other than `on`, inline fragments with a non-empty selection set) that FITS
    the recursion limit: `1 ≤ rl` and `fitSels ss (rl − 1)` — every `{ … }` level costs one, the top level
    (braced or not) costs one, list/object nesting inside argument values costs its depth.  If the source has no
    lexer error and its significant tokens are `{ ss }` or, brace-less, `ss`, followed by EOF — with ARBITRARY
    ignored tokens (whitespace, commas, comments) between and after the tokens — then the parse reports NO error.
    Guard: in the braced form the source must START with the `{` (`field_set` tests the raw current token, an
    ignored token in front makes it take the brace-less branch and reject); the brace-less form may be preceded by
    ignored tokens.  With `fieldset_accept_sound`: for this entry point acceptance = grammar (within the budget). -/
theorem fieldset_accept_complete (rl : Nat) (src : Parse.Str) (ss : Ast.Sels) (ts : List Tok) (e : Tok)
    (hclean : LexClean src) (hsig : sig (srcToks src) = ts ++ [e]) (he : e.kind = .eof)
    (hne : ss ≠ Ast.Sels.nil) (hb : 1 ≤ rl) (hfit : fitSels ss (rl - 1))
    (hx : (TokIs ts (.p .lCurly :: Ast.tSels ss ++ [.p .rCurly]) ∧
            (∀ hd tl, srcToks src = hd :: tl → isIgnoredKind hd.kind = false)) ∨ TokIs ts (Ast.tSels ss)) :
    (parse .selectionSet none rl src).errors = [] :=
  Parse.parseFieldSet_complete_full rl src ss ts e hclean hsig he hne hb hfit hx

/-- every sentence accepted by the completeness theorem is an `IsFieldSet` sentence of the soundness theorem -/
theorem fieldset_complete_language_is_sound_language (ss : Ast.Sels) (hne : ss ≠ Ast.Sels.nil) :
    IsFieldSet (.p .lCurly :: Ast.tSels ss ++ [.p .rCurly]) ∧ IsFieldSet (Ast.tSels ss) :=
  ⟨⟨ss, hne, Or.inl rfl⟩, ⟨ss, hne, Or.inr rfl⟩⟩

-- the guards of that theorem are necessary (kernel-evaluated on the model):
-- (1) a leading ignored token before the brace is REJECTED (`field_set` peeks `{` on the raw current token),
--     before a brace-less field set it is accepted
example : (parse .selectionSet none 500 " a".toList).errors = [] := by decide +kernel
example : (parse .selectionSet none 500 "{a}".toList).errors = [] := by decide +kernel
example : (parse .selectionSet none 500 " {a}".toList).errors ≠ [] := by decide +kernel
-- (2) the budget: each brace level costs one, a brace-less field costs one, list nesting in arguments adds
example : (parse .selectionSet none 0 "a".toList).errors ≠ [] := by decide +kernel
example : (parse .selectionSet none 1 "{a}".toList).errors = [] := by decide +kernel
example : (parse .selectionSet none 1 "{a{b}}".toList).errors ≠ [] := by decide +kernel
example : (parse .selectionSet none 2 "{a{b}}".toList).errors = [] := by decide +kernel
example : (parse .selectionSet none 1 "a(x:[1])".toList).errors ≠ [] := by decide +kernel
-- (3) no mismatch with the C08 grammar found on the lookahead decisions: the alias colon may be separated by
-- ignored tokens, `...on T` and `... on T` are both inline fragments, names `true`/`false` are fine as
-- field, argument and directive names and as values
example : (parse .selectionSet none 500 "{ a , : b }".toList).errors = [] := by decide +kernel
example : (parse .selectionSet none 500 "{ ...on T { c } ... on T { c } ... @d { c } ... { c } }".toList).errors = [] := by decide +kernel
example : (parse .selectionSet none 500 "{ true(x: true) @false }".toList).errors = [] := by decide +kernel

/-! ### the accepted language of `parse_selection_set`, bracketed (growth 7) -/

/-- **Both inclusions** for the field-set entry point, for a source without lexer error (no token limit):
    `{ {ss} at the start | ss | fitSels }` ⊆ accepted ⊆ `IsFieldSet`.  The right inclusion (soundness) is strict:
    `IsFieldSet` says nothing about spread names, empty inline fragments, the values or the budget — `{ ...on }` and,
    with recursion limit 1, `{a{b}}` are `IsFieldSet` sentences that are rejected (witnesses above).  For an `iff` the
    soundness lemmas of Proofs/ParserSel1–6 must export `fitSels`. -/
theorem fieldset_accept_sandwich (rl : Nat) (src : Parse.Str) (ts : List Tok) (e : Tok)
    (hclean : LexClean src) (hsig : sig (srcToks src) = ts ++ [e]) (he : e.kind = .eof) :
    ((∃ ss : Ast.Sels, ss ≠ Ast.Sels.nil ∧ 1 ≤ rl ∧ fitSels ss (rl - 1) ∧
        ((TokIs ts (.p .lCurly :: Ast.tSels ss ++ [.p .rCurly]) ∧
            (∀ hd tl, srcToks src = hd :: tl → isIgnoredKind hd.kind = false)) ∨ TokIs ts (Ast.tSels ss))) →
      (parse .selectionSet none rl src).errors = []) ∧
    ((parse .selectionSet none rl src).errors = [] → ∃ x, TokIs ts x ∧ IsFieldSet x) := by
  constructor
  · rintro ⟨ss, hne, hb, hfit, hx⟩
    exact fieldset_accept_complete rl src ss ts e hclean hsig he hne hb hfit hx
  · intro herr
    obtain ⟨_, x, ts', e', h1, _, h3, h4⟩ := fieldset_accept_sound rl src herr
    have : ts' = ts := by
      have h := hsig.symm.trans h1
      have hl := congrArg List.length h
      simp at hl
      exact ((List.append_inj h hl).1).symm
    subst this
    exact ⟨x, h3, h4⟩

/-- **`type_accept_sandwich`**: for the `type` entry point the two theorems differ only by the guards of completeness
    (list nesting ≤ recursion limit, no ignored token in front): accepted ⇒ one type; one type within the guards ⇒ accepted -/
theorem type_accept_sandwich (rl : Nat) (src : Parse.Str) (hclean : LexClean src) :
    ((∃ (t : Ast.Ty) (ts : List Tok) (e : Tok), sig (srcToks src) = ts ++ [e] ∧ e.kind = .eof ∧
        ts.map astOf = (Ast.tTy t).map some ∧ Parse.tyDepth t ≤ rl ∧
        (∀ hd tl, srcToks src = hd :: tl → isIgnoredKind hd.kind = false)) → (parse .type none rl src).errors = []) ∧
    ((parse .type none rl src).errors = [] → ∃ (t : Ast.Ty) (ts : List Tok) (e : Tok),
        sig (srcToks src) = ts ++ [e] ∧ e.kind = .eof ∧ ts.map astOf = (Ast.tTy t).map some) := by
  constructor
  · rintro ⟨t, ts, e, h1, h2, h3, h4, h5⟩
    exact type_accept_complete rl src t ts e hclean h1 h2 h3 h4 h5
  · intro herr
    exact (type_accept_sound rl src herr).2

/-- **`type_accept_iff`**: the exact accepted language of `Parser::parse_type` (no token limit, recursion limit `rl`).
    Zero errors ⇔ the source has no lexer error, its significant tokens are the tokens `tTy t` of ONE type reference
    followed by EOF, the list nesting of `t` is at most `rl`, and the input does not start with an ignored token.
    (⇒) soundness gives the type; the nesting bound comes from C04 (`rec_limit_iff_depth`: no limit error ⇒
    `typeDepth src ≤ rl`, and `typeDepth` of these tokens is `tyDepth t`); the head condition because `ty.rs` peeks
    before it skips ignored tokens (`Parse.tyParse_ignored_head`).  (⇐) is `type_accept_complete`. -/
theorem type_accept_iff (rl : Nat) (src : Parse.Str) :
    (parse .type none rl src).errors = [] ↔
      (LexClean src ∧ ∃ (t : Ast.Ty) (ts : List Tok) (e : Tok), sig (srcToks src) = ts ++ [e] ∧ e.kind = .eof ∧
        ts.map astOf = (Ast.tTy t).map some ∧ Parse.tyDepth t ≤ rl ∧
        (∀ hd tl, srcToks src = hd :: tl → isIgnoredKind hd.kind = false)) :=
  Parse.parseType_iff rl src

/-- **`fieldset_accept_iff`**: the exact accepted language of `Parser::parse_selection_set` (no token limit, recursion
    limit `rl`).  Zero errors ⇔ the source has no lexer error and its significant tokens are, followed by EOF, a braced
    selection set `{ ss }` that STARTS the input (no ignored token in front of the `{`), or a brace-less selection list
    `ss` — for a non-empty `ss` of the C08 grammar within the EXACT recursion budget: `1 ≤ rl` and
    `Parse.Exact.fitSels ss (rl − 1)` (each `{ … }` level costs one; each ITEM of a list value and each object-field
    value inside arguments costs one — `Parse.Exact.vdepth`, not the over-charging `Parse.vdepth` of the earlier
    completeness theorem; argument values well formed; a spread name is not `on`; inline fragments non-empty).
    (⇒) is new exact soundness (Proofs/ParserExactS1–6: the soundness proofs of the value grammar and of ParserSel3–6
    repeated with the budget threaded through `withRec`, next to the old lemmas, whose statements are unchanged);
    (⇐) is the completeness chain re-instantiated with the exact depth (Proofs/ParserExactC4–16). -/
theorem fieldset_accept_iff (rl : Nat) (src : Parse.Str) :
    (parse .selectionSet none rl src).errors = [] ↔
      (LexClean src ∧ ∃ (ss : Ast.Sels) (ts : List Tok) (e : Tok), sig (srcToks src) = ts ++ [e] ∧ e.kind = .eof ∧
        ss ≠ Ast.Sels.nil ∧ 1 ≤ rl ∧ Parse.Exact.fitSels ss (rl - 1) ∧
        ((TokIs ts (.p .lCurly :: Ast.tSels ss ++ [.p .rCurly]) ∧
            (∀ hd tl, srcToks src = hd :: tl → isIgnoredKind hd.kind = false)) ∨ TokIs ts (Ast.tSels ss))) :=
  Parse.Exact.parseFieldSet_iff rl src

-- the exact budget (kernel-evaluated): an EMPTY list argument costs nothing beyond the field's level (the charged depth
-- `Parse.vdepth [] = 1` would demand limit 2), a one-item list costs one
example : (parse .selectionSet none 1 "a(x: [])".toList).errors = [] := by decide +kernel
example : (parse .selectionSet none 1 "a(x: {})".toList).errors = [] := by decide +kernel
example : (parse .selectionSet none 1 "a(x: [1])".toList).errors ≠ [] := by decide +kernel
example : (parse .selectionSet none 2 "a(x: [1 []])".toList).errors = [] := by decide +kernel
example : (parse .selectionSet none 2 "a(x: [[1]])".toList).errors ≠ [] := by decide +kernel

end Executable

end Apollo.C07
