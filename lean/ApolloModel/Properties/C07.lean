import ApolloModel.Proofs.ParserWhole
import ApolloModel.Proofs.ParserType10
/-
C07 — Standalone type and field-set parsing consume the whole input.
Parser model of C01 with the repaired entry points (`expect_end_of_input`).
-/
namespace Apollo.C07
open Apollo.Parse Apollo.Rowan

/-- If `parse_type` / `parse_selection_set` (no token limit) report no error, the parser consumed
    the whole input: nothing is left over except the empty EOF token. -/
theorem standalone_whole_input (e : Entry) (he : e = .type ∨ e = .selectionSet) (rl : Nat) (src : Parse.Str)
    (root : Elem) (h : (parse e none rl src).outcome = .tree root) (herr : (parse e none rl src).errors = []) :
    (parse e none rl src).leftover = [] :=
  Parse.standalone_whole_input e he rl src root h herr

/-- `parse_type` always ends with a tree (no panic: C01 `parse_no_panic`; no fuel / progress abort:
    C01 `parse_terminates_partial`), so in particular an error-free parse has one.  (For `parse_selection_set`
    the corresponding statement still needs the termination of the selection grammar, see C01.) -/
theorem whole_input_is_one_construct_statement :
    ∀ (rl : Nat) (src : Parse.Str), (parse .type none rl src).errors = [] → ∃ root, (parse .type none rl src).outcome = .tree root :=
  fun rl src _ => Parse.parseType_tree none rl src

-- Regression witnesses for the repaired defect (kernel-evaluated on the model)
example : (parse .type none 500 ['A', ' ', ']', ']', ' ', 'x']).errors ≠ [] := by decide +kernel
example : (parse .selectionSet none 500 ['a', ' ', '}', ' ', 'b']).errors ≠ [] := by decide +kernel
example : (parse .type none 500 ['[', 'A', '!', ']', '!', ' ']).errors = [] := by decide +kernel
example : (parse .selectionSet none 500 ['{', 'a', '}']).errors = [] := by decide +kernel

/-! ### `parse_type`: the whole input is ONE type of the grammar (growth) -/

/-- **Acceptance is sound.**  `Parser::parse_type` without token limit, any recursion limit, ANY source text:
    if the parse reports no error, then the source has no lexer error and its significant tokens (whitespace,
    comments, commas removed; `srcToks` is the parser's token queue after lexing, see `type_accept_sound_lex`
    for the lexer model's output) are exactly `tTy t` for some type reference `t` of the grammar
    `Type : NamedType | [Type] | Type!` (unbounded nesting), followed by the end-of-input token.
    Proved by induction on the fuel of `ty.rs::parse` with an invariant relating the tokens consumed so far
    to the queue (Proofs/ParserType1–6); the outcome is always a tree (`Parse.parseType_tree`). -/
theorem type_accept_sound (rl : Nat) (src : Parse.Str) (herr : (parse .type none rl src).errors = []) :
    LexClean src ∧ ∃ (t : Ast.Ty) (ts : List Tok) (e : Tok),
      sig (srcToks src) = ts ++ [e] ∧ e.kind = .eof ∧ ts.map astOf = (Ast.tTy t).map some :=
  Parse.parseType_sound' rl src herr

/-- the earlier form, with the (now redundant) hypothesis that the outcome is a tree -/
theorem type_accept_sound_tree (rl : Nat) (src : Parse.Str) (root : Elem)
    (_h : (parse .type none rl src).outcome = .tree root) (herr : (parse .type none rl src).errors = []) :
    LexClean src ∧ ∃ (t : Ast.Ty) (ts : List Tok) (e : Tok),
      sig (srcToks src) = ts ++ [e] ∧ e.kind = .eof ∧ ts.map astOf = (Ast.tTy t).map some :=
  type_accept_sound rl src herr

/-- Contrapositive, which is how the known C02 defect (ty.rs drops a token that cannot start a type, e.g.
    `[!`) stays consistent with acceptance: whenever the significant tokens are NOT one type followed by the
    end of input, an error is reported — the dropped token never goes unnoticed. -/
theorem type_reject_non_type (rl : Nat) (src : Parse.Str)
    (hnot : ¬ ∃ (t : Ast.Ty) (ts : List Tok) (e : Tok),
      sig (srcToks src) = ts ++ [e] ∧ e.kind = .eof ∧ ts.map astOf = (Ast.tTy t).map some) :
    (parse .type none rl src).errors ≠ [] :=
  fun herr => hnot (Parse.parseType_sound' rl src herr).2

/-- **Acceptance is complete.**  For every type reference `t` whose list nesting is at most the recursion
    limit: any source text without lexer error whose significant tokens are `tTy t` (names: whatever Name
    tokens the lexer produced) followed by the end of input, with ignored tokens (whitespace, comments,
    commas) anywhere EXCEPT in front of the first token, is parsed without any error.
    (A leading ignored token is rejected by `parse_type`: witness below.) -/
theorem type_accept_complete (rl : Nat) (src : Parse.Str) (t : Ast.Ty) (ts : List Tok) (e : Tok)
    (hclean : LexClean src) (hsig : sig (srcToks src) = ts ++ [e]) (he : e.kind = .eof)
    (hty : ts.map astOf = (Ast.tTy t).map some) (hdepth : Parse.tyDepth t ≤ rl)
    (hhead : ∀ hd tl, srcToks src = hd :: tl → isIgnoredKind hd.kind = false) :
    (parse .type none rl src).errors = [] :=
  Parse.parseType_complete_sig rl src t ts e hclean hsig he hty hdepth hhead

/-! #### the same in terms of the lexer model (`Lex.lex none src`) -/

/-- the parser's token queue is the token list of the lexer model's output (kinds and texts), and the source
    is "lex-clean" iff that output has no error item -/
theorem queue_is_lexer_output (src : Parse.Str) :
    (srcToks src).map (fun t => (t.kind, t.data)) = lexToks src
    ∧ (LexClean src ↔ ∀ it ∈ Lex.lex none src, it.isErr = false) :=
  ⟨Parse.srcToks_lex src, Parse.lexClean_lex src⟩

/-- soundness over `Lex.lex none src`: an error-free `parse_type` means no error item and
    `lexSig src` (the non-ignored tokens of the lexer output) = the tokens of one type, then EOF -/
theorem type_accept_sound_lex (rl : Nat) (src : Parse.Str) (herr : (parse .type none rl src).errors = []) :
    (∀ it ∈ Lex.lex none src, it.isErr = false) ∧
    ∃ (t : Ast.Ty) (ks : List (Lex.Kind × Parse.Str)) (e : Lex.Kind × Parse.Str),
      lexSig src = ks ++ [e] ∧ e.1 = .eof ∧ ks.map astOfKD = (Ast.tTy t).map some :=
  Parse.parseType_sound_lex rl src herr

/-- completeness over `Lex.lex none src` -/
theorem type_accept_complete_lex (rl : Nat) (src : Parse.Str) (t : Ast.Ty)
    (ks : List (Lex.Kind × Parse.Str)) (e : Lex.Kind × Parse.Str)
    (hclean : ∀ it ∈ Lex.lex none src, it.isErr = false) (hsig : lexSig src = ks ++ [e]) (he : e.1 = .eof)
    (hty : ks.map astOfKD = (Ast.tTy t).map some) (hdepth : Parse.tyDepth t ≤ rl)
    (hhead : ∀ p, (lexToks src).head? = some p → isIgnoredKind p.1 = false) :
    (parse .type none rl src).errors = [] :=
  Parse.parseType_complete_lex rl src t ks e hclean hsig he hty hdepth hhead

-- the C02 defect inputs: a token is dropped, and an error is reported
example : (parse .type none 500 "[!".toList).dropped = true ∧ (parse .type none 500 "[!".toList).errors ≠ [] := by decide +kernel
example : (parse .type none 500 "[]".toList).errors ≠ [] := by decide +kernel
example : (parse .type none 500 "A!!".toList).errors ≠ [] := by decide +kernel
example : (parse .type none 500 " A".toList).errors ≠ [] := by decide +kernel
-- completeness witnesses: nesting at the recursion limit, ignored tokens inside and behind
example : (parse .type none 2 "[[A!]!]!".toList).errors = [] := by decide +kernel
example : (parse .type none 1 "[[A]]".toList).errors ≠ [] := by decide +kernel
example : (parse .type none 500 "[ A ,! #c\n ] , !  ".toList).errors = [] := by decide +kernel
example : (parse .type none 0 "A!".toList).errors = [] := by decide +kernel

end Apollo.C07
