import ApolloModel.Proofs.ParserWhole
/-
C07 — Standalone type and field-set parsing consume the whole input.
Parser model of C01 with the repaired entry points (`expect_end_of_input`).
-/
namespace Apollo.C07
open Apollo.Parse Apollo.Rowan

/-- If `parse_type` / `parse_selection_set` (no token limit) report no error, the parser consumed
    the whole input: nothing is left over except the empty EOF token. -/
theorem standalone_whole_input (e : Entry) (he : e = .type ∨ e = .selectionSet) (rl : Nat) (src : Parse.Str)
    (root : Elem) (h : (parse e none rl src).outcome = .tree root) (herr : (parse e none rl src).errors = []) :
    (parse e none rl src).leftover = [] :=
  Parse.standalone_whole_input e he rl src root h herr

/-- PARTIAL: what remains to be a full proof of the property is that the consumed tokens form
    exactly one type / one selection set (grammar-level acceptance, see C05); that half is decided
    by the harness against an independent recogniser over all prefix/construct/suffix combinations. -/
def whole_input_is_one_construct_statement : Prop :=
  ∀ (rl : Nat) (src : Parse.Str), (parse .type none rl src).errors = [] → ∃ root, (parse .type none rl src).outcome = .tree root

-- Regression witnesses for the repaired defect (kernel-evaluated on the model)
example : (parse .type none 500 ['A', ' ', ']', ']', ' ', 'x']).errors ≠ [] := by decide +kernel
example : (parse .selectionSet none 500 ['a', ' ', '}', ' ', 'b']).errors ≠ [] := by decide +kernel
example : (parse .type none 500 ['[', 'A', '!', ']', '!', ' ']).errors = [] := by decide +kernel
example : (parse .selectionSet none 500 ['{', 'a', '}']).errors = [] := by decide +kernel

end Apollo.C07
