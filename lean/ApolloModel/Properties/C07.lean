import ApolloModel.Proofs.ParserWhole
import ApolloModel.Proofs.ParserType5
/-
C07 — Standalone type and field-set parsing consume the whole input.
Parser model of C01 with the repaired entry points (`expect_end_of_input`).
-/
namespace Apollo.C07
open Apollo.Parse Apollo.Rowan

/-- If `parse_type` / `parse_selection_set` (no token limit) report no error, the parser consumed
    the whole input: nothing is left over except the empty EOF token. -/
theorem standalone_whole_input (e : Entry) (he : e = .type ∨ e = .selectionSet) (rl : Nat) (src : Parse.Str)
    (root : Elem) (h : (parse e none rl src).outcome = .tree root) (herr : (parse e none rl src).errors = []) :
    (parse e none rl src).leftover = [] :=
  Parse.standalone_whole_input e he rl src root h herr

/-- PARTIAL: for `parse_selection_set` what remains is that the consumed tokens form exactly one selection
    set (decided by the harness against an independent recogniser); for `parse_type` that half is now the
    theorem `type_accept_sound` below.  The statement kept here is freedom from the two model aborts
    (fuel / progress assertion), see C01. -/
def whole_input_is_one_construct_statement : Prop :=
  ∀ (rl : Nat) (src : Parse.Str), (parse .type none rl src).errors = [] → ∃ root, (parse .type none rl src).outcome = .tree root

-- Regression witnesses for the repaired defect (kernel-evaluated on the model)
example : (parse .type none 500 ['A', ' ', ']', ']', ' ', 'x']).errors ≠ [] := by decide +kernel
example : (parse .selectionSet none 500 ['a', ' ', '}', ' ', 'b']).errors ≠ [] := by decide +kernel
example : (parse .type none 500 ['[', 'A', '!', ']', '!', ' ']).errors = [] := by decide +kernel
example : (parse .selectionSet none 500 ['{', 'a', '}']).errors = [] := by decide +kernel

/-! ### `parse_type`: the whole input is ONE type of the grammar (growth) -/

/-- **Acceptance is sound.**  `Parser::parse_type` without token limit, any recursion limit, any source text:
    if the parse ends with a tree and reports no error, then the source has no lexer error and its
    significant tokens (whitespace, comments, commas removed; `srcToks` is the parser's token queue after
    lexing) are exactly `tTy t` for some type reference `t` of the grammar
    `Type : NamedType | [Type] | Type!` (unbounded nesting), followed by the end-of-input token.
    Proved by induction on the fuel of `ty.rs::parse` with an invariant relating the tokens consumed so far
    to the queue (Proofs/ParserType1–5). -/
theorem type_accept_sound (rl : Nat) (src : Parse.Str) (root : Elem)
    (h : (parse .type none rl src).outcome = .tree root) (herr : (parse .type none rl src).errors = []) :
    LexClean src ∧ ∃ (t : Ast.Ty) (ts : List Tok) (e : Tok),
      sig (srcToks src) = ts ++ [e] ∧ e.kind = .eof ∧ ts.map astOf = (Ast.tTy t).map some :=
  Parse.parseType_sound rl src root h herr

/-- Contrapositive, which is how the known C02 defect (ty.rs drops a token that cannot start a type, e.g.
    `[!`) stays consistent with acceptance: whenever the significant tokens are NOT one type followed by the
    end of input, an error is reported — the dropped token never goes unnoticed. -/
theorem type_reject_non_type (rl : Nat) (src : Parse.Str) (root : Elem)
    (h : (parse .type none rl src).outcome = .tree root)
    (hnot : ¬ ∃ (t : Ast.Ty) (ts : List Tok) (e : Tok),
      sig (srcToks src) = ts ++ [e] ∧ e.kind = .eof ∧ ts.map astOf = (Ast.tTy t).map some) :
    (parse .type none rl src).errors ≠ [] :=
  fun herr => hnot (Parse.parseType_sound rl src root h herr).2

/-- list nesting of a type reference -/
def tyDepth : Ast.Ty → Nat
  | .named _ | .nonNullNamed _ => 0
  | .list t | .nonNullList t => tyDepth t + 1

/-- PARTIAL (not proved; evaluated on witnesses below and decided by the harness over all
    prefix/type/suffix combinations): **completeness** — every type of list depth ≤ the recursion limit, with
    ignored tokens anywhere except in front, is accepted without error. -/
def type_accept_complete_statement : Prop :=
  ∀ (rl : Nat) (src : Parse.Str) (t : Ast.Ty) (ts : List Tok) (e : Tok),
    LexClean src → sig (srcToks src) = ts ++ [e] → e.kind = .eof → ts.map astOf = (Ast.tTy t).map some →
    tyDepth t ≤ rl → (∀ x, (srcToks src).head? = some x → isIgnoredKind x.kind = false) →
    (parse .type none rl src).errors = [] ∧ ∃ root, (parse .type none rl src).outcome = .tree root

-- the C02 defect inputs: a token is dropped, and an error is reported
example : (parse .type none 500 "[!".toList).dropped = true ∧ (parse .type none 500 "[!".toList).errors ≠ [] := by decide +kernel
example : (parse .type none 500 "[]".toList).errors ≠ [] := by decide +kernel
example : (parse .type none 500 "A!!".toList).errors ≠ [] := by decide +kernel
example : (parse .type none 500 " A".toList).errors ≠ [] := by decide +kernel
-- completeness witnesses: nesting at the recursion limit, ignored tokens inside and behind
example : (parse .type none 2 "[[A!]!]!".toList).errors = [] := by decide +kernel
example : (parse .type none 1 "[[A]]".toList).errors ≠ [] := by decide +kernel
example : (parse .type none 500 "[ A ,! #c\n ] , !  ".toList).errors = [] := by decide +kernel
example : (parse .type none 0 "A!".toList).errors = [] := by decide +kernel

end Apollo.C07
