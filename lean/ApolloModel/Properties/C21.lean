import ApolloModel.Model.Guards
import ApolloModel.Proofs.Guards
import ApolloModel.Proofs.GuardsSchema
import ApolloModel.Proofs.DirectiveSearch
/-
C21 — The compiler never panics on adversarial input.

What is machine-checked here are the two mechanisms the property's last sentence names, on models
of `DepthCounter`/`DepthGuard` and `DiagnosticList::sort` (validation/mod.rs): a guarded walker never
goes deeper than limit+1 and reports the limit exactly when the nesting exceeds it; the diagnostics
sort is a stable sort by source position.  PARTIAL: the absence of panics / stack overflows in
build, validate, serialize, introspect and render is explored on the implementation (child process
per adversarial family, chains and cycles around every internal limit), not proved; ariadne
rendering is third-party code.
-/
namespace Apollo.C21
open Apollo.Guards

def enter (c : DepthCounter) : DepthCounter := { c with value := c.value + 1, high := max c.high (c.value + 1) }

theorem walk_node (c : DepthCounter) (child sibling : Tree) :
    walk c (.node child sibling) =
      if c.value + 1 > c.limit then (dropGuard (enter c), true)
      else if (walk (enter c) child).2 = true then (dropGuard (walk (enter c) child).1, true)
      else walk (dropGuard (walk (enter c) child).1) sibling := by
  simp only [walk, increment, enter]
  by_cases hr : c.value + 1 > c.limit
  · simp [hr]
  · simp only [hr, decide_false, Bool.false_eq_true, if_false]
    by_cases hx : (walk { c with value := c.value + 1, high := max c.high (c.value + 1) } child).2 = true
    · simp [hx]
    · simp [hx]

/-- all facts about the guarded walker, proved together by induction on the nesting structure -/
theorem walk_facts : ∀ (t : Tree) (c : DepthCounter), c.value ≤ c.limit →
    (walk c t).1.high ≤ max c.high (c.limit + 1) ∧ (walk c t).1.limit = c.limit ∧
    (walk c t).1.value = c.value ∧ ((walk c t).2 = true ↔ c.value + t.depth > c.limit)
  | .leaf, c, hv => by
    refine ⟨by simp only [walk]; omega, rfl, rfl, ?_⟩
    simp only [walk, Tree.depth]
    constructor
    · intro h; simp at h
    · intro h; omega
  | .node child sibling, c, hv => by
    rw [walk_node]
    by_cases hr : c.value + 1 > c.limit
    · rw [if_pos hr]
      refine ⟨?_, rfl, ?_, ?_⟩
      · show max c.high (c.value + 1) ≤ _; omega
      · show c.value + 1 - 1 = _; omega
      · simp only [Tree.depth]
        constructor
        · intro _; omega
        · intro _; trivial
    · rw [if_neg hr]
      have ih1 := walk_facts child (enter c) (by show c.value + 1 ≤ c.limit; omega)
      have e1 : (enter c).high = max c.high (c.value + 1) := rfl
      have e2 : (enter c).limit = c.limit := rfl
      have e3 : (enter c).value = c.value + 1 := rfl
      rw [e1, e2, e3] at ih1
      generalize walk (enter c) child = r at ih1 ⊢
      obtain ⟨h1, h2, h3, h4⟩ := ih1
      by_cases he : r.2 = true
      · rw [if_pos he]
        have hd := h4.mp he
        refine ⟨?_, h2, ?_, ?_⟩
        · show r.1.high ≤ _; omega
        · show r.1.value - 1 = _; omega
        · simp only [Tree.depth]
          constructor
          · intro _; omega
          · intro _; trivial
      · rw [if_neg he]
        have hn : ¬ (c.value + 1 + child.depth > c.limit) := fun h => he (h4.mpr h)
        have ih2 := walk_facts sibling (dropGuard r.1) (by show r.1.value - 1 ≤ r.1.limit; omega)
        have d1 : (dropGuard r.1).high = r.1.high := rfl
        have d2 : (dropGuard r.1).limit = r.1.limit := rfl
        have d3 : (dropGuard r.1).value = r.1.value - 1 := rfl
        rw [d1, d2, d3, h2, h3] at ih2
        obtain ⟨g1, g2, g3, g4⟩ := ih2
        refine ⟨by omega, g2, by omega, ?_⟩
        rw [g4]
        simp only [Tree.depth]
        omega

/-- the ghost depth never exceeds limit + 1, whatever the input, and the counter is restored -/
theorem depth_guard_bound (t : Tree) (c : DepthCounter) (h : c.value ≤ c.limit) :
    (walk c t).1.high ≤ max c.high (c.limit + 1) ∧ (walk c t).1.value = c.value :=
  ⟨(walk_facts t c h).1, (walk_facts t c h).2.2.1⟩

/-- excessive depth is reported, and only excessive depth: the walker errs iff the nesting below
    the current point exceeds what the limit leaves -/
theorem limit_yields_diagnostic (t : Tree) (c : DepthCounter) (h : c.value ≤ c.limit) :
    (walk c t).2 = true ↔ c.value + t.depth > c.limit := (walk_facts t c h).2.2.2

/-- `DiagnosticList::sort` yields the same diagnostics, ordered by (file, offset) with location-less
    ones first … -/
theorem sort_perm {α : Type} (l : List (Key × α)) : (sortDiagnostics l).Perm l := List.mergeSort_perm l _

theorem sort_sorted {α : Type} (l : List (Key × α)) :
    (sortDiagnostics l).Pairwise (fun a b => keyLe a.1 b.1 = true) :=
  List.pairwise_mergeSort (fun a b c h1 h2 => keyLe_trans a.1 b.1 c.1 h1 h2)
    (fun a b => keyLe_total a.1 b.1) l

/-- … and it is stable: diagnostics that were already in order keep their relative order (in
    particular diagnostics at the same position stay in the order they were reported). -/
theorem sort_stable {α : Type} (l l' : List (Key × α)) (hs : l'.Sublist l)
    (hsorted : l'.Pairwise (fun a b => keyLe a.1 b.1 = true)) : l'.Sublist (sortDiagnostics l) :=
  List.sublist_mergeSort (fun a b c h1 h2 => keyLe_trans a.1 b.1 c.1 h1 h2)
    (fun a b => keyLe_total a.1 b.1) hsorted hs

/-! ### self-referential definitions: the fragment cycle detector

`detectList`/`detectSel` (Model/Guards.lean) are defined by well-founded recursion on
`(limit + 1 - path.length, size of the selection)`: that Lean accepts the definition *is* the proof that
`detect_fragment_cycles` terminates on every document, cyclic or not, because of the `RecursionGuard`
limit alone (the `seen` set is an optimisation, not what bounds the recursion).  Termination is not a
bounded stack, though: the name stack bounds the chain of fragments, not the fields and inline
fragments each of them nests its spread in, so the call depth is the product of two individually
bounded quantities (the stack overflow repaired by 3e87d32).  The call depth is therefore a ghost of
its own, `DState.dhigh`, bounded by the `DepthCounter` the repaired code threads through. -/

/-- the recursion stack never grows beyond limit + 1 names -/
theorem fragment_cycle_stack_bound (doc : Doc) (limit dlimit root : Nat) (body : List Sel) (hl : 1 ≤ limit) :
    (fragmentCycle doc limit dlimit root body).2.high ≤ limit + 1 :=
  ((bound_all doc limit dlimit).1 [root] 0 _ body (by simpa using hl) (Nat.zero_le _)
    ⟨by simp, by simp⟩).1

/-- the call depth of `detect_fragment_cycles` never exceeds dlimit + 1 frames, for every document:
    whatever the fragment chain and however deep each fragment nests its spreads -/
theorem fragment_cycle_depth_bound (doc : Doc) (limit dlimit root : Nat) (body : List Sel) (hl : 1 ≤ limit) :
    (fragmentCycle doc limit dlimit root body).2.dhigh ≤ dlimit + 1 :=
  ((bound_all doc limit dlimit).1 [root] 0 _ body (by simpa using hl) (Nat.zero_le _)
    ⟨by simp, by simp⟩).2

/-- a reported cycle is a real one: `RecursiveFragmentDefinition` is only reported for a fragment that
    reaches itself through a non-empty chain of spreads -/
theorem fragment_cycle_sound (doc : Doc) (limit dlimit root : Nat) (body : List Sel)
    (hdef : lookup doc root = some body)
    (h : (fragmentCycle doc limit dlimit root body).1 = .recursed) : Reach doc root root :=
  (sound_all doc limit dlimit).1 [root] 0 _ body root root rfl (.refl root) (fun _ hn => ⟨body, hdef, hn⟩) h

-- Non-vacuity
#guard (fragmentCycle [(0, [.spread 1]), (1, [.nested [.spread 0]])] 100 500 0 [.spread 1]).1 == .recursed
#guard (fragmentCycle [(0, [.spread 1]), (1, [.nested [.spread 1]])] 100 500 0 [.spread 1]).1 == .ok
#guard (fragmentCycle [(0, [.spread 1]), (1, [.spread 2]), (2, [])] 1 500 0 [.spread 1]).1 == .limit
-- the product of a short chain and shallow nesting reaches the depth limit (4 frames > 3)
#guard (fragmentCycle [(0, [.nested [.spread 1]]), (1, [.nested [.spread 2]]), (2, [])] 100 3 0 [.nested [.spread 1]]).1 == .limit
#guard (fragmentCycle [(0, [.nested [.spread 1]]), (1, [.nested [.spread 2]]), (2, [])] 100 4 0 [.nested [.spread 1]]).1 == .ok
#guard (fragmentCycle [(0, [.nested [.spread 1]]), (1, [.nested [.spread 2]]), (2, [])] 100 4 0 [.nested [.spread 1]]).2.dhigh == 4
example : (walk ⟨0, 0, 2⟩ (.node (.node (.node .leaf .leaf) .leaf) .leaf)).2 = true := by decide
example : (walk ⟨0, 0, 3⟩ (.node (.node (.node .leaf .leaf) .leaf) .leaf)).2 = false := by decide
-- (a test, evaluated by the compiler: `mergeSort` is defined by well-founded recursion)
#guard (sortDiagnostics [(some (2, 5), "b"), (none, "x"), (some (1, 9), "a"), (some (2, 5), "c")]).map (·.2) == ["x", "a", "b", "c"]

end Apollo.C21

/-! ### the other cycle detectors on a `RecursionStack`: input objects and directive definitions

`FindRecursiveInputValue` (validation/input_object.rs) and `FindRecursiveDirective` (validation/directive.rs) are
modelled for C14 in Model/SchemaValidation.lean; Model/GuardsSchema.lean adds the ghosts (`high` of each
`RecursionStack`, deepest call `dhigh`) without changing the answers (`*_search_refines`), so C14's correspondence
stream covers the instrumented functions too. Both recursions are bounded by the name stacks alone: unlike the
fragment detector nothing is nested between two pushes except a constant number of frames (one model frame = at
most two Rust frames), so the call depth is a linear function of the limit (32), whatever the schema. -/

namespace Apollo.C21
open Apollo.SchemaValidation Apollo.GuardsSchema

theorem coh_iff {σ : Type} {F : σ → Prop} {r : R × σ} (h : Coh F r) : r.1 = .limit ↔ F r.2 := by
  rcases h with ⟨h1, h2⟩ | ⟨h1, h2⟩
  · exact ⟨fun _ => h2, fun _ => h1⟩
  · exact ⟨fun h => absurd h h1, fun h => absurd h h2⟩

/-- the instrumented input-object search answers exactly like C14's model of `FindRecursiveInputValue::check` -/
theorem input_search_refines (g : IGraph) (limit r : Nat) : (checkInputG g limit r).1 = checkInput g limit r :=
  checkInputG_fst g limit r

/-- the `RecursionStack` of the input-object search never holds more than limit + 1 names, for every schema -/
theorem input_search_stack_bound (g : IGraph) (limit r : Nat) (hl : 1 ≤ limit) :
    (checkInputG g limit r).2.high ≤ limit + 1 :=
  (searchFieldsG_bounds g limit (limit + 1) (limit + 1) (Nat.le_refl _) _ _ _ _ _ (by simpa using hl) (by omega)
    ⟨by simp, by simp⟩).1

/-- its call depth never exceeds limit + 1 model frames (`input_object_definition` + `input_value_definition` each:
    at most 2·(limit + 1) Rust frames), for every schema: a function of the limit, not of the schema -/
theorem input_search_depth_bound (g : IGraph) (limit r : Nat) (hl : 1 ≤ limit) :
    (checkInputG g limit r).2.dhigh ≤ limit + 1 :=
  (searchFieldsG_bounds g limit (limit + 1) (limit + 1) (Nat.le_refl _) _ _ _ _ _ (by simpa using hl) (by omega)
    ⟨by simp, by simp⟩).2

/-- it terminates on every schema, cyclic ones included: the model's fuel (= the depth bound) is never what ends it -/
theorem input_search_terminates (g : IGraph) (limit r : Nat) : (checkInputG g limit r).1 ≠ .outOfFuel := by
  rw [input_search_refines]
  exact search_fuel g limit (limit + 1) [r] (g.fields r) (by simp) (by simp)

/-- exceeding the limit yields the limit answer (`CycleError::Limit` → the `DeeplyNestedType` diagnostic), and only
    that does: the search answers `limit` iff its stack ever held more than `limit` names -/
theorem input_search_limit_yields_diagnostic (g : IGraph) (limit r : Nat) :
    (checkInputG g limit r).1 = .limit ↔ limit < (checkInputG g limit r).2.high :=
  coh_iff (searchFieldsG_coh g limit _ _ _ _ _ (by simp))

theorem directive_search_refines (s : DSchema) (limit d : Nat) : (checkDirectiveG s limit d).1 = checkDirective s limit d :=
  checkDirectiveG_fst s limit d

theorem directive_search_bounds (s : DSchema) (limit d : Nat) (hl : 1 ≤ limit) :
    DGB (limit + 1) (4 * limit + 5) (checkDirectiveG s limit d).2 :=
  firstErrG_inv _ (DGB (limit + 1) (4 * limit + 5)) _
    (fun y _ st hst => walkG_bounds s limit _ _ (Nat.le_refl _) _ _ _ _ y st (by simpa using hl) (by simp) (by omega) hst)
    _ ⟨by simp, by simp, by simp⟩

/-- neither `RecursionStack` of the directive search (directive names, type names) ever holds more than limit + 1 names -/
theorem directive_search_stack_bound (s : DSchema) (limit d : Nat) (hl : 1 ≤ limit) :
    (checkDirectiveG s limit d).2.highD ≤ limit + 1 ∧ (checkDirectiveG s limit d).2.highT ≤ limit + 1 :=
  ⟨(directive_search_bounds s limit d hl).1, (directive_search_bounds s limit d hl).2.1⟩

/-- its call depth never exceeds 4·limit + 5 model frames (two stacks of at most limit names, an argument frame
    between two pushes), for every schema -/
theorem directive_search_depth_bound (s : DSchema) (limit d : Nat) (hl : 1 ≤ limit) :
    (checkDirectiveG s limit d).2.dhigh ≤ 4 * limit + 5 :=
  (directive_search_bounds s limit d hl).2.2

/-- it terminates on every schema -/
theorem directive_search_terminates (s : DSchema) (limit d : Nat) : (checkDirectiveG s limit d).1 ≠ .outOfFuel := by
  rw [directive_search_refines]
  intro h
  unfold checkDirective at h
  obtain ⟨y, hy, hwy⟩ := firstErr_err (by decide) h
  obtain ⟨a, _, rfl⟩ := List.mem_map.mp hy
  refine walk_fuel s limit _ [d] [] (.arg a) ?_ hwy
  simp only [need, isArg, List.length_singleton, List.length_nil]
  omega

/-- it answers `limit` (→ `DeeplyNestedType`) iff one of its two stacks ever held more than `limit` names -/
theorem directive_search_limit_yields_diagnostic (s : DSchema) (limit d : Nat) :
    (checkDirectiveG s limit d).1 = .limit ↔
      (limit < (checkDirectiveG s limit d).2.highD ∨ limit < (checkDirectiveG s limit d).2.highT) :=
  coh_iff (firstErrG_coh _ (Over limit) _ (fun y _ st hst => walkG_coh s limit _ _ _ _ y st hst) _ (by simp [Over]))

-- Non-vacuity: chains (4 input objects I0 → I1 → I2 → I3 by `T!` fields), open or closed, limit 3 / 4
#guard (checkInputG [[⟨true, 1⟩], [⟨true, 2⟩], [⟨true, 3⟩], []] 3 0) == (.limit, ⟨4, 3⟩)
#guard (checkInputG [[⟨true, 1⟩], [⟨true, 2⟩], [⟨true, 3⟩], []] 4 0) == (.ok, ⟨4, 4⟩)
#guard (checkInputG [[⟨true, 1⟩], [⟨true, 2⟩], [⟨true, 3⟩], [⟨true, 0⟩]] 4 0).1 == .recursed
#guard (checkInputG [[⟨true, 1⟩], [⟨true, 2⟩], [⟨true, 3⟩], [⟨true, 0⟩]] 3 0).1 == .limit
#guard (checkInputG [[⟨true, 1⟩], [⟨false, 0⟩, ⟨true, 1⟩]] 32 1).1 == .recursed
-- directives: @d0(a: T0), input T0 { f: Int @d1 }, @d1(a: T1), input T1 { f: Int @d0 }: a cycle through two types
#guard (checkDirectiveG ⟨[[⟨[], some 0⟩], [⟨[], some 1⟩]], [⟨.input, [], [], [⟨[1], none⟩]⟩, ⟨.input, [], [], [⟨[0], none⟩]⟩]⟩ 32 0).1 == .recursed
#guard (checkDirectiveG ⟨[[⟨[], some 0⟩], [⟨[], some 1⟩]], [⟨.input, [], [], [⟨[1], none⟩]⟩, ⟨.input, [], [], [⟨[0], none⟩]⟩]⟩ 1 0).1 == .limit
#guard (checkDirectiveG ⟨[[⟨[], some 0⟩], [⟨[], some 1⟩]], [⟨.input, [], [], [⟨[1], none⟩]⟩, ⟨.input, [], [], []⟩]⟩ 32 0) == (.ok, ⟨2, 2, 7⟩)

/-! ### the selection walkers of operation / variable validation (`DepthCounter` with limit 500 + a `HashSet` of
    fragments already entered)

`wsList`/`wsSel` (Model/GuardsSchema.lean) model `walk_selections_with_deduped_fragments` (validation/variable.rs;
validation/operation.rs has walkers of the same shape) on documents with named fragments, cyclic ones included. The
model is accepted by Lean through the measure `(dlimit + 1 - depth, size of the selection)`: the walk terminates on
every document because of the `DepthGuard` alone (the `seen` set only saves work). The model is not tied to the code
by a correspondence stream of its own (its only observable is the limit diagnostic, which other walkers with the same
limit emit too); the adversarial families `sel-depth`, `inline-depth`, `var-deep`, `frag-*` exercise it around 500. -/

/-- the walk never nests deeper than dlimit + 1 frames, for every document -/
theorem selection_walk_depth_bound (doc : Apollo.Guards.Doc) (dlimit : Nat) (sels : List Apollo.Guards.Sel) :
    (walkSelections doc dlimit sels).2.dhigh ≤ dlimit + 1 :=
  ((ws_all doc dlimit).1 0 ⟨[], 0, 0⟩ sels (Nat.zero_le _) (by simp)).1

/-- it answers `RecursionLimitError` (→ the limit diagnostic) exactly when it tried to enter a frame beyond the limit -/
theorem selection_walk_limit_yields_diagnostic (doc : Apollo.Guards.Doc) (dlimit : Nat) (sels : List Apollo.Guards.Sel) :
    (walkSelections doc dlimit sels).1 = true ↔ dlimit < (walkSelections doc dlimit sels).2.dhigh :=
  ((ws_all doc dlimit).1 0 ⟨[], 0, 0⟩ sels (Nat.zero_le _) (by simp)).2 (by simp)

-- a cycle of two fragments is walked once; three nested fields exceed a limit of 2
#guard (walkSelections [(0, [.spread 1, .nested []]), (1, [.spread 0])] 500 [.spread 0]).1 == false
#guard (walkSelections [(0, [.spread 1, .nested []]), (1, [.spread 0])] 500 [.spread 0]).2.visited == 4
#guard (walkSelections [] 2 [.nested [.nested [.nested []]]]).1 == true
#guard (walkSelections [] 3 [.nested [.nested [.nested []]]]).1 == false

end Apollo.C21
