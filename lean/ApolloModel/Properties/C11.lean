import ApolloModel.Proofs.LineColumn
import ApolloModel.Proofs.ParserLossless
/-
C11 — Source locations and line/column positions are correct.

Line/column: Model/LineColumn.lean mirrors the (repaired) `SourceFile::get_line_column`;
`specLineColumn` is the documented rule written as a single pass with a running line and column.
Locations: node ranges are rowan text ranges = prefix sums of token lengths of the lossless tree
(C02); that every AST name's location covers exactly its text is checked on the implementation
(PARTIAL: not a theorem over the from_cst conversion, which is not modelled).
-/
namespace Apollo.C11
open Apollo.LC

/-- For every source text and every byte offset: the reported line follows the GraphQL
    LineTerminator rule (`\n`, `\r\n`, `\r` — nothing else starts a line) and the column counts
    Unicode scalar values since the start of that line. Offsets past the end give `None`. -/
theorem line_column_spec (src : Str) (offset : Nat) : getLineColumn src offset = specLineColumn src offset :=
  LC.line_column_spec src offset

/-- offsets within the file always have a position -/
theorem line_column_defined (src : Str) (offset : Nat) (h : offset ≤ byteLen src) :
    (getLineColumn src offset).isSome = true := by
  unfold getLineColumn
  have : ¬ offset > byteLen src := by omega
  simp [this]

/-- the tree of an error-free… in fact of ANY document parse covers the source exactly, so rowan's
    text ranges (prefix sums of token lengths) are byte offsets into the source file -/
theorem node_ranges_are_source_offsets (rl : Nat) (src : Parse.Str) (root : Rowan.Elem)
    (h : (Parse.parse .document none rl src).outcome = .tree root)
    (hd : (Parse.parse .document none rl src).dropped = false) : root.text = src :=
  Parse.lossless_document rl src root h hd

-- Non-vacuity: multibyte column, form feed and U+2028 do not start lines, CRLF is one terminator
example : getLineColumn ['é', 'a', '\n', 'b'] 3 = some (1, 3) := by decide
example : getLineColumn ['a', Char.ofNat 12, 'b', Char.ofNat 0x2028, 'c'] 6 = some (1, 5) := by decide
example : getLineColumn ['a', '\r', '\n', 'b'] 3 = some (2, 1) := by decide
example : getLineColumn ['a', '\r', 'b'] 2 = some (2, 1) := by decide

end Apollo.C11
