import ApolloModel.Proofs.LineColumn
import ApolloModel.Proofs.ParserLossless
import ApolloModel.Proofs.TreeRanges2
import ApolloModel.Model.TreeRanges
import ApolloModel.Proofs.FromCst
import ApolloModel.Proofs.NameNodes5
/-
C11 — Source locations and line/column positions are correct.

Line/column: Model/LineColumn.lean mirrors the (repaired) `SourceFile::get_line_column`;
`specLineColumn` is the documented rule written as a single pass with a running line and column.
Locations: node ranges are rowan text ranges = prefix sums of token lengths of the lossless tree
(C02); that every AST name's location covers exactly its text is checked on the implementation
(PARTIAL: not a theorem over the from_cst conversion, which is not modelled).
-/
namespace Apollo.C11
open Apollo.LC

/-- For every source text and every byte offset: the reported line follows the GraphQL
    LineTerminator rule (`\n`, `\r\n`, `\r` — nothing else starts a line) and the column counts
    Unicode scalar values since the start of that line. Offsets past the end give `None`. -/
theorem line_column_spec (src : Str) (offset : Nat) : getLineColumn src offset = specLineColumn src offset :=
  LC.line_column_spec src offset

/-- offsets within the file always have a position -/
theorem line_column_defined (src : Str) (offset : Nat) (h : offset ≤ byteLen src) :
    (getLineColumn src offset).isSome = true := by
  unfold getLineColumn
  have : ¬ offset > byteLen src := by omega
  simp [this]

/-- the tree of an error-free… in fact of ANY document parse covers the source exactly, so rowan's
    text ranges (prefix sums of token lengths) are byte offsets into the source file -/
theorem node_ranges_are_source_offsets (rl : Nat) (src : Parse.Str) (root : Rowan.Elem)
    (h : (Parse.parse .document none rl src).outcome = .tree root)
    (hd : (Parse.parse .document none rl src).dropped = false) : root.text = src :=
  Parse.lossless_document rl src root h hd

-- Non-vacuity: multibyte column, form feed and U+2028 do not start lines, CRLF is one terminator
example : getLineColumn ['é', 'a', '\n', 'b'] 3 = some (1, 3) := by decide
example : getLineColumn ['a', Char.ofNat 12, 'b', Char.ofNat 0x2028, 'c'] 6 = some (1, 5) := by decide
example : getLineColumn ['a', '\r', '\n', 'b'] 3 = some (2, 1) := by decide
example : getLineColumn ['a', '\r', 'b'] 2 = some (2, 1) := by decide

/-! ## Locations from the syntax tree (the CST half of the location clause)

`SourceSpan::new(file_id, syntax_node)` stores rowan's `text_range()` of a CST element: its offset is
the sum of the UTF-8 lengths of all leaves before it, its length the sum over its own leaves
(`Rowan.offsetAt`, `Rowan.Elem.len`; Proofs/TreeRanges.lean).  Byte ranges are applied to the
`List Char` source by prefix sums of `Char.utf8Size` (`Rowan.sliceBytes`, `none` off a character
boundary), as in Model/LineColumn.lean. -/
section Tree
open Apollo.Rowan Apollo.Parse

/-- PURE TREE LEMMA: in any tree whose text is `src`, the range of the element at any path slices
    `src` to exactly that element's text — in particular both ends are character boundaries. -/
theorem token_range_exact (root : Elem) (src : Rowan.Str) (hsrc : root.text = src) (p : List Nat) (e : Elem)
    (h : subAt root p = some e) : sliceBytes src (offsetAt root p) e.len = some e.text :=
  range_exact root src hsrc p e h

/-- EVERY ELEMENT OF THE PARSED DOCUMENT, for every input and recursion limit (no token limit, no
    token dropped by ty.rs): its rowan range slices the SOURCE to exactly its text (tokens: the token
    text) and lies inside the file `[0, |src|]`. -/
theorem node_location_in_file (rl : Nat) (src : Parse.Str) (root : Elem)
    (h : (parse .document none rl src).outcome = .tree root)
    (hd : (parse .document none rl src).dropped = false) (p : List Nat) (e : Elem) (he : subAt root p = some e) :
    sliceBytes src (offsetAt root p) e.len = some e.text ∧ offsetAt root p + e.len ≤ LC.byteLen src :=
  document_ranges rl src root h hd p e he

/-- nested ranges are contained in their ancestors' ranges … -/
theorem ranges_nested (root : Elem) (p q : List Nat) (e d : Elem) (he : subAt root p = some e)
    (hd : subAt e q = some d) :
    offsetAt root p ≤ offsetAt root (p ++ q) ∧ offsetAt root (p ++ q) + d.len ≤ offsetAt root p + e.len :=
  Rowan.ranges_nested root p q e d he hd

/-- … and siblings are adjacent: a child starts where the previous one ends, the first where the parent starts -/
theorem sibling_ranges_adjacent (k : SK) (cs : List Elem) (i : Nat) (c : Elem) (h : cs[i]? = some c) :
    offsetAt (.node k cs) [i + 1] = offsetAt (.node k cs) [i] + c.len ∧ offsetAt (.node k cs) [0] = 0 :=
  siblings_adjacent k cs i c h

/-- WHAT `name()` BUILDS (name.rs on the model): entered on a Name token it appends, after flushing
    the trivia queued before it (which therefore stay outside), exactly the node `NAME[IDENT(text)]`:
    one IDENT token, no trivia — the ignored tokens that follow are queued again only after the node
    was closed (`bump` = `eat` + `skip_ignored`, and `skip_ignored` never touches the builder). -/
theorem name_node_is_one_ident (s : PState) (t : Tok) (hc : s.current = some t) (hk : t.kind = .name)
    (u : Unit) (s' : PState) (hr : name.run s = .ok u s') :
    s'.builder.children = s.builder.children ++ s.pending.map pendingElem ++ [Elem.node "NAME" [Elem.tok "IDENT" t.data]] ∧
      s'.builder.parents = s.builder.parents :=
  name_builds s t hc hk u s' hr

/-- NAME LOCATION EXACT: a node of that shape anywhere in a tree whose text is the source has a range
    that slices the source to exactly the name — `range.len() == name.len()`, the
    `debug_assert_eq!` of `Name::with_location`, and the bytes are the name's. -/
theorem name_location_exact (root : Elem) (src : Rowan.Str) (hsrc : root.text = src) (p : List Nat) (d : Rowan.Str)
    (h : subAt root p = some (.node "NAME" [.tok "IDENT" d])) :
    sliceBytes src (offsetAt root p) (LC.byteLen d) = some d := by
  have := range_exact root src hsrc p _ h
  simp only [Elem.len, Elem.text, textList, List.append_nil] at this
  exact this

/-- the same for the parsed document (no token limit, nothing dropped) -/
theorem parsed_name_location_exact (rl : Nat) (src : Parse.Str) (root : Elem)
    (h : (parse .document none rl src).outcome = .tree root)
    (hd : (parse .document none rl src).dropped = false) (p : List Nat) (d : Rowan.Str)
    (hn : subAt root p = some (.node "NAME" [.tok "IDENT" d])) :
    sliceBytes src (offsetAt root p) (LC.byteLen d) = some d :=
  name_location_exact root src (lossless_document rl src root h hd) p d hn

/-- ALL NAME NODES AT ONCE, in the form the `c11.ranges` stream prints: `nameRanges root 0` lists
    (start, length, text) of every NAME node of the tree — exactly the NAME nodes with their
    `offsetAt` ranges (`name_ranges_listing`) — and for every parsed document (no token limit, nothing
    dropped) each listed range slices the source to the listed text: every `ok` of the stream. -/
theorem name_ranges_listing (root : Elem) (r : Nat × Nat × Rowan.Str) :
    r ∈ nameRanges root 0 ↔
      ∃ p cs, subAt root p = some (.node "NAME" cs) ∧ r = (offsetAt root p, LC.byteLen (textList cs), textList cs) := by
  constructor
  · intro h
    obtain ⟨p, cs, hs, hr⟩ := nameRanges_sound root 0 r h
    exact ⟨p, cs, hs, by simp only [Nat.zero_add] at hr; exact hr⟩
  · rintro ⟨p, cs, hs, hr⟩
    have := nameRanges_complete p root 0 cs hs
    rw [hr]; simp only [Nat.zero_add] at this; exact this

theorem parsed_name_ranges_exact (rl : Nat) (src : Parse.Str) (root : Elem)
    (h : (parse .document none rl src).outcome = .tree root)
    (hd : (parse .document none rl src).dropped = false) (r : Nat × Nat × Rowan.Str) (hr : r ∈ nameRanges root 0) :
    sliceBytes src r.1 r.2.1 = some r.2.2 := by
  obtain ⟨p, cs, hs, rfl⟩ := (name_ranges_listing root r).mp hr
  have := (document_ranges rl src root h hd p _ hs).1
  simp only [Elem.len, Elem.text] at this
  exact this

/-- EVERY NAME node of every parsed tree is `NAME[IDENT]` (statement; proved next). -/
def all_name_nodes_are_one_ident : Prop :=
  ∀ (e : Entry) (tl : Option Nat) (rl : Nat) (src : Parse.Str) (root : Elem),
    (parse e tl rl src).outcome = .tree root → namesAreIdents root = true

/-- … for every entry point (document, selection set, type), every token limit, recursion limit and
    input, with or without syntax errors.  Proved by a builder-shape invariant carried through every
    primitive and every one of the grammar functions (Proofs/NameNodes1–5.lean): whatever a parser
    function appends to the tree contains only NAME nodes of that shape; `withNode k` preserves this
    for every `k ≠ "NAME"`, and the only two places that open a NAME node — `name()` and the
    `NAMED_TYPE` branch of ty.rs — do so on a Name token and put exactly the IDENT token inside.
    One line of structural automation per grammar function, so a changed function body is re-checked. -/
theorem all_name_nodes_one_ident : all_name_nodes_are_one_ident :=
  fun e tl rl src root h => Parse.all_name_nodes_one_ident e tl rl src root h

/-- EVERY NAME NODE OF A PARSED DOCUMENT, without assuming its shape: it is one IDENT token, and
    (no token limit, nothing dropped) its range slices the source to exactly that name. -/
theorem every_name_location_exact (rl : Nat) (src : Parse.Str) (root : Elem)
    (h : (parse .document none rl src).outcome = .tree root)
    (hd : (parse .document none rl src).dropped = false) (p : List Nat) (cs : List Elem)
    (hn : subAt root p = some (.node "NAME" cs)) :
    ∃ d, cs = [.tok "IDENT" d] ∧ sliceBytes src (offsetAt root p) (LC.byteLen d) = some d := by
  have hr := Parse.all_name_nodes_one_ident .document none rl src root h
  obtain ⟨d, rfl⟩ := name_node_shape cs (namesAreIdents_subAt p root _ hr hn)
  exact ⟨d, rfl, parsed_name_location_exact rl src root h hd p d hn⟩

/-- `type A{a:[!]b:B}` -/
def droppedWitness : Parse.Str := ['t','y','p','e',' ','A','{','a',':','[','!',']','b',':','B','}']

/-- KNOWN FINDING `ast-location-after-dropped-token`, on the model: when ty.rs drops a token (`!` in
    type position), the tree text is shorter than the source, and the range of a LATER name no longer
    slices the source to its text — the NAME `b` at path [0,3,2,0] has range (11, 1), and bytes
    11..12 of the source are `]`.  So the hypothesis `dropped = false` of `parsed_name_location_exact`
    cannot be removed. -/
theorem C11_counterexample_dropped :
    (parse .document none 500 droppedWitness).dropped = true ∧
    ∃ root, (parse .document none 500 droppedWitness).outcome = .tree root ∧
        subAt root [0, 3, 2, 0] = some (.node "NAME" [.tok "IDENT" ['b']]) ∧
        offsetAt root [0, 3, 2, 0] = 11 ∧
        sliceBytes droppedWitness 11 (LC.byteLen ['b']) = some [']'] := by
  refine ⟨by decide +kernel, rootOf (parse .document none 500 droppedWitness), ?_, ?_, ?_, ?_⟩
  · exact rootOf_tree _ (by decide +kernel)
  · exact isNameOf_sound _ _ (by decide +kernel)
  · decide +kernel
  · decide +kernel

/-- `#é⏎{a}`: two-byte character in a comment before a name -/
def multibyteWitness : Parse.Str := ['#','é','\n','{','a','}']

-- Non-vacuity: multi-byte text before a name — nothing dropped, the range (5, 1) is in BYTES (the
-- name is the 5th character, index 4) and slices the source to the name
example : (parse .document none 500 multibyteWitness).dropped = false ∧
    (nameRanges (rootOf (parse .document none 500 multibyteWitness)) 0).map
      (fun r => (r.1, r.2.1, sliceBytes multibyteWitness r.1 r.2.1 == some r.2.2)) = [(5, 1, true)] := by
  decide +kernel

end Tree

section Ast
/-! ### the AST half: Names produced by the CST → AST conversion (Model/FromCst.lean, stream `c08.fromcst`) -/
open Apollo.Rowan Apollo.Parse Apollo.FromCst

/-- every Name location reported by `fromCst root` is the (start, length, text) of a NAME node of `root`
    (`SourceSpan::new(file_id, name.syntax())`) — the conversion cannot report anything else: by typing -/
theorem ast_name_locations_are_name_nodes (root : Elem) :
    ∀ l ∈ (fromCst root).2, l.val ∈ nameRanges root 0 := fromCst_locs_are_name_nodes root

/-- AST NAME LOCATION EXACT: for every parsed document (no token limit, nothing dropped) and every Name of the
    AST that `fromCst` builds from the parse tree, the source bytes under the Name's location are exactly the
    text of the NAME node it came from. -/
theorem ast_name_location_exact (rl : Nat) (src : Parse.Str) (root : Elem)
    (h : (parse .document none rl src).outcome = .tree root)
    (hd : (parse .document none rl src).dropped = false) :
    ∀ l ∈ (fromCst root).2, sliceBytes src l.val.1 l.val.2.1 = some l.val.2.2 :=
  fun l _ => parsed_name_ranges_exact rl src root h hd l.val l.property

/-- … and the Name's own text is the text of the first token of that NAME node; when the node is one IDENT
    token (what `name()` and ty.rs build) the Name IS the located text. -/
theorem ast_name_text {R : List Loc} (p : PE R) (t : Ast.Str) (ls : Locs R) (hc : cName p = some (t, ls)) :
    ∃ cs s, p.1 = (.node "NAME" cs, s) ∧ (∃ k, firstTokList cs = some (k, t)) ∧ isValidName t = true ∧
      ls.map (·.val) = [(s, bytes (textList cs), textList cs)] := cName_spec p t ls hc

theorem ast_name_of_ident {R : List Loc} (k : SK) (d : Rowan.Str) (s : Nat)
    (hp : ∀ x ∈ nameRanges (.node "NAME" [.tok k d]) s, x ∈ R) (hv : isValidName d = true) :
    ∃ l : LocIn R, cName ⟨(.node "NAME" [.tok k d], s), hp⟩ = some (d, [l]) ∧ l.val = (s, bytes d, d) :=
  cName_ident k d s hp hv

-- `#é⏎{a}`: the AST has one Name, `a`, located at bytes 5..6
example : ((fromCst (rootOf (parse .document none 500 multibyteWitness))).2.map (·.val)) = [(5, 1, ['a'])] := by decide +kernel
end Ast

end Apollo.C11
