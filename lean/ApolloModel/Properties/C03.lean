import ApolloModel.Proofs.Lexer3
import ApolloModel.Proofs.LexerTokens
import ApolloModel.Proofs.LexerWhole
/-
C03 — The lexer implements the GraphQL lexical grammar.

Model: Model/Lexer.lean — the state machine of `Cursor::advance` one character at a time, with the
character classes REGENERATED from lexer/lookup.rs and lexer/mod.rs (Generated/LexTables.lean) and
the transitions hand-written (tied by the exhaustive correspondence stream L: every string of
length ≤ 4/5 over one representative per character class, deeper targeted alphabets, random).

Proved here for ALL inputs: losslessness and termination (independent of the transition table),
exact token-limit behaviour, maximal munch for names and punctuators.  The kinds/boundaries of
numbers and strings and "no error ⟺ valid token sequence" are checked against an independent
reference lexer of the October-2021 grammar in the harness, and proved below (section Grammar):
per-kind iff theorems and the whole-input theorem `lex_ok_iff_spec_tokens`.
-/
namespace Apollo.C03
open Apollo.Lex

/-- Tokens and error fragments, concatenated in order, reproduce the input; the stream always ends
    with EOF (so lexing terminates: the model's fuel `|src| + 1` is always sufficient). -/
theorem lex_concat (src : Str) : texts (lex none src) = src ∧ (lex none src).getLast? = some (.tok .eof []) :=
  Lex.lex_concat src

/-- One `advance` call never loses, duplicates or reorders a character. -/
theorem advance_concat (src : Str) : (advance src).1.data ++ (advance src).2 = src := Lex.advance_concat src

/-- Every item produced from non-empty input is non-empty and consumes input (no infinite loop). -/
theorem advance_progress (c : Char) (rest : Str) :
    (advance (c :: rest)).1.data ≠ [] ∧ (advance (c :: rest)).2.length < (c :: rest).length :=
  Lex.advance_progress c rest

/-- With token limit `n`: the first `n` items of the unlimited stream, then one limit error — iff the
    unlimited stream is longer than `n`. -/
theorem token_limit_exact (n : Nat) (src : Str) :
    lex (some n) src = if (lex none src).length ≤ n then lex none src else (lex none src).take n ++ [.limit] :=
  Lex.token_limit_exact n src

/-- Punctuators: single character, kind from the (regenerated) table. -/
theorem lex_punctuator (c : Char) (k : Kind) (rest : Str) (h : punctuationKind c = some k) :
    advance (c :: rest) = (.tok k [c], rest) := Lex.lex_punctuator c k rest h

/-- Names are maximal-munch: NameStart then the longest run of NameContinue. -/
theorem lex_name (c : Char) (rest : Str) (h : isNameStart c = true) :
    advance (c :: rest) = (.tok .name (c :: rest.takeWhile isNameContinue), rest.dropWhile isNameContinue) :=
  Lex.lex_name c rest h

/-- The regenerated tables are the grammar's: NameStart = `[_A-Za-z]`, NameContinue adds digits,
    line terminators are LF and CR, and the punctuator table has exactly the 14 one-character
    punctuators. -/
theorem tables_are_spec :
    (∀ c, isNameStart c = true ↔ (c = '_' ∨ ('A' ≤ c ∧ c ≤ 'Z') ∨ ('a' ≤ c ∧ c ≤ 'z'))) ∧
    (∀ c, isLineTerminator c = true ↔ (c = '\n' ∨ c = '\r')) ∧
    (['!', '$', '&', '(', ')', ':', '=', '@', '[', ']', '{', '|', '}', ','].map punctuationKind =
      [some .bang, some .dollar, some .amp, some .lParen, some .rParen, some .colon, some .eq, some .at,
       some .lBracket, some .rBracket, some .lCurly, some .pipe, some .rCurly, some .comma]) := by
  have char_eq_iff : ∀ (c d : Char), c = d ↔ c.toNat = d.toNat := fun c d =>
    ⟨fun h => h ▸ rfl, fun h => by rw [← Char.ofNat_toNat c, ← Char.ofNat_toNat d, h]⟩
  refine ⟨?_, ?_, by decide⟩
  · intro c
    have e1 : ∀ (a b : Char), a ≤ b ↔ a.toNat ≤ b.toNat := fun a b => Iff.rfl
    simp only [isNameStart, Bool.or_eq_true, Bool.and_eq_true, decide_eq_true_eq, beq_iff_eq, e1, char_eq_iff c '_']
    show _ ↔ (c.toNat = 95 ∨ (65 ≤ c.toNat ∧ c.toNat ≤ 90) ∨ (97 ≤ c.toNat ∧ c.toNat ≤ 122))
    omega
  · intro c
    simp only [isLineTerminator, Bool.or_eq_true, beq_iff_eq, char_eq_iff c '\n', char_eq_iff c '\r']
    show _ ↔ (c.toNat = 10 ∨ c.toNat = 13)
    exact Iff.rfl

-- Non-vacuity and regression witnesses (kernel-evaluated on the model)
example : lex none ['{', 'a', '1', ' ', '.', '.', '.', '}'] =
    [.tok .lCurly ['{'], .tok .name ['a', '1'], .tok .whitespace [' '], .tok .spread ['.', '.', '.'],
     .tok .rCurly ['}'], .tok .eof []] := by decide
-- fixed defect: a line terminator right after the opening quote is an error
example : lex none ['"', '\n', '"'] = [.err ['"', '\n', '"'], .tok .eof []] := by decide
-- known finding: a raw control character inside a string is accepted
theorem C03_counterexample_sourcechar :
    lex none ['"', Char.ofNat 1, '"'] = [.tok .stringValue ['"', Char.ofNat 1, '"'], .tok .eof []] := by decide

/-! ## Token kinds against the lexical grammar (Spec/Lexical.lean, written from October 2021 §2) -/
section Grammar
open Apollo.Spec.Lexical (IsIntValue IsFloatValue NumberLookaheadOk IsQuotedString StringChars IsComment
  CommentLookaheadOk IsBlockString StringLookaheadOk)

/-- the lexer's character classes are the grammar's Digit and NameStart -/
theorem char_classes_agree (c : Char) :
    isAsciiDigit c = Spec.Lexical.isDigit c ∧ isNameStart c = Spec.Lexical.isNameStart c := Lex.classes_agree c

/-- NUMBERS, both directions, for every source: the DFA emits the token `Int t` leaving `rest` exactly
    when the source is `t ++ rest` with `t` a spec IntValue and `rest` allowed by the lookahead
    restriction `[lookahead != {Digit, ., NameStart}]` (or empty) … -/
theorem lex_number_iff_spec (src t rest : Str) :
    (advance src = (.tok .int t, rest) ↔ src = t ++ rest ∧ IsIntValue t ∧ NumberLookaheadOk rest) ∧
    (advance src = (.tok .float t, rest) ↔ src = t ++ rest ∧ IsFloatValue t ∧ NumberLookaheadOk rest) := by
  constructor
  · constructor
    · intro h
      have hs := Lex.lex_number_sound src .int t rest h (Or.inl rfl)
      have hc := Lex.advance_concat src
      rw [h] at hc
      rcases hs.1 with ⟨_, hi⟩ | ⟨hk, _⟩
      · exact ⟨hc.symm, hi, hs.2⟩
      · cases hk
    · rintro ⟨rfl, hi, hl⟩; exact Lex.lex_int_complete t rest hi hl
  · constructor
    · intro h
      have hs := Lex.lex_number_sound src .float t rest h (Or.inr rfl)
      have hc := Lex.advance_concat src
      rw [h] at hc
      rcases hs.1 with ⟨hk, _⟩ | ⟨_, hf⟩
      · cases hk
      · exact ⟨hc.symm, hf, hs.2⟩
    · rintro ⟨rfl, hf, hl⟩; exact Lex.lex_float_complete t rest hf hl

/-- … and a source that starts like a number (digit or `-`) but has no prefix that is a spec number
    followed by an allowed character yields an ERROR item: `01`, `1.`, `1e`, `1a`, `-`, `1.5.`, `0x1` … -/
theorem lex_number_error (c : Char) (src : Str) (hc : isAsciiDigit c = true ∨ c = '-')
    (hno : ∀ t rest, c :: src = t ++ rest → (IsIntValue t ∨ IsFloatValue t) → ¬ NumberLookaheadOk rest) :
    (advance (c :: src)).1.isErr = true := by
  cases hadv : advance (c :: src) with
  | mk item rest =>
    cases item with
    | err d => rfl
    | limit => rfl
    | tok k t =>
      exfalso
      have hc' : Lex.D c ∨ c.toNat = 45 := by
        rcases hc with h | h
        · exact Or.inl ((Lex.lexDigit_iff c).mp h)
        · right; rw [h]; rfl
      have hs := Lex.lex_number_start_sound c src hc' k t rest hadv
      have hcat := Lex.advance_concat (c :: src)
      rw [hadv] at hcat
      refine hno t rest hcat.symm ?_ hs.2
      rcases hs.1 with ⟨_, h⟩ | ⟨_, h⟩
      · exact Or.inl h
      · exact Or.inr h

example : (advance "01".toList).1 = .err "01".toList := by decide
example : (advance "1.".toList).1 = .err "1.".toList := by decide
example : (advance "1. ".toList).1 = .err "1. ".toList := by decide
example : (advance "1e".toList).1 = .err "1e".toList := by decide
example : (advance "1e+ ".toList).1 = .err "1e+ ".toList := by decide
example : (advance "1a".toList).1 = .err "1a".toList := by decide
example : (advance "-".toList).1 = .err "-".toList := by decide
example : (advance "-a".toList).1 = .err "-a".toList := by decide
example : (advance "1.5.".toList).1 = .err "1.5.".toList := by decide
example : advance "-0.5E-10,".toList = (.tok .float "-0.5E-10".toList, ",".toList) := by decide
example : advance "0)".toList = (.tok .int "0".toList, ")".toList) := by decide

/-- STRINGS, soundness: every StringValue token the DFA emits is either a spec quoted string
    `"` StringCharacter* `"` — with the lexer's documented relaxation that any character counts as a
    SourceCharacter (the raw-control-character finding) — or starts with `"""` (a block string). -/
theorem lex_string_sound (c : Char) (src t rest : Str) (h : advance (c :: src) = (.tok .stringValue t, rest)) :
    IsQuotedString Lex.anyChar t ∨ ∃ tail, t = Lex.q3 ++ tail := by
  rcases Lex.advance_token_sound c src .stringValue t rest h with hq | hb
  · exact Or.inl (Lex.lexQuoted_spec hq)
  · exact Or.inr hb

/-- … and when the token contains only SourceCharacters it is a quoted string of the unrelaxed grammar -/
theorem lex_string_sound_strict (c : Char) (src t rest : Str)
    (h : advance (c :: src) = (.tok .stringValue t, rest))
    (hsrc : ∀ x ∈ t, Spec.Lexical.isSourceCharacter x = true) :
    IsQuotedString Spec.Lexical.isSourceCharacter t ∨ ∃ tail, t = Lex.q3 ++ tail := by
  rcases lex_string_sound c src t rest h with ⟨body, rfl, hb⟩ | hq
  · exact Or.inl ⟨body, rfl, Lex.sc_strict hb (fun x hx => hsrc x (by simp [hx]))⟩
  · exact Or.inr hq

/-- QUOTED STRINGS, both directions, in the lexer's exact language (`Lex.LexStringChars`: the
    grammar's StringCharacter* with any character counted as SourceCharacter and `\uXXXX` not a
    surrogate): a token that does not start with `"""` is emitted exactly for `"` StringCharacter* `"`,
    where the empty string `""` must not be followed by a third quote. -/
theorem lex_quoted_string_iff (src t rest : Str) (hnb : ¬ ∃ tail, t = Lex.q3 ++ tail) :
    advance src = (.tok .stringValue t, rest) ↔
      src = t ++ rest ∧ Lex.IsLexQuoted t ∧ StringLookaheadOk t rest := by
  constructor
  · intro h
    have hc := Lex.advance_concat src
    rw [h] at hc
    simp only [Item.data] at hc
    cases src with
    | nil => simp [advance, runD, eofItem] at h
    | cons c src =>
      rcases Lex.advance_token_sound c src .stringValue t rest h with hq | hb
      · refine ⟨hc.symm, hq, ?_⟩
        intro ht
        subst ht
        cases rest with
        | nil => simp
        | cons x r =>
          intro hx
          have : x = '"' := by simpa using hx
          subst this
          obtain ⟨tail', hp⟩ := Lex.advance_block_prefix r
          have hsrc : c :: src = '"' :: '"' :: '"' :: r := by simpa using hc.symm
          rw [← hsrc, h] at hp
          simp [Item.data, Lex.q3] at hp
      · exact absurd hb hnb
  · rintro ⟨rfl, ⟨body, rfl, hb⟩, hl⟩
    have := Lex.lex_string_complete body rest hb (by
      intro hbody; subst hbody; exact hl rfl)
    simpa using this

/-- the documented exceptions, as witnesses: a surrogate escape and a braced escape are rejected -/
example : (advance "\"\\uD800\"".toList).1.isErr = true := by decide
example : (advance "\"\\u{1F600}\"".toList).1.isErr = true := by decide
example : advance "\"a\\n\\u00e9\" x".toList = (.tok .stringValue "\"a\\n\\u00e9\"".toList, " x".toList) := by decide
example : advance "\"\"x".toList = (.tok .stringValue "\"\"".toList, "x".toList) := by decide

/-- COMMENTS: `#` up to the next line terminator (or the end of input), one Comment token -/
theorem lex_comment (rest : Str) :
    advance ('#' :: rest) = (.tok .comment ('#' :: rest.takeWhile (fun c => !isLineTerminator c)),
      rest.dropWhile (fun c => !isLineTerminator c)) := Lex.lex_comment rest

/-- WHITESPACE: TAB, SPACE, LF, CR and the BOM are merged into one maximal run -/
theorem lex_whitespace (c : Char) (rest : Str) (h : isWhitespaceAssimilated c = true) :
    advance (c :: rest) = (.tok .whitespace (c :: rest.takeWhile isWhitespaceAssimilated),
      rest.dropWhile isWhitespaceAssimilated) := Lex.lex_whitespace c rest h

/-- `...` is a token; any other text starting with a dot is an error -/
theorem lex_spread (rest : Str) : advance ('.' :: '.' :: '.' :: rest) = (.tok .spread ['.', '.', '.'], rest) :=
  Lex.lex_spread rest
theorem lex_dot_error (rest : Str) (h : rest.take 2 ≠ ['.', '.']) : (advance ('.' :: rest)).1.isErr = true :=
  Lex.lex_dot_error rest h

/-- EVERY TOKEN: whatever token one `advance` emits is a token of the lexical grammar of that kind
    (Name, IntValue, FloatValue, StringValue, Comment, punctuator, `...`, whitespace run), and what
    follows satisfies the grammar's lookahead restriction for that kind. -/
theorem advance_token_sound (c : Char) (src : Str) (k : Kind) (t rest : Str)
    (h : advance (c :: src) = (.tok k t, rest)) : Lex.TokenOk k t rest :=
  Lex.advance_token_sound c src k t rest h

/-- WHOLE INPUT, the ⇒ half of "no error ⟺ valid token sequence": when lexing reports no error the
    item stream is a tokenisation of the input by the lexical grammar. -/
theorem lex_ok_tokens_sound (src : Str) (h : ∀ it ∈ lex none src, it.isErr = false) :
    Lex.SpecTokens src (lex none src) := Lex.lex_ok_tokens_sound src h

/-- BLOCK STRINGS, both directions, for every source: a StringValue token that starts with `"""` is emitted, leaving
    `rest`, exactly when the source is `t ++ rest` with `t` a block string of the grammar:
    `"""` BlockStringCharacter* `"""` where BlockStringCharacter is any character (documented deviation: every character
    counts as SourceCharacter) that does not start `"""` or `\"""`, or the escape `\"""` — so the token ends at the FIRST
    unescaped `"""` (maximal munch is not an issue: there is no choice).  Proved state by state for the six block-string
    states (`Lex.block_run`: from each state, with its pending partial match, the DFA accepts exactly the
    `Spec.Lexical.BlockBody` continuations). -/
theorem lex_block_string_iff (src t rest : Str) :
    (advance src = (.tok .stringValue t, rest) ∧ ∃ tail, t = Lex.q3 ++ tail) ↔
      (src = t ++ rest ∧ IsBlockString Lex.anyChar t) := Lex.lex_block_string_iff src t rest

/-- … and an opening `"""` that is not followed by BlockStringCharacter* `"""` yields an ERROR item (unterminated) -/
theorem lex_block_string_error (r : Str) (hno : ¬ ∃ body rest, r = body ++ rest ∧ Spec.Lexical.BlockBody Lex.anyChar body) :
    (advance (Lex.q3 ++ r)).1.isErr = true := Lex.lex_block_string_error r hno

-- runs of quotes, exactly as the code: 3, 4 and 5 quotes are unterminated; 6 are the empty block string; of 7 the
-- first 6 are a token and the 7th starts an unterminated quoted string; `\"""` is an escape, `\\"""` too (the second
-- backslash escapes the quotes)
example : lex none "\"\"\"".toList = [.err "\"\"\"".toList, .tok .eof []] := by decide
example : lex none "\"\"\"\"".toList = [.err "\"\"\"\"".toList, .tok .eof []] := by decide
example : lex none "\"\"\"\\\"\"\"".toList = [.err "\"\"\"\\\"\"\"".toList, .tok .eof []] := by decide
example : lex none "\"\"\"a\"\"".toList = [.err "\"\"\"a\"\"".toList, .tok .eof []] := by decide
example : lex none "\"\"\"\"\"\"".toList = [.tok .stringValue "\"\"\"\"\"\"".toList, .tok .eof []] := by decide
example : lex none "\"\"\"\"\"\"\"".toList = [.tok .stringValue "\"\"\"\"\"\"".toList, .err "\"".toList, .tok .eof []] := by decide
example : lex none "\"\"\"\\\\\"\"\"".toList = [.err "\"\"\"\\\\\"\"\"".toList, .tok .eof []] := by decide
example : lex none "\"\"\"a\\\"\"\"b\"\"\" x".toList =
    [.tok .stringValue "\"\"\"a\\\"\"\"b\"\"\"".toList, .tok .whitespace " ".toList, .tok .name "x".toList, .tok .eof []] := by decide

/-- the exact language of StringValue tokens: a quoted string in the lexer's exact language, the empty one not followed
    by a third quote, or a block string -/
abbrev IsStringToken (t rest : Str) : Prop := Lex.IsStringToken t rest

/-- a tokenisation of the input by the lexical grammar: every item is a token of its kind followed by what its lookahead
    restriction allows (`Lex.TokenOk`), every StringValue token is in the exact language, the texts concatenate to the
    input and the stream ends with EOF -/
abbrev ExactTokens : Str → List Item → Prop := Lex.ExactTokens

/-- EVERY TOKEN OF THE GRAMMAR IS EMITTED (per-kind completeness, assembled): a non-empty text that is a token of kind
    `k` of the lexical grammar, followed by what the lookahead restriction of its kind allows, is exactly what one
    `advance` returns -/
theorem advance_token_complete (k : Kind) (t rest : Str) (hne : t ≠ []) (hok : Lex.TokenOk k t rest)
    (hstr : k = .stringValue → IsStringToken t rest) : advance (t ++ rest) = (.tok k t, rest) :=
  Lex.advance_complete k t rest hne hok hstr

/-- **WHOLE INPUT, both directions.**  Lexing reports no error exactly when the input is a concatenation of tokens of
    the lexical grammar (Name, IntValue, FloatValue, StringValue quoted or block, Comment, punctuators, `...`, runs of
    whitespace / line terminators / BOM; each with its lookahead restriction), and then the item stream is that
    tokenisation.  The lexer's language differs from October 2021 in exactly the two documented ways, both explicit in
    `ExactTokens`: any character counts as SourceCharacter inside strings, block strings and comments (`Lex.anyChar`,
    the raw-control-character finding), and a `\uXXXX` escape must not be a surrogate (`Lex.LexStringChars`; braced and
    surrogate-pair escapes are not supported). -/
theorem lex_ok_iff_spec_tokens (src : Str) :
    ((∀ it ∈ lex none src, it.isErr = false) ↔ ∃ items, ExactTokens src items) ∧
    (∀ items, ExactTokens src items → lex none src = items) := Lex.lex_ok_iff_exact src

/-- **Uniqueness**: an input has at most one tokenisation by the lexical grammar with its lookahead restrictions —
    the maximal-munch one the lexer computes -/
theorem lex_tokenisation_unique (src : Str) (i1 i2 : List Item) (h1 : ExactTokens src i1) (h2 : ExactTokens src i2) :
    i1 = i2 := Lex.exactTokens_unique src i1 i2 h1 h2

/-- **Strict corollary**: when the source consists of October-2021 SourceCharacters only, the first deviation is
    vacuous — every string, block string and comment token of the tokenisation is a token of the UNRELAXED grammar
    (`isSourceCharacter` in place of `anyChar`).  So for such sources: no lexer error ⟺ the input is a sequence of
    October-2021 tokens without surrogate / braced unicode escapes. -/
theorem lex_ok_tokens_strict (src : Str) (hsrc : ∀ c ∈ src, Spec.Lexical.isSourceCharacter c = true)
    (h : ∀ it ∈ lex none src, it.isErr = false) :
    ExactTokens src (lex none src) ∧ ∀ k t, Item.tok k t ∈ lex none src → Lex.StrictOk k t := by
  obtain ⟨items, hi⟩ := (lex_ok_iff_spec_tokens src).1.mp h
  have := (lex_ok_iff_spec_tokens src).2 items hi
  rw [this]
  exact ⟨hi, Lex.exactTokens_strict hi hsrc⟩

end Grammar

end Apollo.C03
