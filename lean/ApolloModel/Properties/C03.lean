import ApolloModel.Proofs.Lexer3
/-
C03 — The lexer implements the GraphQL lexical grammar.

Model: Model/Lexer.lean — the state machine of `Cursor::advance` one character at a time, with the
character classes REGENERATED from lexer/lookup.rs and lexer/mod.rs (Generated/LexTables.lean) and
the transitions hand-written (tied by the exhaustive correspondence stream L: every string of
length ≤ 4/5 over one representative per character class, deeper targeted alphabets, random).

Proved here for ALL inputs: losslessness and termination (independent of the transition table),
exact token-limit behaviour, maximal munch for names and punctuators.  The kinds/boundaries of
numbers and strings and "no error ⟺ valid token sequence" are checked against an independent
reference lexer of the October-2021 grammar in the harness (PARTIAL: not yet a theorem).
-/
namespace Apollo.C03
open Apollo.Lex

/-- Tokens and error fragments, concatenated in order, reproduce the input; the stream always ends
    with EOF (so lexing terminates: the model's fuel `|src| + 1` is always sufficient). -/
theorem lex_concat (src : Str) : texts (lex none src) = src ∧ (lex none src).getLast? = some (.tok .eof []) :=
  Lex.lex_concat src

/-- One `advance` call never loses, duplicates or reorders a character. -/
theorem advance_concat (src : Str) : (advance src).1.data ++ (advance src).2 = src := Lex.advance_concat src

/-- Every item produced from non-empty input is non-empty and consumes input (no infinite loop). -/
theorem advance_progress (c : Char) (rest : Str) :
    (advance (c :: rest)).1.data ≠ [] ∧ (advance (c :: rest)).2.length < (c :: rest).length :=
  Lex.advance_progress c rest

/-- With token limit `n`: the first `n` items of the unlimited stream, then one limit error — iff the
    unlimited stream is longer than `n`. -/
theorem token_limit_exact (n : Nat) (src : Str) :
    lex (some n) src = if (lex none src).length ≤ n then lex none src else (lex none src).take n ++ [.limit] :=
  Lex.token_limit_exact n src

/-- Punctuators: single character, kind from the (regenerated) table. -/
theorem lex_punctuator (c : Char) (k : Kind) (rest : Str) (h : punctuationKind c = some k) :
    advance (c :: rest) = (.tok k [c], rest) := Lex.lex_punctuator c k rest h

/-- Names are maximal-munch: NameStart then the longest run of NameContinue. -/
theorem lex_name (c : Char) (rest : Str) (h : isNameStart c = true) :
    advance (c :: rest) = (.tok .name (c :: rest.takeWhile isNameContinue), rest.dropWhile isNameContinue) :=
  Lex.lex_name c rest h

/-- The regenerated tables are the grammar's: NameStart = `[_A-Za-z]`, NameContinue adds digits,
    line terminators are LF and CR, and the punctuator table has exactly the 14 one-character
    punctuators. -/
theorem tables_are_spec :
    (∀ c, isNameStart c = true ↔ (c = '_' ∨ ('A' ≤ c ∧ c ≤ 'Z') ∨ ('a' ≤ c ∧ c ≤ 'z'))) ∧
    (∀ c, isLineTerminator c = true ↔ (c = '\n' ∨ c = '\r')) ∧
    (['!', '$', '&', '(', ')', ':', '=', '@', '[', ']', '{', '|', '}', ','].map punctuationKind =
      [some .bang, some .dollar, some .amp, some .lParen, some .rParen, some .colon, some .eq, some .at,
       some .lBracket, some .rBracket, some .lCurly, some .pipe, some .rCurly, some .comma]) := by
  have char_eq_iff : ∀ (c d : Char), c = d ↔ c.toNat = d.toNat := fun c d =>
    ⟨fun h => h ▸ rfl, fun h => by rw [← Char.ofNat_toNat c, ← Char.ofNat_toNat d, h]⟩
  refine ⟨?_, ?_, by decide⟩
  · intro c
    have e1 : ∀ (a b : Char), a ≤ b ↔ a.toNat ≤ b.toNat := fun a b => Iff.rfl
    simp only [isNameStart, Bool.or_eq_true, Bool.and_eq_true, decide_eq_true_eq, beq_iff_eq, e1, char_eq_iff c '_']
    show _ ↔ (c.toNat = 95 ∨ (65 ≤ c.toNat ∧ c.toNat ≤ 90) ∨ (97 ≤ c.toNat ∧ c.toNat ≤ 122))
    omega
  · intro c
    simp only [isLineTerminator, Bool.or_eq_true, beq_iff_eq, char_eq_iff c '\n', char_eq_iff c '\r']
    show _ ↔ (c.toNat = 10 ∨ c.toNat = 13)
    exact Iff.rfl

-- Non-vacuity and regression witnesses (kernel-evaluated on the model)
example : lex none ['{', 'a', '1', ' ', '.', '.', '.', '}'] =
    [.tok .lCurly ['{'], .tok .name ['a', '1'], .tok .whitespace [' '], .tok .spread ['.', '.', '.'],
     .tok .rCurly ['}'], .tok .eof []] := by decide
-- fixed defect: a line terminator right after the opening quote is an error
example : lex none ['"', '\n', '"'] = [.err ['"', '\n', '"'], .tok .eof []] := by decide
-- known finding: a raw control character inside a string is accepted
theorem C03_counterexample_sourcechar :
    lex none ['"', Char.ofNat 1, '"'] = [.tok .stringValue ['"', Char.ofNat 1, '"'], .tok .eof []] := by decide

end Apollo.C03
