import ApolloModel.Proofs.ParserLossless
import ApolloModel.Proofs.ParserType5
/-
C05 — Syntax acceptance matches the GraphQL grammar.

The decision procedure for this property is differential: the parser model of C01 (tied to the
code by correspondence stream P) and, as the reference parser, an independent recogniser of the
October-2021 document grammar (harness/src/gramspec.rs over harness/src/lexspec.rs) evaluated on the
implementation: error-free ⟺ accepted, and equal (kind, name) lists of top-level definitions.
PARTIAL: the only Lean theorem relating the parser model to the grammar is `type_accepted_is_in_grammar`
(the `Type` production, entry point `parse_type`); for documents what is
machine-checked here are facts of the model that the acceptance argument rests on, and
kernel-evaluated witnesses of the repaired defects and of the known finding.
-/
namespace Apollo.C05
open Apollo.Parse Apollo.Rowan

def errorFree (src : Parse.Str) : Bool := (parse .document none 500 src).errors.isEmpty

/-- an error-free parse has consumed the whole input: every token of the document is in the tree
    (so acceptance is a statement about ALL tokens, none are skipped) -/
theorem accepted_document_is_whole_input (rl : Nat) (src : Parse.Str) (root : Elem)
    (h : (parse .document none rl src).outcome = .tree root)
    (hd : (parse .document none rl src).dropped = false) : root.text = src :=
  Parse.lossless_document rl src root h hd

/-- the top-level loop of `document()` only stops at the end of the token stream: it returns
    `Break` on the EOF token and nothing else, so no trailing definition is ever ignored -/
theorem document_loop_stops_only_at_eof (n : Nat) (kind : Lex.Kind) (s s' : PState)
    (h : (documentStep n kind).run s = .ok false s') : kind = .eof :=
  (Parse.documentStep_false n kind s s' h).1

/-- KNOWN FINDING (model-level witness): `schema{query:}` is accepted although
    RootOperationTypeDefinition requires a NamedType after the colon. -/
theorem C05_counterexample : errorFree "schema{query:}".toList = true := by decide +kernel

-- repaired defects (all must now report an error)
example : errorFree "schema".toList = false := by decide +kernel
example : errorFree "{a(b)}".toList = false := by decide +kernel
example : errorFree "{a(x:{c:1 d})}".toList = false := by decide +kernel
-- …and a comma between description and keyword is accepted
example : errorFree "\"d\",type A".toList = true := by decide +kernel
example : errorFree "{a ...F ...on T{b}}".toList = true := by decide +kernel

/-- Grammar acceptance for the `Type` production (the one production with unbounded nesting that is proved so
    far): what `parse_type` accepts without error is a sentence of `Type : NamedType | [Type] | Type!` —
    its significant tokens are exactly the tokens `tTy t` of a type reference `t`, then the end of input.
    (Same theorem as C07 `type_accept_sound`, read as "accepted ⊆ grammar"; the converse inclusion is
    `C07.type_accept_complete_statement`, not proved.) -/
theorem type_accepted_is_in_grammar (rl : Nat) (src : Parse.Str) (root : Elem)
    (h : (parse .type none rl src).outcome = .tree root) (herr : (parse .type none rl src).errors = []) :
    ∃ (t : Ast.Ty) (ts : List Tok) (e : Tok),
      sig (srcToks src) = ts ++ [e] ∧ e.kind = .eof ∧ ts.map astOf = (Ast.tTy t).map some :=
  (Parse.parseType_sound rl src root h herr).2

end Apollo.C05
