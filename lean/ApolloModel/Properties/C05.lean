import ApolloModel.Proofs.ParserLossless
import ApolloModel.Proofs.ParserType10
import ApolloModel.Proofs.ParserValue9
import ApolloModel.Proofs.ParserSel9
import ApolloModel.Proofs.ParserComplete28
import ApolloModel.Proofs.ParserExactS14
import ApolloModel.Proofs.ParserExactT11
import ApolloModel.Proofs.ParserExactT13
import ApolloModel.Proofs.ParserExactS16
import ApolloModel.Proofs.ParserExactC29
import ApolloModel.Proofs.ParserExactS17
import ApolloModel.Proofs.ParserExactS18
import ApolloModel.Proofs.ParserExactT15
import ApolloModel.Proofs.ParserDef19
import ApolloModel.Proofs.ParserTermination8
import ApolloModel.Proofs.ParserDoc5
/-
C05 — Syntax acceptance matches the GraphQL grammar.

The decision procedure for this property is differential: the parser model of C01 (tied to the
code by correspondence stream P) and, as the reference parser, an independent recogniser of the
October-2021 document grammar (harness/src/gramspec.rs over harness/src/lexspec.rs) evaluated on the
implementation: error-free ⟺ accepted, and equal (kind, name) lists of top-level definitions.
PARTIAL: the only Lean theorem relating the parser model to the grammar is `type_accepted_is_in_grammar`
(the `Type` production, entry point `parse_type`); for documents what is
machine-checked here are facts of the model that the acceptance argument rests on, and
kernel-evaluated witnesses of the repaired defects and of the known finding.
-/
namespace Apollo.C05
open Apollo.Parse Apollo.Rowan

def errorFree (src : Parse.Str) : Bool := (parse .document none 500 src).errors.isEmpty

/-- an error-free parse has consumed the whole input: every token of the document is in the tree
    (so acceptance is a statement about ALL tokens, none are skipped) -/
theorem accepted_document_is_whole_input (rl : Nat) (src : Parse.Str) (root : Elem)
    (h : (parse .document none rl src).outcome = .tree root)
    (hd : (parse .document none rl src).dropped = false) : root.text = src :=
  Parse.lossless_document rl src root h hd

/-- the top-level loop of `document()` only stops at the end of the token stream: it returns
    `Break` on the EOF token and nothing else, so no trailing definition is ever ignored -/
theorem document_loop_stops_only_at_eof (n : Nat) (kind : Lex.Kind) (s s' : PState)
    (h : (documentStep n kind).run s = .ok false s') : kind = .eof :=
  (Parse.documentStep_false n kind s s' h).1

/-- KNOWN FINDING (model-level witness): `schema{query:}` is accepted although
    RootOperationTypeDefinition requires a NamedType after the colon. -/
theorem C05_counterexample : errorFree "schema{query:}".toList = true := by decide +kernel

-- repaired defects (all must now report an error)
example : errorFree "schema".toList = false := by decide +kernel
example : errorFree "{a(b)}".toList = false := by decide +kernel
example : errorFree "{a(x:{c:1 d})}".toList = false := by decide +kernel
-- …and a comma between description and keyword is accepted
example : errorFree "\"d\",type A".toList = true := by decide +kernel
example : errorFree "{a ...F ...on T{b}}".toList = true := by decide +kernel

/-- Grammar acceptance for the `Type` production (the one production with unbounded nesting that is proved so
    far), "accepted ⊆ grammar": what `parse_type` accepts without error is a sentence of
    `Type : NamedType | [Type] | Type!` — its significant tokens are exactly the tokens `tTy t` of a type
    reference `t`, then the end of input. -/
theorem type_accepted_is_in_grammar (rl : Nat) (src : Parse.Str) (herr : (parse .type none rl src).errors = []) :
    ∃ (t : Ast.Ty) (ts : List Tok) (e : Tok),
      sig (srcToks src) = ts ++ [e] ∧ e.kind = .eof ∧ ts.map astOf = (Ast.tTy t).map some :=
  (Parse.parseType_sound' rl src herr).2

/-- "grammar ⊆ accepted" for the same production: every sentence of `Type` (ignored tokens anywhere but in
    front, list nesting within the recursion limit, no lexer error) is accepted without error. -/
theorem type_in_grammar_is_accepted (rl : Nat) (src : Parse.Str) (t : Ast.Ty) (ts : List Tok) (e : Tok)
    (hclean : LexClean src) (hsig : sig (srcToks src) = ts ++ [e]) (he : e.kind = .eof)
    (hty : ts.map astOf = (Ast.tTy t).map some) (hdepth : Parse.tyDepth t ≤ rl)
    (hhead : ∀ hd tl, srcToks src = hd :: tl → isIgnoredKind hd.kind = false) :
    (parse .type none rl src).errors = [] :=
  Parse.parseType_complete_sig rl src t ts e hclean hsig he hty hdepth hhead

section Values

/-- **`value.rs::value`, acceptance is sound** (any fuel, `Const` or not, `pop_on_error` or not, any state
    without token limit): if the run adds no error then the tokens it took from the queue, with ignored
    tokens removed, are exactly the tokens `tValue v` of ONE value `v` of the grammar
    `Value : Variable | IntValue | FloatValue | StringValue | BooleanValue | NullValue | EnumValue |
    ListValue | ObjectValue` (unbounded nesting) — where enum values are names other than `true`, `false`,
    `null`, and under `Const` no variable occurs anywhere in `v` (`valueOk`) — and the rest of the queue is
    untouched; OR the run stopped with the end-of-input token next (`AtEof`): `list_value` leaves its loop at
    EOF without reporting the missing `]` (see `list_value_unclosed_at_eof`), which every caller then reports
    on its own closing token (`)`, `}`, `]`). -/
theorem value_accept_sound (n : Nat) (isConst popOnError : Bool) (s s' : PState) (w : TW s) (he : EofEnd s)
    (h : (value n isConst popOnError).run s = .ok () s') (hnd : ¬ Doomed s') :
    ∃ cs, Toks s = cs ++ Toks s' ∧ NoEof cs ∧ EofEnd s' ∧
      ((∃ v : Ast.Value, (sig cs).map astOfV = (Ast.tValue v).map some ∧ valueOk isConst v = true) ∨ AtEof s') := by
  obtain ⟨⟨cs, a, b, d⟩, e⟩ := Parse.value_sound n isConst popOnError s s' w he h hnd
  exact ⟨cs, a, b, e, d⟩

/-- …so whenever something other than the end of input follows, the consumed tokens are one value. -/
theorem value_accept_sound_not_at_eof (n : Nat) (isConst popOnError : Bool) (s s' : PState) (w : TW s) (he : EofEnd s)
    (h : (value n isConst popOnError).run s = .ok () s') (hnd : ¬ Doomed s') (hne : ¬ AtEof s') :
    ∃ cs v, Toks s = cs ++ Toks s' ∧ (sig cs).map astOfV = (Ast.tValue v).map some ∧ valueOk isConst v = true := by
  obtain ⟨cs, a, _, _, d⟩ := value_accept_sound n isConst popOnError s s' w he h hnd
  rcases d with ⟨v, hv, hok⟩ | d
  · exact ⟨cs, v, a, hv, hok⟩
  · exact absurd d hne

/-- The EOF alternative is real (kernel-evaluated on the model): on the input `[1` the value function
    returns without any error, having consumed `[ 1`, with the EOF token next. -/
theorem list_value_unclosed_at_eof :
    (match (value 5 false false).run (initState "[1".toList none 500) with
      | .ok _ s => s.errors.isEmpty && (s.current.map (·.kind) == some Lex.Kind.eof)
      | _ => false) = true := by decide +kernel

/-- **`argument.rs::arguments`** started on `(`: no error ⇒ the consumed tokens are `tArguments args` for a
    non-empty list `( Name : Value … )` of arguments with well-formed values; the rest of the queue is untouched. -/
theorem arguments_accept_sound (n : Nat) (isConst : Bool) (s s' : PState) (t : Tok) (rest : List Tok) (w : TW s)
    (he : EofEnd s) (ht : Toks s = t :: rest) (hk : t.kind = .lParen)
    (h : (arguments n isConst).run s = .ok () s') (hnd : ¬ Doomed s') :
    ∃ cs args, Toks s = cs ++ Toks s' ∧ NoEof cs ∧ EofEnd s' ∧ args ≠ [] ∧
      (sig cs).map astOfV = (Ast.tArguments args).map some ∧ ∀ a ∈ args, valueOk isConst a.2 = true :=
  Parse.arguments_sound n isConst s s' t rest w he ht hk h hnd

/-- **`directive.rs::directives`** from any state: no error ⇒ the consumed tokens are `tDirectives ds` for a
    (possibly empty) list of directive applications `@ Name Arguments?`; the rest of the queue is untouched. -/
theorem directives_accept_sound (n : Nat) (isConst : Bool) (s s' : PState) (w : TW s) (he : EofEnd s)
    (h : (directives n isConst).run s = .ok () s') (hnd : ¬ Doomed s') :
    ∃ cs ds, Toks s = cs ++ Toks s' ∧ NoEof cs ∧ EofEnd s' ∧
      (sig cs).map astOfV = (Ast.tDirectives ds).map some ∧ ∀ d ∈ ds, ∀ a ∈ d.args, valueOk isConst a.2 = true :=
  Parse.directives_sound n isConst s s' w he h hnd

end Values

section Selections
/-! ### selection sets: accepted ⊆ grammar (growth) -/

/-- `selection::selection_set` started on `{`: what an error-free run consumes is a sentence of
    `SelectionSet : { Selection+ }` of the reference grammar (fields with alias / arguments / directives /
    nested selection sets, fragment spreads with name ≠ `on`, inline fragments with optional type condition),
    by induction on the fuel over the mutual recursion selection_set → selection → field / inline_fragment →
    selection_set, with builderD's argument / directive theorems for the leaves. -/
theorem selection_set_accepted_is_in_grammar (n : Nat) (s s' : PState) (t : Tok) (rest : List Tok) (w : TW s) (he : EofEnd s)
    (ht : Toks s = t :: rest) (hk : t.kind = .lCurly) (h : (selectionSet n).run s = .ok () s') (hnd : ¬ Doomed s') :
    ∃ (cs : List Tok) (ss : Ast.Sels), Toks s = cs ++ Toks s' ∧ NoEof cs ∧ ss ≠ Ast.Sels.nil ∧
      TokIs (sig cs) (.p .lCurly :: Ast.tSels ss ++ [.p .rCurly]) := by
  obtain ⟨cs, x, a, b, _, d, ss, hne, rfl⟩ := (Parse.sel_all_sound n).1 s s' t rest w he ht hk h hnd
  exact ⟨cs, ss, a, b, hne, d⟩

/-- one selection item: a field started on a Name token, an inline fragment or a fragment spread started on `...` -/
theorem selection_items_accepted_are_in_grammar (n : Nat) (s s' : PState) (t : Tok) (rest : List Tok) (w : TW s) (he : EofEnd s)
    (ht : Toks s = t :: rest) (hnd : ¬ Doomed s') :
    (t.kind = .name → (field n).run s = .ok () s' → ∃ cs f, Toks s = cs ++ Toks s' ∧ TokIs (sig cs) (Ast.tSel f)) ∧
    (t.kind = .spread → (inlineFragment n).run s = .ok () s' → ∃ cs f, Toks s = cs ++ Toks s' ∧ TokIs (sig cs) (Ast.tSel f)) ∧
    (t.kind = .spread → (fragmentSpread n).run s = .ok () s' →
      ∃ cs nm ds, Toks s = cs ++ Toks s' ∧ TokIs (sig cs) (Ast.tSel (.spread nm ds)) ∧ nm ≠ "on".toList) := by
  refine ⟨?_, ?_, ?_⟩
  · intro hk h
    obtain ⟨cs, x, a, _, _, d, f, rfl⟩ := (Parse.sel_all_sound n).2.2.1 s s' t rest w he ht hk h hnd
    exact ⟨cs, f, a, d⟩
  · intro hk h
    obtain ⟨cs, x, a, _, _, d, f, rfl⟩ := (Parse.sel_all_sound n).2.2.2 s s' t rest w he ht hk h hnd
    exact ⟨cs, f, a, d⟩
  · intro hk h
    obtain ⟨cs, x, a, _, _, d, nm, ds, rfl, hne⟩ := Parse.fragmentSpread_sound n s s' t rest w he ht hk h hnd
    exact ⟨cs, nm, ds, a, d, hne⟩

end Selections

section TypeSystem

/-! ### Type-system (SDL) productions: acceptance is sound

Same reading as in `section Values`: a run that adds no error (`¬ Doomed s'`) from a state without token limit
consumed a prefix `cs` of the token queue whose significant tokens are exactly the C08 token printer of ONE
object of the production. `KindP p q` says that the queue `q` starts with a token whose kind satisfies `p`
(the look-ahead every caller performs before entering the production). -/

/-- **`input.rs::input_value_definition`** (`Description? Name : Type DefaultValue? Directives[Const]?`) entered
    on a Name or String token: the consumed tokens are `tIVD v`; OR the run stopped with the end of input next
    (an unclosed list inside the default value, reported by the enclosing `)` / `}`). -/
theorem input_value_definition_accept_sound (n : Nat) (s s' : PState) (w : TW s) (he : EofEnd s)
    (hq : KindP isNameOrStringK (Toks s)) (h : (inputValueDefinition n).run s = .ok () s') (hnd : ¬ Doomed s') :
    ∃ cs, Toks s = cs ++ Toks s' ∧ NoEof cs ∧ EofEnd s' ∧
      ((∃ v : Ast.InputValueDef, (sig cs).map astOfV = (Ast.tIVD v).map some) ∨ AtEof s') := by
  obtain ⟨cs, a1, a2, a3, a4⟩ := (Parse.acc_ivd n).2 s () s' w he hq h hnd
  refine ⟨cs, a1, a2, a3, ?_⟩
  rcases a4 with ⟨x, hx, v, hv⟩ | h4
  · exact Or.inl ⟨v, by rw [← hv]; exact hx⟩
  · exact Or.inr h4

/-- **`argument.rs::arguments_definition`** entered on `(`: `( InputValueDefinition+ )`, never empty. -/
theorem arguments_definition_accept_sound (n : Nat) (s s' : PState) (w : TW s) (he : EofEnd s)
    (hq : KindP (· == .lParen) (Toks s)) (h : (argumentsDefinition n).run s = .ok () s') (hnd : ¬ Doomed s') :
    ∃ cs args, Toks s = cs ++ Toks s' ∧ NoEof cs ∧ EofEnd s' ∧ args ≠ [] ∧
      (sig cs).map astOfV = (Ast.tArgsDef args).map some := by
  obtain ⟨cs, x, a1, a2, a3, hx, args, hne, e⟩ := (Parse.acc_argumentsDefinition n).sound s s' () w he hq h hnd
  exact ⟨cs, args, a1, a2, a3, hne, by rw [← e]; exact hx⟩

/-- **`field.rs::field_definition`** (`Description? Name ArgumentsDefinition? : Type Directives[Const]?`). -/
theorem field_definition_accept_sound (n : Nat) (s s' : PState) (w : TW s) (he : EofEnd s)
    (hq : KindP isNameOrStringK (Toks s)) (h : (fieldDefinition n).run s = .ok () s') (hnd : ¬ Doomed s') :
    ∃ cs f, Toks s = cs ++ Toks s' ∧ NoEof cs ∧ EofEnd s' ∧ (sig cs).map astOfV = (Ast.tFieldDef f).map some := by
  obtain ⟨cs, x, a1, a2, a3, hx, f, e⟩ := (Parse.acc_fieldDefinition Parse.early_false n).sound s s' () w he hq h hnd
  exact ⟨cs, f, a1, a2, a3, by rw [← e]; exact hx⟩

/-- **`field.rs::fields_definition`** entered on `{`: `{ FieldDefinition+ }`, never empty. -/
theorem fields_definition_accept_sound (n : Nat) (s s' : PState) (w : TW s) (he : EofEnd s)
    (hq : KindP (· == .lCurly) (Toks s)) (h : (fieldsDefinition n).run s = .ok () s') (hnd : ¬ Doomed s') :
    ∃ cs fs, Toks s = cs ++ Toks s' ∧ NoEof cs ∧ EofEnd s' ∧ fs ≠ [] ∧
      (sig cs).map astOfV = (Ast.tBraced (Ast.tFieldDefItems fs) fs.isEmpty).map some := by
  obtain ⟨cs, x, a1, a2, a3, hx, fs, hne, e⟩ := (Parse.acc_fieldsDefinition n).sound s s' () w he hq h hnd
  exact ⟨cs, fs, a1, a2, a3, hne, by rw [← e]; exact hx⟩

/-- **`input.rs::input_fields_definition`** entered on `{`: `{ InputValueDefinition+ }`, never empty. -/
theorem input_fields_definition_accept_sound (n : Nat) (s s' : PState) (w : TW s) (he : EofEnd s)
    (hq : KindP (· == .lCurly) (Toks s)) (h : (inputFieldsDefinition n).run s = .ok () s') (hnd : ¬ Doomed s') :
    ∃ cs fs, Toks s = cs ++ Toks s' ∧ NoEof cs ∧ EofEnd s' ∧ fs ≠ [] ∧
      (sig cs).map astOfV = (Ast.tBraced (Ast.tIVDItems fs) fs.isEmpty).map some := by
  obtain ⟨cs, x, a1, a2, a3, hx, fs, hne, e⟩ := (Parse.acc_inputFieldsDefinition n).sound s s' () w he hq h hnd
  exact ⟨cs, fs, a1, a2, a3, hne, by rw [← e]; exact hx⟩

/-- **`enum_.rs::enum_value_definition`** (`Description? EnumValue Directives[Const]?`). -/
theorem enum_value_definition_accept_sound (n : Nat) (s s' : PState) (w : TW s) (he : EofEnd s)
    (hq : KindP isNameOrStringK (Toks s)) (h : (enumValueDefinition n).run s = .ok () s') (hnd : ¬ Doomed s') :
    ∃ cs v, Toks s = cs ++ Toks s' ∧ NoEof cs ∧ EofEnd s' ∧ (sig cs).map astOfV = (Ast.tEnumValueDef v).map some := by
  obtain ⟨cs, x, a1, a2, a3, hx, v, e⟩ := (Parse.acc_enumValueDefinition Parse.early_false n).sound s s' () w he hq h hnd
  exact ⟨cs, v, a1, a2, a3, by rw [← e]; exact hx⟩

/-- **`enum_.rs::enum_values_definition`** entered on `{`: `{ EnumValueDefinition+ }`, never empty. -/
theorem enum_values_definition_accept_sound (n : Nat) (s s' : PState) (w : TW s) (he : EofEnd s)
    (hq : KindP (· == .lCurly) (Toks s)) (h : (enumValuesDefinition n).run s = .ok () s') (hnd : ¬ Doomed s') :
    ∃ cs vs, Toks s = cs ++ Toks s' ∧ NoEof cs ∧ EofEnd s' ∧ vs ≠ [] ∧
      (sig cs).map astOfV = (Ast.tBraced (Ast.tEnumValueDefItems vs) vs.isEmpty).map some := by
  obtain ⟨cs, x, a1, a2, a3, hx, vs, hne, e⟩ := (Parse.acc_enumValuesDefinition n).sound s s' () w he hq h hnd
  exact ⟨cs, vs, a1, a2, a3, hne, by rw [← e]; exact hx⟩

/-- **`schema.rs::root_operation_type_definition`** entered on a Name: no error ⇒ the consumed tokens are
    `tRootOp (op, name)` = `op : Name` with `op` one of `query`, `mutation`, `subscription` — OR, the KNOWN
    FINDING, just `op :` with NO named type: `named_type` silently does nothing when no Name follows. The
    second alternative cannot be dropped, see `root_operation_type_without_name_accepted`. -/
theorem root_operation_type_definition_accept_sound (s s' : PState) (w : TW s) (he : EofEnd s)
    (hq : KindP (· == .name) (Toks s)) (h : rootOperationTypeDefinition.run s = .ok () s') (hnd : ¬ Doomed s') :
    ∃ cs op, Toks s = cs ++ Toks s' ∧ NoEof cs ∧ EofEnd s' ∧
      ((∃ nm, (sig cs).map astOfV = (Ast.tRootOp (op, nm)).map some) ∨
        (sig cs).map astOfV = [some (.name op.name.toList), some (.p .colon)]) := by
  obtain ⟨cs, x, a1, a2, a3, hx, op, e⟩ := (Parse.acc_rootOperationTypeDefinition Parse.early_false).sound s s' () w he hq h hnd
  refine ⟨cs, op, a1, a2, a3, ?_⟩
  rcases e with ⟨nm, e⟩ | e
  · exact Or.inl ⟨nm, by rw [← e]; exact hx⟩
  · exact Or.inr (by rw [hx, e]; rfl)

/-- KNOWN FINDING, at the production (kernel-evaluated on the model): on `query:}` the root operation type
    definition returns without any error having consumed `query :` only — the `}` is next. -/
theorem root_operation_type_without_name_accepted :
    (match rootOperationTypeDefinition.run (initState "query:}".toList none 500) with
      | .ok _ s => s.errors.isEmpty && (s.current.map (·.kind) == some Lex.Kind.rCurly)
      | _ => false) = true := by decide +kernel

/-! #### separated lists, definitions, extensions, dispatch

`LexQ q` is the lexer fact the keyword look-aheads (`peek_data() == "scalar"`, which inspect the TEXT of a token only)
rely on: every token of the queue whose text starts with a letter or `_` is a Name token. It is a theorem about the
lexer model for the queue of every source text (`lexer_queue_fact`), and it is inherited by every suffix of a queue.
`HeadData w q`: the queue starts with a token reading `w`. -/

/-- the token queue the parser starts with satisfies the lexer fact, for every source text -/
theorem lexer_queue_fact (src : Parse.Str) (rl : Nat) :
    LexQ (srcToks src) ∧ LexQ (Toks (initState src none rl)) ∧ ∀ cs q, LexQ (cs ++ q) → LexQ q :=
  ⟨Parse.lexQ_srcToks src, Parse.lexQ_initState src rl, fun _ _ h => h.suffix⟩

/-- C08's printer `tSepList` is the separated list WITHOUT the optional leading separator: `tSepLead sep false`. -/
theorem separated_list_printer_has_no_lead (intro : List Ast.Tok) (sep : Ast.P) (first : Parse.Str) (rest : List Parse.Str) :
    Ast.tSepList intro sep (first :: rest) = intro ++ tSepLead sep false first rest ∧
    tSepLead sep true first rest = .p sep :: tSepLead sep false first rest :=
  ⟨Parse.tSepList_eq_lead intro sep first rest, rfl⟩

/-- **`object.rs::implements_interfaces`** entered on the `implements` keyword: no error ⇒ the consumed tokens are
    `implements &? Name (& Name)*` — C08's `tSepList [implements] &` up to ONE optional leading `&` (`lead`). -/
theorem implements_interfaces_accept_sound (s s' : PState) (w : TW s) (he : EofEnd s)
    (hq : LexQ (Toks s) ∧ HeadData "implements" (Toks s)) (h : implementsInterfaces.run s = .ok () s') (hnd : ¬ Doomed s') :
    ∃ cs lead first rest, Toks s = cs ++ Toks s' ∧ NoEof cs ∧ EofEnd s' ∧
      (sig cs).map astOfV = (.name Ast.sImplements :: tSepLead .amp lead first rest).map some := by
  obtain ⟨cs, x, a1, a2, a3, hx, lead, first, rest, e⟩ := (Parse.acc_implementsInterfaces Parse.early_false).sound s s' () w he hq h hnd
  exact ⟨cs, lead, first, rest, a1, a2, a3, by rw [← e]; exact hx⟩

/-- **`union_.rs::union_member_types`** entered on `=`: `= |? Name (| Name)*`. -/
theorem union_member_types_accept_sound (s s' : PState) (w : TW s) (he : EofEnd s)
    (hq : KindP (· == .eq) (Toks s)) (h : unionMemberTypes.run s = .ok () s') (hnd : ¬ Doomed s') :
    ∃ cs lead first rest, Toks s = cs ++ Toks s' ∧ NoEof cs ∧ EofEnd s' ∧
      (sig cs).map astOfV = (.p .eq :: tSepLead .pipe lead first rest).map some := by
  obtain ⟨cs, x, a1, a2, a3, hx, lead, first, rest, e⟩ := (Parse.acc_unionMemberTypes Parse.early_false).sound s s' () w he hq h hnd
  exact ⟨cs, lead, first, rest, a1, a2, a3, by rw [← e]; exact hx⟩

/-- **`directive.rs::directive_locations`** from any state: `|? Location (| Location)*`, every location one of the
    nineteen location names. -/
theorem directive_locations_accept_sound (s s' : PState) (w : TW s) (he : EofEnd s)
    (h : directiveLocations.run s = .ok () s') (hnd : ¬ Doomed s') :
    ∃ cs lead first rest, Toks s = cs ++ Toks s' ∧ NoEof cs ∧ EofEnd s' ∧
      (sig cs).map astOfV = (tSepLead .pipe lead first rest).map some ∧ ∀ l ∈ first :: rest, IsDirLoc l := by
  obtain ⟨cs, x, a1, a2, a3, hx, lead, first, rest, e, hf, hr⟩ :=
    (Parse.acc_directiveLocations (H := fun _ => True) Parse.early_false).sound s s' () w he trivial h hnd
  refine ⟨cs, lead, first, rest, a1, a2, a3, by rw [← e]; exact hx, ?_⟩
  intro l hl
  rcases List.mem_cons.mp hl with rfl | hl
  · exact hf
  · exact hr l hl

/-- `LooseDef.toks l` are the printer's tokens `tDefinition false d` whenever `l` has neither of the two deviations
    the grammar accepts beyond the printer (a leading `&` / `|`; a root operation type without its named type —
    the KNOWN FINDING): `LooseDef.strict l = some d`. -/
theorem loose_definition_strict (l : LooseDef) (d : Ast.Definition) (h : l.strict = some d) :
    l.toks = Ast.tDefinition false d :=
  Parse.LooseDef.toks_strict l d h

/-- **A type-system definition parser called on its keyword** (`select_definition` with the text `word` of one of the
    eight keywords `directive enum input interface type scalar schema union`), the queue starting with that keyword or
    with a description followed by it (`DefStart`): no error ⇒ the consumed significant tokens are the tokens of ONE
    loose definition `l` of that kind; the rest of the queue is untouched. -/
theorem selected_definition_accept_sound (n : Nat) (word : String) (hword : word ∈ defWords) (s s' : PState) (w : TW s)
    (he : EofEnd s) (hq : LexQ (Toks s) ∧ DefStart word (Toks s))
    (h : (selectDefinition n word.toList).run s = .ok () s') (hnd : ¬ Doomed s') :
    ∃ cs l, Toks s = cs ++ Toks s' ∧ NoEof cs ∧ EofEnd s' ∧ (sig cs).map astOfV = (LooseDef.toks l).map some ∧ l.kws = [word] :=
  Parse.selected_definition_sound n word hword s s' w he hq h hnd

/-- **`type_system_definition_accept_sound`** — through the dispatcher of `document()`. The dispatcher is called with
    the kind of the current token `t`; the selecting text is the text of the next significant token when `t` is a
    string (a description), else the text of `t`. If it is one of the eight definition keywords and the run adds no
    error, the consumed significant tokens are `LooseDef.toks l` for ONE loose definition `l` of that keyword
    (= `tDefinition false d` when `l.strict = some d`, see `loose_definition_strict`). -/
theorem type_system_definition_accept_sound (n : Nat) (word : String) (hword : word ∈ defWords) (s s' : PState) (t : Tok)
    (rest : List Tok) (w : TW s) (he : EofEnd s) (hl : LexQ (Toks s)) (hc : s.current = some t) (ht : Toks s = t :: rest)
    (hsel : (t.kind = .stringValue ∧ ∃ t2, (sig rest).head? = some t2 ∧ t2.data = word.toList) ∨ t.data = word.toList)
    (h : (documentDispatch n t.kind).run s = .ok () s') (hnd : ¬ Doomed s') :
    ∃ cs l, Toks s = cs ++ Toks s' ∧ NoEof cs ∧ EofEnd s' ∧ (sig cs).map astOfV = (LooseDef.toks l).map some ∧ l.kws = [word] :=
  Parse.dispatch_definition_sound n word hword s s' t rest w he hl hc ht hsel h hnd

/-- **`extensions()`** entered on the `extend` token, the next significant token reading one of the seven keywords
    `schema scalar type interface union enum input` (what `peek_data_n(2)` sees). -/
theorem extensions_accept_sound (n : Nat) (w2 : String) (hw2 : w2 ∈ extWords) (s s' : PState) (t : Tok) (rest : List Tok) (t2 : Tok)
    (w : TW s) (he : EofEnd s) (hl : LexQ (Toks s)) (hc : s.current = some t) (ht : Toks s = t :: rest)
    (hd : t.data = "extend".toList) (hh2 : (sig rest).head? = some t2) (hd2 : t2.data = w2.toList)
    (h : (extensions n).run s = .ok () s') (hnd : ¬ Doomed s') :
    ∃ cs l, Toks s = cs ++ Toks s' ∧ NoEof cs ∧ EofEnd s' ∧ (sig cs).map astOfV = (LooseDef.toks l).map some ∧
      l.kws = ["extend", w2] :=
  Parse.extensions_sound n w2 hw2 s s' t rest t2 w he hl hc ht hd hh2 hd2 h hnd

/-- **`type_system_extension_accept_sound`** — through the dispatcher: the current token reads `extend` and the next
    significant token one of the seven extension keywords; no error ⇒ the consumed significant tokens are
    `LooseDef.toks l` for ONE loose extension `l` of that kind. -/
theorem type_system_extension_accept_sound (n : Nat) (w2 : String) (hw2 : w2 ∈ extWords) (s s' : PState) (t : Tok)
    (rest : List Tok) (t2 : Tok) (w : TW s) (he : EofEnd s) (hl : LexQ (Toks s)) (ht : Toks s = t :: rest)
    (hd : t.data = "extend".toList) (hh2 : (sig rest).head? = some t2) (hd2 : t2.data = w2.toList)
    (h : (documentDispatch n t.kind).run s = .ok () s') (hnd : ¬ Doomed s') :
    ∃ cs l, Toks s = cs ++ Toks s' ∧ NoEof cs ∧ EofEnd s' ∧ (sig cs).map astOfV = (LooseDef.toks l).map some ∧
      l.kws = ["extend", w2] :=
  Parse.dispatch_extension_sound n w2 hw2 s s' t rest t2 w he hl ht hd hh2 hd2 h hnd

/-- **The definition parsers as standalone entry points** (from any state of a lexer queue): there the keyword itself is
    OPTIONAL (`if peek_data == "scalar" { bump }`): `seen` says whether it was there. Shown for `scalar`; the other
    seven have the same shape (`Parse.accL_*Definition`). -/
theorem scalar_type_definition_accept_sound (n : Nat) (s s' : PState) (w : TW s) (he : EofEnd s) (hl : LexQ (Toks s))
    (h : (scalarTypeDefinition n).run s = .ok () s') (hnd : ¬ Doomed s') :
    ∃ cs desc seen nm ds, Toks s = cs ++ Toks s' ∧ NoEof cs ∧ EofEnd s' ∧
      (sig cs).map astOfV = (scalarToks desc seen nm ds).map some ∧
      scalarToks desc true nm ds = Ast.tDefinition false (.scalarDef desc nm ds) := by
  obtain ⟨cs, x, a1, a2, a3, hx, desc, seen, nm, ds, e⟩ := (Parse.accL_scalarTypeDefinition n).sound s s' () w he hl h hnd
  exact ⟨cs, desc, seen, nm, ds, a1, a2, a3, by rw [← e]; exact hx, Parse.LooseDef.toks_strict (.scalar desc nm ds) _ rfl⟩

/-- the deviations are real (kernel-evaluated on the model): a leading `&`, a leading `|` in union members and in
    directive locations are accepted without error -/
theorem leading_separators_accepted :
    errorFree "type A implements & B{a:Int}".toList = true ∧ errorFree "union U = | A | B".toList = true ∧
    errorFree "directive @d on | FIELD".toList = true ∧ errorFree "extend type A implements & B".toList = true := by
  decide +kernel

end TypeSystem

section Executable
/-! ### executable definitions: accepted ⊆ grammar (growth) -/

/-- in builderD's acceptance calculus (`Acc E H m R`: `m` is `Good`, and an error-free run from a queue with `H`
    consumes exactly some `x` with `R x`): operation definitions, fragment definitions, variable definitions -/
theorem executable_definitions_acc (n : Nat) :
    Acc (fun _ => False) (fun _ => True) (operationDefinition n) (fun _ => IsOperation)
    ∧ Acc (fun _ => False) AtFragmentKw (fragmentDefinition n) (fun _ => IsFragment)
    ∧ Acc (fun _ => False) (KindP (· == Lex.Kind.lParen)) (variableDefinitions n)
        (fun _ x => ∃ vs : List Ast.VarDef, vs ≠ [] ∧ x = Ast.tVarDefs vs)
    ∧ Acc (fun _ => False) (KindP (· == Lex.Kind.lCurly)) (selectionSet n)
        (fun _ x => ∃ ss, ss ≠ Ast.Sels.nil ∧ x = Ast.tSelSet ss) :=
  ⟨Parse.acc_operationDefinition n, Parse.acc_fragmentDefinition n, Parse.acc_variableDefinitions n, Parse.acc_selectionSet n⟩

/-- what is accepted as an operation definition is a sentence of `OperationDefinition` (full or shorthand form) -/
theorem operation_definition_accepted_is_in_grammar (n : Nat) (s s' : PState) (w : TW s) (he : EofEnd s)
    (h : (operationDefinition n).run s = .ok () s') (hnd : ¬ Doomed s') :
    ∃ (cs : List Tok) (x : List Ast.Tok), Toks s = cs ++ Toks s' ∧ NoEof cs ∧ EofEnd s' ∧
      (sig cs).map astOfV = x.map some ∧ IsOperation x :=
  (Parse.acc_operationDefinition n).sound s s' () w he trivial h hnd

/-- what is accepted as a fragment definition is a sentence of `FragmentDefinition` (name ≠ `on`) -/
theorem fragment_definition_accepted_is_in_grammar (n : Nat) (s s' : PState) (w : TW s) (he : EofEnd s)
    (hkw : AtFragmentKw (Toks s)) (h : (fragmentDefinition n).run s = .ok () s') (hnd : ¬ Doomed s') :
    ∃ (cs : List Tok) (x : List Ast.Tok), Toks s = cs ++ Toks s' ∧ NoEof cs ∧ EofEnd s' ∧
      (sig cs).map astOfV = x.map some ∧ IsFragment x :=
  (Parse.acc_fragmentDefinition n).sound s s' () w he hkw h hnd

/-! ### completeness (growth 5): everything in the value / arguments / directives grammar is accepted -/

/-- **`value.rs::value`, acceptance is complete.**  Take ANY value `v` of the grammar (`valueOk`: enum values
    are names other than `true`/`false`/`null`; under `Const` no variable occurs) whose list/object nesting
    depth `vdepth v` is within the remaining recursion budget `recLimit − recCur`.  Let the queue of `s` start
    with ANY spelling `c` of `tValue v` — the significant tokens of `c` are `tValue v`, with arbitrary ignored
    tokens (whitespace, commas, comments) interleaved after each of them — followed by a significant token
    `q0`.  Then every finished run of `value` (any fuel, `pop_on_error` or not; runs exist whenever the fuel is
    sufficient: C01 `value_grammar_terminates`) consumed exactly `c`, left `q0 :: rest`, and reported NO error
    (`Doomed s' ↔ Doomed s`).  With `value_accept_sound`: on such inputs acceptance = grammar. -/
theorem value_accept_complete (n : Nat) (isConst popOnError : Bool) (s s' : PState) (v : Ast.Value)
    (c : List Tok) (q0 : Tok) (rest : List Tok) (w : TW s)
    (hok : valueOk isConst v = true) (hdepth : vdepth v ≤ s.recLimit - s.recCur)
    (hspell : (sig c).map astOfV = (Ast.tValue v).map some)
    (hhead : ∀ hd tl, c = hd :: tl → isIgnoredKind hd.kind = false)
    (ht : Toks s = c ++ q0 :: rest) (hq : isIgnoredKind q0.kind = false)
    (h : (value n isConst popOnError).run s = .ok () s') :
    Toks s' = q0 :: rest ∧ (Doomed s' ↔ Doomed s) ∧ s'.recCur = s.recCur := by
  obtain ⟨e, t, _⟩ := Parse.value_complete n isConst popOnError s s' () c _ q0 rest w h ⟨v, rfl, hok, hdepth⟩
    ⟨hspell, hhead⟩ ht hq trivial trivial
  exact ⟨t, e.doom, e.recCur⟩

/-- in value position EVERY Name token is accepted (`true`/`false` → BooleanValue, `null` → NullValue, anything
    else → EnumValue): the model is exactly as liberal as the grammar here, no name is rejected. -/
theorem name_in_value_position_accepted (s s' : PState) (nm : Ast.Str) (c : List Tok) (q0 : Tok) (rest : List Tok) (w : TW s)
    (hspell : (sig c).map astOfV = [some (.name nm)]) (hhead : ∀ hd tl, c = hd :: tl → isIgnoredKind hd.kind = false)
    (ht : Toks s = c ++ q0 :: rest) (hq : isIgnoredKind q0.kind = false)
    (h : (peekToken >>= nameValueBranch).run s = .ok () s') :
    Toks s' = q0 :: rest ∧ (Doomed s' ↔ Doomed s) := by
  obtain ⟨e, t, _⟩ := Parse.cmp_nameValue s s' () c _ q0 rest w h ⟨nm, rfl⟩ ⟨hspell, hhead⟩ ht hq trivial trivial
  exact ⟨t, e.doom⟩

-- the two guards are exact (kernel-evaluated on the model): a variable under `Const` is an error; the
-- depth bound is tight (`[[1]]` has depth 2: rejected with budget 1, accepted with budget 2; depth 0 needs none)
example : (match (value 9 true false).run (initState "$x".toList none 500) with | .ok _ s => s.errors.length | _ => 0) = 1 := by decide +kernel
example : (match (value 9 false false).run (initState "$x".toList none 500) with | .ok _ s => s.errors.length | _ => 9) = 0 := by decide +kernel
example : (match (value 9 false false).run (initState "[[1]]".toList none 1) with | .ok _ s => s.errors.length | _ => 0) = 1 := by decide +kernel
example : (match (value 9 false false).run (initState "[[1]]".toList none 2) with | .ok _ s => s.errors.length | _ => 9) = 0 := by decide +kernel
example : (match (value 9 false false).run (initState "[]".toList none 0) with | .ok _ s => s.errors.length | _ => 9) = 0 := by decide +kernel

/-- **`argument.rs::arguments`, acceptance is complete**: every non-empty `( Name : Value … )` whose values are
    well formed and within the budget (an argument value is NOT under `recursion_limit`, so the bound is
    `vdepth ≤ recLimit − recCur` itself), in any spelling, followed by any significant token. -/
theorem arguments_accept_complete (n : Nat) (isConst : Bool) (s s' : PState) (args : List (Ast.Str × Ast.Value))
    (c : List Tok) (q0 : Tok) (rest : List Tok) (w : TW s) (hne : args ≠ [])
    (hfit : ∀ a ∈ args, valueOk isConst a.2 = true ∧ vdepth a.2 ≤ s.recLimit - s.recCur)
    (hspell : (sig c).map astOfV = (Ast.tArguments args).map some)
    (hhead : ∀ hd tl, c = hd :: tl → isIgnoredKind hd.kind = false)
    (ht : Toks s = c ++ q0 :: rest) (hq : isIgnoredKind q0.kind = false)
    (h : (arguments n isConst).run s = .ok () s') :
    Toks s' = q0 :: rest ∧ (Doomed s' ↔ Doomed s) := by
  obtain ⟨e, t, _⟩ := Parse.arguments_complete n isConst s s' () c _ q0 rest w h ⟨args, hne, rfl, hfit⟩
    ⟨hspell, hhead⟩ ht hq trivial trivial
  exact ⟨t, e.doom⟩

/-- **`directive.rs::directives`, acceptance is complete**: every (possibly empty) list `@ Name Arguments? …`
    in any spelling, PROVIDED the following significant token is neither `@` (it would be one more directive)
    nor `(` (after a directive without arguments it would be taken as its argument list) — in every grammar
    position of `Directives` the follow token is one of `{ } ) | = Name String $ ... EOF`, so this holds. -/
theorem directives_accept_complete (n : Nat) (isConst : Bool) (s s' : PState) (ds : List Ast.Directive)
    (c : List Tok) (q0 : Tok) (rest : List Tok) (w : TW s)
    (hfit : ∀ d ∈ ds, ∀ a ∈ d.args, valueOk isConst a.2 = true ∧ vdepth a.2 ≤ s.recLimit - s.recCur)
    (hspell : (sig c).map astOfV = (Ast.tDirectives ds).map some)
    (hhead : ∀ hd tl, c = hd :: tl → isIgnoredKind hd.kind = false)
    (ht : Toks s = c ++ q0 :: rest) (hq : isIgnoredKind q0.kind = false)
    (hfollow : q0.kind ≠ .at ∧ q0.kind ≠ .lParen)
    (h : (directives n isConst).run s = .ok () s') :
    Toks s' = q0 :: rest ∧ (Doomed s' ↔ Doomed s) := by
  obtain ⟨e, t, _⟩ := Parse.directives_complete n isConst s s' () c _ q0 rest w h ⟨ds, rfl, hfit⟩
    ⟨hspell, hhead⟩ ht hq hfollow trivial
  exact ⟨t, e.doom⟩

/-! ### completeness (growth 6): selection sets, executable definitions, executable documents; totality -/

/-- **`selection::selection_set`, acceptance is complete.**  Any `{ Selection+ }` of the C08 reference grammar
    (`Ast.tSelSet ss`, `ss` non-empty) that FITS the remaining recursion budget `b = recLimit − recCur`
    (`1 ≤ b` and `fitSels ss (b − 1)`: each `{ … }` level costs one; list/object nesting of argument values costs its
    depth; a fragment-spread name is not `on`; an inline fragment has a non-empty selection set), in any spelling,
    followed by any significant token: every finished run consumed exactly the spelling and reported no error.
    This covers both `peek_n(2)` decisions — alias (`a : b` with ignored tokens before the colon) and fragment spread
    vs inline fragment (`...on T`, `... on T`, `... @d {`, `... {`) — and the `has_selection` loop. -/
theorem selection_set_accept_complete (n : Nat) (s s' : PState) (ss : Ast.Sels) (c : List Tok) (q0 : Tok) (rest : List Tok)
    (w : TW s) (hne : ss ≠ Ast.Sels.nil) (hb : 1 ≤ s.recLimit - s.recCur) (hfit : fitSels ss (s.recLimit - s.recCur - 1))
    (hspell : (sig c).map astOfV = (Ast.tSelSet ss).map some)
    (hhead : ∀ hd tl, c = hd :: tl → isIgnoredKind hd.kind = false)
    (ht : Toks s = c ++ q0 :: rest) (hq : isIgnoredKind q0.kind = false)
    (h : (selectionSet n).run s = .ok () s') :
    Toks s' = q0 :: rest ∧ (Doomed s' ↔ Doomed s) ∧ s'.recCur = s.recCur := by
  obtain ⟨e, t, _⟩ := Parse.selectionSet_complete n s s' () c _ q0 rest w h ⟨ss, hne, rfl, hb, hfit⟩ ⟨hspell, hhead⟩ ht hq trivial trivial
  exact ⟨t, e.doom, e.recCur⟩

/-- **Totality** (link to C01 termination): from a state satisfying the model invariant `Inv` (no panic) and the
    position bookkeeping `W` of the termination proofs, with fuel `n ≥ 2·Mm s + 2` (`Mm s` = number of characters
    not yet lexed, + 1 if a token is buffered), the run of `value` FINISHES, and it consumed exactly the spelling
    without error. -/
theorem value_accept_complete_total (n : Nat) (isConst popOnError : Bool) (s : PState) (v : Ast.Value)
    (c : List Tok) (q0 : Tok) (rest : List Tok) (hinv : Inv s) (hw : W s) (w : TW s) (hfuel : 2 * Mm s + 2 ≤ n)
    (hok : valueOk isConst v = true) (hdepth : vdepth v ≤ s.recLimit - s.recCur)
    (hspell : (sig c).map astOfV = (Ast.tValue v).map some)
    (hhead : ∀ hd tl, c = hd :: tl → isIgnoredKind hd.kind = false)
    (ht : Toks s = c ++ q0 :: rest) (hq : isIgnoredKind q0.kind = false) :
    ∃ s', (value n isConst popOnError).run s = .ok () s' ∧ Toks s' = q0 :: rest ∧ (Doomed s' ↔ Doomed s) := by
  obtain ⟨s', hr, e, t⟩ := Parse.value_complete_total n isConst popOnError s hinv hw w hfuel c _ q0 rest ⟨v, rfl, hok, hdepth⟩
    ⟨hspell, hhead⟩ ht hq
  exact ⟨s', hr, t, e.doom⟩

/-- totality for `arguments` (fuel `n ≥ 4·Mm s + 4`) -/
theorem arguments_accept_complete_total (n : Nat) (isConst : Bool) (s : PState) (args : List (Ast.Str × Ast.Value))
    (c : List Tok) (q0 : Tok) (rest : List Tok) (hinv : Inv s) (hw : W s) (w : TW s) (hfuel : 4 * Mm s + 4 ≤ n) (hne : args ≠ [])
    (hfit : ∀ a ∈ args, valueOk isConst a.2 = true ∧ vdepth a.2 ≤ s.recLimit - s.recCur)
    (hspell : (sig c).map astOfV = (Ast.tArguments args).map some)
    (hhead : ∀ hd tl, c = hd :: tl → isIgnoredKind hd.kind = false)
    (ht : Toks s = c ++ q0 :: rest) (hq : isIgnoredKind q0.kind = false) :
    ∃ s', (arguments n isConst).run s = .ok () s' ∧ Toks s' = q0 :: rest ∧ (Doomed s' ↔ Doomed s) := by
  obtain ⟨s', hr, e, t⟩ := Parse.arguments_complete_total n isConst s hinv hw w hfuel c _ q0 rest ⟨args, hne, rfl, hfit⟩
    ⟨hspell, hhead⟩ ht hq
  exact ⟨s', hr, t, e.doom⟩

/-- totality for `directives` (fuel `n ≥ 4·Mm s + 4`) -/
theorem directives_accept_complete_total (n : Nat) (isConst : Bool) (s : PState) (ds : List Ast.Directive)
    (c : List Tok) (q0 : Tok) (rest : List Tok) (hinv : Inv s) (hw : W s) (w : TW s) (hfuel : 4 * Mm s + 4 ≤ n)
    (hfit : ∀ d ∈ ds, ∀ a ∈ d.args, valueOk isConst a.2 = true ∧ vdepth a.2 ≤ s.recLimit - s.recCur)
    (hspell : (sig c).map astOfV = (Ast.tDirectives ds).map some)
    (hhead : ∀ hd tl, c = hd :: tl → isIgnoredKind hd.kind = false)
    (ht : Toks s = c ++ q0 :: rest) (hq : isIgnoredKind q0.kind = false)
    (hfollow : q0.kind ≠ .at ∧ q0.kind ≠ .lParen) :
    ∃ s', (directives n isConst).run s = .ok () s' ∧ Toks s' = q0 :: rest ∧ (Doomed s' ↔ Doomed s) := by
  obtain ⟨s', hr, e, t⟩ := Parse.directives_complete_total n isConst s hinv hw w hfuel c _ q0 rest ⟨ds, rfl, hfit⟩
    ⟨hspell, hhead⟩ ht hq hfollow
  exact ⟨s', hr, t, e.doom⟩

/-- totality for `selection_set` (fuel `n ≥ 4·Mm s + 2`) -/
theorem selection_set_accept_complete_total (n : Nat) (s : PState) (ss : Ast.Sels) (c : List Tok) (q0 : Tok) (rest : List Tok)
    (hinv : Inv s) (hw : W s) (w : TW s) (hfuel : 4 * Mm s + 2 ≤ n)
    (hne : ss ≠ Ast.Sels.nil) (hb : 1 ≤ s.recLimit - s.recCur) (hfit : fitSels ss (s.recLimit - s.recCur - 1))
    (hspell : (sig c).map astOfV = (Ast.tSelSet ss).map some)
    (hhead : ∀ hd tl, c = hd :: tl → isIgnoredKind hd.kind = false)
    (ht : Toks s = c ++ q0 :: rest) (hq : isIgnoredKind q0.kind = false) :
    ∃ s', (selectionSet n).run s = .ok () s' ∧ Toks s' = q0 :: rest ∧ (Doomed s' ↔ Doomed s) := by
  obtain ⟨s', hr, e, t⟩ := Parse.selectionSet_complete_total n s hinv hw w hfuel c _ q0 rest ⟨ss, hne, rfl, hb, hfit⟩
    ⟨hspell, hhead⟩ ht hq
  exact ⟨s', hr, t, e.doom⟩

/-- **`variable::variable_definitions`, acceptance is complete**: `( $name : Type DefaultValue? Directives? … )`, at
    least one; `varFit`: the list nesting of the type, the nesting of the (constant) default value and of the
    directive arguments (constant) are within the budget. -/
theorem variable_definitions_accept_complete (n : Nat) (s s' : PState) (vs : List Ast.VarDef) (c : List Tok) (q0 : Tok)
    (rest : List Tok) (w : TW s) (hne : vs ≠ []) (hfit : ∀ v ∈ vs, varFit (s.recLimit - s.recCur) v)
    (hspell : (sig c).map astOfV = (Ast.tVarDefs vs).map some)
    (hhead : ∀ hd tl, c = hd :: tl → isIgnoredKind hd.kind = false)
    (ht : Toks s = c ++ q0 :: rest) (hq : isIgnoredKind q0.kind = false)
    (h : (variableDefinitions n).run s = .ok () s') : Toks s' = q0 :: rest ∧ (Doomed s' ↔ Doomed s) := by
  obtain ⟨e, t, _⟩ := Parse.cmp_variableDefinitions n s s' () c _ q0 rest w h ⟨vs, hne, rfl, hfit⟩ ⟨hspell, hhead⟩ ht hq trivial trivial
  exact ⟨t, e.doom⟩

/-- **`operation::operation_definition`, acceptance is complete**, full form
    `OperationType Name? VariableDefinitions? Directives? SelectionSet` (for the shorthand see
    `operation_shorthand_accept_complete`), followed by any significant token. -/
theorem operation_definition_accept_complete (n : Nat) (s s' : PState) (ty : Ast.OpType) (name : Option Ast.Str)
    (vars : List Ast.VarDef) (dirs : List Ast.Directive) (sels : Ast.Sels) (c : List Tok) (q0 : Tok) (rest : List Tok) (w : TW s)
    (hv : ∀ v ∈ vars, varFit (s.recLimit - s.recCur) v) (hd : dirsFit false (s.recLimit - s.recCur) dirs)
    (hne : sels ≠ Ast.Sels.nil) (hb : 1 ≤ s.recLimit - s.recCur) (hfit : fitSels sels (s.recLimit - s.recCur - 1))
    (hspell : (sig c).map astOfV = (Ast.tDefinition false (.operation ty name vars dirs sels)).map some)
    (hhead : ∀ hd tl, c = hd :: tl → isIgnoredKind hd.kind = false)
    (ht : Toks s = c ++ q0 :: rest) (hq : isIgnoredKind q0.kind = false)
    (h : (operationDefinition n).run s = .ok () s') : Toks s' = q0 :: rest ∧ (Doomed s' ↔ Doomed s) := by
  rw [Parse.tOperation_eq] at hspell
  obtain ⟨e, t, _⟩ := Parse.operationDefinition_complete n s s' () c _ q0 rest w h
    (Or.inl ⟨ty, name, vars, dirs, sels, rfl, hv, hd, hne, hb, hfit⟩) ⟨hspell, hhead⟩ ht hq trivial trivial
  exact ⟨t, e.doom⟩

/-- the shorthand `{ Selection+ }` through `operation_definition` -/
theorem operation_shorthand_accept_complete (n : Nat) (s s' : PState) (sels : Ast.Sels) (c : List Tok) (q0 : Tok)
    (rest : List Tok) (w : TW s)
    (hne : sels ≠ Ast.Sels.nil) (hb : 1 ≤ s.recLimit - s.recCur) (hfit : fitSels sels (s.recLimit - s.recCur - 1))
    (hspell : (sig c).map astOfV = (Ast.tSelSet sels).map some)
    (hhead : ∀ hd tl, c = hd :: tl → isIgnoredKind hd.kind = false)
    (ht : Toks s = c ++ q0 :: rest) (hq : isIgnoredKind q0.kind = false)
    (h : (operationDefinition n).run s = .ok () s') : Toks s' = q0 :: rest ∧ (Doomed s' ↔ Doomed s) := by
  obtain ⟨e, t, _⟩ := Parse.operationDefinition_complete n s s' () c _ q0 rest w h
    (Or.inr ⟨sels, hne, rfl, hb, hfit⟩) ⟨hspell, hhead⟩ ht hq trivial trivial
  exact ⟨t, e.doom⟩

/-- **`fragment::fragment_definition`, acceptance is complete**: `fragment FragmentName TypeCondition Directives?
    SelectionSet` with `FragmentName ≠ on`.  (The underlying lemma `Parse.cmp_fragBody` is about the function from
    the keyword on.) -/
theorem fragment_definition_accept_complete (n : Nat) (s s' : PState) (name tc : Ast.Str) (dirs : List Ast.Directive)
    (sels : Ast.Sels) (c : List Tok) (q0 : Tok) (rest : List Tok) (w : TW s)
    (hnm : name ≠ Ast.sOn) (hd : dirsFit false (s.recLimit - s.recCur) dirs)
    (hne : sels ≠ Ast.Sels.nil) (hb : 1 ≤ s.recLimit - s.recCur) (hfit : fitSels sels (s.recLimit - s.recCur - 1))
    (hspell : (sig c).map astOfV = (Ast.tDefinition false (.fragment name tc dirs sels)).map some)
    (hhead : ∀ hd tl, c = hd :: tl → isIgnoredKind hd.kind = false)
    (ht : Toks s = c ++ q0 :: rest) (hq : isIgnoredKind q0.kind = false)
    (h : (fragmentDefinition n).run s = .ok () s') : Toks s' = q0 :: rest ∧ (Doomed s' ↔ Doomed s) := by
  obtain ⟨e, t, _⟩ := Parse.fragmentDefinition_complete n s s' () c _ q0 rest w h
    ⟨name, tc, dirs, sels, rfl, hnm, hd, hne, hb, hfit⟩ ⟨hspell, hhead⟩ ht hq trivial trivial
  exact ⟨t, e.doom⟩

/-- **an executable definition through the document dispatch** (`document()`'s `match` on the token kind and
    `select_definition` on the token TEXT): from a state whose buffered current token `t` is the first token of a
    spelling of an executable definition `x` (`LExecDef`: full operation, shorthand, or fragment definition, within
    the budget), the selected definition parser consumed exactly that spelling without error.  The hypothesis on
    `{` tokens is the lexer fact `curly_token_text`. -/
theorem executable_definition_accept_complete (n : Nat) (s s' : PState) (t : Tok) (tl : List Tok) (x : List Ast.Tok)
    (q0 : Tok) (rest : List Tok) (w : TW s) (hcur : s.current = some t) (hcurly : t.kind = .lCurly → t.data = ['{'])
    (hx : LExecDef (s.recLimit - s.recCur) x) (hspell : (sig (t :: tl)).map astOfV = x.map some)
    (hhead : isIgnoredKind t.kind = false)
    (ht : Toks s = (t :: tl) ++ q0 :: rest) (hq : isIgnoredKind q0.kind = false)
    (h : (documentDispatch n t.kind).run s = .ok () s') : Toks s' = q0 :: rest ∧ (Doomed s' ↔ Doomed s) := by
  obtain ⟨e, t2⟩ := Parse.dispatch_comp n s s' t tl x q0 rest w hcur hcurly hx
    ⟨hspell, by intro hd tl' e; injection e with e _; subst e; exact hhead⟩ ht hq h
  exact ⟨t2, e.doom⟩

/-- the lexer fact used by the dispatch, proved for the token queue of EVERY source text: a `{` token has the text `{` -/
theorem curly_token_text (src : Parse.Str) : ∀ t ∈ srcToks src, t.kind = .lCurly → t.data = ['{'] :=
  Parse.curlyQ_srcToks src

/-- **`Parser::parse` accepts every executable document of the grammar within the recursion limit.**
    If the source has no lexer error and its significant tokens — with ARBITRARY ignored tokens anywhere, also in
    front — are the concatenation of one or more executable definitions (`IsExecDocFit rl`: each a full operation
    definition, a shorthand `{ Selection+ }`, or a fragment definition with name ≠ `on`, each within the recursion
    limit `rl`: selection-set nesting + 1 ≤ rl, value / type nesting ≤ rl), followed by EOF, then the parse reports
    ZERO errors.  No hypothesis on the outcome: `parse` always ends with a tree (C01 `parse_terminates`, `parse_no_panic`).
    Not covered: descriptions in front of executable definitions, type-system definitions and extensions. -/
theorem executable_document_accept_complete (rl : Nat) (src : Parse.Str) (x : List Ast.Tok) (ts : List Tok) (e : Tok)
    (hclean : LexClean src) (hsig : sig (srcToks src) = ts ++ [e]) (he : e.kind = .eof)
    (hx : TokIs ts x) (hfit : IsExecDocFit rl x) : (parse .document none rl src).errors = [] :=
  Parse.parseDocument_complete_sig rl src x ts e hclean hsig he hx hfit

-- witnesses (kernel-evaluated on the model): a document of all five kinds of executable definition; the budget is
-- exact (`{a}` needs 1; `[[Int]]` needs 2); a fragment named `on` is rejected
example : (parse .document none 500 " fragment F on T { a } {b} query { c } mutation M { d } subscription { e }".toList).errors = [] := by decide +kernel
example : (parse .document none 500 "query query { a } fragment fragment on fragment { a }".toList).errors = [] := by decide +kernel
example : (parse .document none 0 "{a}".toList).errors ≠ [] := by decide +kernel
example : (parse .document none 1 "{a}".toList).errors = [] := by decide +kernel
example : (parse .document none 1 "query Q($v: [Int] = [1]) @d { a }".toList).errors = [] := by decide +kernel
example : (parse .document none 1 "query Q($v: [[Int]]) { a }".toList).errors ≠ [] := by decide +kernel
example : (parse .document none 2 "query Q($v: [[Int]]) { a }".toList).errors = [] := by decide +kernel
example : (parse .document none 500 "fragment on on T { a }".toList).errors ≠ [] := by decide +kernel

/-! ### completeness (growth 7): the whole Document grammar — descriptions, type-system definitions and extensions -/

/-- **A type-system definition or extension through the document dispatch, acceptance is complete.**  `l : LooseDef`
    is builderD's abstract syntax of what the definition parsers accept (the SAME set as in the soundness theorems:
    `x = l.toks`; scalar / object / interface / union / enum / input object / directive / schema definitions with
    optional description, and the seven extensions; separated lists with optional leading `&` / `|`).
    `looseFit b l` are the exact guards: every directive list and default value is `Const`, within the budget
    (`vdepth ≤ b`), type references within the budget (`tyDepth ≤ b`), enum values are not `true`/`false`/`null`,
    directive locations are among the nineteen names, a schema definition has ≥ 1 root operation type (all named), an
    extension has ≥ 1 component; empty braces cannot be written at all (`tBraced`).  `looseFollow l q`: the token
    after the definition must not continue it (`@`, `(`, `{` after a definition without body, `&`/`|` after a list,
    the Name `implements` after an object / interface type without fields).  From a state whose buffered current
    token is the first token of any spelling of `l.toks`, the selected definition parser consumed exactly the
    spelling and reported no error. -/
theorem type_system_definition_accept_complete (n : Nat) (s s' : PState) (t : Tok) (tl : List Tok) (l : LooseDef)
    (q0 : Tok) (rest : List Tok) (w : TW s) (hlex : LexQ (Toks s)) (hcur : s.current = some t)
    (hfit : looseFit (s.recLimit - s.recCur) l) (hfollow : looseFollow l q0)
    (hspell : (sig (t :: tl)).map astOfV = l.toks.map some) (hhead : isIgnoredKind t.kind = false)
    (ht : Toks s = (t :: tl) ++ q0 :: rest) (hq : isIgnoredKind q0.kind = false)
    (h : (documentDispatch n t.kind).run s = .ok () s') : Toks s' = q0 :: rest ∧ (Doomed s' ↔ Doomed s) := by
  obtain ⟨e, t2⟩ := Parse.loose_dispatch_comp n s s' t tl l q0 rest w hlex hcur hfit hfollow
    ⟨hspell, by intro hd tl' e; injection e with e _; subst e; exact hhead⟩ ht hq h
  exact ⟨t2, e.doom⟩

/-- **document_accept_complete.**  Every Document of the grammar within the recursion limit parses with ZERO errors:
    `its` is a non-empty list of builderC's `DocItem`s (operation / fragment definitions in the long or shorthand
    form, type-system definitions and extensions — with descriptions where the grammar allows them, and with the
    leading-separator liberty of the code), every item satisfies its exact guard `itemFit rl` (`execFit` for
    executable definitions, `looseFit` for the type system), and `DocFollowOk its`: every type-system definition may be
    followed by the first token of the next definition (in particular a definition that ends without its `{ … }` body
    is not followed by a shorthand query).  If the source has no lexer error and its significant tokens — arbitrary
    ignored tokens anywhere, also in front — are `docToks its` followed by EOF, the parse reports no error.  No
    hypothesis on the outcome (C01 `parse_terminates`, `parse_no_panic`).
    Not in `itemFit` (so not covered): a root operation type without its named type (the accepted-by-the-code
    liberty that is a known finding). -/
theorem document_accept_complete (rl : Nat) (src : Parse.Str) (its : List DocItem) (ts : List Tok) (e : Tok)
    (hclean : LexClean src) (hsig : sig (srcToks src) = ts ++ [e]) (he : e.kind = .eof)
    (hx : ts.map astOfV = (docToks its).map some)
    (hne : its ≠ []) (hfit : ∀ i ∈ its, itemFit rl i) (hfollow : DocFollowOk its) :
    (parse .document none rl src).errors = [] :=
  Parse.parseDocument_complete_items rl src its ts e hclean hsig he hx hne hfit hfollow

/-- the completeness language lies inside builderC's soundness language: `itemFit` implies `DocItem.ok` -/
theorem document_complete_language_is_sound_language (rl : Nat) (its : List DocItem) (h : ∀ i ∈ its, itemFit rl i) :
    ∀ i ∈ its, i.ok := fun i hi => Parse.itemFit_ok rl i (h i hi)

/-- **The two inclusions that bracket the accepted language** (for sources without lexer error, no token limit):
    `{docToks its | itemFit, DocFollowOk}` ⊆ accepted ⊆ `{docToks its | ok}`.  The right inclusion is builderC's
    `document_accepted_is_in_grammar`; it is STRICT (witnesses below: `DocItem.ok` says nothing about the values, enum
    value names, the budget or what follows), so `ok` does not characterise acceptance.  An `iff` needs the soundness
    lemmas to export `itemFit` and `DocFollowOk`; what the parser rejects outside `itemFit` is shown by the
    kernel-evaluated witnesses, guard by guard. -/
theorem document_accept_sandwich (rl : Nat) (src : Parse.Str) (ts : List Tok) (e : Tok)
    (hclean : LexClean src) (hsig : sig (srcToks src) = ts ++ [e]) (he : e.kind = .eof) :
    ((∃ its : List DocItem, its ≠ [] ∧ (∀ i ∈ its, itemFit rl i) ∧ DocFollowOk its ∧ ts.map astOfV = (docToks its).map some) →
      (parse .document none rl src).errors = []) ∧
    ((parse .document none rl src).errors = [] →
      ∃ its : List DocItem, its ≠ [] ∧ (∀ i ∈ its, i.ok) ∧ ts.map astOfV = (docToks its).map some) := by
  constructor
  · rintro ⟨its, hne, hfit, hfol, hx⟩
    exact document_accept_complete rl src its ts e hclean hsig he hx hne hfit hfol
  · intro herr
    obtain ⟨root, ho⟩ := Parse.parseDocument_tree none rl src
    obtain ⟨_, ts', e', its, h1, h2, h3, h4, h5, _⟩ := Parse.document_accepted_items rl src root ho herr
    have : ts' = ts := by
      have h := hsig.symm.trans h1
      have hl := congrArg List.length h
      simp at hl
      exact ((List.append_inj h hl).1).symm
    subst this
    exact ⟨its, h3, h4, h5⟩

/-- strict corollary: a document printed by C08's `tDefinition` (no liberty used: `strictItems its = some items`) within
    the guards is accepted, whatever the ignored tokens -/
theorem strict_document_accept_complete (rl : Nat) (src : Parse.Str) (its : List DocItem) (items : List Ast.Item)
    (ts : List Tok) (e : Tok) (hstrict : strictItems its = some items)
    (hclean : LexClean src) (hsig : sig (srcToks src) = ts ++ [e]) (he : e.kind = .eof)
    (hx : ts.map astOfV = (Ast.itemsToks items).map some)
    (hne : its ≠ []) (hfit : ∀ i ∈ its, itemFit rl i) (hfollow : DocFollowOk its) :
    (parse .document none rl src).errors = [] := by
  rw [← (Parse.strictItems_toks its items hstrict).1] at hx
  exact document_accept_complete rl src its ts e hclean hsig he hx hne hfit hfollow

-- every guard is necessary (kernel-evaluated on the model); the left input of each pair is a `docToks` of `ok` items
-- (so it is in the soundness language) and is REJECTED, the right one satisfies the guard and is accepted
example : (parse .document none 500 "enum E { true }".toList).errors ≠ [] ∧ (parse .document none 500 "enum E { A }".toList).errors = [] := by decide +kernel
example : (parse .document none 500 "type T { f(a: Int = $v): Int }".toList).errors ≠ [] ∧ (parse .document none 500 "type T { f(a: Int = 1): Int }".toList).errors = [] := by decide +kernel
example : (parse .document none 500 "input I { a: Int = 1 @d(x: $v) }".toList).errors ≠ [] := by decide +kernel
example : (parse .document none 500 "directive @d on FOO".toList).errors ≠ [] ∧ (parse .document none 500 "directive @d(a: Int) repeatable on | QUERY | FIELD".toList).errors = [] := by decide +kernel
example : (parse .document none 500 "extend type T".toList).errors ≠ [] ∧ (parse .document none 500 "extend type T @d".toList).errors = [] := by decide +kernel
example : (parse .document none 500 "extend scalar S".toList).errors ≠ [] ∧ (parse .document none 500 "extend schema".toList).errors ≠ [] ∧ (parse .document none 500 "extend union U".toList).errors ≠ [] := by decide +kernel
example : (parse .document none 500 "schema @d".toList).errors ≠ [] ∧ (parse .document none 500 "schema { query: Q mutation: M }".toList).errors = [] := by decide +kernel
-- the follow guard: `type T` followed by the shorthand query `{a}` is read as a fields definition; after `scalar S` it is fine
example : (parse .document none 500 "type T {a}".toList).errors ≠ [] ∧ (parse .document none 500 "scalar S {a}".toList).errors = [] := by decide +kernel
-- the budget: a list type costs one level, a list default value too; no brace level is charged for type-system bodies
example : (parse .document none 0 "type T { a: [Int] }".toList).errors ≠ [] ∧ (parse .document none 1 "type T { a: [Int] }".toList).errors = [] := by decide +kernel
example : (parse .document none 0 "type T { a(x: Int = [1]): Int }".toList).errors ≠ [] ∧ (parse .document none 0 "type T { a: Int }".toList).errors = [] := by decide +kernel
-- accepted within the guards: descriptions, leading separators, definitions without body, any keyword as a name
example : (parse .document none 500 "\"d\" type T \"e\" scalar S extend enum E { A } {a}".toList).errors = [] := by decide +kernel
example : (parse .document none 500 "type T implements & A & B @d { a: [Int!]! } union U = | A | B union V enum E".toList).errors = [] := by decide +kernel
example : (parse .document none 500 "interface I implements A { a: Int } type implements { a: Int }".toList).errors = [] := by decide +kernel

/-! ### exact soundness (growth 8): the recursion budget and the well-formedness facts, from an error-free run -/

/-- the depth notion that is EXACT for the parser (`Parse.Exact.vdepth`: each ITEM of a list / each object-field value is
    under `recursion_limit`, the list itself is not, so `[]` and `{}` cost nothing) against the over-charging
    `Parse.vdepth` of `value_accept_complete`: it is never larger and at most one smaller -/
theorem value_depth_exact_vs_charged (v : Ast.Value) :
    Parse.Exact.vdepth v ≤ Parse.vdepth v ∧ Parse.vdepth v ≤ Parse.Exact.vdepth v + 1 := Parse.Exact.vdepth_le v

/-- **`value`, acceptance iff grammar** (one run, state level): with the queue `cs ++ q0 :: rest` (`cs` not starting with
    an ignored token, `q0` significant and not EOF), the run of `value` ended error-free right in front of `q0` exactly
    when `cs` spells ONE well-formed value whose exact nesting depth is within the remaining recursion budget -/
theorem value_accept_iff (n : Nat) (isConst popOnError : Bool) (s s' : PState) (cs : List Tok) (q0 : Tok) (rest : List Tok)
    (w : TW s) (he : EofEnd s) (hnd0 : ¬ Doomed s) (ht : Toks s = cs ++ q0 :: rest)
    (hhead : ∀ hd tl, cs = hd :: tl → isIgnoredKind hd.kind = false)
    (hq : isIgnoredKind q0.kind = false) (hqe : q0.kind ≠ .eof)
    (h : (value n isConst popOnError).run s = .ok () s') :
    (¬ Doomed s' ∧ Toks s' = q0 :: rest) ↔
      ∃ v, (sig cs).map astOfV = (Ast.tValue v).map some ∧ valueOk isConst v = true ∧
        Parse.Exact.vdepth v ≤ s.recLimit - s.recCur :=
  Parse.Exact.value_iff n isConst popOnError s s' cs q0 rest w he hnd0 ht hhead hq hqe h

/-- **`value`, exact soundness**: an error-free run consumed one well-formed value WITHIN THE BUDGET (or stopped at EOF) -/
theorem value_accept_sound_exact (n : Nat) (isConst popOnError : Bool) (s s' : PState) (w : TW s) (he : EofEnd s)
    (h : (value n isConst popOnError).run s = .ok () s') (hnd : ¬ Doomed s') :
    ∃ cs, Toks s = cs ++ Toks s' ∧ NoEof cs ∧
      ((∃ v : Ast.Value, (sig cs).map astOfV = (Ast.tValue v).map some ∧ valueOk isConst v = true ∧
          Parse.Exact.vdepth v ≤ s.recLimit - s.recCur) ∨ AtEof s') := by
  obtain ⟨⟨cs, a, b, d⟩, _⟩ := Parse.Exact.value_sound n isConst popOnError s s' w he h hnd
  refine ⟨cs, a, b, ?_⟩
  rcases d with ⟨v, h1, h2, h3⟩ | d
  · exact Or.inl ⟨v, h1, h2, by simpa [Parse.Exact.bud] using h3⟩
  · exact Or.inr d

/-- **`arguments` / `directives`, exact soundness**: all values well formed and within the budget -/
theorem arguments_accept_sound_exact (n : Nat) (isConst : Bool) (s s' : PState) (t : Tok) (rest : List Tok) (w : TW s)
    (he : EofEnd s) (ht : Toks s = t :: rest) (hk : t.kind = .lParen)
    (h : (arguments n isConst).run s = .ok () s') (hnd : ¬ Doomed s') :
    ∃ cs args, Toks s = cs ++ Toks s' ∧ NoEof cs ∧ EofEnd s' ∧ args ≠ [] ∧
      (sig cs).map astOfV = (Ast.tArguments args).map some ∧
      ∀ a ∈ args, valueOk isConst a.2 = true ∧ Parse.Exact.vdepth a.2 ≤ s.recLimit - s.recCur :=
  Parse.Exact.arguments_sound n isConst s s' t rest w he ht hk h hnd

theorem directives_accept_sound_exact (n : Nat) (isConst : Bool) (s s' : PState) (w : TW s) (he : EofEnd s)
    (h : (directives n isConst).run s = .ok () s') (hnd : ¬ Doomed s') :
    ∃ cs ds, Toks s = cs ++ Toks s' ∧ NoEof cs ∧ EofEnd s' ∧
      (sig cs).map astOfV = (Ast.tDirectives ds).map some ∧
      ∀ d ∈ ds, ∀ a ∈ d.args, valueOk isConst a.2 = true ∧ Parse.Exact.vdepth a.2 ≤ s.recLimit - s.recCur :=
  Parse.Exact.directives_sound n isConst s s' w he h hnd

/-- **`selection_set`, exact soundness**: started on `{`, an error-free run consumed `{ ss }` for a non-empty `ss` within
    the exact budget (`1 ≤ b`, `Parse.Exact.fitSels ss (b − 1)`: spread names ≠ `on`, inline fragments non-empty, argument
    values well formed and within the budget, brace levels) — with `selection_set_accept_complete` (also proved for the
    exact depth: `Parse.Exact.selectionSet_complete`) this is acceptance = grammar for selection sets. -/
theorem selection_set_accept_sound_exact (n : Nat) (s s' : PState) (t : Tok) (rest : List Tok) (w : TW s) (he : EofEnd s)
    (ht : Toks s = t :: rest) (hk : t.kind = .lCurly) (h : (selectionSet n).run s = .ok () s') (hnd : ¬ Doomed s') :
    ∃ (cs : List Tok) (ss : Ast.Sels), Toks s = cs ++ Toks s' ∧ NoEof cs ∧ ss ≠ Ast.Sels.nil ∧
      (sig cs).map astOfV = (Ast.tSelSet ss).map some ∧ 1 ≤ s.recLimit - s.recCur ∧
      Parse.Exact.fitSels ss (s.recLimit - s.recCur - 1) := by
  obtain ⟨cs, x, a, b, _, d, ss, hne, rfl, hb, hf⟩ := (Parse.Exact.sel_all_sound n).1 s s' t rest w he ht hk h hnd
  exact ⟨cs, ss, a, b, hne, d, hb, hf⟩

/-! ### growth 9: exact soundness for types, variable / operation / fragment definitions, and the "if and only if" for
    executable documents -/

/-- **`ty`, exact soundness** (one run, any state): an error-free run consumed the tokens of ONE type reference whose
    list nesting is within the remaining recursion budget of the START state -/
theorem type_reference_accept_sound_exact (n : Nat) (s s' : PState) (w : TW s) (he : EofEnd s)
    (h : (ty n).run s = .ok () s') (hnd : ¬ Doomed s') :
    ∃ (cs : List Tok) (t : Ast.Ty), Toks s = cs ++ Toks s' ∧ NoEof cs ∧
      (sig cs).map astOfV = (Ast.tTy t).map some ∧ tyDepth t ≤ s.recLimit - s.recCur := by
  obtain ⟨cs, x, a, b, _, d, t, rfl, ht⟩ := Parse.Exact.ty_sound n s s' w he h hnd
  exact ⟨cs, t, a, b, d, ht⟩

/-- **`variable_definitions`, acceptance iff grammar** (one run, started on `(`): with the queue
    `(t :: tl) ++ q0 :: rest`, `q0` significant, the run ended error-free right in front of `q0` exactly when `t :: tl`
    spells `( VariableDefinition+ )` with every type (`tyDepth`), every default value (`Const`, exact `vdepth`) and every
    directive argument (`Const`, exact `vdepth`) within the remaining budget (`Parse.Exact.LVarDefs`) -/
theorem variable_definitions_accept_iff (n : Nat) (s s' : PState) (t : Tok) (tl : List Tok) (q0 : Tok) (rest : List Tok)
    (w : TW s) (he : EofEnd s) (hnd0 : ¬ Doomed s) (ht : Toks s = (t :: tl) ++ q0 :: rest) (hk : t.kind = .lParen)
    (hq : isIgnoredKind q0.kind = false) (h : (variableDefinitions n).run s = .ok () s') :
    (¬ Doomed s' ∧ Toks s' = q0 :: rest) ↔
      ∃ x, (sig (t :: tl)).map astOfV = x.map some ∧ Parse.Exact.LVarDefs (s.recLimit - s.recCur) x :=
  Parse.Exact.variableDefinitions_iff n s s' t tl q0 rest w he hnd0 ht hk hq h

/-- **`operation_definition`, acceptance iff grammar** (one run, state level): with the queue `cs ++ q0 :: rest` (`cs`
    not starting with an ignored token, `q0` significant), the run ended error-free right in front of `q0` exactly when
    `cs` spells a full operation definition `OperationType Name? VariableDefinitions? Directives? SelectionSet` or the
    shorthand `{ Selection+ }` within the exact budget (`Parse.Exact.LOperation`: variable definitions as above,
    directives non-`Const` within the budget, selection set non-empty with `1 ≤ budget` and `fitSels ss (budget − 1)`) -/
theorem operation_definition_accept_iff (n : Nat) (s s' : PState) (cs : List Tok) (q0 : Tok) (rest : List Tok)
    (w : TW s) (he : EofEnd s) (hnd0 : ¬ Doomed s) (ht : Toks s = cs ++ q0 :: rest)
    (hhead : ∀ hd tl, cs = hd :: tl → isIgnoredKind hd.kind = false) (hq : isIgnoredKind q0.kind = false)
    (h : (operationDefinition n).run s = .ok () s') :
    (¬ Doomed s' ∧ Toks s' = q0 :: rest) ↔
      ∃ x, (sig cs).map astOfV = x.map some ∧ Parse.Exact.LOperation (s.recLimit - s.recCur) x :=
  Parse.Exact.operationDefinition_iff n s s' cs q0 rest w he hnd0 ht hhead hq h

/-- **`fragment_definition`, acceptance iff grammar** (one run, entered on the keyword `fragment` — which is how the
    document dispatch calls it): `fragment FragmentName TypeCondition Directives? SelectionSet` with
    `FragmentName ≠ on`, within the exact budget (`Parse.Exact.LFragment`) -/
theorem fragment_definition_accept_iff (n : Nat) (s s' : PState) (t : Tok) (tl : List Tok) (q0 : Tok) (rest : List Tok)
    (w : TW s) (he : EofEnd s) (hnd0 : ¬ Doomed s) (ht : Toks s = (t :: tl) ++ q0 :: rest) (hk : t.kind = .name)
    (hd : t.data = "fragment".toList) (hq : isIgnoredKind q0.kind = false)
    (h : (fragmentDefinition n).run s = .ok () s') :
    (¬ Doomed s' ∧ Toks s' = q0 :: rest) ↔
      ∃ x, (sig (t :: tl)).map astOfV = x.map some ∧ Parse.Exact.LFragment (s.recLimit - s.recCur) x :=
  Parse.Exact.fragmentDefinition_iff n s s' t tl q0 rest w he hnd0 ht hk hd hq h

/-- the guard of `executable_document_accept_iff`, on the significant tokens of the source: none is a String token (a
    description) and none has the text of one of the nine keywords by which `select_definition` starts a type-system
    definition or extension -/
abbrev ExecutableOnly (src : Parse.Str) : Prop :=
  ∀ t ∈ sig (srcToks src), t.kind ≠ .stringValue ∧
    (t.data ≠ "directive".toList ∧ t.data ≠ "enum".toList ∧ t.data ≠ "extend".toList ∧ t.data ≠ "input".toList ∧
     t.data ≠ "interface".toList ∧ t.data ≠ "type".toList ∧ t.data ≠ "scalar".toList ∧ t.data ≠ "schema".toList ∧
     t.data ≠ "union".toList)

/-- **`Parser::parse` on executable-only sources: zero errors IF AND ONLY IF the tokens are an executable document within
    the exact recursion budget.**  For a source whose significant tokens contain no String and none of the nine
    type-system keywords (`ExecutableOnly`; sufficient for the dispatch to reach only `operation_definition` and
    `fragment_definition`): the parse reports ZERO errors exactly when the source lexes cleanly and its significant
    tokens — ignored tokens anywhere — are one or more executable definitions followed by EOF, each a full operation
    definition, a shorthand `{ Selection+ }` or a fragment definition with name ≠ `on`, each within the EXACT budget `rl`
    (`Parse.Exact.IsExecDocFit rl`: list nesting of types ≤ rl; exact nesting of default values and argument values
    ≤ rl where `[]`/`{}` cost nothing; default values and variable-definition directives `Const`; selection-set nesting
    + 1 ≤ rl; inline fragments and sub-selections non-empty; spread names ≠ `on`).  The direction ⇐ holds without the
    guard (`Parse.Exact.parseDocument_complete_sig`).  The guard excludes some executable documents (a field named
    `type`); for those only ⇐ is stated here. -/
theorem executable_document_accept_iff (rl : Nat) (src : Parse.Str) (hg : ExecutableOnly src) :
    (parse .document none rl src).errors = [] ↔
      LexClean src ∧ ∃ ts x e, sig (srcToks src) = ts ++ [e] ∧ e.kind = .eof ∧ ts.map astOfV = x.map some ∧
        Parse.Exact.IsExecDocFit rl x :=
  Parse.Exact.parseDocument_exec_iff rl src hg

-- witnesses (kernel-evaluated on the model) for the guards of the variable-definition language and of the document iff:
-- default values and variable-definition directives are `Const`; the default value's exact depth counts (`[]` is free);
-- without the `ExecutableOnly` guard ⇒ fails (a type-system definition is accepted), while a guard-violating executable
-- document is still accepted (⇐ needs no guard); a description in front of an executable definition is an error
example : (parse .document none 500 "query Q($v: Int = $x) { a }".toList).errors ≠ [] := by decide +kernel
example : (parse .document none 500 "query Q($v: Int @d(a: $x)) { a }".toList).errors ≠ [] := by decide +kernel
example : (parse .document none 500 "query Q($v: Int = 1 @d(a: [2])) @e(b: $v) { a }".toList).errors = [] := by decide +kernel
example : (parse .document none 1 "query Q($v: Int = [[1]]) { a }".toList).errors ≠ [] := by decide +kernel
example : (parse .document none 2 "query Q($v: Int = [[1]]) { a }".toList).errors = [] := by decide +kernel
example : (parse .document none 1 "query Q($v: Int = [[]]) { a }".toList).errors = [] := by decide +kernel
example : (parse .document none 500 "query Q() { a }".toList).errors ≠ [] := by decide +kernel
example : (parse .document none 500 "query Q($v Int) { a }".toList).errors ≠ [] := by decide +kernel
example : (parse .document none 500 "scalar S".toList).errors = [] := by decide +kernel
example : (parse .document none 500 "{ type }".toList).errors = [] := by decide +kernel
example : (parse .document none 500 "\"d\" { a }".toList).errors ≠ [] := by decide +kernel

/-! ### growth 10: the whole grammar at the exact budget — parameterised soundness, the exact follow condition -/

/-- **the follow guard of `document_accept_complete` is sufficient, not exact** (kernel-evaluated): a shorthand query may
    directly follow a type-system definition whose braces body is written (`DocFollowOk` forbids `{` after every object /
    interface / enum / input definition), while after a definition WITHOUT body the `{` is read as its body.  Hence
    "zero errors ⇔ … `DocFollowOk its`" is false; the exact condition is `Parse.Exact.DocFollowX`. -/
theorem document_follow_guard_not_exact :
    (parse .document none 500 "type T { a: Int } { b }".toList).errors = [] ∧
    (parse .document none 500 "enum E { A } { b }".toList).errors = [] ∧
    (parse .document none 500 "type T { b }".toList).errors ≠ [] ∧
    (parse .document none 500 "scalar S (".toList).errors ≠ [] := by decide +kernel

/-- `DocFollowOk` (the guard of the completeness theorem) implies the exact follow condition `DocFollowX`: only a
    definition without its braces body restricts the next token (it must not be `{`) -/
theorem document_follow_ok_implies_exact (its : List DocItem) (h : Parse.Exact.DocFollowOk its) : Parse.Exact.DocFollowX its :=
  Parse.Exact.docFollowX_of_ok its h

/-- **document_accept_sound_exact, parameterised.**  `L n : Parse.Exact.DefExact n` are the exact-soundness statements of
    the eight type-system definition parsers and the seven extension parsers (entered as the dispatcher enters them on a
    lexer queue, an error-free run consumed `l.toks` for ONE `LooseDef l` with `Parse.Exact.looseFit` at the budget of
    the start state, and the next significant token is not `{` when the braces body is absent); operation and fragment
    definitions need no hypothesis.  Then: zero errors of `Parser::parse` IMPLIES that the source lexes cleanly and its
    significant tokens are `docToks its ++ [EOF]` for a non-empty list of items, every item within the EXACT budget
    (`Parse.Exact.itemFit rl`) and the list satisfying the exact follow condition.  No guard on the source; the two
    liberties are part of `DocItem`. -/
theorem document_accept_sound_exact (L : ∀ n, Parse.Exact.DefExact n) (rl : Nat) (src : Parse.Str)
    (herr : (parse .document none rl src).errors = []) :
    LexClean src ∧ ∃ (ts : List Tok) (its : List DocItem) (e : Tok), sig (srcToks src) = ts ++ [e] ∧ e.kind = .eof ∧
      ts.map astOfV = (docToks its).map some ∧ its ≠ [] ∧ (∀ i ∈ its, Parse.Exact.itemFit rl i) ∧ Parse.Exact.DocFollowX its :=
  (Parse.Exact.document_sandwichG L rl src).1 herr

/-- **document_accept_complete at the exact budget** (no hypothesis): the converse for the stronger follow guard -/
theorem document_accept_complete_exact (rl : Nat) (src : Parse.Str) (its : List DocItem) (ts : List Tok) (e : Tok)
    (hclean : LexClean src) (hsig : sig (srcToks src) = ts ++ [e]) (he : e.kind = .eof)
    (hx : ts.map astOfV = (docToks its).map some) (hne : its ≠ []) (hfit : ∀ i ∈ its, Parse.Exact.itemFit rl i)
    (hfol : Parse.Exact.DocFollowOk its) : (parse .document none rl src).errors = [] :=
  Parse.Exact.parseDocument_complete_items rl src its ts e hclean hsig he hx hne hfit hfol

/-! ### growth 11: exact soundness of the type-system productions (builderD's share: the leaves, `scalar`, `enum`,
`input`, their extensions, `schema` and its extension) -/

/-- **input_value_definition_accept_sound_exact.**  An error-free run of `input_value_definition` entered on a Name or
    String token consumed `tIVD v` for ONE input value definition within the budget of the start state
    (`Parse.Exact.ivdFit`: type nesting, `Const` default value of exact depth, `Const` directives) — or stopped at the
    end of input (the `AtEof` alternative of `ConsE`, excluded by whatever closes the list). -/
theorem input_value_definition_accept_sound_exact (n : Nat) (s s' : PState) (t : Tok) (rest : List Tok) (w : TW s) (he : EofEnd s)
    (ht : Toks s = t :: rest) (hk : isNameOrStringK t.kind = true)
    (h : (inputValueDefinition n).run s = .ok () s') (hnd : ¬ Doomed s') :
    Parse.Exact.ConsE s s' (fun x => ∃ v : Ast.InputValueDef, x = Ast.tIVD v ∧ Parse.Exact.ivdFit (Parse.Exact.bud s) v) :=
  Parse.Exact.ivd_sound n s s' t rest w he ht hk h hnd

/-- **field_definition_accept_sound_exact**: `Description? Name ArgumentsDefinition? : Type Directives[Const]?` within the
    budget of the start state (`Parse.Exact.fieldFit`) -/
theorem field_definition_accept_sound_exact (n : Nat) (s s' : PState) (t : Tok) (rest : List Tok) (w : TW s) (he : EofEnd s)
    (ht : Toks s = t :: rest) (hk : isNameOrStringK t.kind = true)
    (h : (fieldDefinition n).run s = .ok () s') (hnd : ¬ Doomed s') :
    Parse.Cons s s' (Parse.Exact.LFieldDef (Parse.Exact.bud s)) :=
  Parse.Exact.fieldDefinition_sound n s s' t rest w he ht hk h hnd

/-- **enum_value_definition_accept_sound_exact**: `Description? EnumValue Directives[Const]?` (`Parse.Exact.enumValFit`:
    the value is not `true` / `false` / `null`, the directives within the budget) -/
theorem enum_value_definition_accept_sound_exact (n : Nat) (s s' : PState) (t : Tok) (rest : List Tok) (w : TW s) (he : EofEnd s)
    (ht : Toks s = t :: rest) (hk : isNameOrStringK t.kind = true)
    (h : (enumValueDefinition n).run s = .ok () s') (hnd : ¬ Doomed s') :
    Parse.Cons s s' (fun x => ∃ v : Ast.EnumValueDef, x = Ast.tEnumValueDef v ∧ Parse.Exact.enumValFit (Parse.Exact.bud s) v) :=
  Parse.Exact.enumValueDefinition_sound n s s' t rest w he ht hk h hnd

/-- the braced / parenthesised lists `( InputValueDefinition+ )`, `{ InputValueDefinition+ }`, `{ FieldDefinition+ }`,
    `{ EnumValueDefinition+ }`, entered on their opening token: every item within the budget of the start state -/
theorem arguments_definition_accept_sound_exact (n : Nat) (s s' : PState) (t : Tok) (rest : List Tok) (w : TW s) (he : EofEnd s)
    (ht : Toks s = t :: rest) (hk : t.kind = .lParen) (h : (argumentsDefinition n).run s = .ok () s') (hnd : ¬ Doomed s') :
    Parse.Cons s s' (Parse.Exact.LArgsDef (Parse.Exact.bud s)) :=
  Parse.Exact.argumentsDefinition_sound n s s' t rest w he ht hk h hnd

theorem input_fields_definition_accept_sound_exact (n : Nat) (s s' : PState) (t : Tok) (rest : List Tok) (w : TW s) (he : EofEnd s)
    (ht : Toks s = t :: rest) (hk : t.kind = .lCurly) (h : (inputFieldsDefinition n).run s = .ok () s') (hnd : ¬ Doomed s') :
    Parse.Cons s s' (Parse.Exact.LInputFields (Parse.Exact.bud s)) :=
  Parse.Exact.inputFieldsDefinition_sound n s s' t rest w he ht hk h hnd

theorem fields_definition_accept_sound_exact (n : Nat) (s s' : PState) (t : Tok) (rest : List Tok) (w : TW s) (he : EofEnd s)
    (ht : Toks s = t :: rest) (hk : t.kind = .lCurly) (h : (fieldsDefinition n).run s = .ok () s') (hnd : ¬ Doomed s') :
    Parse.Cons s s' (Parse.Exact.LFields (Parse.Exact.bud s)) :=
  Parse.Exact.fieldsDefinition_sound n s s' t rest w he ht hk h hnd

theorem enum_values_definition_accept_sound_exact (n : Nat) (s s' : PState) (t : Tok) (rest : List Tok) (w : TW s) (he : EofEnd s)
    (ht : Toks s = t :: rest) (hk : t.kind = .lCurly) (h : (enumValuesDefinition n).run s = .ok () s') (hnd : ¬ Doomed s') :
    Parse.Cons s s' (Parse.Exact.LEnumVals (Parse.Exact.bud s)) :=
  Parse.Exact.enumValuesDefinition_sound n s s' t rest w he ht hk h hnd

/-- **scalar_definition_accept_sound_exact**: the field `scalar` of `Parse.Exact.DefExact` — entered as the dispatcher
    enters it on a lexer queue, an error-free run of `scalar_type_definition` consumed `(.scalar desc nm ds).toks` with
    `Parse.Exact.looseFit` at the budget of the start state -/
theorem scalar_definition_accept_sound_exact (n : Nat) :
    Parse.Exact.DefSound (DStart "scalar".toList) (scalarTypeDefinition n) := Parse.Exact.scalarDef_sound n

/-- **enum_definition_accept_sound_exact**: the field `enumDef` of `Parse.Exact.DefExact`; when the braces body is absent
    the next significant token is not `{` -/
theorem enum_definition_accept_sound_exact (n : Nat) :
    Parse.Exact.DefSound (DStart "enum".toList) (enumTypeDefinition n) := Parse.Exact.enumDef_sound n

/-- **input_object_definition_accept_sound_exact**: the field `input` of `Parse.Exact.DefExact` -/
theorem input_object_definition_accept_sound_exact (n : Nat) :
    Parse.Exact.DefSound (DStart "input".toList) (inputObjectTypeDefinition n) := Parse.Exact.inputDef_sound n

/-- **scalar_extension_accept_sound_exact**: the field `scalarExt` of `Parse.Exact.DefExact` (the directives are there) -/
theorem scalar_extension_accept_sound_exact (n : Nat) :
    Parse.Exact.DefSound (EStart "scalar".toList) (scalarTypeExtension n) := Parse.Exact.scalarExt_sound n

/-- **enum_extension_accept_sound_exact**: the field `enumExt` of `Parse.Exact.DefExact` (directives or values are there) -/
theorem enum_extension_accept_sound_exact (n : Nat) :
    Parse.Exact.DefSound (EStart "enum".toList) (enumTypeExtension n) := Parse.Exact.enumExt_sound n

/-- **input_object_extension_accept_sound_exact**: the field `inputExt` of `Parse.Exact.DefExact` -/
theorem input_object_extension_accept_sound_exact (n : Nat) :
    Parse.Exact.DefSound (EStart "input".toList) (inputObjectTypeExtension n) := Parse.Exact.inputExt_sound n

/-- **object_definition_accept_sound_exact**: the field `object` of `Parse.Exact.DefExact` — entered as the dispatcher
    enters it on a lexer queue, an error-free run of `object_type_definition` consumed `(.object desc nm impl ds fs).toks`
    with `Parse.Exact.looseFit` (directives and every field definition within the budget of the start state); when the
    fields are absent the next significant token is not `{` -/
theorem object_definition_accept_sound_exact (n : Nat) :
    Parse.Exact.DefSound (DStart "type".toList) (objectTypeDefinition n) := Parse.Exact.objectDef_sound n

/-- **interface_definition_accept_sound_exact**: the field `interface` of `Parse.Exact.DefExact` -/
theorem interface_definition_accept_sound_exact (n : Nat) :
    Parse.Exact.DefSound (DStart "interface".toList) (interfaceTypeDefinition n) := Parse.Exact.interfaceDef_sound n

/-- **union_definition_accept_sound_exact**: the field `union` of `Parse.Exact.DefExact` (only the directives depend on
    the budget) -/
theorem union_definition_accept_sound_exact (n : Nat) :
    Parse.Exact.DefSound (DStart "union".toList) (unionTypeDefinition n) := Parse.Exact.unionDef_sound n

/-- **directive_definition_accept_sound_exact**: the field `directive` of `Parse.Exact.DefExact` (every argument
    definition within the budget; the locations are directive locations) -/
theorem directive_definition_accept_sound_exact (n : Nat) :
    Parse.Exact.DefSound (DStart "directive".toList) (directiveDefinition n) := Parse.Exact.directiveDef_sound n

/-- **schema_definition_accept_sound_exact, up to the recorded finding.**  `Parse.Exact.looseFit` asks every root
    operation type to have its named type; the parser accepts `schema { query: }` (the recorded C05 finding), so an
    error-free run establishes only `Parse.Exact.looseFitX` = `looseFit` without that clause
    (`Parse.Exact.looseFitX_of_looseFit`, `Parse.Exact.looseFit_of_looseFitX`).  The conclusion is the hypothesis shape
    of `Parse.Exact.defSound_of_loose`. -/
theorem schema_definition_accept_sound_exact (n : Nat) (s s' : PState) (w : TW s) (he : EofEnd s) (hq : LexQ (Toks s))
    (hs : DStart "schema".toList (Toks s)) (hr : (schemaDefinition n).run s = .ok () s') (hnd : ¬ Doomed s') :
    ∃ (cs : List Tok) (l : LooseDef), Toks s = cs ++ Toks s' ∧ NoEof cs ∧ EofEnd s' ∧ TokIs (sig cs) l.toks ∧
      Parse.Exact.looseFitX (Parse.Exact.bud s) l ∧ Settled s' ∧
      (Parse.Exact.openBody l → ∀ t, s'.current = some t → t.kind ≠ .lCurly) :=
  Parse.Exact.schemaDef_soundX n s s' w he hq hs hr hnd

/-- **schema_extension_accept_sound_exact, up to the recorded finding** (see `schema_definition_accept_sound_exact`);
    directives or root operation types are there, and without the braces the next significant token is not `{` -/
theorem schema_extension_accept_sound_exact (n : Nat) (s s' : PState) (w : TW s) (he : EofEnd s) (hq : LexQ (Toks s))
    (hs : EStart "schema".toList (Toks s)) (hr : (schemaExtension n).run s = .ok () s') (hnd : ¬ Doomed s') :
    ∃ (cs : List Tok) (l : LooseDef), Toks s = cs ++ Toks s' ∧ NoEof cs ∧ EofEnd s' ∧ TokIs (sig cs) l.toks ∧
      Parse.Exact.looseFitX (Parse.Exact.bud s) l ∧ Settled s' ∧
      (Parse.Exact.openBody l → ∀ t, s'.current = some t → t.kind ≠ .lCurly) :=
  Parse.Exact.schemaExt_soundX n s s' w he hq hs hr hnd


/-! ### growth 12: the whole grammar at the exact budget, UNCONDITIONAL — object / interface / union type extensions and the
    final assembly (all fifteen type-system definition / extension parsers discharged) -/

theorem object_extension_accept_sound_exact (n : Nat) :
    Parse.Exact.DefSound (Parse.EStart "type".toList) (objectTypeExtension n) := Parse.Exact.objectExt_sound n

theorem interface_extension_accept_sound_exact (n : Nat) :
    Parse.Exact.DefSound (Parse.EStart "interface".toList) (interfaceTypeExtension n) := Parse.Exact.interfaceExt_sound n

theorem union_extension_accept_sound_exact (n : Nat) :
    Parse.Exact.DefSound (Parse.EStart "union".toList) (unionTypeExtension n) := Parse.Exact.unionExt_sound n

/-- **document_accept_sound_exact, unconditional.**  Zero errors of `Parser::parse` (model; no token limit, any recursion limit
    `rl`) IMPLIES: the source lexes cleanly and its significant tokens are `docToks its ++ [EOF]` for a non-empty list of
    items — executable definitions in long or shorthand form, type-system definitions / extensions as `LooseDef` — every item
    within the EXACT budget (`Parse.Exact.itemFitX rl` = `itemFit` without "every root operation type of a schema definition /
    extension has its named type", the recorded finding) and the list satisfying the exact follow condition
    `Parse.Exact.DocFollowX` (only a definition without its braces body restricts the next token: not `{`). -/
theorem document_accept_sound_exact_unconditional (rl : Nat) (src : Parse.Str)
    (herr : (parse .document none rl src).errors = []) :
    LexClean src ∧ ∃ (ts : List Tok) (its : List DocItem) (e : Tok), sig (srcToks src) = ts ++ [e] ∧ e.kind = .eof ∧
      ts.map astOfV = (docToks its).map some ∧ its ≠ [] ∧ (∀ i ∈ its, Parse.Exact.itemFitX rl i) ∧ Parse.Exact.DocFollowX its :=
  Parse.Exact.document_accept_sound_exact_unconditional rl src herr

/-- **the final sandwich for the whole grammar at the exact budget**: `{itemFit rl, DocFollowOk}` ⊆ accepted ⊆
    `{itemFitX rl, DocFollowX}`.  The two gaps are exactly (a) the recorded finding — a root operation type without its named type
    is accepted — and (b) a shorthand query directly after a type-system definition whose braces body is written
    (`document_follow_guard_not_exact`), for which the completeness calculus has no instance-dependent follow set. -/
theorem document_accept_sandwich_exact (rl : Nat) (src : Parse.Str) :
    ((parse .document none rl src).errors = [] →
      LexClean src ∧ ∃ (ts : List Tok) (its : List DocItem) (e : Tok), sig (srcToks src) = ts ++ [e] ∧ e.kind = .eof ∧
        ts.map astOfV = (docToks its).map some ∧ its ≠ [] ∧ (∀ i ∈ its, Parse.Exact.itemFitX rl i) ∧ Parse.Exact.DocFollowX its) ∧
    ((LexClean src ∧ ∃ (ts : List Tok) (its : List DocItem) (e : Tok), sig (srcToks src) = ts ++ [e] ∧ e.kind = .eof ∧
        ts.map astOfV = (docToks its).map some ∧ its ≠ [] ∧ (∀ i ∈ its, Parse.Exact.itemFit rl i) ∧ Parse.Exact.DocFollowOk its) →
      (parse .document none rl src).errors = []) :=
  Parse.Exact.document_sandwich_final rl src

/-! ### growth 13 (partial): towards completeness for the exact follow condition `DocFollowX` — a type-system definition
    whose braces body IS written may be followed by `{` (a shorthand query).  Proved for the four DEFINITIONS with a
    braces body (enum, input object, object, interface) and for the enum and input object type EXTENSIONS; NOT yet for the
    object / interface / schema extensions, the dispatch and the document loop — so `document_accept_complete` for `DocFollowX` and `document_accept_iff`
    are NOT proved. -/

/-- **enum type definition with its values written, acceptance is complete for ANY follow token**: from a state on a lexer
    queue `c ++ q0 :: rest` where `c` spells `Description? enum Name Directives[Const]? { EnumValueDefinition+ }` within the
    exact budget and `q0` is any significant token — also `{` —, the run consumed exactly `c` and reported no error. -/
theorem enum_definition_with_body_accept_complete (n : Nat) (s s' : PState) (c : List Tok) (x : List Ast.Tok) (q0 : Tok)
    (rest : List Tok) (w : TW s) (hlex : LexQ (Toks s)) (hx : Parse.Exact.LEnumP (s.recLimit - s.recCur) x)
    (hspell : (sig c).map astOfV = x.map some) (hhead : ∀ hd tl, c = hd :: tl → isIgnoredKind hd.kind = false)
    (ht : Toks s = c ++ q0 :: rest) (hq : isIgnoredKind q0.kind = false)
    (h : (enumTypeDefinition n).run s = .ok () s') : Toks s' = q0 :: rest ∧ (Doomed s' ↔ Doomed s) := by
  obtain ⟨e, t, _⟩ := Parse.Exact.cmpT_enumTypeDefinitionP n s s' () c x q0 rest w hlex h hx ⟨hspell, hhead⟩ ht hq trivial trivial
  exact ⟨t, e.doom⟩

/-- the same for `input Name Directives[Const]? { InputValueDefinition+ }` -/
theorem input_definition_with_body_accept_complete (n : Nat) (s s' : PState) (c : List Tok) (x : List Ast.Tok) (q0 : Tok)
    (rest : List Tok) (w : TW s) (hlex : LexQ (Toks s)) (hx : Parse.Exact.LInputP (s.recLimit - s.recCur) x)
    (hspell : (sig c).map astOfV = x.map some) (hhead : ∀ hd tl, c = hd :: tl → isIgnoredKind hd.kind = false)
    (ht : Toks s = c ++ q0 :: rest) (hq : isIgnoredKind q0.kind = false)
    (h : (inputObjectTypeDefinition n).run s = .ok () s') : Toks s' = q0 :: rest ∧ (Doomed s' ↔ Doomed s) := by
  obtain ⟨e, t, _⟩ := Parse.Exact.cmpT_inputObjectTypeDefinitionP n s s' () c x q0 rest w hlex h hx ⟨hspell, hhead⟩ ht hq trivial trivial
  exact ⟨t, e.doom⟩

/-- the same for `type Name ImplementsInterfaces? Directives[Const]? { FieldDefinition+ }`: the follow token is only asked not
    to be `&` or the Name `implements` (neither can start a definition) — `{` is allowed -/
theorem object_definition_with_fields_accept_complete (n : Nat) (s s' : PState) (c : List Tok) (x : List Ast.Tok) (q0 : Tok)
    (rest : List Tok) (w : TW s) (hlex : LexQ (Toks s)) (hx : Parse.Exact.LObjectP "type" (s.recLimit - s.recCur) x)
    (hspell : (sig c).map astOfV = x.map some) (hhead : ∀ hd tl, c = hd :: tl → isIgnoredKind hd.kind = false)
    (ht : Toks s = c ++ q0 :: rest) (hq : isIgnoredKind q0.kind = false) (hf : Parse.Exact.FObjP q0)
    (h : (objectTypeDefinition n).run s = .ok () s') : Toks s' = q0 :: rest ∧ (Doomed s' ↔ Doomed s) := by
  obtain ⟨e, t, _⟩ := Parse.Exact.cmpT_objectTypeDefinitionP n s s' () c x q0 rest w hlex h hx ⟨hspell, hhead⟩ ht hq hf trivial
  exact ⟨t, e.doom⟩

/-- the same for `interface …` -/
theorem interface_definition_with_fields_accept_complete (n : Nat) (s s' : PState) (c : List Tok) (x : List Ast.Tok) (q0 : Tok)
    (rest : List Tok) (w : TW s) (hlex : LexQ (Toks s)) (hx : Parse.Exact.LObjectP "interface" (s.recLimit - s.recCur) x)
    (hspell : (sig c).map astOfV = x.map some) (hhead : ∀ hd tl, c = hd :: tl → isIgnoredKind hd.kind = false)
    (ht : Toks s = c ++ q0 :: rest) (hq : isIgnoredKind q0.kind = false) (hf : Parse.Exact.FObjP q0)
    (h : (interfaceTypeDefinition n).run s = .ok () s') : Toks s' = q0 :: rest ∧ (Doomed s' ↔ Doomed s) := by
  obtain ⟨e, t, _⟩ := Parse.Exact.cmpT_interfaceTypeDefinitionP n s s' () c x q0 rest w hlex h hx ⟨hspell, hhead⟩ ht hq hf trivial
  exact ⟨t, e.doom⟩

/-- the same for `extend enum Name Directives[Const]? { EnumValueDefinition+ }` -/
theorem enum_extension_with_body_accept_complete (n : Nat) (s s' : PState) (c : List Tok) (x : List Ast.Tok) (q0 : Tok)
    (rest : List Tok) (w : TW s) (hlex : LexQ (Toks s)) (hx : Parse.Exact.LEnumExtP (s.recLimit - s.recCur) x)
    (hspell : (sig c).map astOfV = x.map some) (hhead : ∀ hd tl, c = hd :: tl → isIgnoredKind hd.kind = false)
    (ht : Toks s = c ++ q0 :: rest) (hq : isIgnoredKind q0.kind = false)
    (h : (enumTypeExtension n).run s = .ok () s') : Toks s' = q0 :: rest ∧ (Doomed s' ↔ Doomed s) := by
  obtain ⟨e, t, _⟩ := Parse.Exact.cmpT_enumTypeExtensionP n s s' () c x q0 rest w hlex h hx ⟨hspell, hhead⟩ ht hq trivial trivial
  exact ⟨t, e.doom⟩

/-- the same for `extend input Name Directives[Const]? { InputValueDefinition+ }` -/
theorem input_extension_with_body_accept_complete (n : Nat) (s s' : PState) (c : List Tok) (x : List Ast.Tok) (q0 : Tok)
    (rest : List Tok) (w : TW s) (hlex : LexQ (Toks s)) (hx : Parse.Exact.LInputExtP (s.recLimit - s.recCur) x)
    (hspell : (sig c).map astOfV = x.map some) (hhead : ∀ hd tl, c = hd :: tl → isIgnoredKind hd.kind = false)
    (ht : Toks s = c ++ q0 :: rest) (hq : isIgnoredKind q0.kind = false)
    (h : (inputObjectTypeExtension n).run s = .ok () s') : Toks s' = q0 :: rest ∧ (Doomed s' ↔ Doomed s) := by
  obtain ⟨e, t, _⟩ := Parse.Exact.cmpT_inputObjectTypeExtensionP n s s' () c x q0 rest w hlex h hx ⟨hspell, hhead⟩ ht hq trivial trivial
  exact ⟨t, e.doom⟩

/-! ### growth 14: `document_accept_complete` over the EXACT follow condition `DocFollowX` — a shorthand query may directly follow a
    type-system definition or extension whose braces body is written; the sandwich now has `DocFollowX` on BOTH sides -/

/-- `extend type Name ImplementsInterfaces? Directives[Const]? { FieldDefinition+ }`: with the fields written, `{` may follow (the
    follow token is only asked not to be `&` or the Name `implements`) -/
theorem object_extension_with_fields_accept_complete (n : Nat) (s s' : PState) (c : List Tok) (x : List Ast.Tok) (q0 : Tok)
    (rest : List Tok) (w : TW s) (hlex : LexQ (Toks s)) (hx : Parse.Exact.LObjectExtP "type" (s.recLimit - s.recCur) x)
    (hspell : (sig c).map astOfV = x.map some) (hhead : ∀ hd tl, c = hd :: tl → isIgnoredKind hd.kind = false)
    (ht : Toks s = c ++ q0 :: rest) (hq : isIgnoredKind q0.kind = false) (hf : Parse.Exact.FObjP q0)
    (h : (objectTypeExtension n).run s = .ok () s') : Toks s' = q0 :: rest ∧ (Doomed s' ↔ Doomed s) := by
  obtain ⟨e, t, _⟩ := Parse.Exact.cmpT_objectTypeExtensionP n s s' () c x q0 rest w hlex h hx ⟨hspell, hhead⟩ ht hq hf trivial
  exact ⟨t, e.doom⟩

theorem interface_extension_with_fields_accept_complete (n : Nat) (s s' : PState) (c : List Tok) (x : List Ast.Tok) (q0 : Tok)
    (rest : List Tok) (w : TW s) (hlex : LexQ (Toks s)) (hx : Parse.Exact.LObjectExtP "interface" (s.recLimit - s.recCur) x)
    (hspell : (sig c).map astOfV = x.map some) (hhead : ∀ hd tl, c = hd :: tl → isIgnoredKind hd.kind = false)
    (ht : Toks s = c ++ q0 :: rest) (hq : isIgnoredKind q0.kind = false) (hf : Parse.Exact.FObjP q0)
    (h : (interfaceTypeExtension n).run s = .ok () s') : Toks s' = q0 :: rest ∧ (Doomed s' ↔ Doomed s) := by
  obtain ⟨e, t, _⟩ := Parse.Exact.cmpT_interfaceTypeExtensionP n s s' () c x q0 rest w hlex h hx ⟨hspell, hhead⟩ ht hq hf trivial
  exact ⟨t, e.doom⟩

/-- `extend schema Directives[Const]? { RootOperationTypeDefinition+ }` (all named): anything may follow -/
theorem schema_extension_with_roots_accept_complete (n : Nat) (s s' : PState) (c : List Tok) (x : List Ast.Tok) (q0 : Tok)
    (rest : List Tok) (w : TW s) (hlex : LexQ (Toks s)) (hx : Parse.Exact.LSchemaExtP (s.recLimit - s.recCur) x)
    (hspell : (sig c).map astOfV = x.map some) (hhead : ∀ hd tl, c = hd :: tl → isIgnoredKind hd.kind = false)
    (ht : Toks s = c ++ q0 :: rest) (hq : isIgnoredKind q0.kind = false)
    (h : (schemaExtension n).run s = .ok () s') : Toks s' = q0 :: rest ∧ (Doomed s' ↔ Doomed s) := by
  obtain ⟨e, t, _⟩ := Parse.Exact.cmpT_schemaExtensionP n s s' () c x q0 rest w hlex h hx ⟨hspell, hhead⟩ ht hq trivial trivial
  exact ⟨t, e.doom⟩

/-- **document_accept_complete over `DocFollowX`.**  Every non-empty list of items within the EXACT budget (`Parse.Exact.itemFit rl`)
    that satisfies the exact follow condition (`Parse.Exact.DocFollowX`: only a definition WITHOUT its braces body restricts the
    next token — not `{`) parses with ZERO errors, in any spelling.  The other follow conditions of `document_accept_complete`
    (`@ ( & = |`, the Name `implements`) are not hypotheses any more: they follow from "the next item is a definition within the
    budget" by the first-token analysis `Parse.Exact.item_headA`.  (`type T { a: Int } { b }` is now inside the complete side.) -/
theorem document_accept_complete_exact_follow (rl : Nat) (src : Parse.Str) (its : List DocItem) (ts : List Tok) (e : Tok)
    (hclean : LexClean src) (hsig : sig (srcToks src) = ts ++ [e]) (he : e.kind = .eof)
    (hx : ts.map astOfV = (docToks its).map some) (hne : its ≠ []) (hfit : ∀ i ∈ its, Parse.Exact.itemFit rl i)
    (hfol : Parse.Exact.DocFollowX its) : (parse .document none rl src).errors = [] :=
  Parse.Exact.parseDocument_complete_itemsX rl src its ts e hclean hsig he hx hne hfit hfol

/-- **the sandwich with the exact follow condition on both sides**: `{itemFit rl, DocFollowX}` ⊆ accepted ⊆ `{itemFitX rl, DocFollowX}`.
    The ONLY asymmetry left is the recorded finding: `itemFit` asks every root operation type of a schema definition / extension to
    have its named type, `itemFitX` does not. -/
theorem document_accept_sandwich_exact_follow (rl : Nat) (src : Parse.Str) :
    ((parse .document none rl src).errors = [] →
      LexClean src ∧ ∃ (ts : List Tok) (its : List DocItem) (e : Tok), sig (srcToks src) = ts ++ [e] ∧ e.kind = .eof ∧
        ts.map astOfV = (docToks its).map some ∧ its ≠ [] ∧ (∀ i ∈ its, Parse.Exact.itemFitX rl i) ∧ Parse.Exact.DocFollowX its) ∧
    ((LexClean src ∧ ∃ (ts : List Tok) (its : List DocItem) (e : Tok), sig (srcToks src) = ts ++ [e] ∧ e.kind = .eof ∧
        ts.map astOfV = (docToks its).map some ∧ its ≠ [] ∧ (∀ i ∈ its, Parse.Exact.itemFit rl i) ∧ Parse.Exact.DocFollowX its) →
      (parse .document none rl src).errors = []) :=
  Parse.Exact.document_sandwich_followX rl src

/-! ### growth 14: the exact guard of the schema productions — only the LAST root operation type may lack its named type -/

/-- **what the parser really accepts** (kernel-evaluated): a root operation type may lack its named type exactly when no
    Name follows it, i.e. only as the last root — in `query: mutation: M` the Name `mutation` is the type of `query` and
    the second `:` is an error -/
theorem schema_nameless_root_only_last :
    (parse .document none 500 "schema { query: }".toList).errors = [] ∧
    (parse .document none 500 "schema { query: Q mutation: }".toList).errors = [] ∧
    (parse .document none 500 "extend schema @d { query: }".toList).errors = [] ∧
    (parse .document none 500 "extend schema { query: Q subscription: }".toList).errors = [] ∧
    (parse .document none 500 "schema { query: mutation }".toList).errors = [] ∧
    (parse .document none 500 "schema { query: mutation: M }".toList).errors ≠ [] ∧
    (parse .document none 500 "extend schema { query: subscription: S }".toList).errors ≠ [] ∧
    (parse .document none 500 "schema { query }".toList).errors ≠ [] := Parse.Exact.schema_nameless_root_witnesses

/-- `Parse.Exact.looseFitXX` lies between `looseFit` (every root named) and `looseFitX` (any root may be nameless) -/
theorem loose_fit_xx_between (b : Nat) (l : LooseDef) :
    (Parse.Exact.looseFit b l → Parse.Exact.looseFitXX b l) ∧ (Parse.Exact.looseFitXX b l → Parse.Exact.looseFitX b l) :=
  ⟨Parse.Exact.looseFitXX_of_looseFit b l, Parse.Exact.looseFitX_of_XX b l⟩

/-- **schema_definition_accept_complete_exact**: `schema_definition` accepts the tokens of every
    `LooseDef.schema desc ds roots` within `Parse.Exact.looseFitXX` (directives `Const` and within the budget, at least one
    root, every root but the last with its named type), whatever follows -/
theorem schema_definition_accept_complete_exact (n : Nat) :
    CmpT (fun _ => True) (schemaDefinition n) Parse.Exact.LSchemaX (fun _ => True) (fun _ => True) :=
  Parse.Exact.cmpT_schemaDefinitionX n

/-- **schema_extension_accept_complete_exact**: the same for `extend schema`; the next token must not continue it -/
theorem schema_extension_accept_complete_exact (n : Nat) :
    CmpT (fun _ => True) (schemaExtension n) Parse.Exact.LSchemaExtX (fun t => Fbody t.kind) (fun _ => True) :=
  Parse.Exact.cmpT_schemaExtensionX n

/-- **schema_definition_accept_sound_exact_xx**: the converse — an error-free run of `schema_definition` entered by the
    dispatcher consumed `l.toks` for a schema definition within `Parse.Exact.looseFitXX` (after a nameless root the head
    of the queue is not a Name, so the root loop stops: it was the last) -/
theorem schema_definition_accept_sound_exact_xx (n : Nat) (s s' : PState) (w : TW s) (he : EofEnd s) (hq : LexQ (Toks s))
    (hs : DStart "schema".toList (Toks s)) (hr : (schemaDefinition n).run s = .ok () s') (hnd : ¬ Doomed s') :
    ∃ (cs : List Tok) (l : LooseDef), Toks s = cs ++ Toks s' ∧ NoEof cs ∧ EofEnd s' ∧ TokIs (sig cs) l.toks ∧
      Parse.Exact.looseFitXX (Parse.Exact.bud s) l ∧ Settled s' ∧
      (Parse.Exact.openBody l → ∀ t, s'.current = some t → t.kind ≠ .lCurly) :=
  Parse.Exact.schemaDef_soundXX n s s' w he hq hs hr hnd

/-- **schema_extension_accept_sound_exact_xx** -/
theorem schema_extension_accept_sound_exact_xx (n : Nat) (s s' : PState) (w : TW s) (he : EofEnd s) (hq : LexQ (Toks s))
    (hs : EStart "schema".toList (Toks s)) (hr : (schemaExtension n).run s = .ok () s') (hnd : ¬ Doomed s') :
    ∃ (cs : List Tok) (l : LooseDef), Toks s = cs ++ Toks s' ∧ NoEof cs ∧ EofEnd s' ∧ TokIs (sig cs) l.toks ∧
      Parse.Exact.looseFitXX (Parse.Exact.bud s) l ∧ Settled s' ∧
      (Parse.Exact.openBody l → ∀ t, s'.current = some t → t.kind ≠ .lCurly) :=
  Parse.Exact.schemaExt_soundXX n s s' w he hq hs hr hnd

/-! ### growth 15: `document_accept_iff` — the exact characterisation of the accepted language -/

/-- the exact item guard: `itemFit` (within the recursion budget, `Const` positions, enum values, names ≠ `on`, directive locations,
    non-empty braces, extensions with a component) where, for a schema definition / extension, only the LAST root operation type may
    lack its named type (builderD's `looseFitXX`; the recorded finding is a liberty of the accepted language, like a leading `&` / `|`) -/
abbrev ExactItemGuard (rl : Nat) (i : DocItem) : Prop := Parse.Exact.itemFitXX rl i

/-- **document_accept_iff.**  `Parser::parse` (model; no token limit, any recursion limit `rl`) reports ZERO errors IF AND ONLY IF the
    source lexes cleanly and its significant tokens are, followed by EOF, `docToks its` for a non-empty list `its` of `DocItem`s —
    operation / fragment definitions in long or shorthand form, type-system definitions / extensions with the two liberties — every
    item satisfying the exact guard `Parse.Exact.itemFitXX rl` and the list satisfying the exact follow condition
    `Parse.Exact.DocFollowX` (a definition without its braces body is not followed by `{`).  No guard on the source
    (`executable_document_accept_iff`'s `ExecutableOnly` is superseded). -/
theorem document_accept_iff (rl : Nat) (src : Parse.Str) :
    (parse .document none rl src).errors = [] ↔
      LexClean src ∧ ∃ (ts : List Tok) (its : List DocItem) (e : Tok), sig (srcToks src) = ts ++ [e] ∧ e.kind = .eof ∧
        ts.map astOfV = (docToks its).map some ∧ its ≠ [] ∧ (∀ i ∈ its, Parse.Exact.itemFitXX rl i) ∧ Parse.Exact.DocFollowX its :=
  Parse.Exact.document_iff rl src

/-- the exact guard lies between the strict guard of `document_accept_complete` and the sound-side guard of growth 12 -/
theorem exact_item_guard_between (rl : Nat) (i : DocItem) :
    (Parse.Exact.itemFit rl i → Parse.Exact.itemFitXX rl i) ∧ (Parse.Exact.itemFitXX rl i → Parse.Exact.itemFitX rl i) :=
  ⟨Parse.Exact.itemFitXX_of_fit rl i, Parse.Exact.itemFitX_of_XX rl i⟩

/-- **accepted ⇒ a document of the strict grammar, or a named liberty is used.**  With zero errors, EITHER `strictItems its = some items`:
    the significant tokens are the printer's tokens `itemsToks items` of a strict-grammar document and every item satisfies the strict
    guard `itemFit rl`; OR `strictItems its = none`: some item has a leading `&` / `|` or a root operation type without its named type. -/
theorem document_accepted_strict_or_liberty (rl : Nat) (src : Parse.Str) (herr : (parse .document none rl src).errors = []) :
    LexClean src ∧ ∃ (ts : List Tok) (its : List DocItem) (e : Tok), sig (srcToks src) = ts ++ [e] ∧ e.kind = .eof ∧
      ts.map astOfV = (docToks its).map some ∧ its ≠ [] ∧ (∀ i ∈ its, Parse.Exact.itemFitXX rl i) ∧ Parse.Exact.DocFollowX its ∧
      ((∃ items, strictItems its = some items ∧ docToks its = Ast.itemsToks items ∧ ∀ i ∈ its, Parse.Exact.itemFit rl i) ∨
        strictItems its = none) :=
  Parse.Exact.document_accepted_strict_or_liberty rl src herr

/-- **strict-grammar documents within the budget ⇒ accepted**: items that use no liberty (`strictItems its = some items`), satisfy the
    strict guard and the exact follow condition parse with zero errors; their tokens are the printer's tokens of `items` -/
theorem strict_document_accept_complete_exact (rl : Nat) (src : Parse.Str) (its : List DocItem) (items : List Ast.Item)
    (ts : List Tok) (e : Tok) (hstrict : strictItems its = some items)
    (hclean : LexClean src) (hsig : sig (srcToks src) = ts ++ [e]) (he : e.kind = .eof)
    (hx : ts.map astOfV = (Ast.itemsToks items).map some) (hne : its ≠ []) (hfit : ∀ i ∈ its, Parse.Exact.itemFit rl i)
    (hfol : Parse.Exact.DocFollowX its) : (parse .document none rl src).errors = [] :=
  Parse.Exact.parseDocument_complete_itemsX rl src its ts e hclean hsig he
    (by rw [(Parse.strictItems_toks its items hstrict).1]; exact hx) hne hfit hfol

end Executable

/-! ## Document level: `document()` and `Parser::parse` — accepted ⊆ grammar, for whole documents

The top level of the grammar — grammar/document.rs (`document`, its `peek_while` loop, the dispatch on the token kind,
`select_definition` with the `peek_data` / `peek_data_n(2)` look-ahead, `extensions`, the `err_and_pop` branches, the
"expected at least one definition" check) and the entry point `Parser::parse` — is proved in Proofs/ParserDoc1–3.lean
from the structure `Parse.DefLemmas n`: one hypothesis per definition parser (13 definitions counting the four
keywords of operations, 7 extensions), each "entered the way the dispatcher enters it, on a lexer queue, a run without
error consumed the tokens of ONE definition (`Parse.IsDef`) and left the rest of the queue untouched".
Proofs/ParserDoc4.lean instantiates `DefLemmas` from the per-production theorems of the sections above
(`definition_parsers_sound`), so everything below is unconditional.

`Parse.DocItem` is one definition as accepted, with the way it is written:
  * `exec oe d`   an operation or fragment definition, tokens `tDefinition oe d` (C08's printer; `oe = true`: the
                  shorthand form `{ … }` when it applies) — the shorthand query is accepted at ANY position;
  * `loose l`     a type-system definition or extension, tokens `LooseDef.toks l` = the printer's tokens up to a leading
                  `&` / `|` and — KNOWN FINDING accepts-root-operation-without-type — a root operation type without name;
`fragment_definition` entered on a description (`"d" fragment on T { a }`, formerly accepted) reports an error since the
repair of accepts-description-before-fragment: `Parse.acc_fragmentDefinition_desc`, `description_before_fragment_rejected`.
-/
section Document

/-- the modular form: `document_accept_sound` from ANY proof of the per-definition hypotheses -/
theorem document_accept_sound_from (L : ∀ n, Parse.DefLemmas n) (rl : Nat) (src : Parse.Str) (root : Elem)
    (h : (parse .document none rl src).outcome = .tree root) (herr : (parse .document none rl src).errors = []) :
    Parse.LexClean src ∧ ∃ ts x e, Parse.sig (Parse.srcToks src) = ts ++ [e] ∧ e.kind = .eof ∧
      ts.map Parse.astOfV = x.map some ∧ Parse.IsDocumentToks x :=
  Parse.document_accept_sound L rl src root h herr

/-- the per-definition hypotheses hold (executable definitions: Proofs/ParserSel9.lean; type system:
    Proofs/ParserDef15–16.lean; `fragment_definition` entered on a description: Proofs/ParserDoc4.lean) -/
theorem definition_parsers_sound (n : Nat) : Parse.DefLemmas n := Parse.defLemmas n

/-- **The dispatcher, one definition.**  `document()`'s closure on a current token `t` other than EOF, in a lexer
    queue: a run without error consumed exactly the tokens of ONE accepted definition; the rest is untouched. -/
theorem document_dispatch_accept_sound (n : Nat) (s s' : PState) (t : Parse.Tok) (rest : List Parse.Tok) (w : Parse.TW s)
    (he : Parse.EofEnd s) (hl : Parse.LexQ (Parse.Toks s)) (hc : s.current = some t) (ht : Parse.Toks s = t :: rest)
    (h : (documentDispatch n t.kind).run s = .ok () s') (hnd : ¬ Parse.Doomed s') :
    ∃ cs, Parse.Toks s = cs ++ Parse.Toks s' ∧ Parse.NoEof cs ∧ Parse.EofEnd s' ∧
      ∃ i : Parse.DocItem, i.ok ∧ (Parse.sig cs).map Parse.astOfV = i.toks.map some := by
  obtain ⟨cs, a1, a2, a3, a4⟩ := Parse.documentDispatch_sound (Parse.defLemmas n) s s' t rest w he hl hc ht h hnd
  rcases a4 with ⟨x, hx, hd⟩ | hf
  · obtain ⟨i, hok, rfl⟩ := Parse.isDef_item x hd
    exact ⟨cs, a1, a2, a3, i, hok, hx⟩
  · exact absurd hf id

/-- **document_accepted_is_in_grammar.**  If `Parser::parse` (model; no token limit, any recursion limit) reports no
    error, then the source lexes without error and its significant tokens are `docToks its ++ [EOF]` for a NON-EMPTY
    list `its` of accepted definitions: a Document of the grammar — `Definition+`, the shorthand query at any
    position — up to the two documented liberties.  (`parse` always returns a tree: C01 `parse_terminates`,
    `parse_no_panic`.) -/
theorem document_accepted_is_in_grammar (rl : Nat) (src : Parse.Str) (herr : (parse .document none rl src).errors = []) :
    Parse.LexClean src ∧ ∃ (ts : List Parse.Tok) (e : Parse.Tok) (its : List Parse.DocItem),
      Parse.sig (Parse.srcToks src) = ts ++ [e] ∧ e.kind = .eof ∧ its ≠ [] ∧ (∀ i ∈ its, i.ok) ∧
      ts.map Parse.astOfV = (Parse.docToks its).map some := by
  cases ho : (parse .document none rl src).outcome with
  | panic m => exact absurd ho (Parse.parse_no_panic _ _ _ _ m)
  | abort w => exact absurd ho (Parse.parse_terminates _ _ _ _ w)
  | tree root =>
    obtain ⟨hl, ts, e, its, h1, h2, h3, h4, h5, _⟩ := Parse.document_accepted_items rl src root ho herr
    exact ⟨hl, ts, e, its, h1, h2, h3, h4, h5⟩

/-- **The strict corollary and the link to C08's reference parser.**  For the list `its` of the previous theorem: if no
    definition uses one of the two liberties (`strictItems its = some items`: no leading separator, every root
    operation type named, no description in front of `fragment on`), the significant tokens are
    `itemsToks items` — every definition printed by C08's `tDefinition`, long or shorthand form, `items ≠ []` — and
    C08's reference parser `pDocument` accepts that same token list and returns exactly the definitions of `items`,
    given (a) their well-formedness `wfDefinition` (enum values other than `true/false/null`, spreads not named
    `on`, … — facts the per-production theorems do not export, so it stays a hypothesis) and (b) `FollowOk items`:
    a shorthand query directly follows only a definition that always ends in `}` (`followOk_of_closed`: automatic
    for executable documents; `followOk_tDocument`: automatic for the printer's shape).  (b) cannot be dropped for
    an arbitrary decomposition: `type T` ++ `{ a }` is also the single definition `type T { a }`. -/
theorem document_accepted_reference_parser (rl : Nat) (src : Parse.Str) (herr : (parse .document none rl src).errors = []) :
    ∃ (ts : List Parse.Tok) (e : Parse.Tok) (its : List Parse.DocItem),
      Parse.sig (Parse.srcToks src) = ts ++ [e] ∧ e.kind = .eof ∧ ts.map Parse.astOfV = (Parse.docToks its).map some ∧
      ∀ items, Parse.strictItems its = some items →
        items ≠ [] ∧ Parse.docToks its = Ast.itemsToks items ∧
        ((∀ i ∈ items, Ast.wfDefinition i.2 = true) → Ast.ItemsFollowOk items →
          ∀ f, Ast.szDefinitions (items.map (·.2)) ≤ f → Ast.pDocument f (Ast.itemsToks items) = some (items.map (·.2))) := by
  cases ho : (parse .document none rl src).outcome with
  | panic m => exact absurd ho (Parse.parse_no_panic _ _ _ _ m)
  | abort w => exact absurd ho (Parse.parse_terminates _ _ _ _ w)
  | tree root =>
    obtain ⟨_, ts, e, its, h1, h2, _, _, h5, h6⟩ := Parse.document_accepted_items rl src root ho herr
    exact ⟨ts, e, its, h1, h2, h5, h6⟩

/-- token lists of the form `itemsToks items` and the reference parser, without the parser model -/
theorem isDocument_reference_parser (items : List Ast.Item) (f : Nat) (hne : items ≠ [])
    (h : ∀ i ∈ items, Ast.wfDefinition i.2 = true) (hs : Ast.szDefinitions (items.map (·.2)) ≤ f) (hf : Ast.ItemsFollowOk items) :
    Ast.pDocument f (Ast.itemsToks items) = some (items.map (·.2)) :=
  Ast.items_document_roundtrip items f hne h hs hf

/-- executable documents: every decomposition satisfies `FollowOk` -/
theorem followOk_of_closed (items : List Ast.Item) (h : ∀ i ∈ items, Ast.closed i.2 = true) : Ast.ItemsFollowOk items :=
  Ast.itemsFollowOk_of_closed items h

/-- the printer's shape (`tDocument oe (d :: r)`, shorthand only in front) is `itemsToks` of a `FollowOk` list -/
theorem followOk_tDocument (oe : Bool) (d : Ast.Definition) (r : List Ast.Definition) :
    Ast.tDocument oe (d :: r) = Ast.itemsToks ((oe, d) :: r.map (fun d => (false, d))) ∧
      Ast.ItemsFollowOk ((oe, d) :: r.map (fun d => (false, d))) :=
  ⟨Ast.tDocument_items oe d r, Ast.followOk_tDocument oe d r⟩

/-- number of errors, and whether the tree's text is the whole input -/
def errorCount (src : Parse.Str) : Nat := (parse .document none 500 src).errors.length
def treeIsLossless (src : Parse.Str) : Bool :=
  match (parse .document none 500 src).outcome with
  | .tree root => root.text == src
  | _ => false

/-- REPAIRED defect accepts-description-before-fragment (kernel-evaluated on the model; stream P runs the same inputs
    on the implementation, harness/src/p05.rs): a description in front of `fragment on T { a }` — formerly parsed
    without error, the string bumped as the `fragment` keyword — now gives two errors (the description, and then
    "Fragment Name cannot be 'on'"), a description in front of a complete fragment definition exactly one; the
    tree is still lossless.  A description in front of an
    operation or an extension was and is rejected. -/
theorem description_before_fragment_rejected :
    errorCount "\"d\" fragment on T { a }".toList = 2 ∧ treeIsLossless "\"d\" fragment on T { a }".toList = true ∧
    errorCount "\"d\" fragment F on T { a }".toList = 1 ∧ treeIsLossless "\"d\" fragment F on T { a }".toList = true ∧
    errorFree "fragment F on T { a }".toList = true ∧
    errorFree "\"d\" query { a }".toList = false ∧ errorFree "\"d\" { a }".toList = false ∧
    errorFree "\"d\" extend type A @d".toList = false := by decide +kernel

/-- `fragment_definition` entered on a description (a String token) is never error-free, whatever follows -/
theorem fragment_definition_rejects_description (n : Nat) (s s' : PState) (t : Parse.Tok) (w : Parse.TW s) (he : Parse.EofEnd s)
    (hh : (Parse.Toks s).head? = some t) (hk : t.kind = .stringValue)
    (h : (fragmentDefinition n).run s = .ok () s') : Parse.Doomed s' := by
  apply Classical.byContradiction
  intro hnd
  obtain ⟨cs, _, _, _, hx⟩ := (Parse.acc_fragmentDefinition_desc n (R := fun _ _ => False)).2 s () s' w he ⟨t, hh, hk⟩ h hnd
  rcases hx with ⟨_, _, hf⟩ | hf <;> exact hf

/-- the shorthand query is accepted at any position, also after a type-system definition -/
theorem shorthand_query_anywhere_accepted :
    errorFree "{ a } { b } type T { c: Int } { d } fragment F on T { e } { f }".toList = true := by decide +kernel

end Document

end Apollo.C05
