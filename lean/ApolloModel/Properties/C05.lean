import ApolloModel.Proofs.ParserLossless
import ApolloModel.Proofs.ParserType10
import ApolloModel.Proofs.ParserValue9
/-
C05 — Syntax acceptance matches the GraphQL grammar.

The decision procedure for this property is differential: the parser model of C01 (tied to the
code by correspondence stream P) and, as the reference parser, an independent recogniser of the
October-2021 document grammar (harness/src/gramspec.rs over harness/src/lexspec.rs) evaluated on the
implementation: error-free ⟺ accepted, and equal (kind, name) lists of top-level definitions.
PARTIAL: the only Lean theorem relating the parser model to the grammar is `type_accepted_is_in_grammar`
(the `Type` production, entry point `parse_type`); for documents what is
machine-checked here are facts of the model that the acceptance argument rests on, and
kernel-evaluated witnesses of the repaired defects and of the known finding.
-/
namespace Apollo.C05
open Apollo.Parse Apollo.Rowan

def errorFree (src : Parse.Str) : Bool := (parse .document none 500 src).errors.isEmpty

/-- an error-free parse has consumed the whole input: every token of the document is in the tree
    (so acceptance is a statement about ALL tokens, none are skipped) -/
theorem accepted_document_is_whole_input (rl : Nat) (src : Parse.Str) (root : Elem)
    (h : (parse .document none rl src).outcome = .tree root)
    (hd : (parse .document none rl src).dropped = false) : root.text = src :=
  Parse.lossless_document rl src root h hd

/-- the top-level loop of `document()` only stops at the end of the token stream: it returns
    `Break` on the EOF token and nothing else, so no trailing definition is ever ignored -/
theorem document_loop_stops_only_at_eof (n : Nat) (kind : Lex.Kind) (s s' : PState)
    (h : (documentStep n kind).run s = .ok false s') : kind = .eof :=
  (Parse.documentStep_false n kind s s' h).1

/-- KNOWN FINDING (model-level witness): `schema{query:}` is accepted although
    RootOperationTypeDefinition requires a NamedType after the colon. -/
theorem C05_counterexample : errorFree "schema{query:}".toList = true := by decide +kernel

-- repaired defects (all must now report an error)
example : errorFree "schema".toList = false := by decide +kernel
example : errorFree "{a(b)}".toList = false := by decide +kernel
example : errorFree "{a(x:{c:1 d})}".toList = false := by decide +kernel
-- …and a comma between description and keyword is accepted
example : errorFree "\"d\",type A".toList = true := by decide +kernel
example : errorFree "{a ...F ...on T{b}}".toList = true := by decide +kernel

/-- Grammar acceptance for the `Type` production (the one production with unbounded nesting that is proved so
    far), "accepted ⊆ grammar": what `parse_type` accepts without error is a sentence of
    `Type : NamedType | [Type] | Type!` — its significant tokens are exactly the tokens `tTy t` of a type
    reference `t`, then the end of input. -/
theorem type_accepted_is_in_grammar (rl : Nat) (src : Parse.Str) (herr : (parse .type none rl src).errors = []) :
    ∃ (t : Ast.Ty) (ts : List Tok) (e : Tok),
      sig (srcToks src) = ts ++ [e] ∧ e.kind = .eof ∧ ts.map astOf = (Ast.tTy t).map some :=
  (Parse.parseType_sound' rl src herr).2

/-- "grammar ⊆ accepted" for the same production: every sentence of `Type` (ignored tokens anywhere but in
    front, list nesting within the recursion limit, no lexer error) is accepted without error. -/
theorem type_in_grammar_is_accepted (rl : Nat) (src : Parse.Str) (t : Ast.Ty) (ts : List Tok) (e : Tok)
    (hclean : LexClean src) (hsig : sig (srcToks src) = ts ++ [e]) (he : e.kind = .eof)
    (hty : ts.map astOf = (Ast.tTy t).map some) (hdepth : Parse.tyDepth t ≤ rl)
    (hhead : ∀ hd tl, srcToks src = hd :: tl → isIgnoredKind hd.kind = false) :
    (parse .type none rl src).errors = [] :=
  Parse.parseType_complete_sig rl src t ts e hclean hsig he hty hdepth hhead

section Values

/-- **`value.rs::value`, acceptance is sound** (any fuel, `Const` or not, `pop_on_error` or not, any state
    without token limit): if the run adds no error then the tokens it took from the queue, with ignored
    tokens removed, are exactly the tokens `tValue v` of ONE value `v` of the grammar
    `Value : Variable | IntValue | FloatValue | StringValue | BooleanValue | NullValue | EnumValue |
    ListValue | ObjectValue` (unbounded nesting) — where enum values are names other than `true`, `false`,
    `null`, and under `Const` no variable occurs anywhere in `v` (`valueOk`) — and the rest of the queue is
    untouched; OR the run stopped with the end-of-input token next (`AtEof`): `list_value` leaves its loop at
    EOF without reporting the missing `]` (see `list_value_unclosed_at_eof`), which every caller then reports
    on its own closing token (`)`, `}`, `]`). -/
theorem value_accept_sound (n : Nat) (isConst popOnError : Bool) (s s' : PState) (w : TW s) (he : EofEnd s)
    (h : (value n isConst popOnError).run s = .ok () s') (hnd : ¬ Doomed s') :
    ∃ cs, Toks s = cs ++ Toks s' ∧ NoEof cs ∧ EofEnd s' ∧
      ((∃ v : Ast.Value, (sig cs).map astOfV = (Ast.tValue v).map some ∧ valueOk isConst v = true) ∨ AtEof s') := by
  obtain ⟨⟨cs, a, b, d⟩, e⟩ := Parse.value_sound n isConst popOnError s s' w he h hnd
  exact ⟨cs, a, b, e, d⟩

/-- …so whenever something other than the end of input follows, the consumed tokens are one value. -/
theorem value_accept_sound_not_at_eof (n : Nat) (isConst popOnError : Bool) (s s' : PState) (w : TW s) (he : EofEnd s)
    (h : (value n isConst popOnError).run s = .ok () s') (hnd : ¬ Doomed s') (hne : ¬ AtEof s') :
    ∃ cs v, Toks s = cs ++ Toks s' ∧ (sig cs).map astOfV = (Ast.tValue v).map some ∧ valueOk isConst v = true := by
  obtain ⟨cs, a, _, _, d⟩ := value_accept_sound n isConst popOnError s s' w he h hnd
  rcases d with ⟨v, hv, hok⟩ | d
  · exact ⟨cs, v, a, hv, hok⟩
  · exact absurd d hne

/-- The EOF alternative is real (kernel-evaluated on the model): on the input `[1` the value function
    returns without any error, having consumed `[ 1`, with the EOF token next. -/
theorem list_value_unclosed_at_eof :
    (match (value 5 false false).run (initState "[1".toList none 500) with
      | .ok _ s => s.errors.isEmpty && (s.current.map (·.kind) == some Lex.Kind.eof)
      | _ => false) = true := by decide +kernel

/-- **`argument.rs::arguments`** started on `(`: no error ⇒ the consumed tokens are `tArguments args` for a
    non-empty list `( Name : Value … )` of arguments with well-formed values; the rest of the queue is untouched. -/
theorem arguments_accept_sound (n : Nat) (isConst : Bool) (s s' : PState) (t : Tok) (rest : List Tok) (w : TW s)
    (he : EofEnd s) (ht : Toks s = t :: rest) (hk : t.kind = .lParen)
    (h : (arguments n isConst).run s = .ok () s') (hnd : ¬ Doomed s') :
    ∃ cs args, Toks s = cs ++ Toks s' ∧ NoEof cs ∧ EofEnd s' ∧ args ≠ [] ∧
      (sig cs).map astOfV = (Ast.tArguments args).map some ∧ ∀ a ∈ args, valueOk isConst a.2 = true :=
  Parse.arguments_sound n isConst s s' t rest w he ht hk h hnd

/-- **`directive.rs::directives`** from any state: no error ⇒ the consumed tokens are `tDirectives ds` for a
    (possibly empty) list of directive applications `@ Name Arguments?`; the rest of the queue is untouched. -/
theorem directives_accept_sound (n : Nat) (isConst : Bool) (s s' : PState) (w : TW s) (he : EofEnd s)
    (h : (directives n isConst).run s = .ok () s') (hnd : ¬ Doomed s') :
    ∃ cs ds, Toks s = cs ++ Toks s' ∧ NoEof cs ∧ EofEnd s' ∧
      (sig cs).map astOfV = (Ast.tDirectives ds).map some ∧ ∀ d ∈ ds, ∀ a ∈ d.args, valueOk isConst a.2 = true :=
  Parse.directives_sound n isConst s s' w he h hnd

end Values

end Apollo.C05
