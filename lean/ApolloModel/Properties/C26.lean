import ApolloModel.Proofs.Execution
import ApolloModel.Proofs.ExecutionSpec2
import ApolloModel.Proofs.ExecutionFuel
/-
C26 — Execution follows the GraphQL execution algorithm.

Model: Model/Execution.lean transliterates `execute_selection_set`, `collect_fields`, `execute_field`,
`try_nullify` (resolvers/execution.rs), `complete_value`, `complete_list_value`, `complete_leaf_value`
(resolvers/result_coercion.rs) and `coerce_argument_values` (resolvers/input_coercion.rs) over a resolver
*world* `(object id, field name) ↦ resolved value | error | list | object | skip`.
The first theorems are the three "in particular" clauses of the property, for ALL schemas, operations,
variables, worlds and fuel, stated for every call that produces a response position (so they hold at
every position of every response).  `model_eq_spec` (end of the file) is the refinement: the model equals
the specification's algorithms (Spec/Execution.lean: CollectFields … CompleteValue written from §6.3–§6.4
with raise / catch-at-the-nearest-nullable-position error handling and apollo-compiler's documented
choices as parameters) on every input.  The model itself is tied to the Rust by the stream `c26.exec`,
and the harness compares the implementation with an independent Rust reference executor as well.
-/
namespace Apollo.C26
open Apollo Apollo.Exec

/-- Every field error carries the path of its position: all errors pushed while the value at `path` is
    completed are appended to the error list (nothing is dropped or reordered) and lie at or below `path`
    (list indices included: the item call runs at `path ++ [idx i]`). -/
theorem errors_have_paths (env : Env) (n : Nat) (path : Path) (ty : Ty) (rv : RV) (fields : List Sel) (st : St) :
    ∃ new, (completeValue env n path ty rv fields st).2.errors = st.errors ++ new ∧ ∀ p, p ∈ new → path <+: p := by
  obtain ⟨new, hext, _, _⟩ := completeValue_good env n path ty rv fields st
  exact ⟨new, hext.1, hext.2⟩

/-- …and the same for a field executed at `path` (argument coercion errors and resolver errors included). -/
theorem field_errors_have_paths (env : Env) (n : Nat) (path : Path) (objTy : String) (objId : Nat) (fdef : FieldDef)
    (fields : List Sel) (st : St) :
    ∃ new, (execField (completeValue env n) env path objTy objId fdef fields st).2.errors = st.errors ++ new ∧
      ∀ p, p ∈ new → path <+: p := by
  obtain ⟨new, hext, _, _⟩ := execField_good _ (completeValue_good env n) env path objTy objId fdef fields st
  exact ⟨new, hext.1, hext.2⟩

/-- A failing resolver, and a failing item of the resolver's list, are reported exactly at their position. -/
theorem resolver_error_at_position (env : Env) (n : Nat) (path : Path) (objTy : String) (objId : Nat) (fdef : FieldDef)
    (f0 : Sel) (rest : List Sel) (args : AList Json) (st : St)
    (hargs : coerceArgs env f0.fargs fdef.args [] = some args) (hname : f0.fname ≠ "__typename")
    (hw : env.world.get? objId f0.fname = some .error) :
    (execField (completeValue env n) env path objTy objId fdef (f0 :: rest) st).2.errors = st.errors ++ [path] := by
  simp [execField, hargs, hname, hw, St.push]

theorem item_error_at_position (rec : Rec) (path : Path) (ty inner : Ty) (fields : List Sel) (rest : List RV)
    (i : Nat) (acc : List Json) (st : St) :
    completeItems rec path ty inner fields (.error :: rest) i acc st = (.error .propagate, st.push (path ++ [.idx i])) := by
  simp [completeItems]

/-- Non-null positions are never null: whatever the resolvers return, a completed value at a non-null
    type is not `null` … -/
theorem nonnull_never_null (env : Env) (n : Nat) (path : Path) (ty : Ty) (rv : RV) (fields : List Sel) (st : St) (v : Json)
    (h : (completeValue env n path ty rv fields st).1 = .ok (some v)) (hty : ty.isNonNull = true) : v ≠ .null := by
  obtain ⟨_, _, _, hnn⟩ := completeValue_good env n path ty rv fields st
  exact hnn v h hty

/-- … a field of non-null type never puts `null` into the response map (it propagates instead) … -/
theorem nonnull_field_never_null (env : Env) (n : Nat) (path : Path) (objTy : String) (objId : Nat) (fdef : FieldDef)
    (fields : List Sel) (st : St) (v : Json)
    (h : (execField (completeValue env n) env path objTy objId fdef fields st).1 = .ok (some v))
    (hty : fdef.ty.isNonNull = true) : v ≠ .null := by
  obtain ⟨_, _, _, hnn⟩ := execField_good _ (completeValue_good env n) env path objTy objId fdef fields st
  exact hnn v h hty

/-- … and no item of a completed list of non-null items is `null`. -/
theorem nonnull_items_never_null (env : Env) (n : Nat) (path : Path) (ty inner : Ty) (fields : List Sel)
    (items : List RV) (st : St) (ys : List Json)
    (h : (completeItems (completeValue env n) path ty inner fields items 0 [] st).1 = .ok (some (.arr ys)))
    (hty : inner.isNonNull = true) : ∀ v, v ∈ ys → v ≠ .null := by
  intro v hv
  exact completeItems_items _ (completeValue_good env n) path ty inner fields items 0 [] st
    (by intro w hw; simp at hw) ys h v hv hty

/-- A propagating null is turned into `null` exactly at a nullable position. -/
theorem propagation_stops_at_nullable (ty : Ty) :
    (tryNullify ty (.error .propagate) = .ok (some .null) ↔ ty.isNonNull = false) ∧
    (tryNullify ty (.error .propagate) = .error .propagate ↔ ty.isNonNull = true) := by
  cases h : ty.isNonNull <;> simp [tryNullify, h]

/-- A propagation is never silent: whenever completing a value ends in `PropagateNull`, at least one
    field error was pushed during that call. -/
theorem propagation_has_error (env : Env) (n : Nat) (path : Path) (ty : Ty) (rv : RV) (fields : List Sel) (st : St)
    (h : (completeValue env n path ty rv fields st).1 = .error .propagate) :
    (completeValue env n path ty rv fields st).2.errors ≠ st.errors := by
  obtain ⟨new, hext, hprop, _⟩ := completeValue_good env n path ty rv fields st
  have hne := hprop h
  rw [hext.1]
  intro he
  have : new = [] := by
    have := congrArg List.length he
    simpa using this
  exact hne this

/-- `data` is null exactly when a null propagates out of the root selection set, and then the response
    has at least one error. -/
theorem data_null_iff_root_propagation (fuel : Nat) (env : Env) (sels : List Sel) (r : Response)
    (h : execute fuel env sels = .response r) :
    (r.data = none ↔
      (execSelSet (completeValue env fuel) env [] env.schema.query 0 sels { errors := [] }).1 = .error .propagate) ∧
    (r.data = none → r.errors ≠ []) := by
  unfold execute at h
  obtain ⟨new, hext, hprop⟩ := execSelSet_good _ (completeValue_good env fuel) env [] env.schema.query 0 sels { errors := [] }
  generalize execSelSet (completeValue env fuel) env [] env.schema.query 0 sels { errors := [] } = res at *
  obtain ⟨x, st⟩ := res
  cases x with
  | ok m =>
    simp only at h
    cases h
    simp
  | error e =>
    cases e with
    | fuel => simp at h
    | propagate =>
      simp only at h
      cases h
      refine ⟨by simp, ?_⟩
      intro _
      have := hprop rfl
      have he : st.errors = new := by simpa using hext.1
      rw [he]
      exact this

/-- the refinement statement against a spec-side executor -/
def model_eq_spec_statement (specExecute : Nat → Env → List Sel → Outcome) : Prop :=
  ∀ fuel env sels, execute fuel env sels = specExecute fuel env sels

/-! ### Evaluated instances (non-vacuity; the repo's unit test `test_error_path` is the first) -/

def schemaT : Schema :=
  { inputs := { types := [] }, interfaces := [], unions := [], query := "Query",
    objects := [("Query", { implements := [], fields :=
      [{ name := "f", args := [], ty := .list (.named "Int") },
       { name := "g", args := [], ty := .nonNullList (.nonNullNamed "Int") },
       { name := "q", args := [], ty := .nonNullNamed "Query" },
       { name := "o", args := [], ty := .named "Query" }] })] }

def noDirs : Dirs := { skip := none, incl := none }
def fieldSel (n : String) (sub : List Sel) : Sel := .field none n [] noDirs sub

def envT (w : World) : Env := { schema := schemaT, frags := [], vars := [], world := w, cfuel := 100 }

def dataOf : Outcome → Option (Option (AList Json))
  | .response r => some r.data
  | .outOfFuel => none
def errorsOf : Outcome → List Path
  | .response r => r.errors
  | .outOfFuel => []

/-- `{ f }` with `f = [42, Err]`: `{"f": null}`, one error at `["f", 1]` -/
example : (errorsOf (execute 10 (envT [((0, "f"), .list [.leaf (.int 42), .error])]) [fieldSel "f" []]) = [[.key "f", .idx 1]]) := by
  decide

/-- a null item of `[Int!]!` under a non-null parent under a nullable parent: the null stops at `o` -/
example : errorsOf (execute 10 (envT [((0, "o"), .object "Query" 1), ((1, "q"), .object "Query" 2),
      ((2, "g"), .list [.leaf (.int 1), .leaf .null])]) [fieldSel "o" [fieldSel "q" [fieldSel "g" []]]])
    = [[.key "o", .key "q", .key "g", .idx 1]] := by
  decide

/-! ### Refinement: the model is the specification's execution algorithm -/

/-- For every schema, operation, coerced variables, resolver world and fuel, the model of
    apollo-compiler's executor (`Result<Option<_>, PropagateNull>` nullified level by level, early
    returns) and the specification's algorithms of §6.3–§6.4 (raise a field error, catch it at the
    nearest nullable position), taken with apollo-compiler's documented choices, produce the same
    response: same `data` with the same key order, same errors with the same paths in the same order;
    and they run out of fuel on the same inputs. -/
theorem model_eq_spec : model_eq_spec_statement (ExecSpec.execute ExecSpec.Choices.apollo) :=
  fun fuel env sels => ExecSpec.execute_eq_spec fuel env sels

/-- …position by position: after the catch of its own position, `complete_value` is CompleteValue. -/
theorem complete_value_eq_spec (env : Env) (n : Nat) (path : Path) (ty : Ty) (rv : RV) (fields : List Sel) (st : St) :
    (tryNullify ty (completeValue env n path ty rv fields st).1, (completeValue env n path ty rv fields st).2) =
    (ExecSpec.toOut (ExecSpec.catchAt ty (ExecSpec.completeValue ExecSpec.Choices.apollo env n path ty rv fields st).1),
      (ExecSpec.completeValue ExecSpec.Choices.apollo env n path ty rv fields st).2) :=
  ExecSpec.completeValue_refines env n path ty rv fields st

/-- CollectFields is `collect_fields` (same grouped field set, same visited fragments). -/
theorem collect_fields_eq_spec (env : Env) (objTy : String) (n : Nat) (sels : List Sel) (visited : List String)
    (groups : AList (List Sel)) :
    collectFields env objTy n sels visited groups = ExecSpec.collectFields env objTy n sels visited groups :=
  (ExecSpec.collectFields_eq env objTy n sels visited groups).symm

/-- PARTIAL (operations without fragment spreads; inline fragments allowed): with more `collect_fields`
    fuel than selection nodes and more `complete_value` fuel than (selection depth + 1) × (deepest field
    type of the schema + 1), execution never runs out of fuel, whatever the world returns (cyclic object
    graphs, lists nested deeper than the type, …).  Missing: fragment spreads (needs acyclicity of the
    fragments, which validation guarantees, and a measure through fragment expansion). -/
theorem exec_fuel_sufficient_partial (env : Env) (sels : List Sel) (fuel : Nat)
    (hns : Sel.noSpreadL sels = true) (hc : Sel.weightL sels < env.cfuel)
    (hfuel : (Sel.depthL sels + 1) * (maxObjDepth env.schema.objects + 1) < fuel) :
    execute fuel env sels ≠ .outOfFuel :=
  execute_fuel_sufficient env sels fuel hns hc hfuel

/-- the full fuel statement (fragment spreads included, fragments acyclic); not proved -/
def exec_fuel_sufficient_statement : Prop :=
  ∀ (env : Env) (sels : List Sel), ∃ fuel cfuel, ∀ fuel' ≥ fuel, ∀ cfuel' ≥ cfuel,
    execute fuel' { env with cfuel := cfuel' } sels ≠ .outOfFuel

/-- the documented choice matters: with the item-stream error caught at the (nullable) item instead of
    failing the list, the specification gives `{"f": [42, null]}` for the repo's unit test, the model
    (and the code) `{"f": null}` -/
example : dataOf (ExecSpec.execute { ExecSpec.Choices.apollo with itemStreamErrorFailsList := false } 10
      (envT [((0, "f"), .list [.leaf (.int 42), .error])]) [fieldSel "f" []]) = some (some [("f", .arr [.int 42, .null])]) := rfl
example : dataOf (execute 10 (envT [((0, "f"), .list [.leaf (.int 42), .error])]) [fieldSel "f" []]) =
    some (some [("f", .null)]) := rfl

end Apollo.C26
