import ApolloModel.Proofs.Execution
import ApolloModel.Proofs.ExecutionSpec2
import ApolloModel.Proofs.ExecutionFuel
import ApolloModel.Proofs.ExecutionFuelFrag
import ApolloModel.Proofs.ExecutionNull
import ApolloModel.Proofs.ExecutionKeys
/-
C26 — Execution follows the GraphQL execution algorithm.

Model: Model/Execution.lean transliterates `execute_selection_set`, `collect_fields`, `execute_field`,
`try_nullify` (resolvers/execution.rs), `complete_value`, `complete_list_value`, `complete_leaf_value`
(resolvers/result_coercion.rs) and `coerce_argument_values` (resolvers/input_coercion.rs) over a resolver
*world* `(object id, field name) ↦ resolved value | error | list | object | skip`.
The first theorems are the three "in particular" clauses of the property, for ALL schemas, operations,
variables, worlds and fuel, stated for every call that produces a response position (so they hold at
every position of every response).  `model_eq_spec` (end of the file) is the refinement: the model equals
the specification's algorithms (Spec/Execution.lean: CollectFields … CompleteValue written from §6.3–§6.4
with raise / catch-at-the-nearest-nullable-position error handling and apollo-compiler's documented
choices as parameters) on every input.  The model itself is tied to the Rust by the stream `c26.exec`,
and the harness compares the implementation with an independent Rust reference executor as well.
-/
namespace Apollo.C26
open Apollo Apollo.Exec

/-- Every field error carries the path of its position: all errors pushed while the value at `path` is
    completed are appended to the error list (nothing is dropped or reordered) and lie at or below `path`
    (list indices included: the item call runs at `path ++ [idx i]`). -/
theorem errors_have_paths (env : Env) (n : Nat) (path : Path) (ty : Ty) (rv : RV) (fields : List Sel) (st : St) :
    ∃ new, (completeValue env n path ty rv fields st).2.errors = st.errors ++ new ∧ ∀ p, p ∈ new → path <+: p := by
  obtain ⟨new, hext, _, _⟩ := completeValue_good env n path ty rv fields st
  exact ⟨new, hext.1, hext.2⟩

/-- …and the same for a field executed at `path` (argument coercion errors and resolver errors included). -/
theorem field_errors_have_paths (env : Env) (n : Nat) (path : Path) (objTy : String) (objId : Nat) (fdef : FieldDef)
    (fields : List Sel) (st : St) :
    ∃ new, (execField (completeValue env n) env path objTy objId fdef fields st).2.errors = st.errors ++ new ∧
      ∀ p, p ∈ new → path <+: p := by
  obtain ⟨new, hext, _, _⟩ := execField_good _ (completeValue_good env n) env path objTy objId fdef fields st
  exact ⟨new, hext.1, hext.2⟩

/-- A failing resolver, and a failing item of the resolver's list, are reported exactly at their position. -/
theorem resolver_error_at_position (env : Env) (n : Nat) (path : Path) (objTy : String) (objId : Nat) (fdef : FieldDef)
    (f0 : Sel) (rest : List Sel) (args : AList Json) (st : St)
    (hargs : coerceArgs env f0.fargs fdef.args [] = some args) (hname : f0.fname ≠ "__typename")
    (hw : env.world.get? objId f0.fname = some .error) :
    (execField (completeValue env n) env path objTy objId fdef (f0 :: rest) st).2.errors = st.errors ++ [path] := by
  simp [execField, hargs, hname, hw, St.push]

theorem item_error_at_position (rec : Rec) (path : Path) (ty inner : Ty) (fields : List Sel) (rest : List RV)
    (i : Nat) (acc : List Json) (st : St) :
    completeItems rec path ty inner fields (.error :: rest) i acc st = (.error .propagate, st.push (path ++ [.idx i])) := by
  simp [completeItems]

/-- Non-null positions are never null: whatever the resolvers return, a completed value at a non-null
    type is not `null` … -/
theorem nonnull_never_null (env : Env) (n : Nat) (path : Path) (ty : Ty) (rv : RV) (fields : List Sel) (st : St) (v : Json)
    (h : (completeValue env n path ty rv fields st).1 = .ok (some v)) (hty : ty.isNonNull = true) : v ≠ .null := by
  obtain ⟨_, _, _, hnn⟩ := completeValue_good env n path ty rv fields st
  exact hnn v h hty

/-- … a field of non-null type never puts `null` into the response map (it propagates instead) … -/
theorem nonnull_field_never_null (env : Env) (n : Nat) (path : Path) (objTy : String) (objId : Nat) (fdef : FieldDef)
    (fields : List Sel) (st : St) (v : Json)
    (h : (execField (completeValue env n) env path objTy objId fdef fields st).1 = .ok (some v))
    (hty : fdef.ty.isNonNull = true) : v ≠ .null := by
  obtain ⟨_, _, _, hnn⟩ := execField_good _ (completeValue_good env n) env path objTy objId fdef fields st
  exact hnn v h hty

/-- … and no item of a completed list of non-null items is `null`. -/
theorem nonnull_items_never_null (env : Env) (n : Nat) (path : Path) (ty inner : Ty) (fields : List Sel)
    (items : List RV) (st : St) (ys : List Json)
    (h : (completeItems (completeValue env n) path ty inner fields items 0 [] st).1 = .ok (some (.arr ys)))
    (hty : inner.isNonNull = true) : ∀ v, v ∈ ys → v ≠ .null := by
  intro v hv
  exact completeItems_items _ (completeValue_good env n) path ty inner fields items 0 [] st
    (by intro w hw; simp at hw) ys h v hv hty

/-- A propagating null is turned into `null` exactly at a nullable position. -/
theorem propagation_stops_at_nullable (ty : Ty) :
    (tryNullify ty (.error .propagate) = .ok (some .null) ↔ ty.isNonNull = false) ∧
    (tryNullify ty (.error .propagate) = .error .propagate ↔ ty.isNonNull = true) := by
  cases h : ty.isNonNull <;> simp [tryNullify, h]

/-- A propagation is never silent: whenever completing a value ends in `PropagateNull`, at least one
    field error was pushed during that call. -/
theorem propagation_has_error (env : Env) (n : Nat) (path : Path) (ty : Ty) (rv : RV) (fields : List Sel) (st : St)
    (h : (completeValue env n path ty rv fields st).1 = .error .propagate) :
    (completeValue env n path ty rv fields st).2.errors ≠ st.errors := by
  obtain ⟨new, hext, hprop, _⟩ := completeValue_good env n path ty rv fields st
  have hne := hprop h
  rw [hext.1]
  intro he
  have : new = [] := by
    have := congrArg List.length he
    simpa using this
  exact hne this

/-- `data` is null exactly when a null propagates out of the root selection set, and then the response
    has at least one error. -/
theorem data_null_iff_root_propagation (fuel : Nat) (env : Env) (sels : List Sel) (r : Response)
    (h : execute fuel env sels = .response r) :
    (r.data = none ↔
      (execSelSet (completeValue env fuel) env [] env.schema.query 0 sels { errors := [] }).1 = .error .propagate) ∧
    (r.data = none → r.errors ≠ []) := by
  unfold execute at h
  obtain ⟨new, hext, hprop⟩ := execSelSet_good _ (completeValue_good env fuel) env [] env.schema.query 0 sels { errors := [] }
  generalize execSelSet (completeValue env fuel) env [] env.schema.query 0 sels { errors := [] } = res at *
  obtain ⟨x, st⟩ := res
  cases x with
  | ok m =>
    simp only at h
    cases h
    simp
  | error e =>
    cases e with
    | fuel => simp at h
    | propagate =>
      simp only at h
      cases h
      refine ⟨by simp, ?_⟩
      intro _
      have := hprop rfl
      have he : st.errors = new := by simpa using hext.1
      rw [he]
      exact this

/-- the refinement statement against a spec-side executor -/
def model_eq_spec_statement (specExecute : Nat → Env → List Sel → Outcome) : Prop :=
  ∀ fuel env sels, execute fuel env sels = specExecute fuel env sels

/-! ### Evaluated instances (non-vacuity; the repo's unit test `test_error_path` is the first) -/

def schemaT : Schema :=
  { inputs := { types := [] }, interfaces := [], unions := [], query := "Query",
    objects := [("Query", { implements := [], fields :=
      [{ name := "f", args := [], ty := .list (.named "Int") },
       { name := "g", args := [], ty := .nonNullList (.nonNullNamed "Int") },
       { name := "q", args := [], ty := .nonNullNamed "Query" },
       { name := "o", args := [], ty := .named "Query" }] })] }

def noDirs : Dirs := { skip := none, incl := none }
def fieldSel (n : String) (sub : List Sel) : Sel := .field none n [] noDirs sub

def envT (w : World) : Env := { schema := schemaT, frags := [], vars := [], world := w, cfuel := 100 }

def dataOf : Outcome → Option (Option (AList Json))
  | .response r => some r.data
  | .outOfFuel => none
def errorsOf : Outcome → List Path
  | .response r => r.errors
  | .outOfFuel => []

/-- `{ f }` with `f = [42, Err]`: `{"f": null}`, one error at `["f", 1]` -/
example : (errorsOf (execute 10 (envT [((0, "f"), .list [.leaf (.int 42), .error])]) [fieldSel "f" []]) = [[.key "f", .idx 1]]) := by
  decide

/-- a null item of `[Int!]!` under a non-null parent under a nullable parent: the null stops at `o` -/
example : errorsOf (execute 10 (envT [((0, "o"), .object "Query" 1), ((1, "q"), .object "Query" 2),
      ((2, "g"), .list [.leaf (.int 1), .leaf .null])]) [fieldSel "o" [fieldSel "q" [fieldSel "g" []]]])
    = [[.key "o", .key "q", .key "g", .idx 1]] := by
  decide

/-! ### Refinement: the model is the specification's execution algorithm -/

/-- For every schema, operation, coerced variables, resolver world and fuel, the model of
    apollo-compiler's executor (`Result<Option<_>, PropagateNull>` nullified level by level, early
    returns) and the specification's algorithms of §6.3–§6.4 (raise a field error, catch it at the
    nearest nullable position), taken with apollo-compiler's documented choices, produce the same
    response: same `data` with the same key order, same errors with the same paths in the same order;
    and they run out of fuel on the same inputs. -/
theorem model_eq_spec : model_eq_spec_statement (ExecSpec.execute ExecSpec.Choices.apollo) :=
  fun fuel env sels => ExecSpec.execute_eq_spec fuel env sels

/-- …position by position: after the catch of its own position, `complete_value` is CompleteValue. -/
theorem complete_value_eq_spec (env : Env) (n : Nat) (path : Path) (ty : Ty) (rv : RV) (fields : List Sel) (st : St) :
    (tryNullify ty (completeValue env n path ty rv fields st).1, (completeValue env n path ty rv fields st).2) =
    (ExecSpec.toOut (ExecSpec.catchAt ty (ExecSpec.completeValue ExecSpec.Choices.apollo env n path ty rv fields st).1),
      (ExecSpec.completeValue ExecSpec.Choices.apollo env n path ty rv fields st).2) :=
  ExecSpec.completeValue_refines env n path ty rv fields st

/-- CollectFields is `collect_fields` (same grouped field set, same visited fragments). -/
theorem collect_fields_eq_spec (env : Env) (objTy : String) (n : Nat) (sels : List Sel) (visited : List String)
    (groups : AList (List Sel)) :
    collectFields env objTy n sels visited groups = ExecSpec.collectFields env objTy n sels visited groups :=
  (ExecSpec.collectFields_eq env objTy n sels visited groups).symm

/-- PARTIAL (operations without fragment spreads; inline fragments allowed): with more `collect_fields`
    fuel than selection nodes and more `complete_value` fuel than (selection depth + 1) × (deepest field
    type of the schema + 1), execution never runs out of fuel, whatever the world returns (cyclic object
    graphs, lists nested deeper than the type, …).  Missing: fragment spreads (needs acyclicity of the
    fragments, which validation guarantees, and a measure through fragment expansion). -/
theorem exec_fuel_sufficient_partial (env : Env) (sels : List Sel) (fuel : Nat)
    (hns : Sel.noSpreadL sels = true) (hc : Sel.weightL sels < env.cfuel)
    (hfuel : (Sel.depthL sels + 1) * (maxObjDepth env.schema.objects + 1) < fuel) :
    execute fuel env sels ≠ .outOfFuel :=
  execute_fuel_sufficient env sels fuel hns hc hfuel

/-- the fuel statement WITHOUT an acyclicity hypothesis: false (`exec_fuel_statement_needs_acyclicity`); the
    theorem with the hypothesis is `exec_fuel_sufficient` below -/
def exec_fuel_sufficient_statement : Prop :=
  ∀ (env : Env) (sels : List Sel), ∃ fuel cfuel, ∀ fuel' ≥ fuel, ∀ cfuel' ≥ cfuel,
    execute fuel' { env with cfuel := cfuel' } sels ≠ .outOfFuel

/-- the documented choice matters: with the item-stream error caught at the (nullable) item instead of
    failing the list, the specification gives `{"f": [42, null]}` for the repo's unit test, the model
    (and the code) `{"f": null}` -/
example : dataOf (ExecSpec.execute { ExecSpec.Choices.apollo with itemStreamErrorFailsList := false } 10
      (envT [((0, "f"), .list [.leaf (.int 42), .error])]) [fieldSel "f" []]) = some (some [("f", .arr [.int 42, .null])]) := rfl
example : dataOf (execute 10 (envT [((0, "f"), .list [.leaf (.int 42), .error])]) [fieldSel "f" []]) =
    some (some [("f", .null)]) := rfl

/-! ### growth: fuel sufficiency with fragment spreads -/

/-- **Fuel sufficiency.**  For every schema, operation (fragment spreads included), variables and resolver
    world, if the fragment table is acyclic — a rank function under which every spread inside a fragment's body,
    at any nesting, names a fragment of smaller rank: what the validation rule "fragment spreads must not form
    cycles" guarantees — then with at least `cfuelBound` of `collect_fields` fuel
    (selection nodes + (levels + 2) × total fragment size + 1) and at least `fuelBound` of `complete_value` fuel
    ((levels + 1) × (deepest field type + 1) + 1), `levels` = `Sel.mL` = the nesting depth of fields after
    fragment expansion, the executor model never answers out-of-fuel.  The world needs no hypothesis: object
    graphs may be cyclic, lists of any length, values of any wrong shape.  Hence `model_eq_spec` and every
    theorem above speak about real responses for every valid document. -/
theorem exec_fuel_sufficient (env : Env) (rank : String → Nat) (hac : Acyclic env.frags rank) (sels : List Sel) :
    ∀ fuel, fuelBound env.schema env.frags rank sels ≤ fuel → ∀ cfuel, cfuelBound env.frags rank sels ≤ cfuel →
      execute fuel { env with cfuel := cfuel } sels ≠ .outOfFuel :=
  fun fuel hf cfuel hc => execute_fuel_sufficientR { env with cfuel := cfuel } rank hac sels fuel hc hf

/-- … and the reference executor of the specification does not either (`model_eq_spec`). -/
theorem spec_fuel_sufficient (env : Env) (rank : String → Nat) (hac : Acyclic env.frags rank) (sels : List Sel)
    (fuel : Nat) (hf : fuelBound env.schema env.frags rank sels ≤ fuel) (cfuel : Nat)
    (hc : cfuelBound env.frags rank sels ≤ cfuel) :
    ExecSpec.execute ExecSpec.Choices.apollo fuel { env with cfuel := cfuel } sels ≠ .outOfFuel := by
  rw [← model_eq_spec]; exact exec_fuel_sufficient env rank hac sels fuel hf cfuel hc

/-- `fragment F on Query { o { ...F } }` over a world in which `o` of object 0 is object 0 again -/
def envCyc (cfuel : Nat) : Env :=
  { schema := schemaT, frags := [("F", ⟨"Query", [fieldSel "o" [.spread "F" noDirs]]⟩)], vars := [],
    world := [((0, "o"), .object "Query" 0)], cfuel := cfuel }

def cycFields : List Sel := [fieldSel "o" [.spread "F" noDirs]]

theorem collect_cyc (c : Nat) : collectFields (envCyc (c + 3)) "Query" (c + 3) [.spread "F" noDirs] [] [] =
    some (["F"], [("o", cycFields)]) := by
  simp [collectFields, envCyc, excluded, evalIf, Sel.dirs, noDirs, AList.get?, fragmentApplies, Schema.kind?, schemaT,
    fieldSel, pushGroup, Sel.responseKey, cycFields]

theorem cyc_always_out_of_fuel (c : Nat) : ∀ (n : Nat) (path : Path) (st : St),
    completeValue (envCyc (c + 3)) n path (.named "Query") (.object "Query" 0) cycFields st = (.error .fuel, st) := by
  intro n
  induction n with
  | zero => intro path st; rfl
  | succ n ih =>
    intro path st
    have hsub : subSelections cycFields = [.spread "F" noDirs] := rfl
    have hk : (envCyc (c + 3)).schema.kind? "Query" = some (.object ⟨[], schemaT.objects.head!.2.fields⟩) := rfl
    simp only [completeValue, Ty.shape, hk, resolveObjectType, beq_self_eq_true, if_true, execSelSet, hsub]
    have hc : collectFields (envCyc (c + 3)) "Query" (envCyc (c + 3)).cfuel [.spread "F" noDirs] [] [] =
        some (["F"], [("o", cycFields)]) := collect_cyc c
    rw [hc]
    have htf : (envCyc (c + 3)).schema.typeField? "Query" "o" = some { name := "o", args := [], ty := .named "Query" } := rfl
    have hrec := ih (path ++ [.key "o"]) st
    simp only [execGroups, cycFields, fieldSel, Sel.fname, htf, execField, Sel.fargs, coerceArgs]
    simp only [cycFields, fieldSel] at hrec
    have hw : (envCyc (c + 3)).world.get? 0 "o" = some (.object "Query" 0) := rfl
    simp [hw, hrec, tryNullify]

/-- the acyclicity hypothesis is needed: with a cyclic fragment (and a cyclic world) the executor runs out of
    fuel at EVERY fuel and every `collect_fields` fuel ≥ 3 -/
theorem cyclic_fragment_out_of_fuel_at_every_fuel (c n : Nat) :
    execute n (envCyc (c + 3)) [.spread "F" noDirs] = .outOfFuel := by
  have key : dataOf (execute n (envCyc (c + 3)) [.spread "F" noDirs]) = none := by
    unfold execute
    simp only [execSelSet]
    have hc : collectFields (envCyc (c + 3)) (envCyc (c + 3)).schema.query (envCyc (c + 3)).cfuel [.spread "F" noDirs] [] [] =
        some (["F"], [("o", cycFields)]) := collect_cyc c
    rw [hc]
    have htf : (envCyc (c + 3)).schema.typeField? (envCyc (c + 3)).schema.query "o" = some { name := "o", args := [], ty := .named "Query" } := rfl
    have hrec := cyc_always_out_of_fuel c n [.key "o"] { errors := [] }
    simp only [execGroups, cycFields, fieldSel, Sel.fname, htf, execField, Sel.fargs, coerceArgs]
    simp only [cycFields, fieldSel] at hrec
    have hw : (envCyc (c + 3)).world.get? 0 "o" = some (.object "Query" 0) := rfl
    simp [hw, hrec, tryNullify, dataOf]
  cases h : execute n (envCyc (c + 3)) [.spread "F" noDirs] with
  | outOfFuel => rfl
  | response r => rw [h] at key; simp [dataOf] at key

/-- so the statement without the hypothesis (the former `def`) is false -/
theorem exec_fuel_statement_needs_acyclicity : ¬ exec_fuel_sufficient_statement := by
  intro h
  obtain ⟨fuel, cfuel, hall⟩ := h (envCyc 3) [.spread "F" noDirs]
  exact hall fuel (Nat.le_refl _) (cfuel + 3) (by omega) (cyclic_fragment_out_of_fuel_at_every_fuel cfuel fuel)

-- the same fragment over an acyclic table is fine, and the bounds are computable
example : fuelBound schemaT [("F", ⟨"Query", [fieldSel "o" [fieldSel "f" []]]⟩)] (fun _ => 0) [.spread "F" noDirs] = 7 := by decide
example : cfuelBound [("F", ⟨"Query", [fieldSel "o" [fieldSel "f" []]]⟩)] (fun _ => 0) [.spread "F" noDirs] = 10 := by decide

/-! ### growth: every error path leads to a null -/

/-- **Every recorded error path leads to a `null` in `data`**: for every response of the executor model — any
    schema, operation, variables, fuel, and any world that does not put `skip` inside a list — `data` itself is
    null, or walking `data` along the error's path (field keys AND list indices) reaches `null` at the path's
    position or at a proper prefix of it: the nearest nullable ancestor, where the error was caught.
    (The converse direction is `propagation_has_error` / `data_null_iff_root_propagation`.) -/
theorem error_path_leads_to_null (fuel : Nat) (env : Env) (hw : WorldClean env.world) (sels : List Sel)
    (r : Response) (h : execute fuel env sels = .response r) :
    ∀ p, p ∈ r.errors → match r.data with
      | none => True
      | some m => LeadsNull (.obj m) p :=
  execute_error_paths_lead_to_null fuel env hw sels r h

/-- the same for the specification's reference executor -/
theorem spec_error_path_leads_to_null (fuel : Nat) (env : Env) (hw : WorldClean env.world) (sels : List Sel)
    (r : Response) (h : ExecSpec.execute ExecSpec.Choices.apollo fuel env sels = .response r) :
    ∀ p, p ∈ r.errors → match r.data with
      | none => True
      | some m => LeadsNull (.obj m) p := by
  rw [← model_eq_spec] at h; exact error_path_leads_to_null fuel env hw sels r h

/-- the hypothesis on the world is needed, and it is the code's behaviour: `SkipForPartialExecution` as a list
    ITEM drops the item but still advances the index, so `f = [skip, "x"]` at `[Int]` answers `{"f": [null]}`
    with the error path `["f", 1]` — index 1 does not exist in the output -/
theorem skip_item_shifts_indices :
    dataOf (execute 10 (envT [((0, "f"), .list [.skip, .leaf (.str "x")])]) [fieldSel "f" []]) = some (some [("f", .arr [.null])]) ∧
    errorsOf (execute 10 (envT [((0, "f"), .list [.skip, .leaf (.str "x")])]) [fieldSel "f" []]) = [[.key "f", .idx 1]] := by
  constructor <;> rfl

/-- when two sibling non-null fields both fail, only the FIRST is recorded: the loop of `execute_selection_set`
    returns at the first propagation (`g`'s resolver error is never reached) -/
theorem sibling_failures_first_only :
    errorsOf (execute 10 (envT [((0, "q"), .error), ((0, "g"), .error)]) [fieldSel "q" [fieldSel "f" []], fieldSel "g" []])
      = [[.key "q"]] ∧
    dataOf (execute 10 (envT [((0, "q"), .error), ((0, "g"), .error)]) [fieldSel "q" [fieldSel "f" []], fieldSel "g" []])
      = some none := by
  constructor <;> rfl

/-- each failed position reports once: stated, not proved (every call pushes its own path at most once and
    the item / group loops run at distinct indices / keys) -/
def errors_paths_distinct_positions : Prop :=
  ∀ (fuel : Nat) (env : Env) (sels : List Sel) (r : Response), execute fuel env sels = .response r → r.errors.Nodup

/-! ### growth: response shape -/

/-- **Response keys, at every depth.**  Every object in `data` is produced by completing an object value; its
    keys are, in order, response keys of CollectFields for the RUNTIME object type over the merged sub-selections
    of the fields it answers — exactly those whose field produced a value (a field resolved to `skip`, or a
    field the schema does not know, leaves no key). -/
theorem response_keys_spec (env : Env) (n : Nat) (path : Path) (ty : Ty) (resolvedTy : String) (id : Nat)
    (fields : List Sel) (st : St) (m : AList Json) (st' : St)
    (h : completeValue env (n + 1) path ty (.object resolvedTy id) fields st = (.ok (some (.obj m)), st')) :
    ∃ v g, collectFields env resolvedTy env.cfuel (subSelections fields) [] [] = some (v, g) ∧
      (AList.keys m).Sublist (keysOf g) :=
  completeValue_object_keys env n path ty resolvedTy id fields st m st' h

/-- … and the root object of `data`, for the query type over the operation's selection set -/
theorem response_keys_root (fuel : Nat) (env : Env) (sels : List Sel) (r : Response) (m : AList Json)
    (h : execute fuel env sels = .response r) (hd : r.data = some m) :
    ∃ v g, collectFields env env.schema.query env.cfuel sels [] [] = some (v, g) ∧ (AList.keys m).Sublist (keysOf g) :=
  execute_root_keys fuel env sels r m h hd

/-- the grouped field set has pairwise distinct response keys (so the keys of an object are distinct too) -/
theorem collected_keys_distinct (env : Env) (objTy : String) (n : Nat) (sels : List Sel) (v : List String)
    (g : AList (List Sel)) (h : collectFields env objTy n sels [] [] = some (v, g)) : (keysOf g).Nodup :=
  collect_keys_nodup env objTy n sels [] [] v g h (by simp [keysOf])

end Apollo.C26
