import ApolloModel.Proofs.Strings4
/-
C09 — String values and descriptions survive serialization.

Model: Model/Strings.lean `serializeStringValue` / `quotedForm` / `blockForm` / `canBeBlockString`
mirror ast/serialize.rs; decoding is the C06 model.  Tied by the correspondence stream S′:
(string, indent prefix, level, is_description) ↦ printed literal, 260k cases, plus re-parsing the
printed literal and whole documents with the real parser.
-/
namespace Apollo.C09
open Apollo.Strs

/-- Every Unicode string printed in the quoted form (`"…"` with `\b \n \f \r \" \\` and `\u00XX`
    escapes) decodes back to exactly the same string. -/
theorem quoted_roundtrip (s : Str) : decodeStringToken (quotedForm s) = some s := Strs.quoted_roundtrip s

/-- With indentation disabled (`no_indent`) the quoted form is always used, so every string value
    and description round-trips under that configuration. -/
theorem no_indent_roundtrip (level : Nat) (isDescription : Bool) (s : Str) :
    decodeStringToken (serializeStringValue none level isDescription s) = some s := by
  simp [serializeStringValue, quoted_roundtrip]

/-- …and whenever the block form is not chosen (not a description and no LF, or
    `can_be_block_string` says no). -/
theorem quoted_branch_roundtrip (p : Option Str) (level : Nat) (isDescription : Bool) (s : Str)
    (h : (isDescription || s.contains '\n') = false ∨ canBeBlockString s = false) :
    decodeStringToken (serializeStringValue p level isDescription s) = some s := by
  unfold serializeStringValue
  cases p with
  | none => exact quoted_roundtrip s
  | some pre =>
    simp only []
    have hc : ((isDescription || s.contains '\n') && canBeBlockString s) = false := by
      rcases h with h | h
      · rw [h]; rfl
      · rw [h]; exact Bool.and_false _
    rw [if_neg (by rw [hc]; exact Bool.false_ne_true)]
    exact quoted_roundtrip s

/-- PARTIAL — the block-form half, stated in full: when `can_be_block_string s` holds and the
    indent prefix is white space, BlockStringValue of what `serialize_block_string` prints is `s`.
    Not yet a theorem; decided by the correspondence + re-parse oracle (all strings ≤5/6 over
    {" \ LF CR space tab a é U+0001 U+007F} × 8 configurations, and 20k/200k random). -/
def block_roundtrip_statement : Prop :=
  ∀ (pre : Str) (level : Nat) (s : Str), pre.all isWs = true → canBeBlockString s = true →
    decodeStringToken (blockForm pre level s) = some s

/-- the block form is only chosen for strings without CR (BlockStringValue can never produce one) -/
theorem block_never_contains_cr (s : Str) (h : canBeBlockString s = true) : s.contains '\r' = false := by
  cases hc : s.contains '\r' with
  | false => rfl
  | true =>
    unfold canBeBlockString at h
    rw [hc] at h
    simp at h

-- Non-vacuity (kernel-evaluated)
example : serializeStringValue (some [' ', ' ']) 1 true ['a', '\n', 'b'] =
    ['"', '"', '"', '\n', ' ', ' ', 'a', '\n', ' ', ' ', 'b', '\n', ' ', ' ', '"', '"', '"'] := by decide
example : decodeStringToken (serializeStringValue (some [' ', ' ']) 1 true ['a', '\n', 'b']) = some ['a', '\n', 'b'] := by decide
example : quotedForm ['"', Char.ofNat 1, '\\'] = ['"', '\\', '"', '\\', 'u', '0', '0', '0', '1', '\\', '\\', '"'] := by decide

end Apollo.C09
