import ApolloModel.Proofs.StringsBlock3
/-
C09 — String values and descriptions survive serialization.

Model: Model/Strings.lean `serializeStringValue` / `quotedForm` / `blockForm` / `canBeBlockString`
mirror ast/serialize.rs; decoding is the C06 model (`decodeStringToken`, lexer-independent).
Both forms are theorems for every string: `quoted_roundtrip`, `block_roundtrip`, `string_roundtrip`
(Proofs/Strings2.lean, Proofs/StringsBlock*.lean).  Tied by the correspondence stream S′:
(string, indent prefix, level, is_description) ↦ printed literal, 260k cases, plus re-parsing the
printed literal and whole documents with the real parser.
-/
namespace Apollo.C09
open Apollo.Strs

/-- Every Unicode string printed in the quoted form (`"…"` with `\b \n \f \r \" \\` and `\u00XX`
    escapes) decodes back to exactly the same string. -/
theorem quoted_roundtrip (s : Str) : decodeStringToken (quotedForm s) = some s := Strs.quoted_roundtrip s

/-- With indentation disabled (`no_indent`) the quoted form is always used, so every string value
    and description round-trips under that configuration. -/
theorem no_indent_roundtrip (level : Nat) (isDescription : Bool) (s : Str) :
    decodeStringToken (serializeStringValue none level isDescription s) = some s := by
  simp [serializeStringValue, quoted_roundtrip]

/-- …and whenever the block form is not chosen (not a description and no LF, or
    `can_be_block_string` says no). -/
theorem quoted_branch_roundtrip (p : Option Str) (level : Nat) (isDescription : Bool) (s : Str)
    (h : (isDescription || s.contains '\n') = false ∨ canBeBlockString s = false) :
    decodeStringToken (serializeStringValue p level isDescription s) = some s := by
  unfold serializeStringValue
  cases p with
  | none => exact quoted_roundtrip s
  | some pre =>
    simp only []
    have hc : ((isDescription || s.contains '\n') && canBeBlockString s) = false := by
      rcases h with h | h
      · rw [h]; rfl
      · rw [h]; exact Bool.and_false _
    rw [if_neg (by rw [hc]; exact Bool.false_ne_true)]
    exact quoted_roundtrip s

/-- The block-form half, stated in full: when `can_be_block_string s` holds and the indent prefix is
    white space, BlockStringValue of what `serialize_block_string` prints is `s`. -/
def block_roundtrip_statement : Prop :=
  ∀ (pre : Str) (level : Nat) (s : Str), pre.all isWs = true → canBeBlockString s = true →
    decodeStringToken (blockForm pre level s) = some s

/-- **Block form** — for every string accepted by `can_be_block_string`, every indent prefix made of
    spaces and tabs (including the empty one) and every nesting level: the common indentation that
    BlockStringValue removes is exactly `prefix^level`, the leading and trailing printed lines are
    blank and removed, every `"""` printed as `\"""` comes back (also after a backslash), and the
    result is `s` — in the single-line and in the multi-line layout. -/
theorem block_roundtrip (pre : Str) (level : Nat) (s : Str) (hpre : pre.all isWs = true)
    (h : canBeBlockString s = true) : decodeStringToken (blockForm pre level s) = some s :=
  Strs.block_roundtrip pre level s hpre h

theorem block_roundtrip_statement_holds : block_roundtrip_statement :=
  fun pre level s hpre h => block_roundtrip pre level s hpre h

/-- **C09** — every string value and every description, in both forms, under every configuration
    (no indentation, or any white-space indent prefix at any nesting level), decodes back to exactly
    the string that was serialized. -/
theorem string_roundtrip (p : Option Str) (level : Nat) (isDescription : Bool) (s : Str)
    (hp : ∀ pre, p = some pre → pre.all isWs = true) :
    decodeStringToken (serializeStringValue p level isDescription s) = some s := by
  unfold serializeStringValue
  cases p with
  | none => exact quoted_roundtrip s
  | some pre =>
    simp only []
    split
    · rename_i hc
      simp only [Bool.and_eq_true] at hc
      exact block_roundtrip pre level s (hp pre rfl) hc.2
    · exact quoted_roundtrip s

/-- The white-space guard on the prefix is needed: BlockStringValue only strips spaces and tabs, so
    an indent prefix with any other character stays in the value. -/
theorem block_roundtrip_needs_ws_prefix :
    decodeStringToken (blockForm ['x'] 1 ['a', '\n', 'b']) = some ['x', 'a', '\n', 'x', 'b', '\n', 'x'] := by decide

/-- the block form is only chosen for strings without CR (BlockStringValue can never produce one) -/
theorem block_never_contains_cr (s : Str) (h : canBeBlockString s = true) : s.contains '\r' = false := by
  cases hc : s.contains '\r' with
  | false => rfl
  | true =>
    unfold canBeBlockString at h
    rw [hc] at h
    simp at h

-- Non-vacuity (kernel-evaluated)
example : serializeStringValue (some [' ', ' ']) 1 true ['a', '\n', 'b'] =
    ['"', '"', '"', '\n', ' ', ' ', 'a', '\n', ' ', ' ', 'b', '\n', ' ', ' ', '"', '"', '"'] := by decide
example : decodeStringToken (serializeStringValue (some [' ', ' ']) 1 true ['a', '\n', 'b']) = some ['a', '\n', 'b'] := by decide
example : quotedForm ['"', Char.ofNat 1, '\\'] = ['"', '\\', '"', '\\', 'u', '0', '0', '0', '1', '\\', '\\', '"'] := by decide

end Apollo.C09
