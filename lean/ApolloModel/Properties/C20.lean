import ApolloModel.Proofs.Standalone3
import ApolloModel.Model.ExecRules
/-
C20 — Validating without a schema is a relaxation.

Model: Model/Standalone.lean (`validate p (some schema) ast` = `ExecutableDocument::parse_and_validate`,
`validate p none ast` = `ast::Document::validate_standalone_executable`, as lists of diagnostic kinds).
`currentParams` (= `patchedParams`, `current_code_is`) is the code since fix 7c4ccc3: `validate_directives`
reports `UndefinedDirective` only when there is a schema.  `unpatchedParams` is the code before the fix, kept
as a regression witness: it reported `UndefinedDirective` for EVERY directive without a schema, so the
property was false of it (`regression_counterexample`, `{ a @skip(if: true) }`).
The theorems quantify over every schema view (including the opaque diagnostics of the typed rules that are
not modelled), every document and every `@defer` rule set.
-/
namespace Apollo.C20
open Apollo.Standalone

/-- first sentence of the property, for a version `p` of the code -/
def StandaloneSubset (p : Params) : Prop :=
  ∀ (sc : Schema) (ast : Ast), validate p (some sc) ast = [] → validate p none ast = []

/-- second sentence, for a version `p` of the code -/
def StandaloneOnlyUniversal (p : Params) : Prop :=
  ∀ (ast : Ast), ∀ d ∈ validate p none ast, d.universal = true

/-! ### which version is current; the code before the fix (regression witness) -/

/-- which of the two versions the correspondence streams are run with (the streams agree with the real
    code only for the right one) -/
theorem current_code_is (defer : BuiltDoc → List Nat) : currentParams defer = patchedParams defer := rfl

def witnessSchema : Schema :=
  { root := fun o => match o with | .query => some 10 | _ => none
    kind := fun n => if n = 10 then some .composite else if n = 11 then some .leaf else none
    field := fun p f => if p = 10 ∧ f = 20 then some { ty := 11, args := [] } else none
    dirDef := fun n =>
      if n = 0 ∨ n = 1 then
        some { repeatable := false, locs := [.field, .fragmentSpread, .inlineFragment], args := [{ name := 3, required := true }] }
      else none
    extra := fun _ => [] }

/-- `{ a @skip(if: true) }` -/
def witnessDoc : Ast :=
  [.op { ty := .query, name := none, vars := [], dirs := [],
         sels := .field 20 [{ name := 0, args := [{ name := 3, value := .bool true }] }] [] .nil .nil }]

/-- The property failed on the code before fix 7c4ccc3: `{ a @skip(if: true) }` is valid against a schema
    (`type Query { a: Int }`) and rejected without one, with a diagnostic that is not of a universal class. -/
theorem regression_counterexample :
    validate (unpatchedParams fun _ => []) (some witnessSchema) witnessDoc = [] ∧
      validate (unpatchedParams fun _ => []) none witnessDoc = [.undefinedDirective] := by
  decide

theorem unpatched_not_standalone_subset : ¬ StandaloneSubset (unpatchedParams fun _ => []) := by
  intro h
  have := h witnessSchema witnessDoc regression_counterexample.1
  rw [regression_counterexample.2] at this
  cases this

theorem unpatched_not_only_universal : ¬ StandaloneOnlyUniversal (unpatchedParams fun _ => []) := by
  intro h
  have := h witnessDoc .undefinedDirective (by rw [regression_counterexample.2]; simp)
  simp [Diag.universal] at this

/-- Code before the fix, guarded: for documents without any directive, whatever validates against some schema
    validates standalone (the guard excludes exactly the class that failed). -/
theorem unpatched_standalone_subset_guarded (defer : BuiltDoc → List Nat) (sc : Schema) (ast : Ast)
    (hnd : noDirsAst ast = true) (h : validate (unpatchedParams defer) (some sc) ast = []) :
    validate (unpatchedParams defer) none ast = [] :=
  validate_relax _ sc ast (.inr hnd) h

/-- Code before the fix: every diagnostic of a standalone run is of one of the universal classes (ambiguous anonymous
    operation, name collisions, type-system definition, duplicate argument, duplicate/unused variable,
    undefined/unused fragment, fragment cycle, `@defer` rules) or is `UndefinedDirective`.
    (`UndefinedDirective` is the class the property forbids). -/
theorem unpatched_only_universal_or_undefined_directive (defer : BuiltDoc → List Nat) (ast : Ast) :
    ∀ d ∈ validate (unpatchedParams defer) none ast, d.universal = true ∨ d = .undefinedDirective := by
  intro d hd
  rcases validate_none_kinds _ ast d hd with h | h
  · exact .inl h
  · exact .inr h.1

/-- The model never runs out of fuel in a standalone run (the recursion through fragment definitions is
    bounded by their number). -/
theorem standalone_fuel_sufficient (p : Params) (ast : Ast) : ∀ d ∈ validate p none ast, d ≠ .outOfFuel :=
  validate_none_fuel p ast

/-! ### the current code -/

/-- Whenever a document validates against some schema, validating it without a schema also succeeds:
    for every schema view, every document, every `@defer` rule set. -/
theorem standalone_subset (defer : BuiltDoc → List Nat) : StandaloneSubset (currentParams defer) :=
  fun sc ast h => validate_relax _ sc ast (.inl rfl) h

/-- Standalone validation only reports the universal classes. -/
theorem standalone_only_universal (defer : BuiltDoc → List Nat) :
    StandaloneOnlyUniversal (currentParams defer) := by
  intro ast d hd
  rcases validate_none_kinds _ ast d hd with h | h
  · exact h
  · simp [currentParams, patchedParams] at h

/-- …in particular it never rejects a directive, built-in or not. -/
theorem standalone_never_rejects_directive (defer : BuiltDoc → List Nat) (ast : Ast) :
    Diag.undefinedDirective ∉ validate (currentParams defer) none ast ∧
      Diag.uniqueDirective ∉ validate (currentParams defer) none ast ∧
      Diag.unsupportedLocation ∉ validate (currentParams defer) none ast := by
  refine ⟨?_, ?_, ?_⟩ <;>
  · intro h
    have := standalone_only_universal defer ast _ h
    simp [Diag.universal] at this

/-- The fix changed nothing for a run with a schema. -/
theorem fix_keeps_schema_runs (defer : BuiltDoc → List Nat) (sc : Schema) (ast : Ast) :
    validate (patchedParams defer) (some sc) ast = validate (unpatchedParams defer) (some sc) ast := by
  have hd : ∀ loc seen ds, dirDiagsAux (patchedParams defer) (some sc) loc seen ds =
      dirDiagsAux (unpatchedParams defer) (some sc) loc seen ds := by
    intro loc seen ds
    induction ds generalizing seen with
    | nil => simp [dirDiagsAux]
    | cons d ds ih => simp [dirDiagsAux, ih]
  have hv : ∀ seen vs, varDefDiags (patchedParams defer) (some sc) seen vs =
      varDefDiags (unpatchedParams defer) (some sc) seen vs := by
    intro seen vs
    induction vs generalizing seen with
    | nil => simp [varDefDiags]
    | cons v vs ih => simp [varDefDiags, dirDiags, hd, ih]
  have hw : ∀ doc eP eC, (∀ f V, eP f V = eC f V) → ∀ t ty V,
      walkSels (patchedParams defer) (some sc) doc eP ty t V = walkSels (unpatchedParams defer) (some sc) doc eC ty t V := by
    intro doc eP eC he t
    induction t with
    | nil => intro ty V; simp [walkSels]
    | field name dirs args sub rest ihs ihr => intro ty V; simp [walkSels, dirDiags, hd, ihs, ihr]
    | spread f dirs rest ihr => intro ty V; simp [walkSels, dirDiags, hd, he, ihr]
    | inline tc dirs sub rest ihs ihr => intro ty V; simp [walkSels, dirDiags, hd, ihs, ihr]
  have he : ∀ doc n f V, enterFrag (patchedParams defer) (some sc) doc n f V =
      enterFrag (unpatchedParams defer) (some sc) doc n f V := by
    intro doc n
    induction n with
    | zero => intro f V; simp [enterFrag]
    | succ n ih => intro f V; simp [enterFrag, dirDiags, hd, hw doc _ _ ih]
  have ho : ∀ doc o, validateOp (patchedParams defer) (some sc) doc o = validateOp (unpatchedParams defer) (some sc) doc o := by
    intro doc o
    simp [validateOp, dirDiags, hd, hv, hw doc _ _ (he doc _)]
  have hf : validateOp (patchedParams defer) (some sc) (build (some sc) ast).doc =
      validateOp (unpatchedParams defer) (some sc) (build (some sc) ast).doc := funext (ho _)
  simp only [validate, validateBuilt, hf]
  rfl

/-! ### non-vacuity -/

/-- `query ($v: T) @c { a @skip(if: $v) ...F @c } fragment F on Query @c { a }` with a custom directive `@c`
    (name 5) allowed everywhere: valid against the schema, so valid standalone -/
def witnessSchema2 : Schema :=
  { witnessSchema with
    kind := fun n => if n = 10 then some .composite else if n = 11 ∨ n = 12 then some .leaf else none
    dirDef := fun n =>
      if n = 0 then some { repeatable := false, locs := [.field], args := [{ name := 3, required := true }] }
      else if n = 5 then some { repeatable := true, locs := [.query, .field, .fragmentSpread, .fragmentDefinition], args := [] }
      else none }

def witnessDoc2 : Ast :=
  [.op { ty := .query, name := none, vars := [{ name := 30, ty := 12, dirs := [] }], dirs := [{ name := 5, args := [] }],
         sels := .field 20 [{ name := 0, args := [{ name := 3, value := .var 30 }] }] [] .nil
                  (.spread 40 [{ name := 5, args := [] }] .nil) },
   .frag { name := 40, tc := 10, dirs := [{ name := 5, args := [] }], sels := .field 20 [] [] .nil .nil }]

example : validate (patchedParams fun _ => []) (some witnessSchema2) witnessDoc2 = [] := by decide
example : validate (patchedParams fun _ => []) none witnessDoc2 = [] := by decide
example : validate (unpatchedParams fun _ => []) none witnessDoc2 =
    [.undefinedDirective, .undefinedDirective, .undefinedDirective, .undefinedDirective] := by decide
-- the guard of `unpatched_standalone_subset_guarded` is satisfiable by a document that exercises fragments and variables
example : noDirsAst [.op { ty := .query, name := none, vars := [], dirs := [], sels := .spread 40 [] .nil },
    .frag { name := 40, tc := 10, dirs := [], sels := .field 20 [] [] .nil .nil }] = true := by decide
-- universal classes do fire without a schema: `{ ...Nope }`
example : validate (patchedParams fun _ => []) none
    [.op { ty := .query, name := none, vars := [], dirs := [], sels := .spread 41 [] .nil }] = [.undefinedFragment] := by decide

/-! ### with the typed rules modelled (Model/ExecRules.lean) instead of opaque

`Schema.extra` above stands for "the diagnostics of the typed rules that are not modelled".  Model/ExecRules.lean
(C17) models those rules: `validate_variable_usage`, the variable part of `value_of_correct_type`,
`validate_fragment_spread_type`.  Every one of them is behind a schema guard in the code —
field.rs `let Some((schema, against_type)) = against_type else { … }`, fragment.rs `if let Some(schema) =
context.schema()` (spread, inline fragment and fragment definition), directive.rs / variable.rs `schema: Option<&Schema>`
— so a run without a schema executes none of them: in the model they are functions of an `RSchema`, and the
schema-less run consists of the structural rules alone.  The schema view of the structural rules is derived from the
same `RSchema` (`ExecRules.viewOf`), with NO opaque part. -/

end Apollo.C20
namespace Apollo.C20
open Apollo.ExecRules

/-- a diagnostic of an executable validation run: of a structural rule (on the erased document) or of a typed rule -/
inductive AnyDiag where
  | structural (d : Standalone.Diag)
  | typed (d : TDiag)

/-- `ExecutableDocument::parse_and_validate(schema, …)`: structural and typed rules -/
def validateWithSchema (p : Standalone.Params) (tbl : List String) (s : RSchema) (ast : RAst) : List AnyDiag :=
  (Standalone.validate p (some (viewOf tbl s)) (erase tbl ast)).map .structural ++ (typedDiags s ast).map .typed

/-- `ast::Document::validate_standalone_executable()`: the typed rules are all skipped -/
def validateStandalone (p : Standalone.Params) (tbl : List String) (ast : RAst) : List AnyDiag :=
  (Standalone.validate p none (erase tbl ast)).map .structural

/-- the schema view the structural rules read has no opaque diagnostics any more -/
theorem view_has_no_opaque_part (tbl : List String) (s : RSchema) (doc : Standalone.BuiltDoc) : (viewOf tbl s).extra doc = [] := rfl

/-- **standalone ⊆ schema validation, typed rules included**: for every schema, name table, document and `@defer` rule
    set, a document on which validation against the schema reports nothing — neither a structural nor a typed
    diagnostic — validates standalone. -/
theorem standalone_subset_typed (defer : Standalone.BuiltDoc → List Nat) (tbl : List String) (s : RSchema) (ast : RAst)
    (h : validateWithSchema (Standalone.currentParams defer) tbl s ast = []) :
    validateStandalone (Standalone.currentParams defer) tbl ast = [] := by
  unfold validateWithSchema at h
  unfold validateStandalone
  simp only [List.append_eq_nil_iff, List.map_eq_nil_iff] at h ⊢
  exact standalone_subset defer (viewOf tbl s) (erase tbl ast) h.1

/-- a standalone run reports no typed diagnostic, and only structural diagnostics of the universal classes -/
theorem standalone_reports_no_typed (defer : Standalone.BuiltDoc → List Nat) (tbl : List String) (ast : RAst) :
    ∀ d ∈ validateStandalone (Standalone.currentParams defer) tbl ast, ∃ e, d = .structural e ∧ e.universal = true := by
  intro d hd
  unfold validateStandalone at hd
  obtain ⟨e, he, rfl⟩ := List.mem_map.mp hd
  exact ⟨e, rfl, standalone_only_universal defer (erase tbl ast) e he⟩

/-- the typed rules matter for the comparison: there are documents whose ONLY diagnostics against a schema are typed
    ones — they are rejected with the schema and accepted standalone (the inclusion is strict in the typed part).
    `query { f(x: {a: [$w]}) }` with `x` of a custom scalar type: `$w` is undefined (fix 1d09582) -/
def typedWitnessSchema : RSchema :=
  { types := [{ name := "Query", kind := .object [], fields := [("f", { args := [{ name := "x", ty := .named "S", hasDefault := false }], ty := .named "Int" })] },
              { name := "S", kind := .scalar false, fields := [] }],
    query := some "Query", mutation := none, subscription := none, dirs := [] }

def typedWitnessOp : ROp :=
  { ty := .query, name := none, vars := [], dirs := [],
    sels := .field "f" [] [{ name := "x", value := .obj [("a", .list [.var "w"])] }] .nil .nil }

theorem typed_rule_rejects_what_standalone_accepts :
    typedDiags typedWitnessSchema [.op typedWitnessOp] = [.undefinedVariable "w"] := by
  decide

end Apollo.C20
