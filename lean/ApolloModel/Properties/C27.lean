import ApolloModel.Proofs.AsyncExec
import ApolloModel.Generated.ExecShape
/-
C27 — asynchronous execution does not depend on the schedule.

Model: `Model/AsyncExec.lean` — futures as step machines, the executor as the sequential composition
that `execute_selection_set` / `complete_list_value` spell out (one `.await` at a time), the resolver
call log as state.  `Generated/ExecShape.lean` is regenerated from resolvers/*.rs on every run and says
whether the code still has that shape.
-/
namespace Apollo.C27
open Apollo.Async

/-- the executor's loops still await one field / one list item at a time and name no concurrency combinator
    (regenerated from the source on every run: a rewrite with `join_all`, `buffer_unordered`, `FuturesUnordered`,
    `select`, `spawn`, … makes this theorem fail) -/
theorem exec_shape_sequential :
    Apollo.Generated.fieldLoopAwaitsEachField = true ∧ Apollo.Generated.listLoopAwaitsEachItem = true
      ∧ Apollo.Generated.execConcurrencyCombinators = [] := by decide

/-- awaiting a future that is pending `k` more times changes nothing about what the rest of the `async fn` computes -/
theorem await_delay_irrelevant (k : Nat) (f : Fut α) (g : α → Fut β) :
    Fut.run (Fut.bind (Fut.delay k f) g) = Fut.run (Fut.bind f g) := by
  simp [Fut.run_bind, Fut.run_delay]

/-- **Async = sync, for every assignment of pending-poll counts** to resolver futures and list-item streams:
    same response, same resolver call log, and the asynchronous run is `Pending` exactly as often as the
    resolvers are. -/
theorem async_eq_sync (root : Fields) :
    (execute root).1 = (execute root.sync).1
    ∧ (execute root).2.1 = (execute root.sync).2.1
    ∧ (execute root).2.2 = root.delays
    ∧ (execute root.sync).2.2 = 0 := by
  simp [execute, execFields_run, execFields_polls, Fields.sync_resp, Fields.sync_calls, Fields.sync_delays]

/-- **Any two schedules agree**: two requests that differ only in the pending-poll counts assigned to their
    resolver futures and list-item streams (same synchronous skeleton) give the same response and the same
    resolver call log — the property's quantifier stated directly, without going through the synchronous run. -/
theorem schedule_irrelevant (a b : Fields) (h : a.sync = b.sync) :
    (execute a).1 = (execute b).1 ∧ (execute a).2.1 = (execute b).2.1 := by
  have ha := async_eq_sync a
  have hb := async_eq_sync b
  rw [ha.1, ha.2.1, hb.1, hb.2.1, h]
  exact ⟨rfl, rfl⟩

/-- the synchronous world never returns `Pending` (`execute_sync`'s `now_or_never().expect(..)` cannot fail) -/
theorem sync_never_pending (root : Fields) (log : Log) : Fut.polls (execFields "" root.sync log) = 0 := by
  rw [execFields_polls, Fields.sync_delays]

/-- **Resolvers are called in depth-first document order**, whatever the delays -/
theorem call_order (root : Fields) : (execute root).2.1 = root.calls "" := by
  simp [execute, execFields_run]

/-- **Mutations are serial**: every resolver call made for an earlier root field (including all calls in its
    sub-selections and list items) precedes every call made for a later root field. -/
theorem mutation_serial (earlier later : Fields) :
    (execute (earlier.append later)).2.1 = earlier.calls "" ++ later.calls "" := by
  rw [call_order, Fields.calls_append]

/-- non-vacuity: `{ a { x } b }` with `a` pending twice and `x` once -/
example :
    (let r := execute (.cons "a" 2 (.obj (.cons "x" 1 (.leaf 7) .nil)) (.cons "b" 0 (.leaf 8) .nil))
     (r.1.render, r.2.1, r.2.2)) = ("{\"a\":{\"x\":7},\"b\":8}", ["/a", "/a/x", "/b"], 3) := by
  decide +kernel

end Apollo.C27
