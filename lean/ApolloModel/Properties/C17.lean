import ApolloModel.Proofs.ExecValidation
import ApolloModel.Proofs.ExecValidationValues
import ApolloModel.Proofs.ExecValidationMerge
import ApolloModel.Proofs.ExecValidationMerge2
import ApolloModel.Proofs.ExecValidationCache
/-
C17 — Executable validation agrees with the specification.

Model (Model/ExecValidation.lean): transliterations of the mechanisms the property anchors —
`same_value`, `same_output_type_shape`, `validate_subscription`'s response-key walk, the XING
field-merging algorithm on expanded field sets, `collect_used_fragments` — tied to the code on every
run by the streams c17.samevalue / c17.shape / c17.subscription / c17.merge / c17.unusedfrag.
Spec (Spec/ExecValidation.lean): written from the October-2021 text.  The document-level statement
"Ok iff no rule is violated" is the differential oracle of the harness (specexec.rs), not a theorem.
-/
namespace Apollo.C17
open Apollo Apollo.Spec Apollo.ExecVal Apollo.Spec.ExecVal

/-! ## (1) argument values -/

/-- For every pair of values of unbounded nesting in which no object literal repeats a field name
    (rule 5.6.3 rejects the others), `same_value` decides exactly the specification's equality of
    argument values: same literal, lists element by element (same length — fix deffad7), input
    objects as unordered sets of fields.  (The object case is the counting argument "equal length +
    every left field found on the right + unique names ⇒ every right field is on the left".) -/
theorem same_value_iff_spec (a b : Value) (ha : uniqueFields a = true) (hb : uniqueFields b = true) :
    sameValue a b = true ↔ SpecEq a b :=
  sameValue_iff_unique_aux (sizeOf a + 1) a (by omega) b ha hb

/-- the guard is needed: with a repeated field name the comparison is not even symmetric -/
theorem same_value_duplicate_keys_asymmetric :
    sameValue (.object [("x", .int "1"), ("x", .int "1")]) (.object [("x", .int "1"), ("y", .int "2")]) = true ∧
      sameValue (.object [("x", .int "1"), ("y", .int "2")]) (.object [("x", .int "1"), ("x", .int "1")]) = false := by
  constructor <;> simp [sameValue, allFields, fieldIn, lookupFirst]

example : uniqueFields (.object [("x", .list [.object [("y", .null)]]), ("y", .var "v")]) = true := by
  simp [uniqueFields, uniqueKeys, uniqueFieldsFields, uniqueFieldsList, lookupFirst]

/-- the former defect witness `{ f(a: [1]) f(a: [1, 2]) }` is now a conflict -/
theorem same_value_list_length :
    sameValue (.list [.int "1"]) (.list [.int "1", .int "2"]) = false ∧
      ¬ SpecEq (.list [.int "1"]) (.list [.int "1", .int "2"]) := by
  refine ⟨by simp [sameValue], ?_⟩
  intro h
  cases h with
  | list h => cases h with
    | cons _ h => cases h

/-! ## (2) SameResponseShape on type references -/

/-- `same_output_type_shape` computes steps 3–6 of SameResponseShape, for type references of
    unbounded nesting and any assignment of kinds to type names. -/
theorem same_output_type_shape_iff (kind : Name → Option TypeKind) (a b : Ty) :
    sameOutputTypeShape kind a b = sameShape kind (embed a) (embed b) :=
  shape_iff kind a b

/-- on defined types the relation is symmetric (the code compares only the first field of a group
    with the others) -/
theorem same_shape_symm (kind : Name → Option TypeKind) (a b : STy) :
    sameShape kind a b = sameShape kind b a := by
  induction a generalizing b with
  | named x =>
    cases b with
    | named y =>
      simp only [sameShape, sameNamedShape]
      have hb : (x == y) = (y == x) := by
        by_cases h : x = y
        · subst h; rfl
        · have h1 : (x == y) = false := by simpa using h
          have h2 : (y == x) = false := by simpa using (fun e : y = x => h e.symm)
          rw [h1, h2]
      cases hx : kind x <;> cases hy : kind y <;> simp only []
      rename_i kx ky
      rw [hb, Bool.or_comm, Bool.and_comm]
    | list t => simp [sameShape]
    | nonNull t => simp [sameShape]
  | list t ih => cases b <;> simp [sameShape, ih]
  | nonNull t ih => cases b <;> simp [sameShape, ih]

example : sameOutputTypeShape (fun n => if n == "Int" then some .scalar else some .object)
    (.nonNullList (.named "A")) (.nonNullList (.named "B")) = true := by decide
example : sameOutputTypeShape (fun _ => some .scalar) (.list (.named "Int")) (.list (.nonNullNamed "Int")) = false := by decide

/-! ## (3) subscriptions: single root field -/

/-- The response keys `validate_subscription` collects are exactly the entries of the
    specification's CollectFields, in the same order (same traversal, same visited-fragments
    discipline), for every document and fragment set. -/
theorem subscription_walk_collects (frags : List Sels) (op : Sels) :
    (collectFields frags op).map Prod.fst = (subscriptionWalk frags op).rkeys :=
  (walk_collect frags frags.length op .init { visited := [], grouped := [] } ⟨rfl, rfl⟩).2

/-- SubscriptionUsesMultipleFields is reported iff CollectFields has more than one entry — for
    every document (fix 7b5b545; before it `subscription { a a }` was a counterexample). -/
theorem subscription_root_iff (frags : List Sels) (op : Sels) :
    usesMultipleFields frags op = moreThanOneEntry frags op := by
  have hk := subscription_walk_collects frags op
  have hlen : (collectFields frags op).length = (subscriptionWalk frags op).rkeys.length := by
    rw [← hk, List.length_map]
  simp only [usesMultipleFields, moreThanOneEntry, hlen]

example : usesMultipleFields [] (.field "a" "a" false (.field "a" "a" false .nil)) = false := by decide
example : usesMultipleFields [] (.field "a" "a" false (.field "b" "a" false .nil)) = true := by decide
example : usesMultipleFields [.field "a" "a" false .nil] (.spread 0 false (.spread 0 false .nil)) = false := by decide

/-! ## (4) field merging: XING grouping vs the pairwise definition -/

/-- Comparing the first element of a group with all others is the same as comparing every pair,
    for the two leaf relations the algorithm uses (both are equalities of a projection). -/
theorem first_vs_rest_iff_all_pairs (f : AField → String) (g : List AField) :
    firstVsRest (fun a b => f a == f b) g = allPairs (fun a b => f a == f b) g :=
  firstVsRest_eq_allPairs f g

/-- `group_by_common_parents` puts two fields of a name group into a common group exactly when the
    specification requires them to have identical names and arguments: their parent types are
    equal or one of them is not an object type. -/
theorem common_parents_groups_are_spec_pairs (g : List AField) (a b : AField) (ha : a ∈ g) (hb : b ∈ g) :
    (∃ pg ∈ groupByCommonParents g, a ∈ pg ∧ b ∈ pg) ↔
      ((a.parentIsObject = true ∧ b.parentIsObject = true → a.parent = b.parent)) :=
  commonParents_iff g a b ha hb

/-- every same-name pair of a field set the shape half of the algorithm accepts satisfies the
    specification's recursive SameResponseShape -/
theorem xing_shape_sound (n : Nat) (fs : List AField) (h : sameResponseShapeByName n fs = true)
    (a b : AField) (ha : a ∈ fs) (hb : b ∈ fs) (hk : a.key = b.key) : sameResponseShape n a b = true :=
  shapeByName_sound n fs h a ha b hb hk

/-- PARTIAL (one direction of `xing_equiv_pairwise`, for every field set and recursion limit):
    whatever the XING algorithm accepts — grouping by response name, then by common parents,
    comparing the first of each group with the rest, recursing on the merged sub-selections — is
    accepted by the specification's pairwise FieldsInSetCanMerge / SameResponseShape applied to every
    selection set.  So the algorithm never accepts a document the pairwise rule rejects (given the leaf
    predicates of (1), (2)). -/
theorem xing_equiv_pairwise_partial (n : Nat) (fs : List AField) (h : xingCanMerge n fs = true) :
    documentFieldsCanMerge n fs = true :=
  xing_sound n fs h

/-- The full equivalence of the XING algorithm with the pairwise definition (proved below:
    `xing_iff_pairwise`); tied to the code on every run by c17.merge (model = implementation) and
    c17.mergespec (this Lean definition = the Rust spec validator) on the same expanded field sets. -/
def xing_equiv_pairwise : Prop :=
  ∀ (n : Nat) (fs : List AField), xingCanMerge n fs = documentFieldsCanMerge n fs

/-- THE CONVERSE (completeness of the algorithm), for every field set and recursion limit: if the
    specification's pairwise FieldsInSetCanMerge / SameResponseShape accepts every selection set of
    the document, then the XING algorithm — grouping by response key, `same_output_type_shape` of the
    first of every name group against the rest, `same_name_and_arguments` of the first of every
    common-parents group against the rest, recursion into the merged sub-selections of each group —
    reports nothing.  The proof turns the spec's "each pair" (positions i < j of one selection set)
    into all pairs of members: the pair rule is symmetric, and holds on the diagonal because the
    sub-selection of every field is itself a selection set of the document. -/
theorem xing_complete (n : Nat) (fs : List AField) (h : documentFieldsCanMerge n fs = true) :
    xingCanMerge n fs = true :=
  ExecVal.xing_complete n fs h

/-- XING ⇔ PAIRWISE: the algorithm accepts exactly the documents the specification's pairwise rule
    accepts, for every expanded field tree (every document over every schema, through the
    abstraction c17.merge ties to the code) and every recursion limit. -/
theorem xing_iff_pairwise : xing_equiv_pairwise :=
  fun n fs => xing_eq_pairwise n fs

/-- The verdict of the pairwise rule depends only on WHICH fields an expanded set contains, not on
    their order or multiplicity — so it does not matter in which order `expand_selections` visits
    inline fragments and fragment spreads (a breadth-first queue), nor that `seen_fragments` makes it
    visit every fragment once. -/
theorem fields_can_merge_ignores_order_and_duplicates (n : Nat) (S S' : List AField)
    (h : ∀ x, x ∈ S ↔ x ∈ S') : documentFieldsCanMerge n S = documentFieldsCanMerge n S' :=
  doc_congr n S S' h

/-- THE CACHE IS TRANSPARENT.  `xingCachedDoc` (Model/ExecValidationCache.lean) is the algorithm as
    the code runs it: one validator for all operations, whose `cache` gives every merged field set
    ONE `MergedFieldSet` with two `OnceBool` guards, so that each of the two walks returns at once
    when it meets a set it has already walked (in this or in an earlier operation).  For EVERY
    identity `same` of merged sets that only identifies sets with equal contents, and every document
    whose operations nest less deeply than the recursion limit: no conflict is reported exactly when
    the pairwise rule accepts every operation.  (A hit returns what the recomputation would: if
    nothing was reported so far, every guarded set is accepted by the unguarded walk; a set being
    walked is never met again below itself, because merged sub-selections are strictly shallower.) -/
theorem xing_cache_transparent (same : List AField → List AField → Bool)
    (hsame : ∀ a b, same a b = true → a = b) (limit : Nat) (ops : List (List AField))
    (hd : ∀ fs ∈ ops, depthList fs < limit) :
    xingCachedDoc same limit ops = ops.all (documentFieldsCanMerge limit) := by
  rw [xingCachedDoc_eq same hsame limit ops hd]
  congr 1
  funext fs
  exact xing_eq_pairwise limit fs

/-- structural equality of field trees is such an identity -/
theorem beqList_is_identity (a b : List AField) (h : AField.beqList a b = true) : a = b :=
  AField.beqList_sound a b h

section Witnesses
/-- `f { g { x: a  x: b } }` with `a: Int`, `b: String` — and the operation `g { x: a  x: b }` -/
def wLeafA : AField := .mk "x" "O" true "a " "Int" []
def wLeafB : AField := .mk "x" "O" true "b " "String" []
def wInner : List AField := [.mk "g" "Q" true "g " "composite" [wLeafA, wLeafB]]
def wOuter : List AField := [.mk "f" "Q" true "f " "composite" wInner]

/-- guard 1 (both hypotheses are used): the depth hypothesis cannot be dropped.  With limit 2 the
    first operation (depth 3) sets the guard of `g {…}` but is cut off before it compares the two
    `x`; the second operation IS that set, hits the guard, and nothing is ever reported — while the
    unguarded algorithm at the same limit reports the second operation.  (The code then reports
    RecursionLimitError, since `recursion_limit.high > limit`.)  With the real limit, 128, the
    conflict is found. -/
theorem cache_needs_depth_hypothesis :
    xingCachedDoc AField.beqList 2 [wOuter, wInner] = true ∧
      [wOuter, wInner].all (xingCanMerge 2) = false ∧
      xingCachedDoc AField.beqList 128 [wOuter, wInner] = false := by decide +kernel

/-- guard 2: an identity that identifies different sets is not transparent -/
theorem cache_needs_exact_identity :
    xingCachedDoc (fun _ _ => true) 128 [[wLeafA], [wLeafA, wLeafB]] = true ∧
      xingCachedDoc AField.beqList 128 [[wLeafA], [wLeafA, wLeafB]] = false := by decide +kernel

/-- the guard does fire: `{ f { y } h { y } }` — the merged sub-selection `{ y }` of the two name
    groups is one set, walked once (2 guarded sets), and three times without a cache -/
theorem cache_hit_witness :
    (cachedCheck AField.beqList groupByOutputName shapeLeaf 128
      [.mk "f" "Q" true "f " "composite" [.mk "y" "O" true "a " "Int" []],
       .mk "h" "Q" true "h " "composite" [.mk "y" "O" true "a " "Int" []]] (true, [])).2.length = 2 ∧
    (cachedCheck (fun _ _ => false) groupByOutputName shapeLeaf 128
      [.mk "f" "Q" true "f " "composite" [.mk "y" "O" true "a " "Int" []],
       .mk "h" "Q" true "h " "composite" [.mk "y" "O" true "a " "Int" []]] (true, [])).2.length = 3 := by decide +kernel

-- completeness is not vacuous: a set the pairwise rule accepts although two fields share a key
-- with different names (exclusive object parents), and one it rejects (an abstract parent)
example : documentFieldsCanMerge 128 [.mk "x" "O" true "a " "Int" [], .mk "x" "P" true "b " "Int" []] = true := by decide +kernel
example : documentFieldsCanMerge 128 [.mk "x" "O" true "a " "Int" [], .mk "x" "I" false "b " "Int" []] = false := by decide +kernel
end Witnesses

example : xingCanMerge 128 [.mk "x" "O" true "a " "Int" [], .mk "x" "P" true "b " "Int" []] = true := by decide
example : xingCanMerge 128 [.mk "x" "O" true "a " "Int" [], .mk "x" "I" false "b " "Int" []] = false := by decide

/-! ## (5) unused fragments -/

/-- `collect_used_fragments` marks exactly the fragments reachable from an operation through
    spreads — for every document, any number of operations, cyclic spreads included (the walk's
    de-duplication set makes it terminate; the model's budget of `frags.length` nested entries is
    shown sufficient).  So UnusedFragment is reported exactly for the unreachable fragments. -/
theorem used_fragments_iff (frags : List (List Nat)) (ops : List (List Nat)) (j : Nat) :
    j ∈ collectUsed frags ops ↔ Used frags ops j :=
  ⟨collectUsed_sound frags ops j, collectUsed_complete frags ops j⟩

example : unusedCount [[1], [], []] [[0]] = 1 := by decide

/-- PER OPERATION (spec 5.8.3–5.8.5 speak of "each operation … including fragments transitively
    spread by that operation"): with the per-operation `validated_fragments` set, the fragment
    definitions validated against an operation's own variable definitions are exactly the fragments
    that operation reaches — for every operation of the document, whatever the others spread.
    Tied by c17.perop (one UndefinedVariable diagnostic per operation and reachable fragment). -/
theorem fragments_validated_per_operation (frags : List (List Nat)) (ops : List (List Nat))
    (op : List Nat) (hop : op ∈ ops) (j : Nat) :
    collectUsed frags [op] ∈ validatedPerOperation frags ops ∧
      (j ∈ collectUsed frags [op] ↔ Used frags [op] j) :=
  ⟨List.mem_map.mpr ⟨op, hop, rfl⟩, used_fragments_iff frags [op] j⟩

/-- a document-wide set is a different function: two operations spreading the same fragment give two
    validations, one per operation, while the fragment is in the document-wide walk only once -/
theorem validated_per_operation_not_document_wide :
    validationCount [[]] [[0], [0]] = 2 ∧ (collectUsed [[]] [[0], [0]]).length = 1 := by decide


end Apollo.C17
