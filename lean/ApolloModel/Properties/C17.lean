import ApolloModel.Proofs.ExecValidation
import ApolloModel.Proofs.ExecValidationValues
import ApolloModel.Proofs.ExecValidationMerge
/-
C17 — Executable validation agrees with the specification.

Model (Model/ExecValidation.lean): transliterations of the mechanisms the property anchors —
`same_value`, `same_output_type_shape`, `validate_subscription`'s response-key walk, the XING
field-merging algorithm on expanded field sets, `collect_used_fragments` — tied to the code on every
run by the streams c17.samevalue / c17.shape / c17.subscription / c17.merge / c17.unusedfrag.
Spec (Spec/ExecValidation.lean): written from the October-2021 text.  The document-level statement
"Ok iff no rule is violated" is the differential oracle of the harness (specexec.rs), not a theorem.
-/
namespace Apollo.C17
open Apollo Apollo.Spec Apollo.ExecVal Apollo.Spec.ExecVal

/-! ## (1) argument values -/

/-- For every pair of values of unbounded nesting in which no object literal repeats a field name
    (rule 5.6.3 rejects the others), `same_value` decides exactly the specification's equality of
    argument values: same literal, lists element by element (same length — fix deffad7), input
    objects as unordered sets of fields.  (The object case is the counting argument "equal length +
    every left field found on the right + unique names ⇒ every right field is on the left".) -/
theorem same_value_iff_spec (a b : Value) (ha : uniqueFields a = true) (hb : uniqueFields b = true) :
    sameValue a b = true ↔ SpecEq a b :=
  sameValue_iff_unique_aux (sizeOf a + 1) a (by omega) b ha hb

/-- the guard is needed: with a repeated field name the comparison is not even symmetric -/
theorem same_value_duplicate_keys_asymmetric :
    sameValue (.object [("x", .int "1"), ("x", .int "1")]) (.object [("x", .int "1"), ("y", .int "2")]) = true ∧
      sameValue (.object [("x", .int "1"), ("y", .int "2")]) (.object [("x", .int "1"), ("x", .int "1")]) = false := by
  constructor <;> simp [sameValue, allFields, fieldIn, lookupFirst]

example : uniqueFields (.object [("x", .list [.object [("y", .null)]]), ("y", .var "v")]) = true := by
  simp [uniqueFields, uniqueKeys, uniqueFieldsFields, uniqueFieldsList, lookupFirst]

/-- the former defect witness `{ f(a: [1]) f(a: [1, 2]) }` is now a conflict -/
theorem same_value_list_length :
    sameValue (.list [.int "1"]) (.list [.int "1", .int "2"]) = false ∧
      ¬ SpecEq (.list [.int "1"]) (.list [.int "1", .int "2"]) := by
  refine ⟨by simp [sameValue], ?_⟩
  intro h
  cases h with
  | list h => cases h with
    | cons _ h => cases h

/-! ## (2) SameResponseShape on type references -/

/-- `same_output_type_shape` computes steps 3–6 of SameResponseShape, for type references of
    unbounded nesting and any assignment of kinds to type names. -/
theorem same_output_type_shape_iff (kind : Name → Option TypeKind) (a b : Ty) :
    sameOutputTypeShape kind a b = sameShape kind (embed a) (embed b) :=
  shape_iff kind a b

/-- on defined types the relation is symmetric (the code compares only the first field of a group
    with the others) -/
theorem same_shape_symm (kind : Name → Option TypeKind) (a b : STy) :
    sameShape kind a b = sameShape kind b a := by
  induction a generalizing b with
  | named x =>
    cases b with
    | named y =>
      simp only [sameShape, sameNamedShape]
      have hb : (x == y) = (y == x) := by
        by_cases h : x = y
        · subst h; rfl
        · have h1 : (x == y) = false := by simpa using h
          have h2 : (y == x) = false := by simpa using (fun e : y = x => h e.symm)
          rw [h1, h2]
      cases hx : kind x <;> cases hy : kind y <;> simp only []
      rename_i kx ky
      rw [hb, Bool.or_comm, Bool.and_comm]
    | list t => simp [sameShape]
    | nonNull t => simp [sameShape]
  | list t ih => cases b <;> simp [sameShape, ih]
  | nonNull t ih => cases b <;> simp [sameShape, ih]

example : sameOutputTypeShape (fun n => if n == "Int" then some .scalar else some .object)
    (.nonNullList (.named "A")) (.nonNullList (.named "B")) = true := by decide
example : sameOutputTypeShape (fun _ => some .scalar) (.list (.named "Int")) (.list (.nonNullNamed "Int")) = false := by decide

/-! ## (3) subscriptions: single root field -/

/-- The response keys `validate_subscription` collects are exactly the entries of the
    specification's CollectFields, in the same order (same traversal, same visited-fragments
    discipline), for every document and fragment set. -/
theorem subscription_walk_collects (frags : List Sels) (op : Sels) :
    (collectFields frags op).map Prod.fst = (subscriptionWalk frags op).rkeys :=
  (walk_collect frags frags.length op .init { visited := [], grouped := [] } ⟨rfl, rfl⟩).2

/-- SubscriptionUsesMultipleFields is reported iff CollectFields has more than one entry — for
    every document (fix 7b5b545; before it `subscription { a a }` was a counterexample). -/
theorem subscription_root_iff (frags : List Sels) (op : Sels) :
    usesMultipleFields frags op = moreThanOneEntry frags op := by
  have hk := subscription_walk_collects frags op
  have hlen : (collectFields frags op).length = (subscriptionWalk frags op).rkeys.length := by
    rw [← hk, List.length_map]
  simp only [usesMultipleFields, moreThanOneEntry, hlen]

example : usesMultipleFields [] (.field "a" "a" false (.field "a" "a" false .nil)) = false := by decide
example : usesMultipleFields [] (.field "a" "a" false (.field "b" "a" false .nil)) = true := by decide
example : usesMultipleFields [.field "a" "a" false .nil] (.spread 0 false (.spread 0 false .nil)) = false := by decide

/-! ## (4) field merging: XING grouping vs the pairwise definition -/

/-- Comparing the first element of a group with all others is the same as comparing every pair,
    for the two leaf relations the algorithm uses (both are equalities of a projection). -/
theorem first_vs_rest_iff_all_pairs (f : AField → String) (g : List AField) :
    firstVsRest (fun a b => f a == f b) g = allPairs (fun a b => f a == f b) g :=
  firstVsRest_eq_allPairs f g

/-- `group_by_common_parents` puts two fields of a name group into a common group exactly when the
    specification requires them to have identical names and arguments: their parent types are
    equal or one of them is not an object type. -/
theorem common_parents_groups_are_spec_pairs (g : List AField) (a b : AField) (ha : a ∈ g) (hb : b ∈ g) :
    (∃ pg ∈ groupByCommonParents g, a ∈ pg ∧ b ∈ pg) ↔
      ((a.parentIsObject = true ∧ b.parentIsObject = true → a.parent = b.parent)) :=
  commonParents_iff g a b ha hb

/-- every same-name pair of a field set the shape half of the algorithm accepts satisfies the
    specification's recursive SameResponseShape -/
theorem xing_shape_sound (n : Nat) (fs : List AField) (h : sameResponseShapeByName n fs = true)
    (a b : AField) (ha : a ∈ fs) (hb : b ∈ fs) (hk : a.key = b.key) : sameResponseShape n a b = true :=
  shapeByName_sound n fs h a ha b hb hk

/-- PARTIAL (one direction of `xing_equiv_pairwise`, for every field set and recursion limit):
    whatever the XING algorithm accepts — grouping by response name, then by common parents,
    comparing the first of each group with the rest, recursing on the merged sub-selections — is
    accepted by the specification's pairwise FieldsInSetCanMerge / SameResponseShape applied to every
    selection set.  So the algorithm never accepts a document the pairwise rule rejects (given the leaf
    predicates of (1), (2)). -/
theorem xing_equiv_pairwise_partial (n : Nat) (fs : List AField) (h : xingCanMerge n fs = true) :
    documentFieldsCanMerge n fs = true :=
  xing_sound n fs h

/-- The full equivalence of the XING algorithm with the pairwise definition.  The converse direction
    (the pairwise rule accepts ⇒ the algorithm reports no conflict) is stated, not proved; it is tied
    on every run by c17.merge (model = implementation) and c17.mergespec (this Lean definition = the
    Rust spec validator) on the same expanded field sets. -/
def xing_equiv_pairwise : Prop :=
  ∀ (n : Nat) (fs : List AField), xingCanMerge n fs = documentFieldsCanMerge n fs

example : xingCanMerge 128 [.mk "x" "O" true "a " "Int" [], .mk "x" "P" true "b " "Int" []] = true := by decide
example : xingCanMerge 128 [.mk "x" "O" true "a " "Int" [], .mk "x" "I" false "b " "Int" []] = false := by decide

/-! ## (5) unused fragments -/

/-- `collect_used_fragments` marks exactly the fragments reachable from an operation through
    spreads — for every document, any number of operations, cyclic spreads included (the walk's
    de-duplication set makes it terminate; the model's budget of `frags.length` nested entries is
    shown sufficient).  So UnusedFragment is reported exactly for the unreachable fragments. -/
theorem used_fragments_iff (frags : List (List Nat)) (ops : List (List Nat)) (j : Nat) :
    j ∈ collectUsed frags ops ↔ Used frags ops j :=
  ⟨collectUsed_sound frags ops j, collectUsed_complete frags ops j⟩

example : unusedCount [[1], [], []] [[0]] = 1 := by decide

/-- PER OPERATION (spec 5.8.3–5.8.5 speak of "each operation … including fragments transitively
    spread by that operation"): with the per-operation `validated_fragments` set, the fragment
    definitions validated against an operation's own variable definitions are exactly the fragments
    that operation reaches — for every operation of the document, whatever the others spread.
    Tied by c17.perop (one UndefinedVariable diagnostic per operation and reachable fragment). -/
theorem fragments_validated_per_operation (frags : List (List Nat)) (ops : List (List Nat))
    (op : List Nat) (hop : op ∈ ops) (j : Nat) :
    collectUsed frags [op] ∈ validatedPerOperation frags ops ∧
      (j ∈ collectUsed frags [op] ↔ Used frags [op] j) :=
  ⟨List.mem_map.mpr ⟨op, hop, rfl⟩, used_fragments_iff frags [op] j⟩

/-- a document-wide set is a different function: two operations spreading the same fragment give two
    validations, one per operation, while the fragment is in the document-wide walk only once -/
theorem validated_per_operation_not_document_wide :
    validationCount [[]] [[0], [0]] = 2 ∧ (collectUsed [[]] [[0], [0]]).length = 1 := by decide


end Apollo.C17
