import ApolloModel.Proofs.ExecValidation
import ApolloModel.Proofs.ExecValidationValues
import ApolloModel.Proofs.ExecValidationMerge
import ApolloModel.Proofs.ExecValidationMerge2
import ApolloModel.Proofs.ExecValidationCache
import ApolloModel.Proofs.ExecRules2
import ApolloModel.Proofs.ExecRules3
import ApolloModel.Proofs.ExpandSelections
import ApolloModel.Proofs.ExpandSelections2
import ApolloModel.Proofs.ExecValues
import ApolloModel.Proofs.ExecWalk2
import ApolloModel.Proofs.StandaloneWalk3
import ApolloModel.Proofs.ExecValuesDoc
/-
C17 — Executable validation agrees with the specification.

Model (Model/ExecValidation.lean): transliterations of the mechanisms the property anchors —
`same_value`, `same_output_type_shape`, `validate_subscription`'s response-key walk, the XING
field-merging algorithm on expanded field sets, `collect_used_fragments` — tied to the code on every
run by the streams c17.samevalue / c17.shape / c17.subscription / c17.merge / c17.unusedfrag.
Spec (Spec/ExecValidation.lean): written from the October-2021 text.  The document-level statement
"Ok iff no rule is violated" is the differential oracle of the harness (specexec.rs), not a theorem.

INVENTORY — every rule of the oracle harness/src/specexec.rs and its Lean counterpart
(model = transliteration of apollo's code; `…_iff_spec` = theorem below; stream = correspondence)
  §5.1.1   ExecutableDefinitions            executable_definitions_iff_spec               c17.ops
  §5.2.1.1 OperationNameUniqueness          operation_name_uniqueness_iff_spec; unconditional with §5.2.2.1 and the root types: operation_definitions_iff_spec   c17.ops
  §5.2.2.1 LoneAnonymousOperation           lone_anonymous_operation_iff_spec             c17.ops
  §5.2.3.1 SingleRootField                  subscription_root_iff                         c17.subscription
  §5.3.1   FieldSelections                  field_selections_iff_spec (meta-fields incl.) c17.fields
  §5.3.2   FieldSelectionMerging            xing_iff_pairwise, same_value_iff_spec, same_output_type_shape_iff, xing_cache_transparent,
                                            expand_selections_iff_spec + merging_from_selection_sets (the expansion itself; c17.expand)
                                                                                          c17.merge/.mergecached/.mergespec/.shape/.samevalue
  §5.3.3   LeafFieldSelections              field_selections_iff_spec (no sub-selection on a leaf); missing_subselection_iff_spec
                                            (a composite field needs one; at the field node); missing_subselection_iff_spec_doc (whole tree)   c17.fields
  §5.4.1   ArgumentNames                    argument_names_iff_spec                       c17.args
  §5.4.2   ArgumentUniqueness               argument_uniqueness_iff_spec                  c17.args
  §5.4.2.1 RequiredArguments                required_arguments_iff_spec                   c17.args
  §5.5.1.1 FragmentNameUniqueness           fragment_name_uniqueness_iff_spec; unconditional with §5.5.1.2: fragment_definitions_iff_spec   c17.frags
  §5.5.1.2 FragmentSpreadTypeExistence      inline conditions: field_selections_iff_spec; named: fragment_definitions_iff_spec   c17.frags
  §5.5.1.3 FragmentsOnCompositeTypes        fragments_on_composite_types_iff_spec, inline_fragment_on_composite_type_spec (at the node);
                                            fragments_on_composite_types_iff_spec_doc (whole tree of an operation)   c17.frags
  §5.5.1.4 FragmentsMustBeUsed              used_fragments_iff                            c17.unusedfrag, c17.frags
  §5.5.2.1 FragmentSpreadTargetDefined      fragment_spread_target_defined_iff_spec (at the spread); fragment_spread_target_defined_iff_spec_doc
                                            (whole tree of an operation); C18 valid_leaf_shape_spreads_defined_partial   c17.frags
  §5.5.2.2 FragmentSpreadsMustNotFormCycles C21 fragment_cycle_sound (+ C18)              c17.frags
  §5.5.2.3 FragmentSpreadIsPossible         fragment_spread_possible_iff_spec, possible_types_spec   c17.frags
  §5.6.1–4 ValuesOfCorrectType, InputObjectFieldNames / FieldUniqueness / RequiredFields
                                            const values: C14 value_rule_iff_spec (builderF's Model/ValueCheck.lean); with variables:
                                            exec_value_rule_iff_spec (the descent, exact, variables inside literals by the named type),
                                            argument_value_iff_spec (one argument incl. validate_variable_usage, exact),
                                            argument_value_iff_spec_no_nested (against §5.6 + §5.8.5 IsVariableUsageAllowed when no variable
                                            stands inside a literal), spec_argument_value_accepted (spec ⇒ code always),
                                            nested_position_value_witness (why the guard); same_value_* above   c17.values
  THE WALK  (document level)                 walk_meets_every_argument (typed rules quiet for the document ⇔ every reachable argument passes argDiags with its
                                            own definition and its operation's variables, every reachable spread is possible), typed_walk_quiet_iff_reachable_sites,
                                            walk_reports_iff_reachable_site (structural walk: reported ⇔ a reachable site reports it), validate_operation_walk;
                                            soundness + completeness, fuel shown sufficient, no hypothesis on the document   c17.vars/.frags/.fields/.args
  THE TWO VALUE MODELS                       argument_variable_models_agree, argument_undefined_variable_models_agree, argument_disallowed_usage_models_agree
                                            (argDiags on rvalOf v vs argValueDiags on v), typed_diag_iff_reachable_argument, values_undefined_variable_iff_doc,
                                            values_disallowed_usage_iff_doc, values_rule_iff_spec_doc, values_quiet_doc; walk_fuel_suffices,
                                            walk_reports_iff_reachable_site_all   c17.vars, c17.values
  §5.7.1–3 DirectivesAreDefined / InValidLocations / UniquePerLocation
                                            C14 directive_applications_rule_iff_spec on the shared `dirDiags` (cited)   c20.schema
  §5.8.1   VariableUniqueness               variable_uniqueness_iff_spec                  c17.vars
  §5.8.2   VariablesAreInputTypes           variables_are_input_types_iff_spec            c17.vars
  §5.8.3   AllVariableUsesDefined           operation_variables_in_scope (what is reported is per operation and genuine),
                                            undefined_variable_top_level; that the walk meets every use: stream   c17.vars, c17.perop
  §5.8.4   AllVariablesUsed                 all_variables_used_iff_spec                   c17.vars
  §5.8.5   AllVariableUsagesAllowed         variable_usage_top_level_iff_spec (C29 usage_allowed_iff is the rule),
                                            nested_variable_named_type_only (the known finding, explicit)   c17.vars
  Apollo*  UndefinedRootOperationType, SubscriptionConditionalSelection, four Defer rules
                                            ORACLE ONLY (c17.ops / c17.subscription compare the first two)
-/
namespace Apollo.C17
open Apollo Apollo.Spec Apollo.ExecVal Apollo.Spec.ExecVal

/-! ## (1) argument values -/

/-- For every pair of values of unbounded nesting in which no object literal repeats a field name
    (rule 5.6.3 rejects the others), `same_value` decides exactly the specification's equality of
    argument values: same literal, lists element by element (same length — fix deffad7), input
    objects as unordered sets of fields.  (The object case is the counting argument "equal length +
    every left field found on the right + unique names ⇒ every right field is on the left".) -/
theorem same_value_iff_spec (a b : Value) (ha : uniqueFields a = true) (hb : uniqueFields b = true) :
    sameValue a b = true ↔ SpecEq a b :=
  sameValue_iff_unique_aux (sizeOf a + 1) a (by omega) b ha hb

/-- the guard is needed: with a repeated field name the comparison is not even symmetric -/
theorem same_value_duplicate_keys_asymmetric :
    sameValue (.object [("x", .int "1"), ("x", .int "1")]) (.object [("x", .int "1"), ("y", .int "2")]) = true ∧
      sameValue (.object [("x", .int "1"), ("y", .int "2")]) (.object [("x", .int "1"), ("x", .int "1")]) = false := by
  constructor <;> simp [sameValue, allFields, fieldIn, lookupFirst]

example : uniqueFields (.object [("x", .list [.object [("y", .null)]]), ("y", .var "v")]) = true := by
  simp [uniqueFields, uniqueKeys, uniqueFieldsFields, uniqueFieldsList, lookupFirst]

/-- the former defect witness `{ f(a: [1]) f(a: [1, 2]) }` is now a conflict -/
theorem same_value_list_length :
    sameValue (.list [.int "1"]) (.list [.int "1", .int "2"]) = false ∧
      ¬ SpecEq (.list [.int "1"]) (.list [.int "1", .int "2"]) := by
  refine ⟨by simp [sameValue], ?_⟩
  intro h
  cases h with
  | list h => cases h with
    | cons _ h => cases h

/-! ## (2) SameResponseShape on type references -/

/-- `same_output_type_shape` computes steps 3–6 of SameResponseShape, for type references of
    unbounded nesting and any assignment of kinds to type names. -/
theorem same_output_type_shape_iff (kind : Name → Option TypeKind) (a b : Ty) :
    sameOutputTypeShape kind a b = sameShape kind (embed a) (embed b) :=
  shape_iff kind a b

/-- on defined types the relation is symmetric (the code compares only the first field of a group
    with the others) -/
theorem same_shape_symm (kind : Name → Option TypeKind) (a b : STy) :
    sameShape kind a b = sameShape kind b a := by
  induction a generalizing b with
  | named x =>
    cases b with
    | named y =>
      simp only [sameShape, sameNamedShape]
      have hb : (x == y) = (y == x) := by
        by_cases h : x = y
        · subst h; rfl
        · have h1 : (x == y) = false := by simpa using h
          have h2 : (y == x) = false := by simpa using (fun e : y = x => h e.symm)
          rw [h1, h2]
      cases hx : kind x <;> cases hy : kind y <;> simp only []
      rename_i kx ky
      rw [hb, Bool.or_comm, Bool.and_comm]
    | list t => simp [sameShape]
    | nonNull t => simp [sameShape]
  | list t ih => cases b <;> simp [sameShape, ih]
  | nonNull t ih => cases b <;> simp [sameShape, ih]

example : sameOutputTypeShape (fun n => if n == "Int" then some .scalar else some .object)
    (.nonNullList (.named "A")) (.nonNullList (.named "B")) = true := by decide
example : sameOutputTypeShape (fun _ => some .scalar) (.list (.named "Int")) (.list (.nonNullNamed "Int")) = false := by decide

/-! ## (3) subscriptions: single root field -/

/-- The response keys `validate_subscription` collects are exactly the entries of the
    specification's CollectFields, in the same order (same traversal, same visited-fragments
    discipline), for every document and fragment set. -/
theorem subscription_walk_collects (frags : List Sels) (op : Sels) :
    (collectFields frags op).map Prod.fst = (subscriptionWalk frags op).rkeys :=
  (walk_collect frags frags.length op .init { visited := [], grouped := [] } ⟨rfl, rfl⟩).2

/-- SubscriptionUsesMultipleFields is reported iff CollectFields has more than one entry — for
    every document (fix 7b5b545; before it `subscription { a a }` was a counterexample). -/
theorem subscription_root_iff (frags : List Sels) (op : Sels) :
    usesMultipleFields frags op = moreThanOneEntry frags op := by
  have hk := subscription_walk_collects frags op
  have hlen : (collectFields frags op).length = (subscriptionWalk frags op).rkeys.length := by
    rw [← hk, List.length_map]
  simp only [usesMultipleFields, moreThanOneEntry, hlen]

example : usesMultipleFields [] (.field "a" "a" false (.field "a" "a" false .nil)) = false := by decide
example : usesMultipleFields [] (.field "a" "a" false (.field "b" "a" false .nil)) = true := by decide
example : usesMultipleFields [.field "a" "a" false .nil] (.spread 0 false (.spread 0 false .nil)) = false := by decide

/-! ## (4) field merging: XING grouping vs the pairwise definition -/

/-- Comparing the first element of a group with all others is the same as comparing every pair,
    for the two leaf relations the algorithm uses (both are equalities of a projection). -/
theorem first_vs_rest_iff_all_pairs (f : AField → String) (g : List AField) :
    firstVsRest (fun a b => f a == f b) g = allPairs (fun a b => f a == f b) g :=
  firstVsRest_eq_allPairs f g

/-- `group_by_common_parents` puts two fields of a name group into a common group exactly when the
    specification requires them to have identical names and arguments: their parent types are
    equal or one of them is not an object type. -/
theorem common_parents_groups_are_spec_pairs (g : List AField) (a b : AField) (ha : a ∈ g) (hb : b ∈ g) :
    (∃ pg ∈ groupByCommonParents g, a ∈ pg ∧ b ∈ pg) ↔
      ((a.parentIsObject = true ∧ b.parentIsObject = true → a.parent = b.parent)) :=
  commonParents_iff g a b ha hb

/-- every same-name pair of a field set the shape half of the algorithm accepts satisfies the
    specification's recursive SameResponseShape -/
theorem xing_shape_sound (n : Nat) (fs : List AField) (h : sameResponseShapeByName n fs = true)
    (a b : AField) (ha : a ∈ fs) (hb : b ∈ fs) (hk : a.key = b.key) : sameResponseShape n a b = true :=
  shapeByName_sound n fs h a ha b hb hk

/-- PARTIAL (one direction of `xing_equiv_pairwise`, for every field set and recursion limit):
    whatever the XING algorithm accepts — grouping by response name, then by common parents,
    comparing the first of each group with the rest, recursing on the merged sub-selections — is
    accepted by the specification's pairwise FieldsInSetCanMerge / SameResponseShape applied to every
    selection set.  So the algorithm never accepts a document the pairwise rule rejects (given the leaf
    predicates of (1), (2)). -/
theorem xing_equiv_pairwise_partial (n : Nat) (fs : List AField) (h : xingCanMerge n fs = true) :
    documentFieldsCanMerge n fs = true :=
  xing_sound n fs h

/-- The full equivalence of the XING algorithm with the pairwise definition (proved below:
    `xing_iff_pairwise`); tied to the code on every run by c17.merge (model = implementation) and
    c17.mergespec (this Lean definition = the Rust spec validator) on the same expanded field sets. -/
def xing_equiv_pairwise : Prop :=
  ∀ (n : Nat) (fs : List AField), xingCanMerge n fs = documentFieldsCanMerge n fs

/-- THE CONVERSE (completeness of the algorithm), for every field set and recursion limit: if the
    specification's pairwise FieldsInSetCanMerge / SameResponseShape accepts every selection set of
    the document, then the XING algorithm — grouping by response key, `same_output_type_shape` of the
    first of every name group against the rest, `same_name_and_arguments` of the first of every
    common-parents group against the rest, recursion into the merged sub-selections of each group —
    reports nothing.  The proof turns the spec's "each pair" (positions i < j of one selection set)
    into all pairs of members: the pair rule is symmetric, and holds on the diagonal because the
    sub-selection of every field is itself a selection set of the document. -/
theorem xing_complete (n : Nat) (fs : List AField) (h : documentFieldsCanMerge n fs = true) :
    xingCanMerge n fs = true :=
  ExecVal.xing_complete n fs h

/-- XING ⇔ PAIRWISE: the algorithm accepts exactly the documents the specification's pairwise rule
    accepts, for every expanded field tree (every document over every schema, through the
    abstraction c17.merge ties to the code) and every recursion limit. -/
theorem xing_iff_pairwise : xing_equiv_pairwise :=
  fun n fs => xing_eq_pairwise n fs

/-- The verdict of the pairwise rule depends only on WHICH fields an expanded set contains, not on
    their order or multiplicity — so it does not matter in which order `expand_selections` visits
    inline fragments and fragment spreads (a breadth-first queue), nor that `seen_fragments` makes it
    visit every fragment once. -/
theorem fields_can_merge_ignores_order_and_duplicates (n : Nat) (S S' : List AField)
    (h : ∀ x, x ∈ S ↔ x ∈ S') : documentFieldsCanMerge n S = documentFieldsCanMerge n S' :=
  doc_congr n S S' h

/-- THE CACHE IS TRANSPARENT.  `xingCachedDoc` (Model/ExecValidationCache.lean) is the algorithm as
    the code runs it: one validator for all operations, whose `cache` gives every merged field set
    ONE `MergedFieldSet` with two `OnceBool` guards, so that each of the two walks returns at once
    when it meets a set it has already walked (in this or in an earlier operation).  For EVERY
    identity `same` of merged sets that only identifies sets with equal contents, and every document
    whose operations nest less deeply than the recursion limit: no conflict is reported exactly when
    the pairwise rule accepts every operation.  (A hit returns what the recomputation would: if
    nothing was reported so far, every guarded set is accepted by the unguarded walk; a set being
    walked is never met again below itself, because merged sub-selections are strictly shallower.) -/
theorem xing_cache_transparent (same : List AField → List AField → Bool)
    (hsame : ∀ a b, same a b = true → a = b) (limit : Nat) (ops : List (List AField))
    (hd : ∀ fs ∈ ops, depthList fs < limit) :
    xingCachedDoc same limit ops = ops.all (documentFieldsCanMerge limit) := by
  rw [xingCachedDoc_eq same hsame limit ops hd]
  congr 1
  funext fs
  exact xing_eq_pairwise limit fs

/-- structural equality of field trees is such an identity -/
theorem beqList_is_identity (a b : List AField) (h : AField.beqList a b = true) : a = b :=
  AField.beqList_sound a b h

section Witnesses
/-- `f { g { x: a  x: b } }` with `a: Int`, `b: String` — and the operation `g { x: a  x: b }` -/
def wLeafA : AField := .mk "x" "O" true "a " "Int" []
def wLeafB : AField := .mk "x" "O" true "b " "String" []
def wInner : List AField := [.mk "g" "Q" true "g " "composite" [wLeafA, wLeafB]]
def wOuter : List AField := [.mk "f" "Q" true "f " "composite" wInner]

/-- guard 1 (both hypotheses are used): the depth hypothesis cannot be dropped.  With limit 2 the
    first operation (depth 3) sets the guard of `g {…}` but is cut off before it compares the two
    `x`; the second operation IS that set, hits the guard, and nothing is ever reported — while the
    unguarded algorithm at the same limit reports the second operation.  (The code then reports
    RecursionLimitError, since `recursion_limit.high > limit`.)  With the real limit, 128, the
    conflict is found. -/
theorem cache_needs_depth_hypothesis :
    xingCachedDoc AField.beqList 2 [wOuter, wInner] = true ∧
      [wOuter, wInner].all (xingCanMerge 2) = false ∧
      xingCachedDoc AField.beqList 128 [wOuter, wInner] = false := by decide +kernel

/-- guard 2: an identity that identifies different sets is not transparent -/
theorem cache_needs_exact_identity :
    xingCachedDoc (fun _ _ => true) 128 [[wLeafA], [wLeafA, wLeafB]] = true ∧
      xingCachedDoc AField.beqList 128 [[wLeafA], [wLeafA, wLeafB]] = false := by decide +kernel

/-- the guard does fire: `{ f { y } h { y } }` — the merged sub-selection `{ y }` of the two name
    groups is one set, walked once (2 guarded sets), and three times without a cache -/
theorem cache_hit_witness :
    (cachedCheck AField.beqList groupByOutputName shapeLeaf 128
      [.mk "f" "Q" true "f " "composite" [.mk "y" "O" true "a " "Int" []],
       .mk "h" "Q" true "h " "composite" [.mk "y" "O" true "a " "Int" []]] (true, [])).2.length = 2 ∧
    (cachedCheck (fun _ _ => false) groupByOutputName shapeLeaf 128
      [.mk "f" "Q" true "f " "composite" [.mk "y" "O" true "a " "Int" []],
       .mk "h" "Q" true "h " "composite" [.mk "y" "O" true "a " "Int" []]] (true, [])).2.length = 3 := by decide +kernel

-- completeness is not vacuous: a set the pairwise rule accepts although two fields share a key
-- with different names (exclusive object parents), and one it rejects (an abstract parent)
example : documentFieldsCanMerge 128 [.mk "x" "O" true "a " "Int" [], .mk "x" "P" true "b " "Int" []] = true := by decide +kernel
example : documentFieldsCanMerge 128 [.mk "x" "O" true "a " "Int" [], .mk "x" "I" false "b " "Int" []] = false := by decide +kernel
end Witnesses

example : xingCanMerge 128 [.mk "x" "O" true "a " "Int" [], .mk "x" "P" true "b " "Int" []] = true := by decide
example : xingCanMerge 128 [.mk "x" "O" true "a " "Int" [], .mk "x" "I" false "b " "Int" []] = false := by decide

/-! ## (5) unused fragments -/

/-- `collect_used_fragments` marks exactly the fragments reachable from an operation through
    spreads — for every document, any number of operations, cyclic spreads included (the walk's
    de-duplication set makes it terminate; the model's budget of `frags.length` nested entries is
    shown sufficient).  So UnusedFragment is reported exactly for the unreachable fragments. -/
theorem used_fragments_iff (frags : List (List Nat)) (ops : List (List Nat)) (j : Nat) :
    j ∈ collectUsed frags ops ↔ Used frags ops j :=
  ⟨collectUsed_sound frags ops j, collectUsed_complete frags ops j⟩

example : unusedCount [[1], [], []] [[0]] = 1 := by decide

/-- PER OPERATION (spec 5.8.3–5.8.5 speak of "each operation … including fragments transitively
    spread by that operation"): with the per-operation `validated_fragments` set, the fragment
    definitions validated against an operation's own variable definitions are exactly the fragments
    that operation reaches — for every operation of the document, whatever the others spread.
    Tied by c17.perop (one UndefinedVariable diagnostic per operation and reachable fragment). -/
theorem fragments_validated_per_operation (frags : List (List Nat)) (ops : List (List Nat))
    (op : List Nat) (hop : op ∈ ops) (j : Nat) :
    collectUsed frags [op] ∈ validatedPerOperation frags ops ∧
      (j ∈ collectUsed frags [op] ↔ Used frags [op] j) :=
  ⟨List.mem_map.mpr ⟨op, hop, rfl⟩, used_fragments_iff frags [op] j⟩

/-- a document-wide set is a different function: two operations spreading the same fragment give two
    validations, one per operation, while the fragment is in the document-wide walk only once -/
theorem validated_per_operation_not_document_wide :
    validationCount [[]] [[0], [0]] = 2 ∧ (collectUsed [[]] [[0], [0]]).length = 1 := by decide


/-! ## (6) the other rule families of §5

Structural rules: the model is `Standalone.validate` (Model/Standalone.lean, C20/C18 — tied to the code
by c20.schema and now by c17.ops/.frags/.fields/.args/.vars on this property's own documents, through
`ExecRules.erase`).  Typed rules the structural model leaves opaque: Model/ExecRules.lean. -/
section Families
open Apollo.ExecRules Apollo.Standalone.Rules

/-- §5.4.2 -/
theorem argument_uniqueness_iff_spec (as : List Standalone.Arg) :
    Standalone.uniqueArgs [] as = [] ↔ (as.map (·.name)).Nodup := argument_uniqueness_iff as

/-- §5.4.1 -/
theorem argument_names_iff_spec (defs : List Standalone.ArgDef) (as : List Standalone.Arg) :
    Standalone.undefinedArgs defs as = [] ↔ ∀ a ∈ as, ∃ d ∈ defs, d.name = a.name := argument_names_iff defs as

/-- §5.4.2.1 -/
theorem required_arguments_iff_spec (defs : List Standalone.ArgDef) (as : List Standalone.Arg) :
    Standalone.requiredArgs defs as = [] ↔
      ∀ d ∈ defs, d.required = true → ∃ a, as.find? (fun a => a.name == d.name) = some a ∧ a.value.isNull = false :=
  required_arguments_iff defs as

/-- §5.8.1 -/
theorem variable_uniqueness_iff_spec (p : Standalone.Params) (s : Option Standalone.Schema) (vs : List Standalone.VarDef) :
    .uniqueVariable ∈ Standalone.varDefDiags p s [] vs ↔ ¬ (vs.map (·.name)).Nodup := variable_uniqueness_iff p s vs

/-- §5.8.2 -/
theorem variables_are_input_types_iff_spec (p : Standalone.Params) (sc : Standalone.Schema) (vs : List Standalone.VarDef) :
    (.variableInputType ∈ Standalone.varDefDiags p (some sc) [] vs ∨ .undefinedDefinition ∈ Standalone.varDefDiags p (some sc) [] vs) ↔
      ∃ v ∈ vs, sc.kind v.ty = some .composite ∨ sc.kind v.ty = none :=
  variables_are_input_types_iff p sc vs []

/-- §5.8.4 (the walk `reach` is reachability through spreads: `used_fragments_iff`) -/
theorem all_variables_used_iff_spec (doc : Standalone.BuiltDoc) (o : Standalone.Op) :
    Standalone.unusedVarDiags doc o = [] ↔ ∀ v ∈ o.vars, v.name ∈ Standalone.usedVars doc o := all_variables_used_iff doc o

/-- §5.8.5 at the position of an argument value (the rule itself: C29 `usage_allowed_iff`) -/
theorem variable_usage_top_level_iff_spec (s : RSchema) (vars : List RVarDef) (d : InDef) (an n : String) (vd : RVarDef)
    (hv : vars.find? (·.name == n) = some vd) :
    .disallowedVariableUsage n ∈ argDiags s vars d { name := an, value := .var n } ↔
      variableUsageAllowed (embed vd.ty) vd.default (embed d.ty) d.hasDefault = false :=
  variable_usage_top_level_iff s vars d an n vd hv

/-- §5.8.5 inside a list / input-object literal: the known finding `nested-position`, explicit -/
theorem nested_variable_named_type_only_spec (vars : List RVarDef) (ty : Ty) (kind : TKind) (n : String) (vd : RVarDef)
    (hv : vars.find? (·.name == n) = some vd) :
    varValueDiags vars ty kind n = [] ↔ (kind.isInput = true ∧ vd.ty.innerNamedType = ty.innerNamedType) :=
  nested_variable_named_type_only vars ty kind n vd hv

/-- kernel-evaluated witness of the finding: `query($v: Int) { echo(l: [$v]) }` with `l: [Int!]` — the
    nullable `$v` is accepted at a non-null item position, where IsVariableUsageAllowed says no -/
theorem nested_position_witness :
    varValueDiags [{ name := "v", ty := .named "Int", default := .absent, dirs := [] }] (.nonNullNamed "Int") (.scalar true) "v" = [] ∧
    variableUsageAllowed (embed (.named "Int")) .absent (embed (.nonNullNamed "Int")) false = false := by decide

/-- §5.8.3, per operation -/
theorem operation_variables_in_scope_spec (s : RSchema) (doc : RBuilt) (o : ROp) :
    ∀ d ∈ dirsDiags s o.vars o.dirs ++
        (walkSels s doc o.vars (enterFrag s doc o.vars doc.frags.length) (s.root o.ty) o.sels []).1,
      RespectsScope o.vars d := operation_variables_in_scope s doc o

/-- §5.3.1 / §5.3.3 (first half) / inline type conditions, through the whole selection set -/
theorem field_selections_iff_spec (sc : Standalone.Schema) (sels : Standalone.Sels) (parent : Nat) :
    (Standalone.buildSels (some sc) parent sels).2 = [] ↔ SelectionsWellTyped sc parent sels :=
  field_selections_iff sc sels parent

/-- §5.5.2.3 -/
theorem fragment_spread_possible_iff_spec (s : RSchema) (against tc : String) (hne : tc ≠ against)
    (h1 : (s.typeInfo? tc).isSome) (h2 : (s.typeInfo? against).isSome) :
    spreadDiags s against tc = [] ↔ ∃ t, t ∈ s.possibleTypes against ∧ t ∈ s.possibleTypes tc :=
  fragment_spread_possible_iff s against tc hne h1 h2

/-- §5.2.1.1 -/
theorem operation_name_uniqueness_iff_spec (s : Option Standalone.Schema) (ast : Standalone.Ast) (h : AllOpsBuild s ast) :
    .operationNameCollision ∈ (Standalone.build s ast).diags ↔ ¬ OperationNamesUnique ast :=
  operation_name_uniqueness_iff s ast h

/-- §5.2.2.1 -/
theorem lone_anonymous_operation_iff_spec (s : Option Standalone.Schema) (ast : Standalone.Ast) (h : AllOpsBuild s ast) :
    .ambiguousAnonymousOperation ∈ (Standalone.build s ast).diags ↔ ¬ LoneAnonymousOperation ast :=
  lone_anonymous_operation_iff s ast h

/-- §5.5.1.1 -/
theorem fragment_name_uniqueness_iff_spec (s : Option Standalone.Schema) (ast : Standalone.Ast) (h : AllFragsBuild s ast) :
    .fragmentNameCollision ∈ (Standalone.build s ast).diags ↔ ¬ FragmentNamesUnique ast :=
  fragment_name_uniqueness_iff s ast h

/-- §5.1.1 Executable Definitions -/
theorem executable_definitions_iff_spec (s : Option Standalone.Schema) (ast : Standalone.Ast) :
    .typeSystemDefinition ∈ (Standalone.build s ast).diags ↔ Standalone.Def.typeSystem ∈ ast :=
  executable_definitions_iff s ast

/-- §5.5.1.1 + §5.5.1.2 (named fragments) WITHOUT A GUARD: the document is rejected for a fragment
    definition iff two fragments have the same name or a type condition names no defined type -/
theorem fragment_definitions_iff_spec (s : Option Standalone.Schema) (ast : Standalone.Ast) :
    (.fragmentNameCollision ∈ (Standalone.build s ast).diags ∨
        .undefinedTypeInNamedFragmentTypeCondition ∈ (Standalone.build s ast).diags) ↔
      (¬ FragmentNamesUnique ast ∨ ¬ FragmentConditionsDefined s ast) :=
  fragment_definitions_iff s ast

/-- §5.2.1.1 + §5.2.2.1 + root operation types WITHOUT A GUARD -/
theorem operation_definitions_iff_spec (s : Option Standalone.Schema) (ast : Standalone.Ast) :
    (.ambiguousAnonymousOperation ∈ (Standalone.build s ast).diags ∨ .operationNameCollision ∈ (Standalone.build s ast).diags ∨
        .undefinedRootOperation ∈ (Standalone.build s ast).diags) ↔
      (¬ LoneAnonymousOperation ast ∨ ¬ OperationNamesUnique ast ∨ ¬ RootTypesDefined s ast) :=
  operation_definitions_iff s ast

/-- §5.3.3, second half (`MissingSubselection`), at a field without sub-selection -/
theorem missing_subselection_iff_spec (p : Standalone.Params) (sc : Standalone.Schema) (doc : Standalone.BuiltDoc)
    (enter : Standalone.Frag → List Nat → List Standalone.Diag × List Nat) (t name : Nat) (dirs : List Standalone.Dir)
    (args : List Standalone.Arg) (V : List Nat) (fd : Standalone.FieldDef) (hf : sc.field t name = some fd) :
    .missingSubselection ∈ (Standalone.walkSels p (some sc) doc enter (some t) (.field name dirs args .nil .nil) V).1 ↔
      sc.kind fd.ty = some .composite :=
  missing_subselection_iff p sc doc enter t name dirs args V fd hf

/-- §5.5.1.3 Fragments On Composite Types, at a fragment definition: reported (and the body skipped) when
    the type condition is not composite; with a composite one the definition adds nothing of its own -/
theorem fragments_on_composite_types_iff_spec (p : Standalone.Params) (sc : Standalone.Schema) (doc : Standalone.BuiltDoc)
    (n : Nat) (f : Standalone.Frag) (V : List Nat) :
    (sc.kind f.tc ≠ some .composite →
      .invalidFragmentTarget ∈ (Standalone.enterFrag p (some sc) doc (n + 1) f V).1 ∧
        (Standalone.enterFrag p (some sc) doc (n + 1) f V).2 = V) ∧
    (sc.kind f.tc = some .composite → f.name ∉ Standalone.reach doc f.sels →
      Standalone.enterFrag p (some sc) doc (n + 1) f V =
        (Standalone.dirDiags p (some sc) .fragmentDefinition f.dirs ++
            (Standalone.walkSels p (some sc) doc (Standalone.enterFrag p (some sc) doc n) (Standalone.fragTy (some sc) f) f.sels V).1,
          (Standalone.walkSels p (some sc) doc (Standalone.enterFrag p (some sc) doc n) (Standalone.fragTy (some sc) f) f.sels V).2)) :=
  ⟨fragment_on_non_composite_reported p sc doc n f V, fragment_on_composite_walks_body p sc doc n f V⟩

/-- §5.5.1.3 at an inline fragment -/
theorem inline_fragment_on_composite_type_spec (p : Standalone.Params) (sc : Standalone.Schema) (doc : Standalone.BuiltDoc)
    (enter : Standalone.Frag → List Nat → List Standalone.Diag × List Nat) (ty : Option Nat) (t : Nat)
    (dirs : List Standalone.Dir) (sub rest : Standalone.Sels) (V : List Nat) (h : sc.kind t ≠ some .composite) :
    .invalidFragmentTarget ∈ (Standalone.walkSels p (some sc) doc enter ty (.inline (some t) dirs sub rest) V).1 :=
  inline_on_non_composite_reported p sc doc enter ty t dirs sub rest V h

/-- §5.5.2.1 Fragment Spread Target Defined, at a spread -/
theorem fragment_spread_target_defined_iff_spec (p : Standalone.Params) (s : Option Standalone.Schema) (doc : Standalone.BuiltDoc)
    (enter : Standalone.Frag → List Nat → List Standalone.Diag × List Nat) (ty : Option Nat) (f : Nat)
    (dirs : List Standalone.Dir) (V : List Nat) :
    (Standalone.walkSels p s doc enter ty (.spread f dirs .nil) V).1 =
      Standalone.dirDiags p s .fragmentSpread dirs ++
        (match doc.findFrag f with
         | some d => if f ∈ V then [] else (enter d (f :: V)).1
         | none => [.undefinedFragment]) :=
  spread_target_defined_iff p s doc enter ty f dirs V

/-- GetPossibleTypes (§5.5.2.3) -/
theorem possible_types_spec (s : RSchema) (t : TypeInfo) (h : s.typeInfo? t.name = some t) :
    s.possibleTypes t.name =
      (match t.kind with
       | .object _ => [t.name]
       | .interface _ => (s.types.filter fun o => match o.kind with | .object is => is.contains t.name | _ => false).map (·.name)
       | .union ms => ms
       | _ => []) :=
  ExecRules.possible_types_spec s t h

/-! `expand_selections`: the expansion the merging algorithm starts from -/
section Expansion
open Apollo.Expand

/-- `expand_selections` (breadth-first queue of selection sets, `seen_fragments`) lists EXACTLY the
    fields of the given selection sets and of every fragment reachable from them through spreads, inline
    fragments looked into, each with the type of the selection set it is written in: what the
    specification calls "the set of selections … including visiting fragments and inline fragments".
    The loop terminates: `fuelFor` iterations empty the queue, whatever the fragments (cycles included). -/
theorem expand_selections_iff_spec (frags : Frags) (sets : List ESet) (x : String × Nat) :
    x ∈ expand frags sets ↔ Expanded frags sets x := expand_iff frags sets x

/-- so field merging can start from the selection sets of the document: XING on apollo's expansion =
    the pairwise rule on any listing of those fields (depth-first, any order, with or without repetition) -/
theorem merging_from_selection_sets (mk : String × Nat → AField) (n : Nat) (frags : Frags) (sets : List ESet)
    (L : List (String × Nat)) (hL : ∀ x, x ∈ L ↔ Expanded frags sets x) :
    xingCanMerge n ((expand frags sets).map mk) = documentFieldsCanMerge n (L.map mk) :=
  Expand.merging_from_selection_sets mk n frags sets L hL

/-- apollo's breadth-first expansion and the depth-first CollectFields-style expansion (every named fragment
    once; the one the oracle and the streams c17.merge / c17.mergespec / c17.expand use) list the same
    fields, for every document and fragment graph -/
theorem expand_eq_flatten_spec (frags : Frags) (sets : List ESet) (x : String × Nat) :
    x ∈ expand frags sets ↔ x ∈ (flatten frags sets).out := expand_eq_flatten frags sets x

/-- a cyclic spread does not hang the expansion: `{ ...A } fragment A { f0 ...B } fragment B { f1 ...A }` -/
theorem expand_cycle_witness :
    expand [("A", ("T", [.field 0, .spread "B"])), ("B", ("U", [.field 1, .spread "A"]))] [("Q", [.spread "A", .inline "V" [.field 2]])] =
      [("T", 0), ("V", 2), ("U", 1)] := by decide

end Expansion

/-! `value_of_correct_type` / `validate_variable_usage` for one argument: §5.6 values at executable positions -/
section Values56
open Apollo.ExecValues

/-- §5.6.1–4 for a value that may contain variables, the descent `value_of_correct_type(schema, ty, value, var_defs)`:
    on a schema whose input fields have defined input types and for a defined input type, the code reports nothing
    iff the value is a value of the type in the sense of `Spec.ExecValues.CoercesV` — constants as in C14's
    `value_rule_iff_spec` (§3.5, §3.9–§3.12), lists item by item, input objects with unique (§5.6.3), defined (§5.6.2)
    keys and every required field present and non-null (§5.6.4), a custom scalar accepting any literal with unique keys
    at every depth and defined variables — where a variable must be defined and is judged by `NamedRule`: the named type
    of the position is the variable's (what the code compares; the specification's IsVariableUsageAllowed is stricter,
    see `nested_position_value_witness`). -/
theorem exec_value_rule_iff_spec (S : ValueCheck.Schema) (hS : ValueCheck.Spec.Closed S) (vars : List XVarDef)
    (v : ValueCheck.Value) (ty : ValueCheck.Ty) (hd : Bool) (hdef : ValueCheck.Spec.Defined S ty) :
    ValueCheck.check S (checkVars vars) ty v = [] ↔ CoercesV S vars (NamedRule S) ty hd v :=
  checkV_iff S hS vars v ty hd hdef

/-- one argument as `validate_field`/`validate_directives` treat it (`validate_variable_usage`, then `validate_values`),
    exact: nothing is reported iff a variable given directly as the value passes §5.8.5 IsVariableUsageAllowed
    (`Spec.variableUsageAllowed`, the C29 rule, with the argument's default) and the value is accepted by the descent. -/
theorem argument_value_iff_spec (S : ValueCheck.Schema) (hS : ValueCheck.Spec.Closed S) (vars : List XVarDef)
    (ty : ValueCheck.Ty) (hd : Bool) (v : ValueCheck.Value) (hdef : ValueCheck.Spec.Defined S ty) :
    argValueDiags S vars ty hd v = [] ↔ ExecArgOK S vars ty hd v :=
  arg_values_iff S hS vars ty hd v hdef

/-- against the specification proper (every variable, at any depth, judged by IsVariableUsageAllowed at its position):
    what the specification accepts the code accepts, always … -/
theorem spec_argument_value_accepted (S : ValueCheck.Schema) (hS : ValueCheck.Spec.Closed S) (vars : List XVarDef)
    (ty : ValueCheck.Ty) (hd : Bool) (v : ValueCheck.Value) (hdef : ValueCheck.Spec.Defined S ty)
    (h : CoercesV S vars UsageRule ty hd v) : argValueDiags S vars ty hd v = [] :=
  spec_value_accepted S hS vars ty hd v hdef h

/-- … and conversely whenever no variable stands INSIDE a list or object literal (the value is a variable, or
    contains none): then code and specification agree exactly on §5.6.1–4 and §5.8.5. -/
theorem argument_value_iff_spec_no_nested (S : ValueCheck.Schema) (hS : ValueCheck.Spec.Closed S) (vars : List XVarDef)
    (ty : ValueCheck.Ty) (hd : Bool) (v : ValueCheck.Value) (hdef : ValueCheck.Spec.Defined S ty) (hn : NoNestedVariable v) :
    argValueDiags S vars ty hd v = [] ↔ CoercesV S vars UsageRule ty hd v :=
  arg_values_iff_spec S hS vars ty hd v hdef hn

/-- the guard is needed (known finding `nested-position`, at the level of values): `$x: Int` inside the list literal
    `[$x]` given to `[Int!]` — the code reports nothing, the specification rejects (Int is not usable at Int!). -/
theorem nested_position_value_witness :
    argValueDiags ⟨[]⟩ [⟨"x", .named "Int", .absent⟩] (.list (.nonNullNamed "Int")) false (.list (.cons (.variable "x") .nil)) = [] ∧
      ¬ CoercesV ⟨[]⟩ [⟨"x", .named "Int", .absent⟩] UsageRule (.list (.nonNullNamed "Int")) false (.list (.cons (.variable "x") .nil)) := by
  refine ⟨by decide, ?_⟩
  intro h
  cases h with
  | leaf _ _ _ hl _ => simp [IsLeaf] at hl
  | customList _ _ _ hl _ _ => simp [ValueCheck.Ty.isList] at hl
  | listItems _ _ _ _ hi =>
    have := hi (.variable "x") (by simp [ValueCheck.Values.toList])
    cases this with
    | leaf _ _ _ hl _ => simp [IsLeaf] at hl
    | «variable» _ _ _ vd hf hr =>
      simp [List.find?] at hf
      subst hf
      have : UsageRule ⟨"x", .named "Int", .absent⟩ (.nonNullNamed "Int") false = (false = true) := by
        unfold UsageRule; decide
      simp only [ValueCheck.Ty.itemType] at hr
      rw [this] at hr
      cases hr

/-- a variable directly as the value: the location default of the argument counts (§5.8.5) -/
theorem top_level_variable_value_witness :
    argValueDiags ⟨[]⟩ [⟨"x", .named "Int", .absent⟩] (.nonNullNamed "Int") false (.variable "x") = [.disallowedVariableUsage] ∧
      argValueDiags ⟨[]⟩ [⟨"x", .named "Int", .absent⟩] (.nonNullNamed "Int") true (.variable "x") = [] := by
  constructor <;> decide

end Values56

/-! DOCUMENT LEVEL: where the rules are applied.  A site is one call of a per-node check; `Reaches` lists the sites
    of an operation — its own selection set and, through spreads at any depth, the definitions and bodies of the
    fragments it reaches (the walk skips what the code skips: the sub-selection of an undefined field, the body of a
    fragment whose type condition is not composite or that is on a spread cycle). -/
section DocumentLevel

/-- **the walk meets every argument** (typed rules, no hypothesis on schema or document): `validate_operation`
    for every operation of the document reports nothing of §5.6 (as far as `Model/ExecRules.lean` models it: the
    variable arms and the shapes), §5.8.3, §5.8.5, §5.5.2.3 EXACTLY when every argument of every field and directive
    the operation reaches — handed to the per-argument check `argDiags` (= `validate_variable_usage` +
    `value_of_correct_type`, the call `argument_value_iff_spec` describes) with the definition its field has on the
    field's parent type, or its directive definition's, and with THAT operation's variable definitions — passes, and
    every reachable spread / inline fragment is possible.  Soundness is by induction on the walk; completeness needs
    that `validated_fragments` never makes the walk skip a fragment it has not validated for this operation and that
    the recursion fuel of the model (number of fragment definitions) never runs out (pigeonhole on the marked names). -/
theorem walk_meets_every_argument (s : RSchema) (ast : RAst) :
    typedDiags s ast = [] ↔
      ∀ o ∈ (ExecRules.build s ast).ops,
        (∀ d a, (Site.dirs o.dirs).HasArg s d a → argDiags s o.vars d a = []) ∧
        (∀ v ∈ o.vars, ∀ d a, (Site.dirs v.dirs).HasArg s d a → argDiags s [] d a = []) ∧
        ∀ site, Reaches s (ExecRules.build s ast) (s.root o.ty) o.sels site →
          (∀ d a, site.HasArg s d a → argDiags s o.vars d a = []) ∧ (∀ t c, site = .spread t c → spreadDiags s t c = []) :=
  ExecRules.walk_meets_every_argument s ast

/-- one operation's walk, typed rules: quiet iff every reachable site is -/
theorem typed_walk_quiet_iff_reachable_sites (s : RSchema) (doc : RBuilt) (vars : List RVarDef) (ty : Option String) (t : RSels) :
    (ExecRules.walkSels s doc vars (ExecRules.enterFrag s doc vars doc.frags.length) ty t []).1 = [] ↔
      ∀ site, Reaches s doc ty t site → site.diags s vars = [] :=
  walk_quiet_iff s doc vars ty t

/-- the structural walk (`validate_selection_set` with `validate_field`, `validate_fragment_spread`,
    `validate_inline_fragment`, `validate_fragment_definition`; schema present): a diagnostic is reported for an
    operation EXACTLY when one of the sites the operation reaches reports it — every diagnostic, whatever else is
    wrong in the document -/
theorem walk_reports_iff_reachable_site (p : Standalone.Params) (sc : Standalone.Schema) (doc : Standalone.BuiltDoc)
    (ty : Option Nat) (t : Standalone.Sels) (d : Standalone.Diag) (hd : d ≠ .outOfFuel) :
    d ∈ Standalone.Walk.walkOut p sc doc ty t ↔
      ∃ site, Standalone.Walk.Reaches sc doc ty t site ∧ d ∈ site.diags p sc doc :=
  Standalone.Walk.walk_mem_iff p sc doc ty t d hd

/-- §5.3.3 Leaf Field Selections, second half, for the whole tree of an operation: `MissingSubselection` is reported
    iff the operation reaches a field written without sub-selection whose type (on its parent type) is composite -/
theorem missing_subselection_iff_spec_doc (p : Standalone.Params) (sc : Standalone.Schema) (doc : Standalone.BuiltDoc)
    (ty : Option Nat) (t : Standalone.Sels) :
    .missingSubselection ∈ Standalone.Walk.walkOut p sc doc ty t ↔
      ∃ t0 name dirs args fd, Standalone.Walk.Reaches sc doc ty t (.field (some t0) name dirs args true) ∧
        sc.field t0 name = some fd ∧ sc.kind fd.ty = some .composite :=
  Standalone.Walk.missing_subselection_iff_doc p sc doc ty t

/-- §5.5.2.1 Fragment Spread Target Defined, for the whole tree of an operation -/
theorem fragment_spread_target_defined_iff_spec_doc (p : Standalone.Params) (sc : Standalone.Schema) (doc : Standalone.BuiltDoc)
    (ty : Option Nat) (t : Standalone.Sels) :
    .undefinedFragment ∈ Standalone.Walk.walkOut p sc doc ty t ↔
      ∃ f dirs, Standalone.Walk.Reaches sc doc ty t (.spread f dirs) ∧ doc.findFrag f = none :=
  Standalone.Walk.spread_target_defined_iff_doc p sc doc ty t

/-- §5.5.1.3 Fragments On Composite Types, for the whole tree of an operation: inline fragments and the definitions
    of the fragments it reaches -/
theorem fragments_on_composite_types_iff_spec_doc (p : Standalone.Params) (sc : Standalone.Schema) (doc : Standalone.BuiltDoc)
    (ty : Option Nat) (t : Standalone.Sels) :
    .invalidFragmentTarget ∈ Standalone.Walk.walkOut p sc doc ty t ↔
      (∃ c dirs, Standalone.Walk.Reaches sc doc ty t (.inline (some c) dirs) ∧ sc.kind c ≠ some .composite) ∨
        (∃ fr, Standalone.Walk.Reaches sc doc ty t (.fragDef fr) ∧ sc.kind fr.tc ≠ some .composite) :=
  Standalone.Walk.fragments_on_composite_types_iff_doc p sc doc ty t

/-- `walkOut` is the walk summand of `validate_operation` -/
theorem validate_operation_walk (p : Standalone.Params) (sc : Standalone.Schema) (doc : Standalone.BuiltDoc) (o : Standalone.Op) :
    Standalone.validateOp p (some sc) doc o =
      Standalone.dirDiags p (some sc) o.ty.loc o.dirs ++ Standalone.varDefDiags p (some sc) [] o.vars ++
        Standalone.unusedVarDiags doc o ++ Standalone.Walk.walkOut p sc doc (sc.root o.ty) o.sels :=
  Standalone.Walk.validateOp_walk p sc doc o

end DocumentLevel

/-! DOCUMENT LEVEL, values: the link between the two models of the per-argument check (`rvalOf` forgets the scalar
    literals; `SchemaRel` relates the two views of the schema; `Presents` says that `(xvars, ty, hd, v)` is a full-value
    presentation of an argument the walk checks) and the variable-related part of §5.6 / §5.8.3 / §5.8.5 for the
    whole document. -/
section ValuesDocumentLevel
open Apollo.ExecValues Apollo.ExecRules.Mem

/-- a variable given directly as the value: the two models report the same, diagnostic for diagnostic -/
theorem argument_variable_models_agree (s : RSchema) (S : ValueCheck.Schema) (h : SchemaRel s S) (xvars : List XVarDef)
    (an : String) (ty : ValueCheck.Ty) (hd : Bool) (n : String) :
    (argDiags s (xvars.map rvarOf) (inDefOf an ty hd) { name := an, value := rvalOf (.variable n) }).map tdiagX =
      argValueDiags S xvars ty hd (.variable n) :=
  arg_variable_agrees s S h xvars an ty hd n

/-- `UndefinedVariable` for one argument, any value (variables at any depth of lists, input objects, custom-scalar
    literals): `argDiags` on the abstracted value reports one iff `argValueDiags` on the full value does -/
theorem argument_undefined_variable_models_agree (s : RSchema) (S : ValueCheck.Schema) (hrel : SchemaRel s S)
    (xvars : List XVarDef) (an : String) (ty : ValueCheck.Ty) (hd : Bool) (v : ValueCheck.Value) :
    HasUV (argDiags s (xvars.map rvarOf) (inDefOf an ty hd) { name := an, value := rvalOf v }) ↔
      XDiag.value .undefinedVariable ∈ argValueDiags S xvars ty hd v :=
  arg_undefinedVariable_agrees s S hrel xvars an ty hd v

/-- `DisallowedVariableUsage` for one argument -/
theorem argument_disallowed_usage_models_agree (s : RSchema) (S : ValueCheck.Schema) (xvars : List XVarDef)
    (an : String) (ty : ValueCheck.Ty) (hd : Bool) (v : ValueCheck.Value) :
    XDiag.disallowedVariableUsage ∈ argValueDiags S xvars ty hd v ↔
      ∃ n, v = .variable n ∧
        argDiags s (xvars.map rvarOf) (inDefOf an ty hd) { name := an, value := rvalOf v } = [.disallowedVariableUsage n] :=
  arg_disallowed_agrees s S xvars an ty hd v

/-- the typed rules, DIAGNOSTIC BY DIAGNOSTIC, for the document (membership form of `walk_meets_every_argument`, no
    hypothesis): `d` is reported iff the per-argument check reports it for an argument some operation checks (`OpArg`:
    a directive of the operation, of one of its variable definitions, or a field / directive it reaches), or a spread
    it reaches is impossible -/
theorem typed_diag_iff_reachable_argument (s : RSchema) (ast : RAst) (d : TDiag) :
    d ∈ typedDiags s ast ↔
      ∃ o ∈ (ExecRules.build s ast).ops,
        (∃ vars df a, OpArg s (ExecRules.build s ast) o vars df a ∧ d ∈ argDiags s vars df a) ∨
          (∃ t c, Reaches s (ExecRules.build s ast) (s.root o.ty) o.sels (.spread t c) ∧ d ∈ spreadDiags s t c) :=
  typedDiags_mem_iff s ast d

/-- §5.8.3 for the document in terms of the FULL per-argument check -/
theorem values_undefined_variable_iff_doc (s : RSchema) (S : ValueCheck.Schema) (hrel : SchemaRel s S) (ast : RAst)
    (hp : ∀ o ∈ (ExecRules.build s ast).ops, ∀ vars df a, OpArg s (ExecRules.build s ast) o vars df a →
      ∃ xvars ty hd v, Presents vars df a xvars ty hd v) :
    (∃ n, TDiag.undefinedVariable n ∈ typedDiags s ast) ↔
      ∃ o ∈ (ExecRules.build s ast).ops, ∃ vars df a xvars ty hd v, OpArg s (ExecRules.build s ast) o vars df a ∧
        Presents vars df a xvars ty hd v ∧ XDiag.value .undefinedVariable ∈ argValueDiags S xvars ty hd v :=
  values_undefinedVariable_iff_doc s S hrel ast hp

/-- §5.8.5 for the document in terms of the FULL per-argument check -/
theorem values_disallowed_usage_iff_doc (s : RSchema) (S : ValueCheck.Schema) (ast : RAst)
    (hp : ∀ o ∈ (ExecRules.build s ast).ops, ∀ vars df a, OpArg s (ExecRules.build s ast) o vars df a →
      ∃ xvars ty hd v, Presents vars df a xvars ty hd v) :
    (∃ n, TDiag.disallowedVariableUsage n ∈ typedDiags s ast) ↔
      ∃ o ∈ (ExecRules.build s ast).ops, ∃ vars df a xvars ty hd v, OpArg s (ExecRules.build s ast) o vars df a ∧
        Presents vars df a xvars ty hd v ∧ XDiag.disallowedVariableUsage ∈ argValueDiags S xvars ty hd v :=
  values_disallowed_iff_doc s S ast hp

/-- **`values_rule_iff_spec`, variable-related part, document level**: `walk_meets_every_argument` composed with the
    bridge and with `argument_value_iff_spec` — if every argument any operation reaches has a full-value presentation
    satisfying `ExecArgOK` (closed schema, defined input type), the document reports neither `UndefinedVariable` nor
    `DisallowedVariableUsage`; and a quiet document means the full check reports neither at any presented reachable
    argument (`values_quiet_doc`) -/
theorem values_rule_iff_spec_doc (s : RSchema) (S : ValueCheck.Schema) (hrel : SchemaRel s S) (hS : ValueCheck.Spec.Closed S)
    (ast : RAst)
    (hall : ∀ o ∈ (ExecRules.build s ast).ops, ∀ vars df a, OpArg s (ExecRules.build s ast) o vars df a →
      ∃ xvars ty hd v, Presents vars df a xvars ty hd v ∧ ValueCheck.Spec.Defined S ty ∧ ExecArgOK S xvars ty hd v) :
    ∀ n, TDiag.undefinedVariable n ∉ typedDiags s ast ∧ TDiag.disallowedVariableUsage n ∉ typedDiags s ast :=
  values_rule_spec_doc s S hrel hS ast hall

theorem values_quiet_doc (s : RSchema) (S : ValueCheck.Schema) (hrel : SchemaRel s S) (ast : RAst)
    (hq : typedDiags s ast = []) :
    ∀ o ∈ (ExecRules.build s ast).ops, ∀ vars df a xvars ty hd v, OpArg s (ExecRules.build s ast) o vars df a →
      Presents vars df a xvars ty hd v →
        XDiag.disallowedVariableUsage ∉ argValueDiags S xvars ty hd v ∧
          XDiag.value .undefinedVariable ∉ argValueDiags S xvars ty hd v :=
  (values_rule_variables_doc s S hrel ast).1 hq

/-- the structural walk never reports the model's fuel marker: the number of fragment definitions is enough fuel for
    every document … -/
theorem walk_fuel_suffices (p : Standalone.Params) (sc : Standalone.Schema) (doc : Standalone.BuiltDoc)
    (ty : Option Nat) (t : Standalone.Sels) : Standalone.Diag.outOfFuel ∉ Standalone.Walk.walkOut p sc doc ty t :=
  Standalone.Walk.walk_fuel_suffices p sc doc ty t

/-- … so `walk_reports_iff_reachable_site` holds for EVERY diagnostic -/
theorem walk_reports_iff_reachable_site_all (p : Standalone.Params) (sc : Standalone.Schema) (doc : Standalone.BuiltDoc)
    (ty : Option Nat) (t : Standalone.Sels) (d : Standalone.Diag) :
    d ∈ Standalone.Walk.walkOut p sc doc ty t ↔
      ∃ site, Standalone.Walk.Reaches sc doc ty t site ∧ d ∈ site.diags p sc doc :=
  Standalone.Walk.walk_mem_iff_all p sc doc ty t d

/-- `SchemaRel` is inhabited (kernel-checked): the schema without definitions, i.e. the built-in scalars -/
theorem schema_rel_witness : SchemaRel ⟨[], none, none, none, []⟩ ⟨[]⟩ := schemaRel_builtins

end ValuesDocumentLevel

/-- THE COVERED RULES, TOGETHER (partial: see the inventory at the top for what stays outside —
    the directive rules (C14), fragment cycles (C21), merging and subscriptions (sections 1–5),
    FragmentsOnCompositeTypes / FragmentSpreadTargetDefined / MissingSubselection (model + stream)).
    Unconditional (no guard on the document): the document-building phase reports a type-system definition,
    an operation problem (ambiguity / name collision / undefined root type), a fragment-definition problem
    (name collision / undefined type condition) or a selection error exactly when the corresponding
    specification rules fail; likewise each operation's variable definitions, unused variables and every
    argument list.  The checks of the validation walk (MissingSubselection, FragmentsOnCompositeTypes,
    FragmentSpreadTargetDefined) are the node-level theorems above; §5.8.3 / §5.8.5 / §5.5.2.3 the typed ones.
    The last two conjuncts are the DOCUMENT-LEVEL statements of the walk: MissingSubselection, UndefinedFragment and
    InvalidFragmentTarget are reported for an operation exactly when a site the operation reaches (own selection set and,
    through spreads, every fragment it reaches) violates the rule; and the typed rules (§5.6 as far as variables and
    shapes go, §5.8.3, §5.8.5, §5.5.2.3) are quiet for the document exactly when every reachable argument passes the
    per-argument check with its own definition and its operation's variables (`walk_meets_every_argument`).
    The conjunct before them, §5.6.1–4 with §5.8.5 for the value of one argument whose definition is known (schema closed,
    type a defined input type): exact against `ExecArgOK`; what the specification accepts is accepted; and exact
    against the specification when no variable stands inside a literal (else the known finding `nested-position`). -/
theorem executable_verdict_iff_spec_partial (p : Standalone.Params) (sc : Standalone.Schema) (ast : Standalone.Ast) :
    (.typeSystemDefinition ∈ (Standalone.build (some sc) ast).diags ↔ Standalone.Def.typeSystem ∈ ast) ∧
    ((.ambiguousAnonymousOperation ∈ (Standalone.build (some sc) ast).diags ∨ .operationNameCollision ∈ (Standalone.build (some sc) ast).diags ∨
        .undefinedRootOperation ∈ (Standalone.build (some sc) ast).diags) ↔
      (¬ LoneAnonymousOperation ast ∨ ¬ OperationNamesUnique ast ∨ ¬ RootTypesDefined (some sc) ast)) ∧
    ((.fragmentNameCollision ∈ (Standalone.build (some sc) ast).diags ∨
        .undefinedTypeInNamedFragmentTypeCondition ∈ (Standalone.build (some sc) ast).diags) ↔
      (¬ FragmentNamesUnique ast ∨ ¬ FragmentConditionsDefined (some sc) ast)) ∧
    (∀ parent sels, (Standalone.buildSels (some sc) parent sels).2 = [] ↔ SelectionsWellTyped sc parent sels) ∧
    (∀ vs : List Standalone.VarDef,
      (.uniqueVariable ∉ Standalone.varDefDiags p (some sc) [] vs ∧ .variableInputType ∉ Standalone.varDefDiags p (some sc) [] vs ∧
        .undefinedDefinition ∉ Standalone.varDefDiags p (some sc) [] vs) ↔
      ((vs.map (·.name)).Nodup ∧ ∀ v ∈ vs, sc.kind v.ty ≠ some .composite ∧ sc.kind v.ty ≠ none)) ∧
    (∀ doc o, Standalone.unusedVarDiags doc o = [] ↔ ∀ v ∈ o.vars, v.name ∈ Standalone.usedVars doc o) ∧
    (∀ defs as, (Standalone.uniqueArgs [] as = [] ∧ Standalone.undefinedArgs defs as = [] ∧ Standalone.requiredArgs defs as = []) ↔
      ((as.map (·.name)).Nodup ∧ (∀ a ∈ as, ∃ d ∈ defs, d.name = a.name) ∧
        ∀ d ∈ defs, d.required = true → ∃ a, as.find? (fun a => a.name == d.name) = some a ∧ a.value.isNull = false)) ∧
    (∀ (S : ValueCheck.Schema) (vars : List ExecValues.XVarDef) (ty : ValueCheck.Ty) (hd : Bool) (v : ValueCheck.Value),
      ValueCheck.Spec.Closed S → ValueCheck.Spec.Defined S ty →
        (ExecValues.argValueDiags S vars ty hd v = [] ↔ ExecValues.ExecArgOK S vars ty hd v) ∧
        (ExecValues.CoercesV S vars ExecValues.UsageRule ty hd v → ExecValues.argValueDiags S vars ty hd v = []) ∧
        (ExecValues.NoNestedVariable v →
          (ExecValues.argValueDiags S vars ty hd v = [] ↔ ExecValues.CoercesV S vars ExecValues.UsageRule ty hd v))) ∧
    (∀ (doc : Standalone.BuiltDoc) (ty : Option Nat) (t : Standalone.Sels),
      (.missingSubselection ∈ Standalone.Walk.walkOut p sc doc ty t ↔
        ∃ t0 name dirs args fd, Standalone.Walk.Reaches sc doc ty t (.field (some t0) name dirs args true) ∧
          sc.field t0 name = some fd ∧ sc.kind fd.ty = some .composite) ∧
      (.undefinedFragment ∈ Standalone.Walk.walkOut p sc doc ty t ↔
        ∃ f dirs, Standalone.Walk.Reaches sc doc ty t (.spread f dirs) ∧ doc.findFrag f = none) ∧
      (.invalidFragmentTarget ∈ Standalone.Walk.walkOut p sc doc ty t ↔
        (∃ c dirs, Standalone.Walk.Reaches sc doc ty t (.inline (some c) dirs) ∧ sc.kind c ≠ some .composite) ∨
          (∃ fr, Standalone.Walk.Reaches sc doc ty t (.fragDef fr) ∧ sc.kind fr.tc ≠ some .composite))) ∧
    (∀ (s : RSchema) (rast : RAst),
      typedDiags s rast = [] ↔
        ∀ o ∈ (ExecRules.build s rast).ops,
          (∀ d a, (Site.dirs o.dirs).HasArg s d a → argDiags s o.vars d a = []) ∧
          (∀ v ∈ o.vars, ∀ d a, (Site.dirs v.dirs).HasArg s d a → argDiags s [] d a = []) ∧
          ∀ site, Reaches s (ExecRules.build s rast) (s.root o.ty) o.sels site →
            (∀ d a, site.HasArg s d a → argDiags s o.vars d a = []) ∧ (∀ t c, site = .spread t c → spreadDiags s t c = [])) := by
  refine ⟨executable_definitions_iff _ ast, operation_definitions_iff _ ast, fragment_definitions_iff _ ast,
    fun parent sels => field_selections_iff sc sels parent, ?_, all_variables_used_iff, ?_,
    fun S vars ty hd v hS hdef => ⟨argument_value_iff_spec S hS vars ty hd v hdef,
      spec_argument_value_accepted S hS vars ty hd v hdef,
      argument_value_iff_spec_no_nested S hS vars ty hd v hdef⟩,
    fun doc ty t => ⟨missing_subselection_iff_spec_doc p sc doc ty t, fragment_spread_target_defined_iff_spec_doc p sc doc ty t,
      fragments_on_composite_types_iff_spec_doc p sc doc ty t⟩,
    walk_meets_every_argument⟩
  · intro vs
    have h1 := variable_uniqueness_iff p (some sc) vs
    have h2 := variables_are_input_types_iff p sc vs []
    constructor
    · rintro ⟨a, b, c⟩
      refine ⟨Classical.not_not.mp (fun hn => a (h1.mpr hn)), ?_⟩
      intro v hv
      constructor
      · intro hk; rcases h2.mpr ⟨v, hv, Or.inl hk⟩ with h | h
        · exact b h
        · exact c h
      · intro hk; rcases h2.mpr ⟨v, hv, Or.inr hk⟩ with h | h
        · exact b h
        · exact c h
    · rintro ⟨a, b⟩
      refine ⟨fun h => (h1.mp h) a, ?_, ?_⟩
      · intro h; obtain ⟨v, hv, hk⟩ := h2.mp (Or.inl h); rcases hk with hk | hk
        · exact (b v hv).1 hk
        · exact (b v hv).2 hk
      · intro h; obtain ⟨v, hv, hk⟩ := h2.mp (Or.inr h); rcases hk with hk | hk
        · exact (b v hv).1 hk
        · exact (b v hv).2 hk
  · intro defs as
    rw [argument_uniqueness_iff, argument_names_iff, required_arguments_iff]

end Families

end Apollo.C17
