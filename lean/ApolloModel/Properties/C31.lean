import ApolloModel.Model.FileId
/-
C31 — File ids are unique; tag packing round-trips.
The constants (INITIAL, TAG, BUILT_IN, NONE) and the *shape* of the allocation step (one atomic
read-modify-write vs load-then-store) are regenerated from parser.rs on every run; `rmw_shape`
fails to type-check if the code stops using a single RMW, and `non_rmw_collides` shows what then
goes wrong.  Schedules are arbitrary lists of thread numbers: any number of threads, any interleaving.
-/
namespace Apollo.C31
open Apollo.FileId Apollo.Gen


theorem tag_eq : TAG = 2 ^ 63 := by decide
theorem mask_eq : ID_MASK = 2 ^ 63 - 1 := by decide
theorem initial_pos : 0 < INITIAL := by decide

theorem and_two_pow' (n i : Nat) : n &&& 2 ^ i = if n.testBit i then 2 ^ i else 0 := by
  apply Nat.eq_of_testBit_eq
  intro j
  by_cases h : n.testBit i = true
  · simp only [h, if_true, Nat.testBit_and, Nat.testBit_two_pow]
    by_cases hj : i = j
    · subst hj; simp [h]
    · simp [hj]
  · simp only [h, Bool.false_eq_true, if_false, Nat.testBit_and, Nat.testBit_two_pow, Nat.zero_testBit]
    by_cases hj : i = j
    · subst hj; simp at h; simp [h]
    · simp [hj]

theorem and_tag_eq_zero_iff (n : Nat) : n &&& TAG = 0 ↔ n.testBit 63 = false := by
  rw [tag_eq, and_two_pow']
  cases n.testBit 63 <;> simp

theorem lt_and_tag {n : Nat} (h : n < 2 ^ 63) : n &&& TAG = 0 :=
  (and_tag_eq_zero_iff n).mpr (Nat.testBit_lt_two_pow h)

/-- Packing any identifier (non-zero, tag bit clear) with a tag and unpacking returns both. -/
theorem pack_unpack (tag : Bool) (id : Nat) (h : id < 2 ^ 63) :
    ∃ p, pack tag id = some p ∧ tagOf p = tag ∧ fileIdOf p = id ∧ p < 2 ^ 64 := by
  have h0 := lt_and_tag h
  refine ⟨if tag then id ||| TAG else id, by simp [pack, h0], ?_, ?_, ?_⟩
  · cases tag
    · simp [tagOf, h0]
    · simp only [tagOf, if_true]
      have : (id ||| TAG) &&& TAG = TAG := by
        rw [Nat.and_or_distrib_right, h0, Nat.and_self, Nat.zero_or]
      rw [this]; decide
  · cases tag
    · simp only [fileIdOf, mask_eq, Bool.false_eq_true, if_false, Nat.and_two_pow_sub_one_eq_mod]
      exact Nat.mod_eq_of_lt h
    · simp only [fileIdOf, mask_eq, if_true, Nat.and_two_pow_sub_one_eq_mod, tag_eq]
      rw [Nat.or_two_pow_eq_add_of_lt h]
      omega
  · cases tag
    · simp only [Bool.false_eq_true, if_false]; omega
    · simp only [if_true, tag_eq]
      rw [Nat.or_two_pow_eq_add_of_lt h]
      omega

/-- a packed value is never zero when the id is not (NonZeroU64::new_unchecked is sound) -/
theorem pack_nonzero (tag : Bool) (id p : Nat) (hid : id ≠ 0) (h : pack tag id = some p) : p ≠ 0 := by
  unfold pack at h
  split at h
  · simp at h
  · simp only [Option.some.injEq] at h
    subst h
    cases tag
    · simpa using hid
    · simp only [if_true]
      intro e
      have := Nat.or_eq_zero_iff.mp e
      exact hid this.1

/-- `pack` rejects (debug assertion) exactly the ids with the tag bit set -/
theorem pack_none_iff (tag : Bool) (id : Nat) : pack tag id = none ↔ id.testBit 63 = true := by
  unfold pack
  have := and_tag_eq_zero_iff id
  by_cases h : id &&& TAG = 0
  · simp [h, this.mp h]
  · have : id.testBit 63 = true := by
      cases hb : id.testBit 63
      · exact absurd (this.mpr hb) h
      · rfl
    simp [h, this]
/-- the invariant of the single-RMW allocation: the counter has been incremented exactly `n` times
    and the ids handed out are exactly its `n` successive old values -/
def Inv (s : St) (n : Nat) : Prop :=
  s.next = INITIAL + n ∧ s.returned = List.range' INITIAL n ∧ (∀ t, s.pcs t = .start) ∧ s.fetches = n

theorem step_inv (s : St) (n t : Nat) (h : Inv s n) (hn : INITIAL + n < 2 ^ 63) :
    Inv (step true s t) (n + 1) := by
  obtain ⟨h1, h2, h3, h4⟩ := h
  have hz : s.next &&& TAG = 0 := lt_and_tag (by omega)
  have hm : (s.next + 1) % 2 ^ 64 = s.next + 1 := Nat.mod_eq_of_lt (by omega)
  simp only [step, h3 t, if_true, afterFetch, hz, hm]
  refine ⟨by simp [h1]; omega, ?_, ?_, by simp [h4]⟩
  · simp only [h2, h1, List.range'_concat, Nat.one_mul]
  · intro i; simp only [setPc]; split <;> simp [h3]

theorem run_inv_aux (sched : List Nat) : ∀ (s : St) (n : Nat), Inv s n → INITIAL + n + sched.length ≤ 2 ^ 63 →
    Inv (sched.foldl (step true) s) (n + sched.length) := by
  induction sched with
  | nil => intro s n h _; simpa using h
  | cons t ts ih =>
    intro s n h hl
    simp only [List.length_cons] at hl
    have := ih (step true s t) (n + 1) (step_inv s n t h (by omega)) (by omega)
    simpa [List.foldl_cons, Nat.add_assoc, Nat.add_comm 1] using this

theorem init_inv : Inv init 0 := by simp [Inv, init]

theorem rmw_shape : fileIdAllocIsRmw = true := rfl

/-- For any number of threads and any schedule: as long as fewer than 2^63 − INITIAL atomic steps
    have run, the ids handed out are exactly INITIAL, INITIAL+1, … in order. -/
theorem ids_are_counter_values (sched : List Nat) (h : INITIAL + sched.length ≤ 2 ^ 63) :
    (run fileIdAllocIsRmw sched).returned = List.range' INITIAL sched.length := by
  rw [rmw_shape]
  have := run_inv_aux sched init 0 init_inv (by omega)
  simpa [run] using this.2.1

/-- … hence pairwise distinct, -/
theorem ids_distinct (sched : List Nat) (h : INITIAL + sched.length ≤ 2 ^ 63) :
    (run fileIdAllocIsRmw sched).returned.Nodup := by
  rw [ids_are_counter_values sched h]; exact List.nodup_range'

/-- … never a reserved id (0, BUILT_IN = 1, NONE = 2), and never with the tag bit. -/
theorem ids_not_reserved (sched : List Nat) (h : INITIAL + sched.length ≤ 2 ^ 63) :
    ∀ id ∈ (run fileIdAllocIsRmw sched).returned,
      id ≠ 0 ∧ id ≠ fileIdBuiltIn ∧ id ≠ fileIdNone ∧ id < 2 ^ 63 := by
  rw [ids_are_counter_values sched h]
  intro id hid
  have := List.mem_range'_1.mp hid
  have hi : INITIAL = 3 := rfl
  have hb : fileIdBuiltIn = 1 := rfl
  have hnn : fileIdNone = 2 := rfl
  omega

/-- The two-step (load, then store) shape does NOT have the property: two threads interleaved
    receive the same id.  (This is what the regenerated model turns into if the code loses the RMW.) -/
theorem non_rmw_collides : ¬ (run false [0, 1, 0, 1]).returned.Nodup := by decide

-- Non-vacuity: a three-thread schedule, and packing the largest id
example : (run fileIdAllocIsRmw [2, 0, 1, 1, 0]).returned = [3, 4, 5, 6, 7] := by decide
example : pack true (2 ^ 63 - 1) = some (2 ^ 64 - 1) := by decide
example : pack true (2 ^ 63) = none := by decide

end Apollo.C31
