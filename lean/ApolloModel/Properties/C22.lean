import ApolloModel.Model.Determinism
import ApolloModel.Proofs.StableSort
import ApolloModel.Generated.HashSites
/-
C22 — Outputs are deterministic across processes.

Per-process hash seeds can only show through *iteration* over a `HashMap`/`HashSet` (lookups, inserts
and removals do not depend on the seed; `IndexMap`/`IndexSet` iterate in insertion order). The translator
lists every such iteration site of apollo-compiler and apollo-smith on every run
(`Generated/HashSites.lean`); `all_sites_audited` checks that list against the sites accounted for below.
-/
namespace Apollo.C22
open Apollo.Guards Apollo.Det Apollo.Generated

/-! ### accounted-for iteration sites -/

/-- `validation/variable.rs :: validate_unused_variables :: for … in unused_vars`: covered by
    `unused_variables_deterministic` below. -/
def siteUnusedVars : Nat := 66264114811652
/-- `schema/validation.rs :: validate_schema :: for name in builtin_scalars.used_and_undefined`: modelled as
    `finalTypes` (Model/Determinism.lean, correspondence stream `restore`). Unreachable from text: the schema
    builder always defines all five built-in scalars, so `used_and_undefined` is empty and the loop does nothing
    (`builtin_restore_deterministic_from_text`; the premise is an oracle of the harness on every input). Reachable
    only by editing a `Schema` in memory: then the SET of types is still order-independent
    (`builtin_restore_same_types`) but the relative order of two restored scalars is not
    (`builtin_restore_order_dependent_in_memory`). -/
def siteBuiltinScalars : Nat := 52540737318924
-- (`apollo-smith implements_graph.rs :: topo_order_parents_first :: self.by_name.keys()`, code
-- 114203739016255, was a third site: the fallback taken when the `implements` graph has a cycle. It made
-- apollo-smith's output depend on the process; repaired in /repo by fix 0d00bde and therefore not audited.)

def auditedSites : List Nat := [siteUnusedVars, siteBuiltinScalars]

/-- every place where the current sources iterate a hash-ordered collection is one of the audited ones -/
theorem all_sites_audited : hashIterationSites.all (fun s => auditedSites.contains s) = true := by decide

/-! ### the unused-variables loop -/

theorem collectVars_sublist : ∀ vars : List VarDef, (collectVars vars).Sublist vars
  | [] => List.Sublist.slnil
  | v :: rest => by
    unfold collectVars
    split
    · exact List.Sublist.cons _ (collectVars_sublist rest)
    · exact List.Sublist.cons_cons _ (collectVars_sublist rest)

theorem nodup_map_inj {α β : Type} {f : α → β} {l : List α} (inj : ∀ a b, f a = f b → a = b) (h : l.Nodup) :
    (l.map f).Nodup := by
  unfold List.Nodup at *
  rw [List.pairwise_map]
  exact h.imp (fun hne e => hne (inj _ _ e))

theorem nodup_of_map {α β : Type} (f : α → β) {l : List α} (h : (l.map f).Nodup) : l.Nodup := by
  unfold List.Nodup at *
  rw [List.pairwise_map] at h
  exact h.imp (fun hne e => hne (congrArg f e))

/-- Whatever order the hash map yields the unused variables in, the sorted diagnostics are the same, as
    long as distinct variable definitions start at distinct offsets (they are distinct syntax nodes of
    one file) and the earlier diagnostics are distinct from the new ones. -/
theorem unused_variables_deterministic (pre : List (Key × Nat)) (file : Nat) (vars : List VarDef)
    (used : Nat → Bool) (o1 o2 : List VarDef → List VarDef)
    (h1 : ∀ l, (o1 l).Perm l) (h2 : ∀ l, (o2 l).Perm l)
    (hoff : (vars.map (·.offset)).Nodup)
    (hpre : pre.Nodup)
    (hdisj : ∀ x ∈ pre, ∀ v ∈ vars, x ≠ (some (file, v.offset), v.name)) :
    validateUnused pre file vars used o1 = validateUnused pre file vars used o2 := by
  unfold validateUnused unusedDiagnostics
  let rem := (collectVars vars).filter (fun v => !used v.name)
  have hsub : rem.Sublist vars := (List.filter_sublist).trans (collectVars_sublist vars)
  let f : VarDef → Key × Nat := fun v => (some (file, v.offset), v.name)
  have hperm : ((o1 rem).map f).Perm ((o2 rem).map f) := ((h1 rem).trans (h2 rem).symm).map f
  -- offsets of the iterated entries are distinct
  have hoff1 : ((o1 rem).map (·.offset)).Nodup :=
    (((h1 rem).map (·.offset)).nodup_iff).mpr ((hsub.map (·.offset)).nodup hoff)
  have hkeys : (((o1 rem).map f).map (·.1)).Nodup := by
    rw [List.map_map]
    have : ((o1 rem).map ((fun (p : Key × Nat) => p.1) ∘ f)) = ((o1 rem).map (·.offset)).map (fun o => (some (file, o) : Key)) := by
      rw [List.map_map]; rfl
    rw [this]
    exact nodup_map_inj (fun a b h => by simpa using h) hoff1
  have hnodup : (pre ++ (o1 rem).map f).Nodup := by
    rw [List.nodup_append]
    refine ⟨hpre, ?_, ?_⟩
    · exact nodup_of_map (fun (p : Key × Nat) => p.1) hkeys
    · intro x hx y hy hxy
      obtain ⟨v, hv, rfl⟩ := List.mem_map.mp hy
      have hvv : v ∈ vars := hsub.subset ((h1 rem).subset hv)
      exact hdisj x hx v hvv hxy
  exact sort_hash_order_independent pre _ _ hperm hnodup hkeys

-- Non-vacuity: three variables, the middle one used; two different iteration orders
#guard validateUnused [(some (1, 0), 99)] 1 [⟨1, 6⟩, ⟨2, 15⟩, ⟨3, 24⟩] (· == 2) id
     == validateUnused [(some (1, 0), 99)] 1 [⟨1, 6⟩, ⟨2, 15⟩, ⟨3, 24⟩] (· == 2) List.reverse
example : ([⟨1, 6⟩, ⟨2, 15⟩, ⟨3, 24⟩] : List VarDef).map (·.offset) = [6, 15, 24] := rfl

/-! ### the built-in scalar site (`siteBuiltinScalars`) -/

theorem recordRefs_undefined (builtins types : List Nat) (hall : ∀ b ∈ builtins, b ∈ types) :
    ∀ (refs : List Nat) (s : Scalars), (recordRefs builtins types refs s).usedUndefined = s.usedUndefined
  | [], _ => rfl
  | r :: rest, s => by
    unfold recordRefs
    by_cases hb : builtins.contains r = true
    · have ht : types.contains r = true := by simpa using hall r (by simpa using hb)
      simp only [hb, ht, if_true]
      exact recordRefs_undefined builtins types hall rest _
    · simp only [hb, Bool.false_eq_true, if_false]
      exact recordRefs_undefined builtins types hall rest s

/-- **Unreachable from text.** When `schema.types` defines every built-in scalar — which the schema builder
    guarantees for every schema built from text (checked by the harness on every input:
    `builtin-scalar-missing-after-build`) — `used_and_undefined` stays empty, the loop over it does nothing, and the
    resulting type map does not depend on the iteration order of the `HashSet`, whatever references validation records. -/
theorem builtin_restore_deterministic_from_text (builtins types refs : List Nat) (o1 o2 : List Nat → List Nat)
    (h1 : ∀ l, (o1 l).Perm l) (h2 : ∀ l, (o2 l).Perm l) (hall : ∀ b ∈ builtins, b ∈ types) :
    finalTypes builtins types refs o1 = finalTypes builtins types refs o2 := by
  unfold finalTypes
  have hu := recordRefs_undefined builtins types hall refs ⟨[], []⟩
  simp only [hu]
  have e1 : o1 [] = [] := List.Perm.eq_nil (h1 [])
  have e2 : o2 [] = [] := List.Perm.eq_nil (h2 [])
  rw [e1, e2]

theorem mem_insertSet (x y : Nat) (l : List Nat) : y ∈ insertSet x l ↔ y ∈ l ∨ y = x := by
  unfold insertSet
  by_cases h : l.contains x = true
  · simp only [h, if_true]
    constructor
    · exact Or.inl
    · rintro (h1 | rfl)
      · exact h1
      · simpa using h
  · have h' : x ∉ l := by simpa using h
    simp [h']

theorem nodup_insertSet (x : Nat) (l : List Nat) (h : l.Nodup) : (insertSet x l).Nodup := by
  unfold insertSet
  by_cases hc : l.contains x = true
  · simp only [hc, if_true]; exact h
  · simp only [hc, Bool.false_eq_true, if_false]
    rw [List.nodup_append]
    refine ⟨h, by simp, ?_⟩
    intro a ha b hb e
    have : b = x := by simpa using hb
    subst this; subst e
    exact hc (by simpa using ha)

theorem mem_restoreAll : ∀ (l types : List Nat) (y : Nat), y ∈ restoreAll types l ↔ y ∈ types ∨ y ∈ l
  | [], types, y => by simp [restoreAll]
  | n :: rest, types, y => by
    rw [restoreAll, mem_restoreAll rest, mem_insertSet]
    simp only [List.mem_cons]
    constructor
    · rintro ((h | h) | h)
      · exact Or.inl h
      · exact Or.inr (Or.inl h)
      · exact Or.inr (Or.inr h)
    · rintro (h | h | h)
      · exact Or.inl (Or.inl h)
      · exact Or.inl (Or.inr h)
      · exact Or.inr h

theorem nodup_restoreAll : ∀ (l types : List Nat), types.Nodup → (restoreAll types l).Nodup
  | [], _, h => h
  | n :: rest, types, h => nodup_restoreAll rest _ (nodup_insertSet n types h)

/-- **In general (a `Schema` edited in memory) only the SET of types is order-independent**: whatever the two
    iteration orders, the resulting type maps have the same keys (they are permutations of each other) … -/
theorem builtin_restore_same_types (builtins types refs : List Nat) (o1 o2 : List Nat → List Nat)
    (h1 : ∀ l, (o1 l).Perm l) (h2 : ∀ l, (o2 l).Perm l) (hn : types.Nodup) :
    (finalTypes builtins types refs o1).Perm (finalTypes builtins types refs o2) := by
  unfold finalTypes
  generalize recordRefs builtins types refs ⟨[], []⟩ = s
  have hp : (pruneUnused builtins types s).Nodup := by
    unfold pruneUnused
    split
    · exact hn
    · exact hn.sublist List.filter_sublist
  refine (List.perm_ext_iff_of_nodup (nodup_restoreAll _ _ hp) (nodup_restoreAll _ _ hp)).mpr ?_
  intro y
  rw [mem_restoreAll, mem_restoreAll, ((h1 s.usedUndefined).trans (h2 s.usedUndefined).symm).mem_iff]

/-- … but their ORDER is not: two built-in scalars (0, 1) that validation pruned earlier and a later edit uses again
    are appended in hash order. (Observed on the implementation too: the harness records
    `inmemory_restore_type_order_differs`.) Outside C22's quantifier, which ranges over input texts. -/
theorem builtin_restore_order_dependent_in_memory :
    finalTypes [0, 1, 2] [9] [0, 1] id ≠ finalTypes [0, 1, 2] [9] [0, 1] List.reverse := by decide

end Apollo.C22
