import ApolloModel.Model.Determinism
import ApolloModel.Proofs.StableSort
import ApolloModel.Generated.HashSites
/-
C22 — Outputs are deterministic across processes.

Per-process hash seeds can only show through *iteration* over a `HashMap`/`HashSet` (lookups, inserts
and removals do not depend on the seed; `IndexMap`/`IndexSet` iterate in insertion order). The translator
lists every such iteration site of apollo-compiler and apollo-smith on every run
(`Generated/HashSites.lean`); `all_sites_audited` checks that list against the sites accounted for below.
-/
namespace Apollo.C22
open Apollo.Guards Apollo.Det Apollo.Generated

/-! ### accounted-for iteration sites -/

/-- `validation/variable.rs :: validate_unused_variables :: for … in unused_vars`: covered by
    `unused_variables_deterministic` below. -/
def siteUnusedVars : Nat := 144054494329241
/-- `schema/validation.rs :: validate_schema :: for name in builtin_scalars.used_and_undefined`: each name is
    inserted under its own key into `schema.types`, so the *set* of types is order-independent (C16
    theorems); the relative order of two restored scalars is not. Unreachable from text: the schema
    builder always defines all five built-in scalars, so `used_and_undefined` is empty (the harness checks
    that on every input); reachable only by editing a `Schema` in memory. -/
def siteBuiltinScalars : Nat := 236218586377126
-- (`apollo-smith implements_graph.rs :: topo_order_parents_first :: self.by_name.keys()`, code
-- 114203739016255, was a third site: the fallback taken when the `implements` graph has a cycle. It made
-- apollo-smith's output depend on the process; repaired in /repo by fix 0d00bde and therefore not audited.)

def auditedSites : List Nat := [siteUnusedVars, siteBuiltinScalars]

/-- every place where the current sources iterate a hash-ordered collection is one of the audited ones -/
theorem all_sites_audited : hashIterationSites.all (fun s => auditedSites.contains s) = true := by decide

/-! ### the unused-variables loop -/

theorem collectVars_sublist : ∀ vars : List VarDef, (collectVars vars).Sublist vars
  | [] => List.Sublist.slnil
  | v :: rest => by
    unfold collectVars
    split
    · exact List.Sublist.cons _ (collectVars_sublist rest)
    · exact List.Sublist.cons_cons _ (collectVars_sublist rest)

theorem nodup_map_inj {α β : Type} {f : α → β} {l : List α} (inj : ∀ a b, f a = f b → a = b) (h : l.Nodup) :
    (l.map f).Nodup := by
  unfold List.Nodup at *
  rw [List.pairwise_map]
  exact h.imp (fun hne e => hne (inj _ _ e))

theorem nodup_of_map {α β : Type} (f : α → β) {l : List α} (h : (l.map f).Nodup) : l.Nodup := by
  unfold List.Nodup at *
  rw [List.pairwise_map] at h
  exact h.imp (fun hne e => hne (congrArg f e))

/-- Whatever order the hash map yields the unused variables in, the sorted diagnostics are the same, as
    long as distinct variable definitions start at distinct offsets (they are distinct syntax nodes of
    one file) and the earlier diagnostics are distinct from the new ones. -/
theorem unused_variables_deterministic (pre : List (Key × Nat)) (file : Nat) (vars : List VarDef)
    (used : Nat → Bool) (o1 o2 : List VarDef → List VarDef)
    (h1 : ∀ l, (o1 l).Perm l) (h2 : ∀ l, (o2 l).Perm l)
    (hoff : (vars.map (·.offset)).Nodup)
    (hpre : pre.Nodup)
    (hdisj : ∀ x ∈ pre, ∀ v ∈ vars, x ≠ (some (file, v.offset), v.name)) :
    validateUnused pre file vars used o1 = validateUnused pre file vars used o2 := by
  unfold validateUnused unusedDiagnostics
  let rem := (collectVars vars).filter (fun v => !used v.name)
  have hsub : rem.Sublist vars := (List.filter_sublist).trans (collectVars_sublist vars)
  let f : VarDef → Key × Nat := fun v => (some (file, v.offset), v.name)
  have hperm : ((o1 rem).map f).Perm ((o2 rem).map f) := ((h1 rem).trans (h2 rem).symm).map f
  -- offsets of the iterated entries are distinct
  have hoff1 : ((o1 rem).map (·.offset)).Nodup :=
    (((h1 rem).map (·.offset)).nodup_iff).mpr ((hsub.map (·.offset)).nodup hoff)
  have hkeys : (((o1 rem).map f).map (·.1)).Nodup := by
    rw [List.map_map]
    have : ((o1 rem).map ((fun (p : Key × Nat) => p.1) ∘ f)) = ((o1 rem).map (·.offset)).map (fun o => (some (file, o) : Key)) := by
      rw [List.map_map]; rfl
    rw [this]
    exact nodup_map_inj (fun a b h => by simpa using h) hoff1
  have hnodup : (pre ++ (o1 rem).map f).Nodup := by
    rw [List.nodup_append]
    refine ⟨hpre, ?_, ?_⟩
    · exact nodup_of_map (fun (p : Key × Nat) => p.1) hkeys
    · intro x hx y hy hxy
      obtain ⟨v, hv, rfl⟩ := List.mem_map.mp hy
      have hvv : v ∈ vars := hsub.subset ((h1 rem).subset hv)
      exact hdisj x hx v hvv hxy
  exact sort_hash_order_independent pre _ _ hperm hnodup hkeys

-- Non-vacuity: three variables, the middle one used; two different iteration orders
#guard validateUnused [(some (1, 0), 99)] 1 [⟨1, 6⟩, ⟨2, 15⟩, ⟨3, 24⟩] (· == 2) id
     == validateUnused [(some (1, 0), 99)] 1 [⟨1, 6⟩, ⟨2, 15⟩, ⟨3, 24⟩] (· == 2) List.reverse
example : ([⟨1, 6⟩, ⟨2, 15⟩, ⟨3, 24⟩] : List VarDef).map (·.offset) = [6, 15, 24] := rfl

end Apollo.C22
