import ApolloModel.Proofs.ParserLossless
/-
C02 — The document syntax tree is lossless.

Same parser model as C01.  `Inv.text` (nothing is lost between the lexer and the tree) is
preserved by every primitive of parser/mod.rs and hence by every grammar function; the only
statement of the grammar that breaks it is `Err(Some(p.pop()))` in ty.rs, which the model marks
with the ghost flag `dropped`.  The char-boundary clause is true by typing in the model (token
texts are `List Char`) and is checked on the implementation by the harness.
-/
namespace Apollo.C02
open Apollo.Parse Apollo.Rowan

def treeText (r : PResult) : Option Parse.Str := match r.outcome with | .tree root => some root.text | _ => none

/-- PARTIAL: with no token limit, the text of the document tree is exactly the input — for every
    input, valid or not, and every recursion limit — provided ty.rs did not throw a token away. -/
theorem lossless_document_partial (rl : Nat) (src : Parse.Str) (root : Elem)
    (h : (parse .document none rl src).outcome = .tree root)
    (hd : (parse .document none rl src).dropped = false) : root.text = src :=
  Parse.lossless_document rl src root h hd

/-- The full statement of the property (kept visible; false of the current code, see below). -/
def lossless_document_statement : Prop :=
  ∀ (rl : Nat) (src : Parse.Str) (root : Elem), (parse .document none rl src).outcome = .tree root → root.text = src

/-- `type A{a:[!}` -/
def witness : Parse.Str := ['t', 'y', 'p', 'e', ' ', 'A', '{', 'a', ':', '[', '!', '}']

/-- KNOWN FINDING: `type A{a:[!}` — the `!` in type position is popped by ty.rs and never pushed
    into the tree, so the tree text is `type A{a:[}`. -/
theorem C02_counterexample :
    (parse .document none 500 witness).dropped = true ∧
    treeText (parse .document none 500 witness) = some ['t', 'y', 'p', 'e', ' ', 'A', '{', 'a', ':', '[', '}'] := by
  decide +kernel

theorem lossless_document_statement_false : ¬ lossless_document_statement := by
  intro h
  have hc := C02_counterexample
  cases ho : (parse .document none 500 witness).outcome with
  | tree root =>
    have := h 500 _ root ho
    simp only [treeText, ho, Option.some.injEq] at hc
    rw [this] at hc
    exact absurd hc.2 (by decide)
  | panic m => simp [treeText, ho] at hc
  | abort w => simp [treeText, ho] at hc

/-- each token and error fragment is inside exactly one leaf, in order: the lexer part -/
theorem lex_concat (src : Lex.Str) : Lex.texts (Lex.lex none src) = src := (Lex.lex_concat src).1

-- Non-vacuity: an input with lexical and syntax errors at several positions is still lossless
example : (parse .document none 500 "{a é ..}".toList).dropped = false ∧
    treeText (parse .document none 500 "{a é ..}".toList) = some "{a é ..}".toList := by decide +kernel

end Apollo.C02
