import ApolloModel.Proofs.Coordinate
/-
C23 — Schema coordinates parse, print and resolve correctly.
Model: Model/Coordinate.lean (hand-written mirror of coordinate.rs; tied by the exhaustive
correspondence stream CO).  All theorems quantify over all strings / all coordinates / all schemas.
Helper lemmas live in Proofs/Coordinate.lean.
-/
namespace Apollo.C23
open Apollo Apollo.Coord


theorem p_dot : isNameContinue '.' = false := by decide
theorem p_lpar : isNameContinue '(' = false := by decide
theorem p_colon : isNameContinue ':' = false := by decide
theorem p_at : isNameStart '@' = false := by decide

theorem head_ne_at {n : Str} (h : isValidName n = true) (rest : Str) :
    ((n ++ rest).head? == some '@') = false := by
  obtain ⟨x, xs, rfl, hx⟩ := valid_head h
  have hne : x ≠ '@' := by rintro rfl; simp [p_at] at hx
  simpa using hne

theorem coord_print_parse (c : Coord) (h : c.valid = true) : parse (print c) = some c := by
  cases c with
  | type t =>
    simp only [Coord.valid] at h
    have h0 := head_ne_at h []
    simp only [List.append_nil] at h0
    have h1 := splitOnce_none '(' t (valid_not_mem h _ p_lpar)
    have h2 := splitOnce_none '.' t (valid_not_mem h _ p_dot)
    simp only [print, parse, h0, Bool.false_eq_true, if_false]
    simp [parseFieldArgument, parseTypeAttribute, parseType, h1, h2, nameOk_valid h]
  | typeAttribute t a =>
    simp only [Coord.valid, Bool.and_eq_true] at h
    have h0 := head_ne_at h.1 ('.' :: a)
    have h1 : splitOnce '(' (t ++ '.' :: a) = none := by
      apply splitOnce_none
      simp only [List.mem_append, List.mem_cons, not_or]
      exact ⟨valid_not_mem h.1 _ p_lpar, by decide, valid_not_mem h.2 _ p_lpar⟩
    have h2 := splitOnce_append '.' t a (valid_not_mem h.1 _ p_dot)
    simp only [print, parse, h0, Bool.false_eq_true, if_false]
    simp [parseFieldArgument, parseTypeAttribute, h1, h2, nameOk_valid h.1, nameOk_valid h.2]
  | fieldArgument t f a =>
    simp only [Coord.valid, Bool.and_eq_true] at h
    obtain ⟨⟨ht, hf⟩, ha⟩ := h
    have h0 := head_ne_at ht ('.' :: (f ++ '(' :: (a ++ [':', ')'])))
    have h1 : splitOnce '(' ((t ++ '.' :: f) ++ '(' :: (a ++ [':', ')'])) = some (t ++ '.' :: f, a ++ [':', ')']) := by
      apply splitOnce_append
      simp only [List.mem_append, List.mem_cons, not_or]
      exact ⟨valid_not_mem ht _ p_lpar, by decide, valid_not_mem hf _ p_lpar⟩
    have h2 := splitOnce_append '.' t f (valid_not_mem ht _ p_dot)
    have h3 := splitOnce_append ':' a [')'] (valid_not_mem ha _ p_colon)
    simp only [List.append_assoc, List.cons_append] at h1
    have e : print (.fieldArgument t f a) = t ++ '.' :: (f ++ '(' :: (a ++ [':', ')'])) := by simp [print]
    rw [e]
    simp only [parse, h0, Bool.false_eq_true, if_false]
    simp [parseFieldArgument, parseTypeAttribute, h1, h2, h3, nameOk_valid ht, nameOk_valid hf, nameOk_valid ha]
  | directive d =>
    simp only [Coord.valid] at h
    have h1 : splitOnce '(' ('@' :: d) = none := by
      apply splitOnce_none
      simp only [List.mem_cons, not_or]
      exact ⟨by decide, valid_not_mem h _ p_lpar⟩
    simp [print, parse, parseDirectiveArgument, parseDirective, h1, nameOk_valid h]
  | directiveArgument d a =>
    simp only [Coord.valid, Bool.and_eq_true] at h
    have h1 : splitOnce '(' (('@' :: d) ++ '(' :: (a ++ [':', ')'])) = some ('@' :: d, a ++ [':', ')']) := by
      apply splitOnce_append
      simp only [List.mem_cons, not_or]
      exact ⟨by decide, valid_not_mem h.1 _ p_lpar⟩
    have h3 := splitOnce_append ':' a [')'] (valid_not_mem h.2 _ p_colon)
    simp only [List.append_assoc, List.cons_append] at h1
    simp [print, parse, parseDirectiveArgument, parseDirective, h1, h3, nameOk_valid h.1, nameOk_valid h.2]
theorem coord_parse_print (s : Str) (c : Coord) (h : parse s = some c) : print c = s ∧ c.valid = true := by
  unfold parse at h
  split at h
  · cases h1 : parseDirectiveArgument s with
    | some c1 =>
      simp only [h1, Option.some.injEq] at h; subst h
      exact parseDirectiveArgument_spec h1
    | none =>
      simp only [h1] at h
      cases h2 : parseDirective s with
      | none => simp [h2] at h
      | some d =>
        simp only [h2, Option.map_some, Option.some.injEq] at h; subst h
        obtain ⟨e, v⟩ := parseDirective_spec h2
        exact ⟨by simp [print, e], by simpa [Coord.valid] using v⟩
  · cases h1 : parseFieldArgument s with
    | some c1 =>
      simp only [h1, Option.some.injEq] at h; subst h
      exact parseFieldArgument_spec h1
    | none =>
      simp only [h1] at h
      cases h2 : parseTypeAttribute s with
      | some q =>
        obtain ⟨t, a⟩ := q
        simp only [h2, Option.some.injEq] at h; subst h
        obtain ⟨e, vt, va⟩ := parseTypeAttribute_spec h2
        exact ⟨by simp [print, e], by simp [Coord.valid, vt, va]⟩
      | none =>
        simp only [h2] at h
        unfold parseType at h
        cases h3 : nameOk s with
        | none => simp [h3] at h
        | some t =>
          simp only [h3, Option.map_some, Option.some.injEq] at h; subst h
          obtain ⟨v, rfl⟩ := nameOk_eq_some.mp h3
          exact ⟨rfl, by simpa [Coord.valid] using v⟩

/-- A string parses as a coordinate iff it is one of the five forms over valid Names. -/
theorem coord_parse_iff (s : Str) :
    (parse s).isSome = true ↔ ∃ c : Coord, c.valid = true ∧ s = print c := by
  constructor
  · intro h
    obtain ⟨c, hc⟩ := Option.isSome_iff_exists.mp h
    obtain ⟨e, v⟩ := coord_parse_print s c hc
    exact ⟨c, v, e.symm⟩
  · rintro ⟨c, v, rfl⟩
    simp [coord_print_parse c v]

/-- Two accepted strings with the same coordinate are the same string. -/
theorem coord_parse_inj (s₁ s₂ : Str) (c : Coord) (h₁ : parse s₁ = some c) (h₂ : parse s₂ = some c) : s₁ = s₂ :=
  (coord_parse_print s₁ c h₁).1.symm.trans (coord_parse_print s₂ c h₂).1
/-- A successful lookup returns the element with exactly the coordinate's names. -/
theorem lookup_ok_names (s : Schema) (c : Coord) (f : Found) (h : lookup s c = .ok f) :
    match c with
    | .type t => f = .type t
    | .typeAttribute t a => f = .field t a ∨ f = .inputField t a ∨ f = .enumValue t a
    | .fieldArgument t fl a => f = .fieldArgument t fl a
    | .directive d => f = .directive d
    | .directiveArgument d a => f = .directiveArgument d a := by
  cases c with
  | type t =>
    unfold lookup at h; cases ht : s.types.lookup t <;> simp [ht] at h; exact h.symm
  | typeAttribute t a =>
    unfold lookup at h
    cases hl : lookupAttr s t a with
    | error e => simp [hl, Except.map] at h
    | ok p =>
      obtain ⟨f', o⟩ := p
      simp [hl, Except.map] at h
      subst h
      exact lookupAttr_ok hl
  | fieldArgument t fld a =>
    unfold lookup at h
    cases hl : lookupAttr s t fld with
    | error e => simp [hl] at h
    | ok p =>
      obtain ⟨fd, o⟩ := p
      cases o with
      | none => simp [hl] at h
      | some d =>
        simp only [hl] at h
        split at h <;> simp at h
        exact h.symm
  | directive d =>
    unfold lookup at h; cases hd : s.directives.lookup d <;> simp [hd] at h; exact h.symm
  | directiveArgument d a =>
    unfold lookup at h
    cases hd : s.directives.lookup d with
    | none => simp [hd] at h
    | some args =>
      simp only [hd] at h
      split at h <;> simp at h
      exact h.symm

theorem lookup_type_iff (s : Schema) (t : Str) :
    lookup s (.type t) = .ok (.type t) ↔ (s.types.lookup t).isSome = true := by
  unfold lookup; cases ht : s.types.lookup t <;> simp [ht]

theorem lookup_directive_iff (s : Schema) (d : Str) :
    lookup s (.directive d) = .ok (.directive d) ↔ (s.directives.lookup d).isSome = true := by
  unfold lookup; cases hd : s.directives.lookup d <;> simp [hd]

theorem lookup_directiveArgument_iff (s : Schema) (d a : Str) :
    lookup s (.directiveArgument d a) = .ok (.directiveArgument d a) ↔
      ∃ args, s.directives.lookup d = some args ∧ a ∈ args := by
  unfold lookup
  cases hd : s.directives.lookup d with
  | none => simp [hd]
  | some args => by_cases hm : a ∈ args <;> simp [hd, hm]

/-- A field-argument lookup succeeds exactly when the type is an object or interface that has that
    field with that argument; otherwise it is an error. -/
theorem lookup_fieldArgument_iff (s : Schema) (t f a : Str) :
    (lookup s (.fieldArgument t f a) = .ok (.fieldArgument t f a)) ↔
      ∃ fs fd, (s.types.lookup t = some (.object fs) ∨ s.types.lookup t = some (.interface fs)) ∧
        fs.find? (·.name == f) = some fd ∧ a ∈ fd.args := by
  unfold lookup lookupAttr
  cases ht : s.types.lookup t with
  | none => simp [ht]
  | some td =>
    cases td with
    | scalar => simp [ht]
    | union => simp [ht]
    | enum vs => by_cases hm : f ∈ vs <;> simp [ht, hm]
    | inputObject fs => by_cases hm : f ∈ fs <;> simp [ht, hm]
    | object fs =>
      cases hf : fs.find? (·.name == f) with
      | none => simp [ht, hf]
      | some fd => by_cases hm : a ∈ fd.args <;> simp [ht, hf, hm]
    | interface fs =>
      cases hf : fs.find? (·.name == f) with
      | none => simp [ht, hf]
      | some fd => by_cases hm : a ∈ fd.args <;> simp [ht, hf, hm]

/-- An attribute lookup finds a field / input field / enum value exactly when the type has it. -/
theorem lookup_typeAttribute_iff (s : Schema) (t a : Str) :
    (∃ f, lookup s (.typeAttribute t a) = .ok f) ↔
      (∃ fs, (s.types.lookup t = some (.object fs) ∨ s.types.lookup t = some (.interface fs)) ∧
          ∃ fd, fs.find? (·.name == a) = some fd) ∨
      (∃ vs, s.types.lookup t = some (.enum vs) ∧ a ∈ vs) ∨
      (∃ fs, s.types.lookup t = some (.inputObject fs) ∧ a ∈ fs) := by
  unfold lookup lookupAttr
  cases ht : s.types.lookup t with
  | none => simp [ht, Except.map]
  | some td =>
    cases td with
    | scalar => simp [ht, Except.map]
    | union => simp [ht, Except.map]
    | enum vs => by_cases hm : a ∈ vs <;> simp [ht, hm, Except.map]
    | inputObject fs => by_cases hm : a ∈ fs <;> simp [ht, hm, Except.map]
    | object fs => cases hf : fs.find? (·.name == a) <;> simp [ht, hf, Except.map]
    | interface fs => cases hf : fs.find? (·.name == a) <;> simp [ht, hf, Except.map]

-- Non-vacuity
example : parse "Type.field(arg:)".toList = some (.fieldArgument "Type".toList "field".toList "arg".toList) := by decide
example : parse "@d(a:)".toList = some (.directiveArgument "d".toList "a".toList) := by decide
example : parse "Type.field(arg:) ".toList = none := by decide
example : parse "Type..f".toList = none := by decide

end Apollo.C23
