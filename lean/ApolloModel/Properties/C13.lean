import ApolloModel.Proofs.SchemaBuild3
import ApolloModel.Proofs.SchemaBuildNames
/-
C13 — Building from several sources is compositional.

Model: Model/SchemaBuild.lean mirrors `SchemaBuilder` (`add_ast_document`, `type_definition!`,
`type_extension!`, `XType::from_ast` / `extend_ast`, `extend_sticky`, `SchemaDefinition::from_ast`,
`build_inner`, `adopt_type_extensions`), `DiagnosticList::sort` and
`ExecutableDocumentBuilder::add_ast_document`.  A source is the list of its definitions; a position is the
identity of a syntax node.

First sentence of the property (several sources = their concatenation):
  `schema_sources_eq_concat`, `schema_sources_regroup`, `executable_sources_eq_concat`,
  `executable_sources_regroup` (definitions, order, diagnostics in push order: the whole builder state is
  equal), `diag_order_concat` (the final stable sort by (file, offset) gives the order that sorting the
  concatenation by offset gives).
Second sentence (extension before / after its definition):
  `schema_ext_commutes` (for `extend schema`), `type_ext_commutes` (for type extensions of any kind; full
  since fix 9875890 — before it `extend union X = A` in front of `type X { f }` was dropped silently),
  `kind_mismatch_reported_in_both_orders` (the former witness).
Collisions: `collision_first_definition_wins`, `sticky_first_member_wins`.
Panic sites: `orphan_queue_invariant` (queued names are undefined and queued definitions are type extensions,
  so `assert!(previous.is_none())` and `unreachable!()` of `build_inner` / `adopt_type_extensions` are dead).
-/
namespace Apollo.C13
open Apollo.SchemaBuild

/-! ### several sources = their concatenation -/

/-- Building a schema from the sources one after another = building from their concatenation:
    same types in the same order, same components, same diagnostics in the same order. -/
theorem schema_sources_eq_concat (s : Builder) (srcs : List (List Def)) :
    build s srcs = build s [srcs.flatten] := by
  unfold build
  rw [addSources_flatten, addSources_flatten]
  simp

/-- … hence any two ways of cutting the same sequence of definitions into sources agree. -/
theorem schema_sources_regroup (s : Builder) (srcs srcs' : List (List Def))
    (h : srcs.flatten = srcs'.flatten) : build s srcs = build s srcs' := by
  unfold build
  rw [addSources_flatten, addSources_flatten, h]

/-- The same for executable documents (operations, fragments, the anonymous-operation bookkeeping and
    `multiple_anonymous` are all part of the state that is carried from source to source). -/
theorem executable_sources_eq_concat (srcs : List (List XDef)) :
    xbuild srcs = xbuild [srcs.flatten] := by
  unfold xbuild
  rw [xaddSources_flatten, xaddSources_flatten]
  simp

theorem executable_sources_regroup (srcs srcs' : List (List XDef))
    (h : srcs.flatten = srcs'.flatten) : xbuild srcs = xbuild srcs' := by
  unfold xbuild
  rw [xaddSources_flatten, xaddSources_flatten, h]

/-- `(file, offset)` compared as `DiagnosticList::sort` does -/
def locLt (a b : Nat × Nat) : Bool := decide (a.1 < b.1) || (a.1 == b.1 && decide (a.2 < b.2))

/-- Diagnostics order: file `f` starts at offset `base f` of the concatenation and is `len f` long.
    Stable-sorting the diagnostics of the separate sources by `(file, offset)` and then renaming locations
    to offsets in the concatenation gives exactly the stable sort by offset of the renamed list — for every
    list of diagnostics (with any payload `δ`) whose locations lie inside their files. -/
theorem diag_order_concat {δ : Type} (base len : Nat → Nat) (hbase : ∀ f, base f + len f ≤ base (f + 1))
    (l : List ((Nat × Nat) × δ)) (hl : ∀ x ∈ l, x.1.2 < len x.1.1) :
    sortBy (fun (a b : Nat × δ) => decide (a.1 < b.1)) (l.map (fun x => (base x.1.1 + x.1.2, x.2)))
      = (sortBy (fun a b => locLt a.1 b.1) l).map (fun x => (base x.1.1 + x.1.2, x.2)) := by
  apply sortBy_map
  intro x hx y hy
  have bx := hl x hx
  have by' := hl y hy
  obtain ⟨⟨f, o⟩, dx⟩ := x
  obtain ⟨⟨g, p⟩, dy⟩ := y
  simp only [locLt] at *
  rcases Nat.lt_trichotomy f g with h | h | h
  · obtain ⟨d, rfl⟩ : ∃ d, g = f + 1 + d := ⟨g - (f + 1), by omega⟩
    have := base_mono base len hbase d f
    have hne : (f == f + 1 + d) = false := by simp; omega
    simp [h, hne]
    omega
  · subst h
    simp
  · obtain ⟨d, rfl⟩ : ∃ d, f = g + 1 + d := ⟨f - (g + 1), by omega⟩
    have := base_mono base len hbase d g
    have hne : (g + 1 + d == g) = false := by simp; omega
    have hnl : ¬ (g + 1 + d < g) := by omega
    simp [hnl, hne]
    omega

/-! ### extension before or after its definition -/

/-- `extend schema …` placed anywhere before the `schema { … }` definition (in any interleaving with other
    definitions, several extensions keeping their relative order) builds exactly what placing them directly
    after the definition builds: same schema, same diagnostics. -/
theorem schema_ext_commutes (s : Builder) (d : Def) (l post : List Def)
    (hfresh : s.schemaFound = false) (ht : d.tag = .schemaDef)
    (hnodef : ∀ x ∈ l, isSchemaDef x = false) :
    build s [l ++ d :: post] =
      build s [l.filter (fun x => !(isSchemaExt x)) ++ d :: l.filter isSchemaExt ++ post] := by
  have h := schema_ext_commutes_state d s l hfresh ht hnodef
  unfold build
  simp only [addSources, List.foldl_cons, List.foldl_nil]
  have e1 : l ++ d :: post = (l ++ [d]) ++ post := by simp
  have e2 : l.filter (fun x => !(isSchemaExt x)) ++ d :: l.filter isSchemaExt ++ post
      = (l.filter (fun x => !(isSchemaExt x)) ++ d :: l.filter isSchemaExt) ++ post := by simp
  rw [e1, e2, addDocument_append s (l ++ [d]) post, addDocument_append s _ post, h]

/-- The extensions of a not yet defined type `n` (of ANY kind, also kinds other than the definition's),
    interleaved in any way with definitions that do not define `n`, followed by the definition of `n`, build
    exactly what "definition first, then its extensions in their order" builds: equality of the whole built
    state — types in order, every component list with origins, directive definitions, schema definition, and
    the sorted diagnostics.  (Full since fix 9875890; before it the kind-mismatched case was a
    counterexample: the queued extension was dropped without a diagnostic.) -/
theorem type_ext_commutes (s : Builder) (n : Name) (k : Kind) (d : Def) (l post : List Def)
    (hfresh : findType s.types n = none) (ht : d.tag = .typeDef k) (hname : d.name = n)
    (hnodef : ∀ x ∈ l, isDefOf n x = false) :
    build s [l ++ d :: post] =
      build s [l.filter (fun x => !(isExtOf n x)) ++ d :: l.filter (isExtOf n) ++ post] := by
  have h := type_ext_commutes_state n k d s l hfresh ht hname hnodef
  unfold build
  simp only [addSources, List.foldl_cons, List.foldl_nil]
  have e1 : l ++ d :: post = (l ++ [d]) ++ post := by simp
  have e2 : l.filter (fun x => !(isExtOf n x)) ++ d :: l.filter (isExtOf n) ++ post
      = (l.filter (fun x => !(isExtOf n x)) ++ d :: l.filter (isExtOf n)) ++ post := by simp
  rw [e1, e2, addDocument_append s (l ++ [d]) post, addDocument_append s _ post, h]

/-- `extend union X = A` (positions 0…) and `type X { f }` (positions 10…): the former defect witness -/
def cexExt : Def := ⟨.typeExt .union, "X", 0, 1, [], [], [⟨"A", 2, 2, ""⟩]⟩
def cexDef : Def := ⟨.typeDef .object, "X", 10, 11, [], [], [⟨"f", 12, 12, ""⟩]⟩

/-- both orders report the kind mismatch (and build the same type) -/
theorem kind_mismatch_reported_in_both_orders :
    (build Builder.blank [[cexExt, cexDef]]).errors = [⟨1, .typeExtensionKindMismatch "X" .union .object⟩]
    ∧ build Builder.blank [[cexExt, cexDef]] = build Builder.blank [[cexDef, cexExt]] := by
  decide +kernel

/-! ### first definition wins on collisions -/

/-- A second definition of an existing type name never changes `schema.types` (it is reported or, for
    built-ins with `ignore_builtin_redefinitions`, ignored), whatever its kind and wherever it comes from. -/
theorem collision_first_definition_wins (s : Builder) (k : Kind) (d : Def) (prev : TypeEntry)
    (h : findType s.types d.name = some prev) :
    (step s { d with tag := .typeDef k }).types = s.types ∧ (step s { d with tag := .typeDef k }).orphanQ = s.orphanQ := by
  unfold step
  simp only []
  unfold stepTypeDef
  simp only [h]
  split
  · exact ⟨rfl, rfl⟩
  · split <;> exact ⟨rfl, rfl⟩

/-- `extend_sticky`: the components already present stay where they are (later duplicates never replace or
    reorder them); new ones are appended. -/
theorem sticky_first_member_wins (dup : Name → Diag) (origin : Option Pos) (its : List Item) :
    ∀ (cs : List Comp) (errs : List Err),
      ∃ tail, (extendSticky dup origin cs errs its).1 = cs ++ tail
        ∧ ∃ more, (extendSticky dup origin cs errs its).2 = errs ++ more := by
  induction its with
  | nil => intro cs errs; exact ⟨[], by simp [extendSticky], [], by simp [extendSticky]⟩
  | cons it rest ih =>
    intro cs errs
    unfold extendSticky
    split
    · obtain ⟨tail, h1, more, h2⟩ := ih cs (errs ++ [⟨it.errPos, dup it.name⟩])
      exact ⟨tail, h1, ⟨it.errPos, dup it.name⟩ :: more, by rw [h2]; simp⟩
    · obtain ⟨tail, h1, more, h2⟩ := ih (cs ++ [it.toComp origin]) errs
      exact ⟨it.toComp origin :: tail, by rw [h1]; simp, more, h2⟩

/-! ### panic sites of `build_inner` -/

/-- Whatever sources are added to a fresh builder, every queued definition is a type extension of a name
    that has no type definition: `schema.types.insert(type_name, …)` in `build_inner` never finds a previous
    entry (`assert!(previous.is_none())`) and `adopt_type_extensions` never reaches `unreachable!()`. -/
theorem orphan_queue_invariant (adopt ignoreBuiltin : Bool) (srcs : List (List Def)) :
    QueueOk (addSources (Builder.new adopt ignoreBuiltin) srcs) := by
  apply addSources_queueOk
  intro e he
  simp [Builder.new] at he

/-! ### non-vacuity -/

-- `extend type X { g }`, `scalar S`, `extend type X { h }`, then `type X { f g }`: the hypotheses of
-- `type_ext_commutes` hold, the adopted extension reports its duplicate field `g`
def exE1 : Def := ⟨.typeExt .object, "X", 0, 1, [], [], [⟨"g", 2, 2, ""⟩]⟩
def exS : Def := ⟨.typeDef .scalar, "S", 5, 6, [], [], []⟩
def exE2 : Def := ⟨.typeExt .object, "X", 7, 8, [], [], [⟨"h", 9, 9, ""⟩]⟩
def exD : Def := ⟨.typeDef .object, "X", 10, 11, [], [], [⟨"f", 12, 12, ""⟩, ⟨"g", 13, 13, ""⟩]⟩

example : build (Builder.new false false) [[exE1, exS, exE2] ++ exD :: []]
    = build (Builder.new false false) [[exS] ++ exD :: [exE1, exE2] ++ []] :=
  type_ext_commutes (Builder.new false false) "X" .object exD [exE1, exS, exE2] []
    (by decide) (by decide) (by decide) (by decide)

example : (build (Builder.new false false) [[exE1, exS, exE2, exD]]).errors
    = [⟨2, .memberCollision .object "X" "g"⟩] := by decide +kernel

-- two sources vs one
example : build (Builder.new false false) [[exE1, exS], [exE2, exD]]
    = build (Builder.new false false) [[exE1, exS, exE2, exD]] :=
  schema_sources_regroup _ _ _ (by decide)

-- executable: `{ a }` in one source, `query A { a }` and `{ b }` in the next
def xAnon (p : Nat) : XDef := ⟨.operation, none, p, p, p, true, true, []⟩
def xNamed (n : String) (p : Nat) : XDef := ⟨.operation, some n, p, p + 6, p, true, true, []⟩
example : (xbuild [[xAnon 0], [xNamed "A" 10, xAnon 30]]).errors
    = [⟨0, .ambiguousAnonymousOperation⟩, ⟨0, .ambiguousAnonymousOperation⟩, ⟨30, .ambiguousAnonymousOperation⟩] := by
  decide +kernel

-- the hypotheses of `diag_order_concat` are met by files of length 10 laid out back to back
example : sortBy (fun (a b : Nat × Unit) => decide (a.1 < b.1))
      ([((1, 3), ()), ((0, 7), ())].map (fun x => ((fun f => 10 * f) x.1.1 + x.1.2, x.2)))
    = (sortBy (fun a b => locLt a.1 b.1) [((1, 3), ()), ((0, 7), ())]).map (fun x => ((fun f => 10 * f) x.1.1 + x.1.2, x.2)) :=
  diag_order_concat (fun f => 10 * f) (fun _ => 10) (by intro f; omega) _ (by decide)

/-! ### growth: the build verdict reads names only -/

/-- Whether the builder reports an error is a function of the kinds and names in the document (definition
    names, member / interface / operation names, in order): two documents with the same name skeleton — whatever
    their positions, and therefore whatever the abstraction leaves out (descriptions, field types, arguments,
    values, applied directives) — are both accepted or both rejected.  (Corollary of the specification theorem
    `C14.schema_build_iff_spec` = `SchemaBuild.build_errors_iff_spec`, whose right-hand side reads names only.) -/
theorem build_verdict_depends_on_names_only (ds ds' : List Def) (hwf : WellFormed ds) (hwf' : WellFormed ds')
    (h : ds.map Def.skeleton = ds'.map Def.skeleton) :
    (build (Builder.new false false) [ds]).errors = [] ↔ (build (Builder.new false false) [ds']).errors = [] :=
  SchemaBuild.build_verdict_depends_on_names_only ds ds' hwf hwf' h

/-- with extensions in any position: moving definitions around does not change the verdict as long as the
    specification's order-free reading is unchanged — stated through the specification itself -/
theorem build_verdict_is_the_specification (ds : List Def) (hwf : WellFormed ds) :
    (build (Builder.new false false) [ds]).errors = [] ↔ BuildSpec ds :=
  SchemaBuild.build_errors_iff_spec ds hwf

end Apollo.C13
